(* binary64 layer: bit-exact IEEE-754 double arithmetic from Flocq, with the handful of Rust
   conversions the models need.  Everything here is executable under vm_compute. *)
From Coq Require Import ZArith NArith Bool List.
From Flocq Require Import IEEE754.BinarySingleNaN IEEE754.Binary IEEE754.Bits Core.Zaux.
Import ListNotations.

Definition f64 := binary64.

Definition of_bits (z : Z) : f64 := b64_of_bits z.
Definition to_bits (x : f64) : Z := bits_of_b64 x.

Definition fadd (x y : f64) : f64 := b64_plus mode_NE x y.
Definition fsub (x y : f64) : f64 := b64_minus mode_NE x y.
Definition fmul (x y : f64) : f64 := b64_mult mode_NE x y.
Definition fdiv (x y : f64) : f64 := b64_div mode_NE x y.
Definition fsqrt (x : f64) : f64 := b64_sqrt mode_NE x.
(* ffma x y z = x*y + z with a single rounding *)
Definition ffma (x y z : f64) : f64 := b64_fma mode_NE x y z.
Definition fneg (x : f64) : f64 := b64_opp x.
Definition fabs (x : f64) : f64 := b64_abs x.

Definition fzero : f64 := B754_zero 53 1024 false.
Definition fone : f64 := of_bits 4607182418800017408.
Definition finf : f64 := B754_infinity 53 1024 false.
Definition fnan : f64 := of_bits 9221120237041090560.

Definition is_nan (x : f64) : bool := Binary.is_nan 53 1024 x.
Definition is_finite (x : f64) : bool := Binary.is_finite 53 1024 x.

Definition fcmp (x y : f64) : option comparison := b64_compare x y.
Definition flt (x y : f64) : bool := match fcmp x y with Some Lt => true | _ => false end.
Definition fle (x y : f64) : bool :=
  match fcmp x y with Some Lt | Some Eq => true | _ => false end.
Definition fgt (x y : f64) : bool := flt y x.
Definition fge (x y : f64) : bool := fle y x.
Definition feq (x y : f64) : bool := match fcmp x y with Some Eq => true | _ => false end.

(* Rust f64::min / f64::max: if one argument is NaN the other is returned *)
Definition fmin (x y : f64) : f64 :=
  if is_nan x then y else if is_nan y then x else if flt y x then y else x.
Definition fmax (x y : f64) : f64 :=
  if is_nan x then y else if is_nan y then x else if flt x y then y else x.
(* Rust f64::clamp (lo <= hi, neither NaN): NaN stays NaN *)
Definition fclamp (x lo hi : f64) : f64 :=
  if flt x lo then lo else if flt hi x then hi else x.
Definition frecip (x : f64) : f64 := fdiv fone x.

(* u64 -> f64 (round to nearest even), as Rust `n as f64` *)
Definition f_of_Z (z : Z) : f64 :=
  binary_normalize 53 1024 (refl_equal _) (refl_equal _) mode_NE z 0 false.
Definition f_of_N (n : N) : f64 := f_of_Z (Z.of_N n).

Definition u64_max : Z := 18446744073709551615.
(* f64 -> u64 as Rust `x as u64`: truncation toward zero, saturating, NaN -> 0 *)
Definition f_to_u64 (x : f64) : N :=
  match x with
  | B754_nan _ _ _ _ _ => 0%N
  | B754_infinity _ _ s => if s then 0%N else Z.to_N u64_max
  | _ => let t := Btrunc 53 1024 x in
         if (t <? 0)%Z then 0%N else if (u64_max <? t)%Z then Z.to_N u64_max else Z.to_N t
  end.
(* Rust f64::round: half away from zero *)
Definition fround (x : f64) : f64 :=
  Bnearbyint 53 1024 (refl_equal _) unop_nan_pl64 mode_NA x.
Definition ffloor (x : f64) : f64 :=
  Bnearbyint 53 1024 (refl_equal _) unop_nan_pl64 mode_DN x.
Definition fceil (x : f64) : f64 :=
  Bnearbyint 53 1024 (refl_equal _) unop_nan_pl64 mode_UP x.

Definition bits_list (l : list f64) : list Z := map to_bits l.
