(* Model of the mass-matrix estimators:
     RunningVariance::add_sample / array_update_variance, DiagAdaptStrategy::{update_estimators,
     adapt} (src/transform/adapt/diagonal.rs), DiagMassMatrix::{update_diag_draw_grad,
     update_diag_draw, update_diag_grad} (src/transform/diagonal.rs) and the kernels
     array_update_var_inv_std_{draw,draw_grad,grad} (src/math/cpu_math.rs).
   Exact-arithmetic part over Q (one coordinate; the code is coordinate-wise) and bit-exact
   binary64 part. *)
From Coq Require Import QArith List ZArith NArith Bool.
From NutsV Require Import lib.Fp.
Import ListNotations.

(* ------------------------------------------------------------------------------------------ *)
(* exact arithmetic, one coordinate                                                             *)
(* ------------------------------------------------------------------------------------------ *)
Record rvq := { rv_mean : Q; rv_var : Q; rv_count : nat }.
Definition rvq0 : rvq := {| rv_mean := 0; rv_var := 0; rv_count := 0 |}.

(* add_sample: the first sample initialises the mean; afterwards
   diff = x - mean; mean += diff / count; variance += diff * diff *)
Definition rvq_add (s : rvq) (x : Q) : rvq :=
  let n := S (rv_count s) in
  match rv_count s with
  | O => {| rv_mean := x; rv_var := rv_var s; rv_count := n |}
  | S _ =>
      let diff := x - rv_mean s in
      {| rv_mean := rv_mean s + diff * (1 # Pos.of_nat n); rv_var := rv_var s + diff * diff;
         rv_count := n |}
  end.
Definition rvq_run (xs : list Q) : rvq := fold_left rvq_add xs rvq0.

(* update_diag_draw_grad for one coordinate: sigma2 = sqrt(var_x / var_g) (sq abstract),
   mean = xbar + sigma2 * gbar; the stored scale is std = sqrt(sigma2) *)
Section DiagQ.
  Variable sq : Q -> Q.
  Definition diag_sigma2 (vx vg : Q) : Q := sq (vx / vg).
  Definition diag_mu (xbar gbar s2 : Q) : Q := xbar + s2 * gbar.
End DiagQ.

(* ------------------------------------------------------------------------------------------ *)
(* binary64 kernels (one element)                                                               *)
(* ------------------------------------------------------------------------------------------ *)
(* array_update_variance: (mean, var) := (mean + diff*scale, var + diff*diff), diff = x - mean *)
Definition f_update_variance (mean var x scale : f64) : f64 * f64 :=
  let diff := fsub x mean in (fadd mean (fmul diff scale), fadd var (fmul diff diff)).

Definition f_invalid (v : f64) : bool := negb (is_finite v) || feq v fzero.

(* (std, inv_std) after the update; None fill = keep *)
Definition f_set (val : f64) : f64 * f64 := (fsqrt val, fsqrt (frecip val)).

Definition f_var_inv_std_draw (std inv_std draw_var scale : f64) (fill : option f64) (lo hi : f64)
  : f64 * f64 :=
  let v := fmul draw_var scale in
  if f_invalid v then match fill with Some f => f_set f | None => (std, inv_std) end
  else f_set (fclamp v lo hi).

Definition f_var_inv_std_draw_grad (std inv_std draw_var grad_var : f64) (fill : option f64)
  (lo hi : f64) : f64 * f64 :=
  let v := fsqrt (fdiv draw_var grad_var) in
  if f_invalid v then match fill with Some f => f_set f | None => (std, inv_std) end
  else f_set (fclamp v lo hi).

(* array_update_var_inv_std_grad: val = 1/clamp(|g|); non-finite -> fill *)
Definition f_var_inv_std_grad (grad fill lo hi : f64) : f64 * f64 :=
  let v := frecip (fclamp (fabs grad) lo hi) in
  let v := if is_finite v then v else fill in
  f_set v.

(* dispatcher for the correspondence: op 1 update_variance [mean; var; x; scale];
   2 draw [std; inv; draw_var; scale; lo; hi; has_fill; fill]; 3 draw_grad [std; inv; dv; gv; lo; hi;
   has_fill; fill]; 4 grad [g; fill; lo; hi] *)
Definition run_estimator (op : N) (a : list Z) : list Z :=
  let f (i : nat) := of_bits (nth i a 0%Z) in
  let fillo (i : nat) := if (nth i a 0%Z =? 1)%Z then Some (f (S i)) else None in
  match op with
  | 1%N => let r := f_update_variance (f 0%nat) (f 1%nat) (f 2%nat) (f 3%nat) in [to_bits (fst r); to_bits (snd r)]
  | 2%N => let r := f_var_inv_std_draw (f 0%nat) (f 1%nat) (f 2%nat) (f 3%nat) (fillo 6%nat) (f 4%nat) (f 5%nat) in
           [to_bits (fst r); to_bits (snd r)]
  | 3%N => let r := f_var_inv_std_draw_grad (f 0%nat) (f 1%nat) (f 2%nat) (f 3%nat) (fillo 6%nat) (f 4%nat) (f 5%nat) in
           [to_bits (fst r); to_bits (snd r)]
  | 4%N => let r := f_var_inv_std_grad (f 0%nat) (f 1%nat) (f 2%nat) (f 3%nat) in [to_bits (fst r); to_bits (snd r)]
  | _ => []
  end.

(* ------------------------------------------------------------------------------------------ *)
(* binary64 RunningVariance over a window and the transformation it installs (one coordinate); *)
(* used by the C09 content tie (tools/props/schedule.py)                                        *)
(* ------------------------------------------------------------------------------------------ *)
Definition frv := (f64 * f64 * N)%type.          (* mean, accumulated variance, count *)
Definition frv0 : frv := (fzero, fzero, 0%N).    (* RunningVariance::new: math.new_array() is zeros *)

(* RunningVariance::add_sample: the first sample is copied into the mean, every later one goes
   through array_update_variance with diff_scale = (count as f64).recip() *)
Definition frv_add (s : frv) (x : f64) : frv :=
  let '(m, v, c) := s in
  let c' := (c + 1)%N in
  if (c' =? 1)%N then (x, v, c')
  else let p := f_update_variance m v x (frecip (f_of_N c')) in (fst p, snd p, c').

(* DiagAdaptStrategy::adapt + DiagMassMatrix::update_diag_draw_grad / update_diag_draw for a
   foreground estimator whose draw / gradient accumulators are sx / sg (fill_invalid = None, clamp
   (lo, hi)); result [std; inv_std; mean] (bits).
   grad based: scales from sqrt(draw_var / grad_var), mean = std*std*grad_mean + draw_mean;
   draw based: scales from draw_var * (count as f64).recip(), mean = draw_mean. *)
Definition diag_install (grad_based : bool) (old_std old_inv lo hi : f64) (sx sg : frv) : list Z :=
  let '(dmean, dvar, count) := sx in
  let '(gmean, gvar, _) := sg in
  if grad_based then
    let r := f_var_inv_std_draw_grad old_std old_inv dvar gvar None lo hi in
    [to_bits (fst r); to_bits (snd r); to_bits (fadd (fmul (fmul (fst r) (fst r)) gmean) dmean)]
  else
    let r := f_var_inv_std_draw old_std old_inv dvar (frecip (f_of_N count)) None lo hi in
    [to_bits (fst r); to_bits (snd r); to_bits dmean].

(* One estimator lifetime, one coordinate: the samples xs (positions) and gs (gradients; empty when
   the estimate is draw based) are added one by one starting from fresh accumulators; `reqs` lists,
   in increasing order, the sample counts at which the transformation was updated together with
   the (std, inv_std) installed before (kept when the new value is invalid).  One
   [std; inv_std; mean] per request. *)
Fixpoint diag_window_run (grad_based : bool) (lo hi : f64) (sx sg : frv) (xs gs : list Z)
  (reqs : list (N * (Z * Z))) : list (list Z) :=
  match xs with
  | [] => []
  | x :: xs' =>
      let sx' := frv_add sx (of_bits x) in
      let sg' := match gs with g :: _ => frv_add sg (of_bits g) | [] => sg end in
      let gs' := tl gs in
      match reqs with
      | [] => []
      | (n, (os, oi)) :: reqs' =>
          if (n =? snd sx')%N
          then diag_install grad_based (of_bits os) (of_bits oi) lo hi sx' sg'
               :: diag_window_run grad_based lo hi sx' sg' xs' gs' reqs'
          else diag_window_run grad_based lo hi sx' sg' xs' gs' reqs
      end
  end.
Definition diag_window (grad_based : bool) (lo hi : Z) (xs gs : list Z) (reqs : list (N * (Z * Z)))
  : list (list Z) :=
  diag_window_run grad_based (of_bits lo) (of_bits hi) frv0 frv0 xs gs reqs.

(* Strategy::init + DiagMassMatrix::update_diag_grad at the initial point:
   a = [position; gradient; fill; lo; hi] -> [std; inv_std; mean] *)
Definition diag_install_init (a : list Z) : list Z :=
  let f (i : nat) := of_bits (nth i a 0%Z) in
  let r := f_var_inv_std_grad (f 1%nat) (f 2%nat) (f 3%nat) (f 4%nat) in
  [to_bits (fst r); to_bits (snd r);
   to_bits (fadd (fmul (fmul (fst r) (fst r)) (f 1%nat)) (f 0%nat))].
