(* Model of the integrator and of the affine transformations, generic in a field T:
     TransformedPoint::{first_velocity_halfstep, position_step, second_velocity_halfstep},
     TransformedHamiltonian::leapfrog (src/dynamics/transformed_hamiltonian.rs),
     DiagMassMatrix / LowRankMassMatrix position, gradient and log-determinant maps
     (src/transform/{diagonal,low_rank}.rs, apply_lowrank_transform in src/math/cpu_math.rs).
   Instantiated with Qc (canonical rationals, Leibniz equality) for theorems and evaluation.
   Transcendental quantities (cos eps, sin eps of the ExactNormal rotation; square roots of the
   low-rank eigenvalues) are inputs. *)
From Coq Require Import List ZArith.
Import ListNotations.

Section LF.
  Variable T : Type.
  Variables (zero one : T) (add sub mul : T -> T -> T) (opp : T -> T) (inv : T -> T).
  Notation "x + y" := (add x y).
  Notation "x - y" := (sub x y).
  Notation "x * y" := (mul x y).

  Definition vec := list T.

  Fixpoint vmap2 (f : T -> T -> T) (x y : vec) : vec :=
    match x, y with a :: x', b :: y' => f a b :: vmap2 f x' y' | _, _ => [] end.
  Definition vadd := vmap2 add.
  Definition vsub := vmap2 sub.
  Definition vmul := vmap2 mul.
  Definition vscale (a : T) (x : vec) : vec := map (fun xi => a * xi) x.
  (* axpy_out(x, y, a) = a*x + y *)
  Definition axpy (a : T) (x y : vec) : vec := vmap2 (fun xi yi => a * xi + yi) x y.
  Fixpoint dot (x y : vec) : T :=
    match x, y with a :: x', b :: y' => a * b + dot x' y' | _, _ => zero end.

  (* ------------------------------------------------------------------------------------ *)
  (* transformations x = F y + mu                                                           *)
  (* ------------------------------------------------------------------------------------ *)
  Record diag := { d_sigma : vec; d_inv_sigma : vec; d_mu : vec }.

  (* compute_untransformed_position / compute_transformed_position / compute_transformed_gradient *)
  Definition diag_fwd (d : diag) (y : vec) : vec := vadd (vmul y (d_sigma d)) (d_mu d).
  Definition diag_inv (d : diag) (x : vec) : vec := vmul (vsub x (d_mu d)) (d_inv_sigma d).
  Definition diag_grad (d : diag) (g : vec) : vec := vmul g (d_sigma d).

  (* apply_lowrank_transform: (I + U (diag a - I) U^T) x  with U given by its columns *)
  Fixpoint lowrank_apply (cols : list vec) (a : list T) (x : vec) : vec :=
    match cols, a with
    | u :: cols', ak :: a' =>
        (* all projections use the original x: dest = x + sum_k (a_k - 1) (u_k . x) u_k *)
        vadd (lowrank_apply cols' a' x) (vscale ((ak - one) * dot u x) u)
    | _, _ => x
    end.

  Record lowrank := {
    l_diag : diag;
    l_cols : list vec;        (* eigenvectors *)
    l_r : list T;             (* lambda^{1/2} *)
    l_rinv : list T;          (* lambda^{-1/2} *)
    l_mu : vec;               (* inner translation *)
    l_inner : bool            (* inner matrix present *)
  }.

  Definition lr_fwd (l : lowrank) (y : vec) : vec :=
    if l_inner l then
      vadd (vmul (vadd (lowrank_apply (l_cols l) (l_r l) y) (l_mu l)) (d_sigma (l_diag l)))
           (d_mu (l_diag l))
    else diag_fwd (l_diag l) y.
  Definition lr_inv (l : lowrank) (x : vec) : vec :=
    let z := diag_inv (l_diag l) x in
    if l_inner l then lowrank_apply (l_cols l) (l_rinv l) (vsub z (l_mu l)) else z.
  Definition lr_grad (l : lowrank) (g : vec) : vec :=
    let z := diag_grad (l_diag l) g in
    if l_inner l then lowrank_apply (l_cols l) (l_r l) z else z.

  (* ------------------------------------------------------------------------------------ *)
  (* one leapfrog step in the whitened space                                                *)
  (* ------------------------------------------------------------------------------------ *)
  Inductive kind := Euclidean | ExactNormal.

  Section Step.
    (* gradient of the log density pulled back to the whitened space, as a function of the
       whitened position: tg q = F^T grad logp (F q + mu) *)
    Variable tg : vec -> vec.

    (* c = cos eps, s = sin eps *)
    Definition step (k : kind) (eps half c s : T) (qv : vec * vec) : vec * vec :=
      let '(q, v) := qv in
      match k with
      | Euclidean =>
          let v1 := axpy half (tg q) v in
          let q1 := axpy eps v1 q in
          let v2 := axpy half (tg q1) v1 in
          (q1, v2)
      | ExactNormal =>
          (* std_norm_grad_flow: v + half*(q + tg q) ; std_norm_flow: rotation *)
          let v1 := vadd v (vscale half (vadd q (tg q))) in
          let q1 := vadd (vscale c q) (vscale s v1) in
          let v1' := vadd (vscale (opp s) q) (vscale c v1) in
          let v2 := vadd v1' (vscale half (vadd q1 (tg q1))) in
          (q1, v2)
      end.

    Definition kinetic (halfone : T) (v : vec) : T := halfone * dot v v.
  End Step.

  (* is_turning: scalar_prods3(end.q, start.q, 0, start.v, end.v) *)
  Definition turn_prods (qs vs qe ve : vec) : T * T :=
    let d := vsub qe qs in (dot d vs, dot d ve).
End LF.
