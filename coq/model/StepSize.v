(* Exact-arithmetic (Q) model of the step-size adaptation recurrences and of the initial
   doubling/halving search: DualAverage::advance (src/stepsize/dual_avg.rs), Adam::advance
   (src/stepsize/adam.rs), Strategy::init (src/stepsize/adapt.rs), AcceptanceRateCollector.
   The recurrences run in log space; coefficient sequences that the code computes with libm are
   parameters:  w n = 1/(n + t0),  c n = sqrt(n)/gamma,  m n = n^(-k),  cap = ln(max_step_size).
   The bit-exact binary64 versions are in model/DualAvg.v. *)
From Coq Require Import QArith Qminmax List Arith Lia.
Import ListNotations.

Section DA.
  Variables (w c m : nat -> Q) (mu cap target : Q).

  Record daq := { q_x : Q; q_xbar : Q; q_h : Q; q_n : nat }.

  Definition daq_advance (s : daq) (a : Q) : daq :=
    let n := q_n s in
    let h := (1 - w n) * q_h s + w n * (target - a) in
    let x := Qmin (mu - h * c n) cap in
    let xb := m n * x + (1 - m n) * q_xbar s in
    {| q_x := x; q_xbar := xb; q_h := h; q_n := S n |}.

  Definition daq_run (s : daq) (accs : list Q) : daq := fold_left daq_advance accs s.

  (* all iterates, oldest first *)
  Fixpoint daq_trace (s : daq) (accs : list Q) : list daq :=
    match accs with
    | [] => []
    | a :: rest => let s' := daq_advance s a in s' :: daq_trace s' rest
    end.
End DA.

(* Adam in log space; b1t n = beta1^n, b2t n = beta2^n, sq = square root *)
Section Adam.
  Variables (beta1 beta2 eps lr target : Q) (sq : Q -> Q).
  Variables (b1t b2t : nat -> Q).

  Record adq := { a_x : Q; a_m : Q; a_v : Q; a_t : nat }.

  Definition adq_advance (s : adq) (a : Q) : adq :=
    let g := a - target in
    let t := S (a_t s) in
    let m := beta1 * a_m s + (1 - beta1) * g in
    let v := beta2 * a_v s + (1 - beta2) * g * g in
    let mhat := m / (1 - b1t t) in
    let vhat := v / (1 - b2t t) in
    {| a_x := a_x s + lr * mhat / (sq vhat + eps); a_m := m; a_v := v; a_t := t |}.
End Adam.

(* Strategy::init: the doubling / halving search over a one-step acceptance oracle
   acc step = Some a (leapfrog Ok with acceptance statistic a) | None (divergence) *)
Inductive search_result :=
| SFound (step : Q) (iters : nat)    (* adaptation re-created at `step` *)
| SKeepInitial.                      (* step size := initial_step, adaptation untouched *)

Section Search.
  Variable acc : Q -> option Q.
  Variables (initial target : Q).
  Definition hi_limit : Q := 100000.
  Definition lo_limit : Q := 1 # 10000000000.

  Fixpoint search_loop (fuel : nat) (fwd : bool) (step : Q) (iters : nat) : search_result :=
    match fuel with
    | O => SKeepInitial
    | S f =>
        match acc step with
        | None => SKeepInitial
        | Some a =>
            if fwd
            then if Qle_bool a target || negb (Qle_bool step hi_limit)
                 then SFound step iters else search_loop f true (step * 2) (S iters)
            else if Qle_bool target a || negb (Qle_bool lo_limit step)
                 then SFound step iters else search_loop f false (step / 2) (S iters)
        end
    end.

  Definition search : search_result :=
    match acc initial with
    | None => SKeepInitial
    | Some a0 => search_loop 100 (negb (Qle_bool a0 target)) initial 0
    end.

  (* the same with the first (always forward) trial given separately: when the search goes down,
     the trials of the loop integrate backward in time and `acc` is then the backward acceptance *)
  Definition search2 (a_first : option Q) : search_result :=
    match a_first with
    | None => SKeepInitial
    | Some a0 => search_loop 100 (negb (Qle_bool a0 target)) initial 0
    end.
End Search.

(* evaluation on a finite table of trial acceptances (step sizes are initial * 2^k, exact) *)
Definition acc_of_table (t : list (Q * option Q)) (s : Q) : option Q :=
  match find (fun p => Qeq_bool (fst p) s) t with Some p => snd p | None => None end.
Definition eval_search (t : list (Q * option Q)) (initial target : Q) (a_first : option Q) : list Z :=
  match search2 (acc_of_table t) initial target a_first with
  | SKeepInitial => [0%Z]
  | SFound st it => [1%Z; Qnum (Qred st); Z.pos (Qden (Qred st)); Z.of_nat it]
  end.

(* AcceptanceRateCollector: per-leapfrog statistics from the energy difference d = E0 - E,
   with e = exp(min(d,0)) in (0,1] and f = exp(d) > 0 as inputs *)
Definition acc_stat (e : Q) : Q := e.
Definition acc_stat_sym (e f : Q) : Q := 2 * e / (1 + f).
