(* Model of the serde data model as used by `#[derive(Serialize, Deserialize)]` on the settings
   types of nuts-rs, and of serde_json's conventions for it.  Executable, proof-free.

   Three layers:
   1. raw declarations (`ritem` ...): a deep embedding of the Rust item syntax that the translator
      tools/translate_serde.py regenerates into gen/SerdeDecls.v (struct / enum names, generic
      parameters, fields in order, variant payload kinds, derives, every serde attribute verbatim);
   2. `resolve`: instantiates generic parameters and produces a closed type description `sty`;
   3. `enc` / `dec` / `typed` / `wf` on `sty`, values `sval` and JSON trees `json`.

   Conventions modelled (serde derive defaults, no attributes; serde_json):
   * struct            -> JSON object, members in field declaration order, key = field name;
   * unit variant      -> JSON string with the variant name;
   * newtype variant   -> JSON object with the single member  variant name : payload;
   * Option: None      -> null, Some x -> encoding of x;
   * u64 / usize       -> number token NU n (opaque natural number);
   * f64 finite        -> number token NF bits (opaque: the IEEE-754 bit pattern);
     f64 non-finite    -> null (serde_json: Number::from_f64 fails, Value::Null / text `null`);
   * bool              -> true / false.
   Decoding (the derived visitor on a map):
   * members are looked up by key; unknown keys are ignored; member order is irrelevant;
   * a key of a declared field that occurs twice is an error (derive: "duplicate field");
     [serde_json's own `Value`/`Map` keeps the LAST of two equal keys when text is parsed into a
      `Value` first, so a duplicate can reach the derived visitor only through `from_str` /
      `from_reader`; the model follows the visitor, i.e. rejects];
   * a missing member is an error unless the field type is an Option (then None);
   * null decodes to None for an Option field, and is an error for f64 / u64 / bool / struct;
   * the model's `dec` is deliberately NOT more liberal than serde where that would need float
     conversions: an integer token for an f64 field, or the map form {"Variant": null} of a unit
     variant, are rejected by the model although serde_json accepts them.  Both are outside the
     image of `enc`; the round-trip theorem is not affected (documented deviation). *)
From Coq Require Import String List NArith ZArith Bool.
Import ListNotations.
Local Open Scope string_scope.

(* --------------------------------------------------------------------------------------------- *)
(* 1. Raw declarations (what the translator emits)                                               *)
(* --------------------------------------------------------------------------------------------- *)
Inductive rty : Type :=
| RPrim (p : string)                      (* f64 u64 usize bool *)
| ROpt (t : rty)                          (* Option<t> *)
| RParam (p : string)                     (* a generic parameter of the enclosing item *)
| RNamed (name : string) (args : list rty) (* a struct / enum of the crate, with type arguments *).

Inductive rvkind : Type :=
| RVUnit
| RVNewtype (t : rty).

Record rfield : Type := mk_rfield { rf_name : string; rf_ty : rty; rf_attrs : list string }.
Record rvariant : Type := mk_rvariant { rv_name : string; rv_kind : rvkind; rv_attrs : list string }.

Inductive rbody : Type :=
| RStructBody (fields : list rfield)
| REnumBody (variants : list rvariant).

Record ritem : Type := mk_ritem {
  ri_name : string;
  ri_file : string;
  ri_params : list string;
  ri_derives : list string;
  ri_attrs : list string;   (* serde attributes on the item itself, verbatim *)
  ri_body : rbody }.

(* --------------------------------------------------------------------------------------------- *)
(* 2. Type descriptions, values, JSON                                                            *)
(* --------------------------------------------------------------------------------------------- *)
Inductive sty : Type :=
| SStruct (fields : list (string * sty))
| SEnum (variants : list (string * option sty))
| SOpt (t : sty)
| SF64
| SU64
| SUsize
| SBool.

Inductive sval : Type :=
| VStruct (fields : list (string * sval))
| VEnum (variant : string) (payload : option sval)
| VNone
| VSome (v : sval)
| VF64 (bits : Z)
| VU64 (n : N)
| VUsize (n : N)
| VBool (b : bool).

Inductive jnum : Type :=
| NU (n : N)       (* non-negative integer token *)
| NF (bits : Z)    (* floating-point token, identified by the binary64 bit pattern *).

Inductive json : Type :=
| JObj (members : list (string * json))
| JStr (s : string)
| JNum (n : jnum)
| JBool (b : bool)
| JNull.

Definition is_opt (t : sty) : bool := match t with SOpt _ => true | _ => false end.

Definition two64 : N := 18446744073709551616%N.

(* binary64 bit pattern of a finite number: 64 bits, exponent field not all ones *)
Definition finite_bits (b : Z) : bool :=
  ((0 <=? b)%Z && (b <? 18446744073709551616)%Z &&
   negb (Z.land (Z.shiftr b 52) 2047 =? 2047)%Z)%bool.

Fixpoint nodupb (l : list string) : bool :=
  match l with
  | [] => true
  | x :: r => negb (existsb (String.eqb x) r) && nodupb r
  end.

(* ---- well-formedness ------------------------------------------------------------------------ *)
Definition wf_fields (w : sty -> bool) :=
  fix go (fs : list (string * sty)) : bool :=
  match fs with
  | [] => true
  | (_, t) :: r => w t && go r
  end.

Definition wf_variants (w : sty -> bool) :=
  fix go (vs : list (string * option sty)) : bool :=
  match vs with
  | [] => true
  | (_, None) :: r => go r
  | (_, Some t) :: r => w t && go r
  end.

Fixpoint wf (ty : sty) : bool :=
  match ty with
  | SStruct fs => nodupb (map fst fs) && wf_fields wf fs
  | SEnum vs => nodupb (map fst vs) && wf_variants wf vs
  | SOpt t => negb (is_opt t) && wf t
  | SF64 | SU64 | SUsize | SBool => true
  end.

(* ---- typing --------------------------------------------------------------------------------- *)
Definition typed_fields (ty : sty -> sval -> bool) :=
  fix go (fs : list (string * sty))
         (vs : list (string * sval)) : bool :=
  match fs, vs with
  | [], [] => true
  | (n, t) :: fr, (m, x) :: vr => String.eqb n m && ty t x && go fr vr
  | _, _ => false
  end.

Definition typed_variant (ty : sty -> sval -> bool) :=
  fix go (vs : list (string * option sty))
         (name : string) (p : option sval) : bool :=
  match vs with
  | [] => false
  | (n, k) :: r =>
      if String.eqb n name then
        match k, p with
        | None, None => true
        | Some t, Some x => ty t x
        | _, _ => false
        end
      else go r name p
  end.

Fixpoint typed (ty : sty) (v : sval) : bool :=
  match ty, v with
  | SStruct fs, VStruct vs => typed_fields typed fs vs
  | SEnum vs, VEnum name p => typed_variant typed vs name p
  | SOpt _, VNone => true
  | SOpt t, VSome x => typed t x
  | SF64, VF64 b => finite_bits b
  | SU64, VU64 n => (n <? two64)%N
  | SUsize, VUsize n => (n <? two64)%N       (* 64-bit targets *)
  | SBool, VBool _ => true
  | _, _ => false
  end.

(* ---- encoding (Serialize) ------------------------------------------------------------------- *)
Definition enc_fields (e : sty -> sval -> json) :=
  fix go (fs : list (string * sty))
         (vs : list (string * sval)) : list (string * json) :=
  match fs, vs with
  | (n, t) :: fr, (_, x) :: vr => (n, e t x) :: go fr vr
  | _, _ => []
  end.

Definition enc_variant (e : sty -> sval -> json) :=
  fix go (vs : list (string * option sty))
         (name : string) (p : option sval) : json :=
  match vs with
  | [] => JNull
  | (n, k) :: r =>
      if String.eqb n name then
        match k, p with
        | None, None => JStr n
        | Some t, Some x => JObj [(n, e t x)]
        | _, _ => JNull
        end
      else go r name p
  end.

Fixpoint enc (ty : sty) (v : sval) : json :=
  match ty, v with
  | SStruct fs, VStruct vs => JObj (enc_fields enc fs vs)
  | SEnum vs, VEnum name p => enc_variant enc vs name p
  | SOpt _, VNone => JNull
  | SOpt t, VSome x => enc t x
  | SF64, VF64 b => if finite_bits b then JNum (NF b) else JNull
  | SU64, VU64 n => JNum (NU n)
  | SUsize, VUsize n => JNum (NU n)
  | SBool, VBool b => JBool b
  | _, _ => JNull
  end.

(* ---- decoding (Deserialize) ----------------------------------------------------------------- *)
Inductive lookup_result : Type :=
| LMissing
| LOne (j : json)
| LDup.

Fixpoint get_field (k : string) (ms : list (string * json)) : lookup_result :=
  match ms with
  | [] => LMissing
  | (n, j) :: r =>
      if String.eqb n k then
        match get_field k r with
        | LMissing => LOne j
        | _ => LDup
        end
      else get_field k r
  end.

Definition cons_opt {A : Type} (x : A) (o : option (list A)) : option (list A) :=
  match o with Some l => Some (x :: l) | None => None end.

Definition dec_fields (d : sty -> json -> option sval) :=
  fix go (fs : list (string * sty))
         (ms : list (string * json)) : option (list (string * sval)) :=
  match fs with
  | [] => Some []
  | (n, t) :: r =>
      match get_field n ms with
      | LDup => None
      | LMissing => if is_opt t then cons_opt (n, VNone) (go r ms) else None
      | LOne j =>
          match d t j with
          | Some x => cons_opt (n, x) (go r ms)
          | None => None
          end
      end
  end.

Fixpoint dec_unit (vs : list (string * option sty)) (s : string) : option sval :=
  match vs with
  | [] => None
  | (n, k) :: r =>
      if String.eqb n s then
        match k with None => Some (VEnum n None) | Some _ => None end
      else dec_unit r s
  end.

Definition dec_newtype (d : sty -> json -> option sval) :=
  fix go (vs : list (string * option sty))
         (s : string) (j : json) : option sval :=
  match vs with
  | [] => None
  | (n, k) :: r =>
      if String.eqb n s then
        match k with
        | Some t => match d t j with Some x => Some (VEnum n (Some x)) | None => None end
        | None => None
        end
      else go r s j
  end.

Fixpoint dec (ty : sty) (j : json) : option sval :=
  match ty with
  | SStruct fs =>
      match j with
      | JObj ms => match dec_fields dec fs ms with Some l => Some (VStruct l) | None => None end
      | _ => None
      end
  | SEnum vs =>
      match j with
      | JStr s => dec_unit vs s
      | JObj [(k, j')] => dec_newtype dec vs k j'
      | _ => None
      end
  | SOpt t =>
      match j with
      | JNull => Some VNone
      | _ => match dec t j with Some x => Some (VSome x) | None => None end
      end
  | SF64 =>
      match j with
      | JNum (NF b) => if finite_bits b then Some (VF64 b) else None
      | _ => None
      end
  | SU64 =>
      match j with
      | JNum (NU n) => if (n <? two64)%N then Some (VU64 n) else None
      | _ => None
      end
  | SUsize =>
      match j with
      | JNum (NU n) => if (n <? two64)%N then Some (VUsize n) else None
      | _ => None
      end
  | SBool =>
      match j with
      | JBool b => Some (VBool b)
      | _ => None
      end
  end.

(* --------------------------------------------------------------------------------------------- *)
(* 3. From raw declarations to type descriptions                                                 *)
(* --------------------------------------------------------------------------------------------- *)
Fixpoint assoc {A : Type} (k : string) (l : list (string * A)) : option A :=
  match l with
  | [] => None
  | (n, a) :: r => if String.eqb n k then Some a else assoc k r
  end.

Fixpoint find_item (k : string) (ds : list ritem) : option ritem :=
  match ds with
  | [] => None
  | it :: r => if String.eqb (ri_name it) k then Some it else find_item k r
  end.

Fixpoint map_opt {A B : Type} (f : A -> option B) (l : list A) : option (list B) :=
  match l with
  | [] => Some []
  | a :: r => match f a with Some b => cons_opt b (map_opt f r) | None => None end
  end.

Definition prim_sty (p : string) : option sty :=
  if String.eqb p "f64" then Some SF64
  else if String.eqb p "u64" then Some SU64
  else if String.eqb p "usize" then Some SUsize
  else if String.eqb p "bool" then Some SBool
  else None.

Fixpoint resolve (fuel : nat) (ds : list ritem) (env : list (string * sty)) (t : rty)
  : option sty :=
  match fuel with
  | O => None
  | S f =>
      match t with
      | RPrim p => prim_sty p
      | ROpt t' => match resolve f ds env t' with Some s => Some (SOpt s) | None => None end
      | RParam p => assoc p env
      | RNamed n args =>
          match find_item n ds with
          | None => None
          | Some it =>
              match map_opt (resolve f ds env) args with
              | None => None
              | Some tys =>
                  if Nat.eqb (length tys) (length (ri_params it)) then
                    let env' := combine (ri_params it) tys in
                    match ri_body it with
                    | RStructBody fs =>
                        match map_opt (fun fd => match resolve f ds env' (rf_ty fd) with
                                                 | Some s => Some (rf_name fd, s)
                                                 | None => None end) fs with
                        | Some l => Some (SStruct l)
                        | None => None
                        end
                    | REnumBody vs =>
                        match map_opt (fun vd => match rv_kind vd with
                                                 | RVUnit => Some (rv_name vd, None)
                                                 | RVNewtype t' =>
                                                     match resolve f ds env' t' with
                                                     | Some s => Some (rv_name vd, Some s)
                                                     | None => None
                                                     end
                                                 end) vs with
                        | Some l => Some (SEnum l)
                        | None => None
                        end
                    end
                  else None
              end
          end
      end
  end.

Definition resolve_fuel : nat := 32.

Definition preset_sty (ds : list ritem) (p : string * rty) : option sty :=
  resolve resolve_fuel ds [] (snd p).

(* every serde attribute of the regenerated declarations, with its location *)
Definition field_attrs (item : string) (fd : rfield) : list (string * string) :=
  map (fun a => (item ++ "." ++ rf_name fd, a)) (rf_attrs fd).
Definition variant_attrs (item : string) (vd : rvariant) : list (string * string) :=
  map (fun a => (item ++ "::" ++ rv_name vd, a)) (rv_attrs vd).
Definition item_attrs (it : ritem) : list (string * string) :=
  map (fun a => (ri_name it, a)) (ri_attrs it) ++
  match ri_body it with
  | RStructBody fs => flat_map (field_attrs (ri_name it)) fs
  | REnumBody vs => flat_map (variant_attrs (ri_name it)) vs
  end.
Definition serde_attrs (ds : list ritem) : list (string * string) := flat_map item_attrs ds.

Definition has_derives (it : ritem) : bool :=
  existsb (String.eqb "Serialize") (ri_derives it) &&
  existsb (String.eqb "Deserialize") (ri_derives it).

Definition no_attrs (ds : list ritem) : bool :=
  match serde_attrs ds with [] => true | _ => false end.

(* the whole generated description is acceptable: six presets, each resolves to a well-formed
   type description, every item derives both traits and carries no serde attribute *)
Definition presets_ok (ds : list ritem) (ps : list (string * rty)) : bool :=
  Nat.eqb (length ps) 6 && nodupb (map fst ps) &&
  forallb (fun p => match preset_sty ds p with Some ty => wf ty | None => false end) ps &&
  forallb has_derives ds && no_attrs ds.

(* --------------------------------------------------------------------------------------------- *)
(* 4. Flat token streams (for the correspondence check: printed by vm_compute, parsed by Python) *)
(*    token = (tag, text, number):                                                               *)
(*    0 object-open, 1 object-close, 2 key, 3 string, 4 integer, 5 float bits, 6 bool, 7 null     *)
(* --------------------------------------------------------------------------------------------- *)
Definition tok : Type := (N * string * Z)%type.

Definition jflat_members (f : json -> list tok) :=
  fix go (ms : list (string * json)) : list tok :=
  match ms with
  | [] => []
  | (k, j) :: r => (2%N, k, 0%Z) :: f j ++ go r
  end.

Fixpoint jflat (j : json) : list tok :=
  match j with
  | JObj ms => (0%N, "", 0%Z) :: jflat_members jflat ms ++ [(1%N, "", 0%Z)]
  | JStr s => [(3%N, s, 0%Z)]
  | JNum (NU n) => [(4%N, "", Z.of_N n)]
  | JNum (NF b) => [(5%N, "", b)]
  | JBool b => [(6%N, "", if b then 1%Z else 0%Z)]
  | JNull => [(7%N, "", 0%Z)]
  end.

(* values: 0 struct-open, 1 close, 2 field name, 3 variant name (unit), 8 variant name (newtype,
   payload follows), 9 None, 10 Some (value follows), 4 u64, 11 usize, 5 f64 bits, 6 bool *)
Definition vflat_fields (f : sval -> list tok) :=
  fix go (vs : list (string * sval)) : list tok :=
  match vs with
  | [] => []
  | (k, v) :: r => (2%N, k, 0%Z) :: f v ++ go r
  end.

Fixpoint vflat (v : sval) : list tok :=
  match v with
  | VStruct vs => (0%N, "", 0%Z) :: vflat_fields vflat vs ++ [(1%N, "", 0%Z)]
  | VEnum n None => [(3%N, n, 0%Z)]
  | VEnum n (Some x) => (8%N, n, 0%Z) :: vflat x
  | VNone => [(9%N, "", 0%Z)]
  | VSome x => (10%N, "", 0%Z) :: vflat x
  | VF64 b => [(5%N, "", b)]
  | VU64 n => [(4%N, "", Z.of_N n)]
  | VUsize n => [(11%N, "", Z.of_N n)]
  | VBool b => [(6%N, "", if b then 1%Z else 0%Z)]
  end.

Definition vflat_opt (o : option sval) : option (list tok) :=
  match o with Some v => Some (vflat v) | None => None end.

(* structure of a type description, for cross-checking the Python-side view of the declarations:
   0 struct-open 1 close 2 field name 12 enum-open 13 unit variant 14 newtype variant 15 option
   16 f64 17 u64 18 usize 19 bool *)
Definition tflat_fields (f : sty -> list tok) :=
  fix go (fs : list (string * sty)) : list tok :=
  match fs with
  | [] => []
  | (k, t) :: r => (2%N, k, 0%Z) :: f t ++ go r
  end.
Definition tflat_variants (f : sty -> list tok) :=
  fix go (vs : list (string * option sty)) : list tok :=
  match vs with
  | [] => []
  | (k, None) :: r => (13%N, k, 0%Z) :: go r
  | (k, Some t) :: r => (14%N, k, 0%Z) :: f t ++ go r
  end.
Fixpoint tflat (t : sty) : list tok :=
  match t with
  | SStruct fs => (0%N, "", 0%Z) :: tflat_fields tflat fs ++ [(1%N, "", 0%Z)]
  | SEnum vs => (12%N, "", 0%Z) :: tflat_variants tflat vs ++ [(1%N, "", 0%Z)]
  | SOpt t' => (15%N, "", 0%Z) :: tflat t'
  | SF64 => [(16%N, "", 0%Z)]
  | SU64 => [(17%N, "", 0%Z)]
  | SUsize => [(18%N, "", 0%Z)]
  | SBool => [(19%N, "", 0%Z)]
  end.
