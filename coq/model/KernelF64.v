(* binary64 instance of model/Kernel.v and a dispatcher used by the correspondence check:
   inputs and outputs are IEEE-754 bit patterns. *)
From Coq Require Import ZArith NArith Bool List.
From NutsV Require Import lib.Fp model.Kernel.
Import ListNotations.

Section Inst.
  Variable fe : bool.
  Variable L : nat.
  Definition f_multiply := k_multiply f64 fmul L.
  Definition f_axpy := k_axpy f64 fadd fmul ffma fe L.
  Definition f_std_norm_flow := k_std_norm_flow f64 fadd fmul fneg ffma L.
  Definition f_std_norm_grad_flow := k_std_norm_grad_flow f64 fadd fmul ffma L.
  Definition f_vector_dot := k_vector_dot f64 fzero fadd fmul ffma fe L.
  Definition f_scalar_prods2 := k_scalar_prods2 f64 fzero fadd fmul ffma fe L.
  Definition f_scalar_prods3 := k_scalar_prods3 f64 fzero fadd fsub fmul ffma fe L.
End Inst.

(* Rust's `impl Sum for f64` starts from -0.0 *)
Definition fnegzero : f64 := of_bits 9223372036854775808.
Definition f_sq_norm_sum (x y : list f64) : f64 := k_sq_norm_sum f64 fnegzero fadd fmul x y.

Definition f_all_finite (x : list f64) : bool := forallb is_finite x.
Definition f_all_finite_nonzero (x : list f64) : bool :=
  forallb (fun v => is_finite v && negb (feq v fzero)) x.
Definition f_recip (x : list f64) : list f64 := map frecip x.

(* array_normalize: norm = sqrt(sum x_i^2) (Iterator::sum, left to right), v *= 1/norm *)
Definition f_normalize (x : list f64) : list f64 :=
  let norm := fsqrt (fold_left fadd (map (fun v => fmul v v) x) fnegzero) in
  let inv := fdiv fone norm in
  map (fun v => fmul v inv) x.

Definition nth_v (l : list (list f64)) (i : nat) : list f64 := nth i l [].
Definition nth_s (l : list f64) (i : nat) : f64 := nth i l fzero.
Definition b2z (b : bool) : Z := if b then 1%Z else 0%Z.

(* op codes: 1 multiply, 2 axpy, 3 vector_dot, 4 scalar_prods2, 5 scalar_prods3,
   6 std_norm_flow (scalars: sin, cos), 7 std_norm_grad_flow, 8 sq_norm_sum, 9 all_finite,
   10 all_finite_and_nonzero, 11 recip, 12 normalize *)
Definition run_kernel (op : N) (L : nat) (fe : bool) (scalars : list Z) (vecs : list (list Z))
  : list (list Z) :=
  let s := map of_bits scalars in
  let v := map (map of_bits) vecs in
  match op with
  | 1%N => [bits_list (f_multiply L (nth_v v 0) (nth_v v 1))]
  | 2%N => [bits_list (f_axpy fe L (nth_s s 0) (nth_v v 0) (nth_v v 1))]
  | 3%N => [[to_bits (f_vector_dot fe L (nth_v v 0) (nth_v v 1))]]
  | 4%N => let r := f_scalar_prods2 fe L (nth_v v 0) (nth_v v 1) (nth_v v 2) (nth_v v 3) in
           [[to_bits (fst r); to_bits (snd r)]]
  | 5%N => let r := f_scalar_prods3 fe L (nth_v v 0) (nth_v v 1) (nth_v v 2) (nth_v v 3) (nth_v v 4) in
           [[to_bits (fst r); to_bits (snd r)]]
  | 6%N => let r := f_std_norm_flow L (nth_s s 0) (nth_s s 1) (nth_v v 0) (nth_v v 1) in
           [bits_list (fst r); bits_list (snd r)]
  | 7%N => [bits_list (f_std_norm_grad_flow L (nth_s s 0) (nth_v v 0) (nth_v v 1) (nth_v v 2))]
  | 8%N => [[to_bits (f_sq_norm_sum (nth_v v 0) (nth_v v 1))]]
  | 9%N => [[b2z (f_all_finite (nth_v v 0))]]
  | 10%N => [[b2z (f_all_finite_nonzero (nth_v v 0))]]
  | 11%N => [bits_list (f_recip (nth_v v 0))]
  | 12%N => [bits_list (f_normalize (nth_v v 0))]
  | _ => []
  end.
