(* binary64 model of the step-size recurrences: DualAverage::{new,advance} (src/stepsize/dual_avg.rs)
   and Adam::advance (src/stepsize/adam.rs).  libm results (ln, powf, powi, exp) are inputs. *)
From Coq Require Import ZArith NArith Bool List.
From NutsV Require Import lib.Fp.
Import ListNotations.

Record da_opts := { da_k : f64; da_t0 : f64; da_gamma : f64; da_ln_max : f64 (* ln(max_step_size) *) }.

Record da_state := {
  da_log_step : f64; da_log_step_adapted : f64; da_hbar : f64; da_mu : f64; da_count : N }.

(* new(settings, initial_step): ln(initial_step) and ln(10*initial_step) are inputs *)
Definition da_new (ln_init ln_10init : f64) : da_state :=
  {| da_log_step := ln_init; da_log_step_adapted := ln_init; da_hbar := fzero; da_mu := ln_10init;
     da_count := 1 |}.

(* one advance; mk = (count as f64).powf(-k) is an input *)
Definition da_advance (o : da_opts) (mk : f64) (s : da_state) (accept target : f64) : da_state :=
  let c := f_of_N (da_count s) in
  let w := fdiv fone (fadd c (da_t0 o)) in
  let hbar := fadd (fmul (fsub fone w) (da_hbar s)) (fmul w (fsub target accept)) in
  let ls := fsub (da_mu s) (fdiv (fmul hbar (fsqrt c)) (da_gamma o)) in
  let ls := fmin ls (da_ln_max o) in
  let lsa := fadd (fmul mk ls) (fmul (fsub fone mk) (da_log_step_adapted s)) in
  {| da_log_step := ls; da_log_step_adapted := lsa; da_hbar := hbar; da_mu := da_mu s;
     da_count := (da_count s + 1)%N |}.

Definition da_print (s : da_state) : list Z :=
  [to_bits (da_log_step s); to_bits (da_log_step_adapted s); to_bits (da_hbar s); to_bits (da_mu s);
   Z.of_N (da_count s)].

(* hbar and pre-clamp log_step only (what a closed-loop check can recompute without libm) *)
Definition da_hbar_next (t0 : f64) (hbar : f64) (count : N) (accept target : f64) : f64 :=
  let c := f_of_N count in
  let w := fdiv fone (fadd c t0) in
  fadd (fmul (fsub fone w) hbar) (fmul w (fsub target accept)).

Record adam_opts := { ad_beta1 : f64; ad_beta2 : f64; ad_eps : f64; ad_lr : f64 }.
Record adam_state := { ad_log_step : f64; ad_m : f64; ad_v : f64; ad_t : N }.

(* b1t = beta1.powi(t), b2t = beta2.powi(t) are inputs *)
Definition adam_advance (o : adam_opts) (b1t b2t : f64) (s : adam_state) (accept target : f64)
  : adam_state :=
  let g := fsub accept target in
  let m := fadd (fmul (ad_beta1 o) (ad_m s)) (fmul (fsub fone (ad_beta1 o)) g) in
  let v := fadd (fmul (ad_beta2 o) (ad_v s)) (fmul (fmul (fsub fone (ad_beta2 o)) g) g) in
  let mhat := fdiv m (fsub fone b1t) in
  let vhat := fdiv v (fsub fone b2t) in
  let ls := fadd (ad_log_step s) (fdiv (fmul (ad_lr o) mhat) (fadd (fsqrt vhat) (ad_eps o))) in
  {| ad_log_step := ls; ad_m := m; ad_v := v; ad_t := (ad_t s + 1)%N |}.

Definition adam_m_next (beta1 m accept target : f64) : f64 :=
  fadd (fmul beta1 m) (fmul (fsub fone beta1) (fsub accept target)).

Definition adam_print (s : adam_state) : list Z :=
  [to_bits (ad_log_step s); to_bits (ad_m s); to_bits (ad_v s); Z.of_N (ad_t s)].

(* evaluation entry points: all arguments are bit patterns; rows = (mk or (b1t,b2t), accept) *)
Fixpoint da_trace (o : da_opts) (s : da_state) (rows : list (Z * Z)) (target : f64) : list (list Z) :=
  match rows with
  | [] => []
  | (mk, a) :: rest =>
      let s' := da_advance o (of_bits mk) s (of_bits a) target in
      da_print s' :: da_trace o s' rest target
  end.
Definition run_da (k t0 gamma lnmax lninit ln10 target : Z) (rows : list (Z * Z)) : list (list Z) :=
  let o := {| da_k := of_bits k; da_t0 := of_bits t0; da_gamma := of_bits gamma; da_ln_max := of_bits lnmax |} in
  let s0 := da_new (of_bits lninit) (of_bits ln10) in
  da_print s0 :: da_trace o s0 rows (of_bits target).

Fixpoint adam_trace (o : adam_opts) (s : adam_state) (rows : list (Z * Z * Z)) (target : f64)
  : list (list Z) :=
  match rows with
  | [] => []
  | (b1, b2, a) :: rest =>
      let s' := adam_advance o (of_bits b1) (of_bits b2) s (of_bits a) target in
      adam_print s' :: adam_trace o s' rest target
  end.
Definition run_adam (b1 b2 eps lr lninit target : Z) (rows : list (Z * Z * Z)) : list (list Z) :=
  let o := {| ad_beta1 := of_bits b1; ad_beta2 := of_bits b2; ad_eps := of_bits eps; ad_lr := of_bits lr |} in
  let s0 := {| ad_log_step := of_bits lninit; ad_m := fzero; ad_v := fzero; ad_t := 0 |} in
  adam_print s0 :: adam_trace o s0 rows (of_bits target).
