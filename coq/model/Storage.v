(* Token-level model of the storage backends (src/storage/{core,hashmap,arrow,ndarray,csv}.rs,
   src/storage/zarr/{common,sync_impl,async_impl}.rs).

   A chain's *history* is the sequence of `record_sample` arguments; values are carried as opaque
   tokens (bit patterns / integers as Z, strings as string) with a type tag.  The SPECIFICATION is
   `expected`: per statistic / draw variable the present values in recording order.  Each backend
   is modelled by its buffer logic as written; `None` stands for a panic or an `Err` of the backend.

   What is NOT modelled: number formatting of the CSV writer (a cell is `CVal ty token`), Blosc /
   Arrow / ndarray library internals (an array is a list of rows), the async writer queue of the
   Zarr backend (chunk writes are applied immediately; completion order is C15's subject),
   coordinates, group attributes. *)
From Coq Require Import String Ascii DecimalString ZArith NArith Bool Lia List.
Import ListNotations.
Local Open Scope string_scope.
Local Open Scope list_scope.
Local Open Scope nat_scope.

(* ---------------------------------------------------------------------------------------- *)
(* Values, records, schema                                                                    *)
(* ---------------------------------------------------------------------------------------- *)
Inductive ty := TF64 | TF32 | TI64 | TU64 | TBool | TStr.

Definition ty_eqb (a b : ty) : bool :=
  match a, b with
  | TF64, TF64 | TF32, TF32 | TI64, TI64 | TU64, TU64 | TBool, TBool | TStr, TStr => true
  | _, _ => false
  end.

Inductive token := TN (z : Z) | TS (s : string).

(* nuts_storable::Value: `v_scalar = true` for the Scalar* variants *)
Record val := mkVal { v_ty : ty; v_scalar : bool; v_items : list token }.

Definition entry := (string * option val)%type.

(* one record_sample call: Progress.tuning, stats, draws *)
Record record := mkRec { r_tuning : bool; r_stats : list entry; r_draws : list entry }.

(* a statistic or draw variable: name, item type, sizes of its extra dims, event dimension *)
Record field := mkField { f_name : string; f_ty : ty; f_shape : list nat; f_event : option string }.
Record schema := mkSchema { sc_stats : list field; sc_draws : list field }.

Inductive kind := Stats | Draws.

Definition f_len (f : field) : nat := fold_right Nat.mul 1 (f_shape f).
Definition f_scalar (f : field) : bool := match f_shape f with [] => true | _ => false end.
Definition fields (k : kind) (sc : schema) : list field :=
  match k with Stats => sc_stats sc | Draws => sc_draws sc end.
Definition entries (k : kind) (r : record) : list entry :=
  match k with Stats => r_stats r | Draws => r_draws r end.

(* ---------------------------------------------------------------------------------------- *)
(* Association lists (HashMap<String, _> with unique keys)                                    *)
(* ---------------------------------------------------------------------------------------- *)
Definition amap (A : Type) := list (string * A).

Fixpoint alookup {A} (n : string) (m : amap A) : option A :=
  match m with
  | [] => None
  | (k, a) :: m' => if String.eqb k n then Some a else alookup n m'
  end.

(* get_mut(name) followed by a fallible update; None if the key is missing or the update fails *)
Fixpoint aupdate {A} (n : string) (f : A -> option A) (m : amap A) : option (amap A) :=
  match m with
  | [] => None
  | (k, a) :: m' =>
      if String.eqb k n then
        match f a with Some a' => Some ((k, a') :: m') | None => None end
      else
        match aupdate n f m' with Some r => Some ((k, a) :: r) | None => None end
  end.

Definition amap_map {A B} (f : A -> B) (m : amap A) : amap B := map (fun p => (fst p, f (snd p))) m.

Fixpoint fold_opt {S R} (step : S -> R -> option S) (s : S) (l : list R) : option S :=
  match l with
  | [] => Some s
  | r :: l' => match step s r with Some s' => fold_opt step s' l' | None => None end
  end.

(* `["draw", "chain"].contains(&name)` *)
Definition skip_name (n : string) : bool := String.eqb n "draw" || String.eqb n "chain".

(* ---------------------------------------------------------------------------------------- *)
(* SPECIFICATION                                                                              *)
(* ---------------------------------------------------------------------------------------- *)
Definition lookup_entry (n : string) (es : list entry) : option val :=
  match alookup n es with Some ov => ov | None => None end.

(* the present values of variable n, in recording order *)
Definition present (k : kind) (n : string) (h : list record) : list val :=
  flat_map (fun r => match lookup_entry n (entries k r) with Some v => [v] | None => [] end) h.

Definition kept (store_warmup : bool) (h : list record) : list record :=
  filter (fun r => store_warmup || negb (r_tuning r)) h.
Definition warmup_part (h : list record) : list record := filter r_tuning h.
Definition sample_part (h : list record) : list record := filter (fun r => negb (r_tuning r)) h.

Definition expected (store_warmup : bool) (h : list record) (k : kind) (n : string) : list val :=
  present k n (kept store_warmup h).

Definition flat (vs : list val) : list token := concat (map v_items vs).
Definition rows_of (vs : list val) : list (list token) := map v_items vs.

(* ---- well-formed histories (executable) ---- *)
Definition typed (f : field) (v : val) : bool :=
  ty_eqb (v_ty v) (f_ty f) && Bool.eqb (v_scalar v) (f_scalar f) && (length (v_items v) =? f_len f).

(* positional alignment with the schema; draws must be present (strict) *)
Fixpoint entries_ok (strict : bool) (fs : list field) (es : list entry) : bool :=
  match fs, es with
  | [], [] => true
  | f :: fs', (n, ov) :: es' =>
      String.eqb n (f_name f)
      && match ov with Some v => typed f v | None => negb strict end
      && entries_ok strict fs' es'
  | _, _ => false
  end.

Definition record_ok (sc : schema) (r : record) : bool :=
  entries_ok false (sc_stats sc) (r_stats r) && entries_ok true (sc_draws sc) (r_draws r).

(* tuning flags of the form true^a false^b *)
Fixpoint tuning_prefix (l : list bool) : bool :=
  match l with
  | [] => true
  | true :: l' => tuning_prefix l'
  | false :: l' => forallb negb l'
  end.

Definition wf_hist (sc : schema) (h : list record) : bool :=
  forallb (record_ok sc) h && tuning_prefix (map r_tuning h).

Fixpoint mem_str (n : string) (l : list string) : bool :=
  match l with [] => false | x :: l' => String.eqb x n || mem_str n l' end.
Fixpoint nodup_str (l : list string) : bool :=
  match l with [] => true | x :: l' => negb (mem_str x l') && nodup_str l' end.

Definition wf_schema (sc : schema) : bool :=
  nodup_str (map f_name (sc_stats sc)) && nodup_str (map f_name (sc_draws sc)).

(* ---------------------------------------------------------------------------------------- *)
(* Shared by HashMap / ndarray / Zarr: `for (name, value) in entries { push(name, value) }`   *)
(* ---------------------------------------------------------------------------------------- *)
Section PushEntries.
  Context {A : Type}.
  Variable upd : A -> val -> option A.
  (* strict = true: a missing value is a panic / Err ("Missing draw value") *)
  Fixpoint push_entries (strict : bool) (m : amap A) (es : list entry) : option (amap A) :=
    match es with
    | [] => Some m
    | (n, Some v) :: es' =>
        if skip_name n then push_entries strict m es'
        else match aupdate n (fun a => upd a v) m with
             | Some m' => push_entries strict m' es'
             | None => None
             end
    | (n, None) :: es' => if strict then None else push_entries strict m es'
    end.
End PushEntries.

(* ---------------------------------------------------------------------------------------- *)
(* HashMap backend (hashmap.rs)                                                               *)
(* ---------------------------------------------------------------------------------------- *)
(* HashMapValue: a typed flat vector *)
Notation hcont := (ty * list token)%type (only parsing).

(* HashMapValue::push: every (container type, value type) pair with equal item types is
   accepted (scalars pushed, vectors extended); anything else panics "Mismatched item type" *)
Definition hc_push (c : hcont) (v : val) : option hcont :=
  if ty_eqb (fst c) (v_ty v) then Some (fst c, snd c ++ v_items v) else None.

Definition hm_new (fs : list field) : amap hcont := map (fun f => (f_name f, (f_ty f, []))) fs.

Record hm_state := mkHm {
  hm_ws : amap hcont; hm_ss : amap hcont;   (* warmup_stats, sample_stats *)
  hm_wd : amap hcont; hm_sd : amap hcont    (* warmup_draws, sample_draws *)
}.

Definition hm_init (sc : schema) : hm_state :=
  mkHm (hm_new (sc_stats sc)) (hm_new (sc_stats sc)) (hm_new (sc_draws sc)) (hm_new (sc_draws sc)).

(* record_sample: stats with None are skipped, a draw with None panics *)
Definition hm_record (st : hm_state) (r : record) : option hm_state :=
  if r_tuning r then
    match push_entries hc_push false (hm_ws st) (r_stats r) with
    | Some ws => match push_entries hc_push true (hm_wd st) (r_draws r) with
                 | Some wd => Some (mkHm ws (hm_ss st) wd (hm_sd st))
                 | None => None end
    | None => None end
  else
    match push_entries hc_push false (hm_ss st) (r_stats r) with
    | Some ss => match push_entries hc_push true (hm_sd st) (r_draws r) with
                 | Some sd => Some (mkHm (hm_ws st) ss (hm_wd st) sd)
                 | None => None end
    | None => None end.

(* finalize: for every key of the warmup map: warmup ++ sample (panic on a type mismatch) *)
Fixpoint hm_combine (w s : amap hcont) : option (amap hcont) :=
  match w with
  | [] => Some []
  | (k, (t, xs)) :: w' =>
      match alookup k s with
      | None => None
      | Some (t', ys) =>
          if ty_eqb t t' then
            match hm_combine w' s with Some r => Some ((k, (t, xs ++ ys)) :: r) | None => None end
          else None
      end
  end.

Notation hm_result := (amap (ty * list token) * amap (ty * list token))%type (only parsing).   (* HashMapResult {stats, draws} *)

Definition hm_finalize (st : hm_state) : option hm_result :=
  match hm_combine (hm_ws st) (hm_ss st), hm_combine (hm_wd st) (hm_sd st) with
  | Some s, Some d => Some (s, d)
  | _, _ => None
  end.

(* inspect = self.clone().finalize() *)
Definition hm_run (sc : schema) (h : list record) : option hm_result :=
  match fold_opt hm_record (hm_init sc) h with Some st => hm_finalize st | None => None end.

Definition hm_read (res : hm_result) (k : kind) (n : string) : option hcont :=
  alookup n (match k with Stats => fst res | Draws => snd res end).

(* ---------------------------------------------------------------------------------------- *)
(* Arrow backend (arrow.rs)                                                                   *)
(* ---------------------------------------------------------------------------------------- *)
(* one builder: Scalar(primitive builder) or Tensor(LargeListBuilder); rows are None = null *)
Record acol := mkAcol {
  ac_name : string; ac_ty : ty; ac_tensor : bool; ac_rows : list (option (list token))
}.

Definition ac_with (c : acol) (rows : list (option (list token))) : acol :=
  mkAcol (ac_name c) (ac_ty c) (ac_tensor c) rows.

(* ArrowBuilder::append_value.  Scalar builder: a vector value of a numeric type asserts
   len == 1; a Strings value appends ONE ROW PER ITEM (no assertion).  Tensor builder: the items
   go to the child builder, then `list_builder.append(true)` closes one row. *)
Definition ac_append (c : acol) (v : val) : option acol :=
  if ty_eqb (ac_ty c) (v_ty v) then
    if ac_tensor c then Some (ac_with c (ac_rows c ++ [Some (v_items v)]))
    else if v_scalar v then Some (ac_with c (ac_rows c ++ [Some (v_items v)]))
    else match v_ty v with
         | TStr => Some (ac_with c (ac_rows c ++ map (fun t => Some [t]) (v_items v)))
         | _ => if length (v_items v) =? 1 then Some (ac_with c (ac_rows c ++ [Some (v_items v)]))
                else None
         end
  else None.

Definition ac_null (c : acol) : acol := ac_with c (ac_rows c ++ [None]).

(* stats.into_iter().zip(builders.iter_mut()): positional, stops at the shorter list,
   panics on a name mismatch *)
Fixpoint ac_zip (es : list entry) (cs : list acol) : option (list acol) :=
  match es, cs with
  | (n, ov) :: es', c :: cs' =>
      if String.eqb n (ac_name c) then
        match (match ov with Some v => ac_append c v | None => Some (ac_null c) end) with
        | Some c' => match ac_zip es' cs' with Some r => Some (c' :: r) | None => None end
        | None => None
        end
      else None
  | _, cs => Some cs
  end.

Record ar_state := mkAr { ar_stats : list acol; ar_draws : list acol; ar_count : nat }.

Definition ar_new (fs : list field) : list acol :=
  map (fun f => mkAcol (f_name f) (f_ty f) (negb (f_scalar f)) []) fs.

Definition ar_init (sc : schema) : ar_state := mkAr (ar_new (sc_stats sc)) (ar_new (sc_draws sc)) 0.

Definition ar_record (store_warmup : bool) (st : ar_state) (r : record) : option ar_state :=
  if negb store_warmup && r_tuning r then Some st
  else match ac_zip (r_stats r) (ar_stats st) with
       | Some s => match ac_zip (r_draws r) (ar_draws st) with
                   | Some d => Some (mkAr s d (S (ar_count st)))
                   | None => None end
       | None => None end.

(* RecordBatch::try_new_with_options(row_count = draw_count): every column must have that
   many rows.  inspect() does the same on finish_cloned() copies. *)
Definition ar_finalize (st : ar_state) : option ar_state :=
  if forallb (fun c => length (ac_rows c) =? ar_count st) (ar_stats st)
     && forallb (fun c => length (ac_rows c) =? ar_count st) (ar_draws st)
  then Some st else None.

Definition ar_run (store_warmup : bool) (sc : schema) (h : list record) : option ar_state :=
  match fold_opt (ar_record store_warmup) (ar_init sc) h with
  | Some st => ar_finalize st
  | None => None
  end.

Fixpoint ac_find (n : string) (cs : list acol) : option acol :=
  match cs with [] => None | c :: cs' => if String.eqb (ac_name c) n then Some c else ac_find n cs' end.

Definition ar_column (st : ar_state) (k : kind) (n : string) : option acol :=
  ac_find n (match k with Stats => ar_stats st | Draws => ar_draws st end).

Definition non_null {A} (rows : list (option A)) : list A :=
  flat_map (fun r => match r with Some x => [x] | None => [] end) rows.

(* ---------------------------------------------------------------------------------------- *)
(* ndarray backend (ndarray.rs), one chain's slice [chain, .., ..] of every array             *)
(* ---------------------------------------------------------------------------------------- *)
Definition fill_tok (t : ty) : token := match t with TStr => TS "" | _ => TN 0 end.

Record ndarr := mkNd { nd_ty : ty; nd_shape : list nat; nd_rows : list (list token) }.

Fixpoint set_nth {A} (i : nat) (x : A) (l : list A) : list A :=
  match l, i with
  | [], _ => []
  | _ :: l', O => x :: l'
  | y :: l', S i' => y :: set_nth i' x l'
  end.

(* arrays for every field except draw/chain, shape [n_chains, n_tune + n_draws, extra dims] *)
Definition nd_new (total : nat) (fs : list field) : amap ndarr :=
  flat_map (fun f =>
    if skip_name (f_name f) then []
    else [(f_name f, mkNd (f_ty f) (f_shape f) (repeat (repeat (fill_tok (f_ty f)) (f_len f)) total))]) fs.

(* NdarrayValue::set_value at [chain, current_draw]: the item types must agree (Err "Mismatched
   item type"); a scalar needs a 2-d array (IxDyn index of length 2); a vector is written through
   slice_mut(s![chain, draw, ..]) = exactly ONE extra dim (an array with two or more extra dims
   makes the slice / index panic), `view[i] = v[i]` panics past the end *)
Definition nd_set (i : nat) (a : ndarr) (v : val) : option ndarr :=
  if ty_eqb (nd_ty a) (v_ty v) && (i <? length (nd_rows a)) then
    if v_scalar v then
      match nd_shape a with
      | [] => Some (mkNd (nd_ty a) (nd_shape a) (set_nth i (v_items v) (nd_rows a)))
      | _ => None
      end
    else
      match nd_shape a with
      | [n] => if length (v_items v) <=? n then
                 Some (mkNd (nd_ty a) (nd_shape a)
                         (set_nth i (v_items v ++ skipn (length (v_items v)) (nth i (nd_rows a) []))
                                  (nd_rows a)))
               else None
      | _ => None
      end
  else None.

Record nd_state := mkNdS { nd_stats : amap ndarr; nd_draws : amap ndarr; nd_cur : nat }.

(* new_trace, parameterised by the fields the draw arrays are created from *)
Definition nd_init_with (total : nat) (sfs dfs : list field) : nd_state :=
  mkNdS (nd_new total sfs) (nd_new total dfs) 0.

(* new_trace: statistics arrays from stat_dims_all / stat_types, draw arrays from
   data_dims_all / data_types *)
Definition nd_init (total : nat) (sc : schema) : nd_state :=
  nd_init_with total (sc_stats sc) (sc_draws sc).
(* the code before the fix "ndarray storage allocates the draw arrays from the draw schema":
   both loops iterated the statistics schema *)
Definition nd_init_before_fix (total : nat) (sc : schema) : nd_state :=
  nd_init_with total (sc_stats sc) (sc_stats sc).

Definition nd_record (st : nd_state) (r : record) : option nd_state :=
  match push_entries (nd_set (nd_cur st)) false (nd_stats st) (r_stats r) with
  | Some s => match push_entries (nd_set (nd_cur st)) true (nd_draws st) (r_draws r) with
              | Some d => Some (mkNdS s d (S (nd_cur st)))
              | None => None end
  | None => None end.

Definition nd_run (total : nat) (sc : schema) (h : list record) : option nd_state :=
  fold_opt nd_record (nd_init total sc) h.
Definition nd_run_before_fix (total : nat) (sc : schema) (h : list record) : option nd_state :=
  fold_opt nd_record (nd_init_before_fix total sc) h.

Definition nd_read (st : nd_state) (k : kind) (n : string) : option ndarr :=
  alookup n (match k with Stats => nd_stats st | Draws => nd_draws st end).

(* ---------------------------------------------------------------------------------------- *)
(* CSV backend (csv.rs)                                                                       *)
(* ---------------------------------------------------------------------------------------- *)
(* a cell: format_value(scalar of type t with token x), "NA", or the divergent__ column *)
Inductive cell := CVal (t : ty) (x : token) | CNA | CZero | COne.

(* format_value: a scalar is printed, a vector prints its first element ("NA" when empty) *)
Definition fmt_value (v : val) : cell :=
  match v_items v with x :: _ => CVal (v_ty v) x | [] => CNA end.

(* the lookup maps are HashMaps collected from the argument vectors: the LAST duplicate wins *)
Definition lookup_last (n : string) (es : list entry) : option val := lookup_entry n (rev es).

Definition csv_stat (es : list entry) (n : string) : cell :=
  match lookup_last n es with Some v => fmt_value v | None => CNA end.

Definition csv_divergent (es : list entry) : cell :=
  match lookup_last "diverging" es with
  | Some v => match v_scalar v, v_ty v, v_items v with
              | true, TBool, [TN 1%Z] => COne
              | _, _, _ => CZero
              end
  | None => CZero
  end.

Definition csv_numeric (t : ty) : bool :=
  match t with TF64 | TF32 | TI64 | TU64 => true | _ => false end.

(* cartesian_product_recursive_with_indices: multi-indices in lexicographic order (first index
   slowest) and their row-major linear index *)
Fixpoint cart (ds : list nat) : list (list nat) :=
  match ds with
  | [] => [[]]
  | d :: ds' => flat_map (fun i => map (cons i) (cart ds')) (seq 0 d)
  end.
Fixpoint lin_index (ds idx : list nat) : nat :=
  match ds, idx with
  | _ :: ds', i :: idx' => i * fold_right Nat.mul 1 ds' + lin_index ds' idx'
  | _, _ => 0
  end.

Definition nat_str (n : nat) : string := NilEmpty.string_of_uint (Nat.to_uint n).
Fixpoint join_dot (l : list string) : string :=
  match l with [] => "" | [x] => x | x :: l' => (x ++ "." ++ join_dot l')%string end.

(* generate_parameter_names_and_mapping without coordinates: only F64/F32/I64/U64 variables get
   columns; a scalar is `name` -> (name, 0), a tensor `name.i.j` (1-based) -> (name, linear index) *)
Definition csv_field_columns (f : field) : list (string * (string * nat)) :=
  if csv_numeric (f_ty f) then
    match f_shape f with
    | [] => [(f_name f, (f_name f, 0))]
    | ds => map (fun idx => ((f_name f ++ "." ++ join_dot (map (fun i => nat_str (S i)) idx))%string,
                             (f_name f, lin_index ds idx))) (cart ds)
    end
  else [].

Definition csv_columns (dfs : list field) : list (string * (string * nat)) :=
  flat_map csv_field_columns dfs.
Definition csv_mapping (dfs : list field) : list (string * nat) := map snd (csv_columns dfs).

Definition csv_fixed_header : list string :=
  ["lp__"; "accept_stat__"; "stepsize__"; "treedepth__"; "n_leapfrog__"; "divergent__"; "energy__"].
Definition csv_header (dfs : list field) : list string := csv_fixed_header ++ map fst (csv_columns dfs).

(* write_sample_row: a parameter cell *)
Definition csv_param (draws : list entry) (dn : string) (i : nat) : cell :=
  match lookup_last dn draws with
  | Some v =>
      if negb (v_scalar v) && csv_numeric (v_ty v) then
        match nth_error (v_items v) i with Some x => CVal (v_ty v) x | None => CNA end
      else if i =? 0 then fmt_value v else CNA
  | None => CNA
  end.

Definition csv_row (mapping : list (string * nat)) (r : record) : list cell :=
  [csv_stat (r_stats r) "logp"; csv_stat (r_stats r) "mean_tree_accept";
   csv_stat (r_stats r) "step_size"; csv_stat (r_stats r) "depth"; csv_stat (r_stats r) "n_steps";
   csv_divergent (r_stats r); csv_stat (r_stats r) "energy"]
  ++ map (fun p => csv_param (r_draws r) (fst p) (snd p)) mapping.

(* the file: header written with the first stored sample *)
Record csv_state := mkCsv { csv_first : bool; csv_lines : list (list cell) }.

Definition csv_record (store_warmup : bool) (mapping : list (string * nat)) (st : csv_state) (r : record)
  : csv_state :=
  if r_tuning r && negb store_warmup then st
  else mkCsv false (csv_lines st ++ [csv_row mapping r]).

Definition csv_run (store_warmup : bool) (sc : schema) (h : list record) : csv_state :=
  fold_left (csv_record store_warmup (csv_mapping (sc_draws sc))) h (mkCsv true []).

(* (header line if any, data rows) *)
Definition csv_file (sc : schema) (st : csv_state) : option (list string) * list (list cell) :=
  ((if csv_first st then None else Some (csv_header (sc_draws sc))), csv_lines st).

Definition column {A} (d : A) (j : nat) (rows : list (list A)) : list A := map (fun r => nth j r d) rows.

(* ---------------------------------------------------------------------------------------- *)
(* Zarr backend (zarr/common.rs SampleBuffer, zarr/{sync,async}_impl.rs), one chain           *)
(* ---------------------------------------------------------------------------------------- *)
Notation row := (list token) (only parsing).

(* per variable: its SampleBuffer and this chain's slice of the warmup / sample arrays *)
Record zcol := mkZ {
  zc_ty : ty; zc_fill : row;
  zc_buf : list row; zc_chunk : nat;      (* items (one row per push), current_chunk *)
  zc_warm : list row; zc_samp : list row  (* rows written so far *)
}.

(* a write of `rs` at row offset `off`; unwritten rows read as the fill value *)
Definition zwrite (fillrow : row) (a : list row) (off : nat) (rs : list row) : list row :=
  firstn off (a ++ repeat fillrow (off - length a)) ++ rs ++ skipn (off + length rs) a.

(* finish_chunk + store_zarr_chunk (store_chunk / store_chunk_subset / the string path all
   write rows [chunk_idx * chunk_size, +len)) *)
Definition z_emit (cs : nat) (warm : bool) (c : zcol) : zcol :=
  if warm then mkZ (zc_ty c) (zc_fill c) [] (S (zc_chunk c))
                   (zwrite (zc_fill c) (zc_warm c) (zc_chunk c * cs) (zc_buf c)) (zc_samp c)
  else mkZ (zc_ty c) (zc_fill c) [] (S (zc_chunk c)) (zc_warm c)
           (zwrite (zc_fill c) (zc_samp c) (zc_chunk c * cs) (zc_buf c)).

(* SampleBuffer::push: `assert!(len < full_at)`; Value::Strings has NO arm (panic) *)
Definition z_push (cs : nat) (warm : bool) (c : zcol) (v : val) : option zcol :=
  if (length (zc_buf c) <? cs) && ty_eqb (zc_ty c) (v_ty v)
     && negb (ty_eqb (v_ty v) TStr && negb (v_scalar v)) then
    let c' := mkZ (zc_ty c) (zc_fill c) (zc_buf c ++ [v_items v]) (zc_chunk c) (zc_warm c) (zc_samp c) in
    if length (zc_buf c') =? cs then Some (z_emit cs warm c') else Some c'
  else None.

(* SampleBuffer::reset + store *)
Definition z_reset (cs : nat) (warm : bool) (c : zcol) : zcol :=
  match zc_buf c with
  | [] => mkZ (zc_ty c) (zc_fill c) [] 0 (zc_warm c) (zc_samp c)
  | _ => let c' := z_emit cs warm c in mkZ (zc_ty c') (zc_fill c') [] 0 (zc_warm c') (zc_samp c')
  end.

Definition z_total_pushed (cs : nat) (c : zcol) : nat := zc_chunk c * cs + length (zc_buf c).

(* create_arrays: fill value NaN for floats (bit patterns 0x7ff8000000000000 / 0x7fc00000),
   0 / false / "" otherwise *)
Definition zfill_tok (t : ty) : token :=
  match t with
  | TF64 => TN 9221120237041090560%Z
  | TF32 => TN 2143289344%Z
  | TStr => TS ""
  | _ => TN 0%Z
  end.
Definition z_new (fs : list field) : amap zcol :=
  map (fun f => (f_name f, mkZ (f_ty f) (repeat (zfill_tok (f_ty f)) (f_len f)) [] 0 [] [])) fs.

(* event_dim_of_stat: (field, event dimension) for every event statistic *)
Definition ev_fields (sc : schema) : list (string * string) :=
  flat_map (fun f => match f_event f with Some d => [(f_name f, d)] | None => [] end) (sc_stats sc).
Definition ev_dims (evs : list (string * string)) : list string := nodup string_dec (map snd evs).

(* `for (field, dim) in &event_dim_of_stat { counts[dim] = max(counts[dim], total_pushed(field)) }` *)
Definition z_dim_count (cs : nat) (evs : list (string * string)) (stats : amap zcol) (d : string) : nat :=
  fold_right Nat.max 0
    (map (fun p => if String.eqb (snd p) d
                   then match alookup (fst p) stats with Some c => z_total_pushed cs c | None => 0 end
                   else 0) evs).
Definition z_counts (cs : nat) (evs : list (string * string)) (stats : amap zcol) : amap nat :=
  map (fun d => (d, z_dim_count cs evs stats d)) (ev_dims evs).

Record z_state := mkZS {
  z_stats : amap zcol; z_draws : amap zcol; z_last_warm : bool; z_wcounts : amap nat
}.

Definition z_init (sc : schema) : z_state := mkZS (z_new (sc_stats sc)) (z_new (sc_draws sc)) true [].

Definition z_record (cs : nat) (evs : list (string * string)) (st : z_state) (r : record)
  : option z_state :=
  let st1 :=
    if z_last_warm st && negb (r_tuning r) then
      mkZS (amap_map (z_reset cs true) (z_stats st)) (amap_map (z_reset cs true) (z_draws st)) false
           (z_counts cs evs (z_stats st))
    else st in
  match push_entries (z_push cs (r_tuning r)) false (z_stats st1) (r_stats r) with
  | Some s => match push_entries (z_push cs (r_tuning r)) true (z_draws st1) (r_draws r) with
              | Some d => Some (mkZS s d (z_last_warm st1) (z_wcounts st1))
              | None => None end
  | None => None end.

Definition count_or0 (d : string) (m : amap nat) : nat := match alookup d m with Some n => n | None => 0 end.

(* ChainStorage::finalize: (arrays after the last reset, per event dim (warmup, sample) counts);
   a chain that is finalized while still in warmup has only warmup events *)
Definition z_chain_counts (cs : nat) (evs : list (string * string)) (st : z_state)
  : list (string * (nat * nat)) :=
  let cur := z_counts cs evs (z_stats st) in
  map (fun d => (d, if z_last_warm st then (count_or0 d cur, 0)
                    else (count_or0 d (z_wcounts st), count_or0 d cur))) (ev_dims evs).

Definition z_chain_finalize (cs : nat) (evs : list (string * string)) (st : z_state)
  : z_state * list (string * (nat * nat)) :=
  let w := z_last_warm st in
  (mkZS (amap_map (z_reset cs w) (z_stats st)) (amap_map (z_reset cs w) (z_draws st)) w (z_wcounts st),
   z_chain_counts cs evs st).

(* ChainStorage::inspect: the same counts, nothing is written *)
Definition z_chain_inspect := z_chain_counts.

Definition z_run (cs : nat) (sc : schema) (h : list record)
  : option (z_state * list (string * (nat * nat))) :=
  match fold_opt (z_record cs (ev_fields sc)) (z_init sc) h with
  | Some st => Some (z_chain_finalize cs (ev_fields sc) st)
  | None => None
  end.

(* TraceStorage::finalize: event arrays are resized to the maximum count over the chains,
   other arrays keep the declared length (n_tune / n_draws) *)
Definition z_max (sel : nat * nat -> nat) (d : string) (all : list (list (string * (nat * nat)))) : nat :=
  fold_right Nat.max 0 (map (fun cnts => match alookup d cnts with Some p => sel p | None => 0 end) all).

Definition z_len (n_tune n_draws : nat) (all : list (list (string * (nat * nat)))) (f : field) (warm : bool)
  : nat :=
  match f_event f with
  | Some d => z_max (if warm then fst else snd) d all
  | None => if warm then n_tune else n_draws
  end.

(* reading N rows of an array back: written rows, fill values beyond them *)
Definition z_read (fillrow : row) (n : nat) (rows : list row) : list row :=
  firstn n (rows ++ repeat fillrow (n - length rows)).

Definition z_array (st : z_state) (k : kind) (n : string) (warm : bool) : option (list row) :=
  match alookup n (match k with Stats => z_stats st | Draws => z_draws st end) with
  | Some c => Some (if warm then zc_warm c else zc_samp c)
  | None => None
  end.

(* the store_warmup flag of ZarrConfig / ZarrAsyncConfig is stored and never read *)
Definition z_run_cfg (store_warmup : bool) := z_run.

(* ---------------------------------------------------------------------------------------- *)
(* Plain output forms for the correspondence check                                            *)
(* ---------------------------------------------------------------------------------------- *)
Definition tok_out (t : token) : Z * string := match t with TN z => (z, "") | TS s => ((-1)%Z, s) end.
Definition ty_out (t : ty) : Z :=
  match t with TF64 => 0 | TF32 => 1 | TI64 => 2 | TU64 => 3 | TBool => 4 | TStr => 5 end%Z.
Definition row_out (r : row) := map tok_out r.

Definition hm_out (sc : schema) (h : list record) :=
  match hm_run sc h with
  | None => None
  | Some (s, d) =>
      Some (map (fun p => (fst p, ty_out (fst (snd p)), row_out (snd (snd p)))) s,
            map (fun p => (fst p, ty_out (fst (snd p)), row_out (snd (snd p)))) d)
  end.

Definition acol_out (c : acol) :=
  (ac_name c, ty_out (ac_ty c), ac_tensor c,
   map (fun r => match r with Some x => Some (row_out x) | None => None end) (ac_rows c)).
Definition ar_out (sw : bool) (sc : schema) (h : list record) :=
  match ar_run sw sc h with
  | None => None
  | Some st => Some (ar_count st, map acol_out (ar_stats st), map acol_out (ar_draws st))
  end.

Definition nd_out (total : nat) (sc : schema) (h : list record) :=
  match nd_run total sc h with
  | None => None
  | Some st =>
      Some (map (fun p => (fst p, ty_out (nd_ty (snd p)), map row_out (nd_rows (snd p)))) (nd_stats st),
            map (fun p => (fst p, ty_out (nd_ty (snd p)), map row_out (nd_rows (snd p)))) (nd_draws st))
  end.
(* index of the first record the as-written backend rejects *)
Fixpoint nd_first_failure (st : nd_state) (h : list record) (i : nat) : option nat :=
  match h with
  | [] => None
  | r :: h' => match nd_record st r with Some st' => nd_first_failure st' h' (S i) | None => Some i end
  end.

Definition cell_out (c : cell) : Z * (Z * string) :=
  match c with
  | CVal t x => (ty_out t, tok_out x)
  | CNA => ((-1)%Z, (0%Z, "NA"))
  | CZero => ((-1)%Z, (0%Z, "0"))
  | COne => ((-1)%Z, (0%Z, "1"))
  end.
Definition csv_out (sw : bool) (sc : schema) (h : list record) :=
  let f := csv_file sc (csv_run sw sc h) in
  (fst f, map (map cell_out) (snd f)).

Definition zcol_out (p : string * zcol) :=
  (fst p, map row_out (zc_warm (snd p)), map row_out (zc_samp (snd p))).
Definition z_out (cs : nat) (sc : schema) (h : list record) :=
  match z_run cs sc h with
  | None => None
  | Some (st, cnts) => Some (map zcol_out (z_stats st), map zcol_out (z_draws st), cnts)
  end.
(* store state at an `inspect` (no flush): only complete chunks are visible *)
Definition z_inspect_out (cs : nat) (sc : schema) (h : list record) :=
  match fold_opt (z_record cs (ev_fields sc)) (z_init sc) h with
  | None => None
  | Some st => Some (map zcol_out (z_stats st), map zcol_out (z_draws st), z_chain_inspect cs (ev_fields sc) st)
  end.

Definition wf_out (sc : schema) (h : list record) : bool * bool := (wf_schema sc, wf_hist sc h).
