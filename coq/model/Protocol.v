(* Labelled transition system of the parallel sampler (src/sampler.rs: Sampler::{new, pause, resume,
   progress, flush, inspect, abort, wait_timeout}, the controller's main loop, ChainProcess::start's
   chain loop, finalize_many).  One transition per schedule point logged by the cfg(nuts_rs_verif)
   instrumentation; `step` decides whether an observed event is possible in the current state and
   computes the next state, so that recorded event histories of real runs can be replayed.

   Atomic actions (each performed by the code while holding the event-log lock, or under the trace
   mutex): try_recv on the chain's mailbox, send into a mailbox, the trace-slot critical section
   (record / find it gone), sending the chain result.  Channels: the per-chain mailbox is an
   unbounded FIFO (std::sync::mpsc::channel); commands/responses are rendezvous channels
   (sync_channel(0)), modelled by the pair of user events call_X / ret_X around the controller's
   cmd event. *)
From Coq Require Import ZArith NArith Bool List Lia.
Import ListNotations.

Inductive msg := MPause | MResume.
Inductive rcv := REmpty | RMsg (m : msg) | RDisc.

Definition rcv_of_code (c : Z) : option rcv :=
  match c with
  | 0%Z => Some REmpty | 1%Z => Some (RMsg MPause) | 2%Z => Some (RMsg MResume) | 3%Z => Some RDisc
  | _ => None
  end.

Inductive cpc :=
| PQueued            (* task spawned, not yet running *)
| PStarted           (* chain constructed and initialised, before the first try_recv *)
| PTop (r : rcv)     (* at the top of the loop with the message just received *)
| PBlocked           (* in the blocking recv after a Pause *)
| PDrawing           (* inside expanded_draw *)
| PDrawn             (* draw computed, about to take the trace lock *)
| PAfter             (* recorded, about to try_recv *)
| PFinishing         (* left the loop normally, about to send Ok *)
| PDone (ok : bool). (* result sent *)

Record chain := {
  c_pc : cpc;
  c_mail : list msg;       (* mailbox, oldest first *)
  c_tx : bool;             (* the controller still holds the sender *)
  c_draw : nat;            (* loop counter `draw` *)
  c_rec : list nat;        (* draw numbers recorded into the trace, oldest first *)
  c_slot : bool;           (* trace slot still holds the chain storage *)
  c_since_pause : nat      (* ghost: draws recorded since the last completed pause() *)
}.

Inductive cmd := KPause | KResume | KProgress | KFlush | KInspect.
Definition cmd_of_code (c : Z) : option cmd :=
  match c with
  | 1%Z => Some KPause | 2%Z => Some KResume | 3%Z => Some KProgress | 4%Z => Some KFlush
  | 5%Z => Some KInspect | _ => None
  end.

Inductive kpc :=
| KLoop
| KHandling (c : cmd) (next : nat)   (* forwarding Pause / Resume to chain `next` *)
| KResponding (c : cmd)              (* about to hand the response to the user *)
| KDisconnected                      (* saw the command channel closed *)
| KFinalizing
| KFinished.

Inductive upc :=
| UIdle
| UCalling (c : cmd)     (* call_X logged; blocked in send/recv until ret_X *)
| UWaiting               (* inside wait_timeout *)
| UAborting              (* abort(): command sender dropped, joining *)
| UGone.                 (* sampler consumed: trace or error returned *)

Record st := {
  s_chains : list chain;
  s_ctl : kpc;
  s_user : upc;
  s_cmd_open : bool;       (* the user still holds the command sender *)
  s_results : list bool;   (* results channel content (oldest first) *)
  s_total : nat;           (* num_tune + num_draws *)
  s_paused : bool;         (* ghost: a pause() completed and no resume() since *)
  s_ctl_ok : bool          (* main_loop result *)
}.

Definition chain0 : chain :=
  {| c_pc := PQueued; c_mail := []; c_tx := true; c_draw := 0; c_rec := []; c_slot := true;
     c_since_pause := 0 |}.

Definition init (nchains total : nat) : st :=
  {| s_chains := repeat chain0 nchains; s_ctl := KLoop; s_user := UIdle; s_cmd_open := true;
     s_results := []; s_total := total; s_paused := false; s_ctl_ok := true |}.

Fixpoint upd {A} (l : list A) (i : nat) (x : A) : list A :=
  match l, i with
  | [], _ => []
  | _ :: t, O => x :: t
  | h :: t, S i' => h :: upd t i' x
  end.

Definition set_pc (c : chain) (p : cpc) : chain :=
  {| c_pc := p; c_mail := c_mail c; c_tx := c_tx c; c_draw := c_draw c; c_rec := c_rec c;
     c_slot := c_slot c; c_since_pause := c_since_pause c |}.
Definition set_chains (s : st) (l : list chain) : st :=
  {| s_chains := l; s_ctl := s_ctl s; s_user := s_user s; s_cmd_open := s_cmd_open s;
     s_results := s_results s; s_total := s_total s; s_paused := s_paused s; s_ctl_ok := s_ctl_ok s |}.
Definition set_ctl (s : st) (k : kpc) : st :=
  {| s_chains := s_chains s; s_ctl := k; s_user := s_user s; s_cmd_open := s_cmd_open s;
     s_results := s_results s; s_total := s_total s; s_paused := s_paused s; s_ctl_ok := s_ctl_ok s |}.
Definition set_user (s : st) (u : upc) : st :=
  {| s_chains := s_chains s; s_ctl := s_ctl s; s_user := u; s_cmd_open := s_cmd_open s;
     s_results := s_results s; s_total := s_total s; s_paused := s_paused s; s_ctl_ok := s_ctl_ok s |}.

(* what a receive on the mailbox returns: buffered messages first, then Empty / Disconnected *)
Definition recv_now (c : chain) : rcv * list msg :=
  match c_mail c with
  | m :: rest => (RMsg m, rest)
  | [] => (if c_tx c then REmpty else RDisc, [])
  end.

Definition rcv_eqb (a b : rcv) : bool :=
  match a, b with
  | REmpty, REmpty | RDisc, RDisc | RMsg MPause, RMsg MPause | RMsg MResume, RMsg MResume => true
  | _, _ => false
  end.

Inductive cev :=
| EStarted | ETryRecv (r : rcv) | EBlock | ERecv (r : rcv) | EBeforeDraw (d : nat) | EDrawn (d : nat)
| ETraceGone (d : nat) | ERecorded (d : nat) | EResult (ok : bool).

(* the controller takes a trace slot (and thereby drops that chain's sender) at some moment of
   finalize_many that is not logged: it is inferred when a chain observes its effect *)
Definition taking (s : st) : bool :=
  match s_ctl s with KFinalizing => true | _ => false end.

Definition chain_step (s : st) (i : nat) (e : cev) : option st :=
  match nth_error (s_chains s) i with
  | None => None
  | Some c =>
      let put c' := Some (set_chains s (upd (s_chains s) i c')) in
      let finish (c' : chain) (ok : bool) :=
        Some {| s_chains := upd (s_chains s) i (set_pc c' (PDone ok)); s_ctl := s_ctl s;
                s_user := s_user s; s_cmd_open := s_cmd_open s; s_results := s_results s ++ [ok];
                s_total := s_total s; s_paused := s_paused s; s_ctl_ok := s_ctl_ok s |} in
      match e, c_pc c with
      | EStarted, PQueued => put (set_pc c PStarted)
      | ETryRecv r, (PStarted | PAfter) =>
          (* a Disconnected answer during finalisation reveals that the slot was taken *)
          let c1 := if taking s && rcv_eqb r RDisc && negb (match c_mail c with [] => false | _ => true end)
                    then {| c_pc := c_pc c; c_mail := c_mail c; c_tx := false; c_draw := c_draw c;
                            c_rec := c_rec c; c_slot := false; c_since_pause := c_since_pause c |}
                    else c in
          let '(r', rest) := recv_now c1 in
          if rcv_eqb r r'
          then put {| c_pc := PTop r; c_mail := rest; c_tx := c_tx c1; c_draw := c_draw c1;
                      c_rec := c_rec c1; c_slot := c_slot c1; c_since_pause := c_since_pause c1 |}
          else None
      | EBlock, PTop (RMsg MPause) =>
          if c_draw c <? s_total s then put (set_pc c PBlocked) else None
      | ERecv r, PBlocked =>
          let c1 := if taking s && rcv_eqb r RDisc && negb (match c_mail c with [] => false | _ => true end)
                    then {| c_pc := c_pc c; c_mail := c_mail c; c_tx := false; c_draw := c_draw c;
                            c_rec := c_rec c; c_slot := false; c_since_pause := c_since_pause c |}
                    else c in
          let '(r', rest) := recv_now c1 in
          if rcv_eqb r r' && negb (rcv_eqb r REmpty)
          then put {| c_pc := PTop r; c_mail := rest; c_tx := c_tx c1; c_draw := c_draw c1;
                      c_rec := c_rec c1; c_slot := c_slot c1; c_since_pause := c_since_pause c1 |}
          else None
      | EBeforeDraw d, PTop (REmpty | RMsg MResume) =>
          if (c_draw c <? s_total s) && (d =? c_draw c) then put (set_pc c PDrawing) else None
      | EDrawn d, PDrawing => if d =? c_draw c then put (set_pc c PDrawn) else None
      | ETraceGone d, PDrawn =>
          if (d =? c_draw c) && (negb (c_slot c) || taking s)
          then put {| c_pc := PFinishing; c_mail := c_mail c; c_tx := false; c_draw := c_draw c;
                      c_rec := c_rec c; c_slot := false; c_since_pause := c_since_pause c |}
          else None
      | ERecorded d, PDrawn =>
          if (d =? c_draw c) && c_slot c
          then put {| c_pc := if S (c_draw c) =? s_total s then PFinishing else PAfter;
                      c_mail := c_mail c; c_tx := c_tx c; c_draw := S (c_draw c);
                      c_rec := c_rec c ++ [d]; c_slot := c_slot c;
                      c_since_pause := S (c_since_pause c) |}
          else None
      (* normal end of the loop: draw >= draws at the top, Disconnected, or after the last record *)
      | EResult true, PFinishing => finish c true
      | EResult true, PTop r =>
          if (s_total s <=? c_draw c) || rcv_eqb r RDisc then finish c true else None
      (* failures: density construction / initialisation (before `started`), a draw error, a
         storage error while recording *)
      | EResult false, (PQueued | PStarted | PDrawing | PDrawn) => finish c false
      | _, _ => None
      end
  end.

Inductive kev :=
| ECmd (c : cmd) | ESend (m : msg) (i : nat) (ok : bool) | EDisconnected | EFinalizeStart (ok : bool)
| EFinalizeDone.

Definition push_mail (c : chain) (m : msg) : chain :=
  {| c_pc := c_pc c; c_mail := c_mail c ++ [m]; c_tx := c_tx c; c_draw := c_draw c; c_rec := c_rec c;
     c_slot := c_slot c; c_since_pause := c_since_pause c |}.

Definition is_done (c : chain) : bool := match c_pc c with PDone _ => true | _ => false end.

Definition after_send (s : st) (c : cmd) (next : nat) : kpc :=
  if S next <? length (s_chains s) then KHandling c (S next) else KResponding c.

Definition ctl_step (s : st) (e : kev) : option st :=
  match e, s_ctl s with
  | ECmd c, KLoop =>
      match s_user s with
      | UCalling c' =>
          if match c, c' with
             | KPause, KPause | KResume, KResume | KProgress, KProgress | KFlush, KFlush
             | KInspect, KInspect => true | _, _ => false end
          then Some (set_ctl s (match c with
                                | KPause | KResume =>
                                    if 0 <? length (s_chains s) then KHandling c 0 else KResponding c
                                | _ => KResponding c
                                end))
          else None
      | _ => None
      end
  | ESend m i ok, KHandling c next =>
      if (i =? next) && match m, c with MPause, KPause | MResume, KResume => true | _, _ => false end
      then match nth_error (s_chains s) i with
           | None => None
           | Some ch =>
               if ok
               then Some (set_ctl (set_chains s (upd (s_chains s) i (push_mail ch m))) (after_send s c next))
               else (* send fails only when the receiver is gone: the chain task has ended *)
                 if is_done ch then Some (set_ctl s (after_send s c next)) else None
           end
      else None
  | EDisconnected, KLoop => if s_cmd_open s then None else Some (set_ctl s KDisconnected)
  | EFinalizeStart ok, KDisconnected => if ok then Some (set_ctl s KFinalizing) else None
  (* main_loop failed: the response could not be delivered (user gone) or flush/inspect failed *)
  | EFinalizeStart false, (KResponding _ | KLoop) =>
      Some {| s_chains := s_chains s; s_ctl := KFinalizing; s_user := s_user s;
              s_cmd_open := s_cmd_open s; s_results := s_results s; s_total := s_total s;
              s_paused := s_paused s; s_ctl_ok := false |}
  | EFinalizeDone, KFinalizing =>
      Some (set_ctl (set_chains s (map (fun c =>
              {| c_pc := c_pc c; c_mail := c_mail c; c_tx := false; c_draw := c_draw c;
                 c_rec := c_rec c; c_slot := false; c_since_pause := c_since_pause c |}) (s_chains s)))
            KFinished)
  | _, _ => None
  end.

Inductive uev :=
| ECall (c : cmd) | ERet (c : cmd) (code : Z) | ECallWait | ERetWait (code : Z) | ECallAbort
| ERetAbort (code : Z).

Definition reset_since (s : st) (paused : bool) : st :=
  {| s_chains := map (fun c => {| c_pc := c_pc c; c_mail := c_mail c; c_tx := c_tx c;
                                   c_draw := c_draw c; c_rec := c_rec c; c_slot := c_slot c;
                                   c_since_pause := 0 |}) (s_chains s);
     s_ctl := s_ctl s; s_user := s_user s; s_cmd_open := s_cmd_open s; s_results := s_results s;
     s_total := s_total s; s_paused := paused; s_ctl_ok := s_ctl_ok s |}.

Definition all_done (s : st) : bool := forallb is_done (s_chains s).

Definition cmd_eqb (a b : cmd) : bool :=
  match a, b with
  | KPause, KPause | KResume, KResume | KProgress, KProgress | KFlush, KFlush
  | KInspect, KInspect => true
  | _, _ => false
  end.

Definition user_step (s : st) (e : uev) : option st :=
  match e, s_user s with
  | ECall c, UIdle => Some (set_user s (UCalling c))
  | ERet c code, UCalling c' =>
      match code, s_ctl s with
      | 1%Z, KResponding c'' =>
          (* the response is handed over: both sides continue; the returned command is the pending
             one and the one the controller answers *)
          if cmd_eqb c c' && cmd_eqb c c''
          then
            let s1 := set_ctl (set_user s UIdle) KLoop in
            Some (match c with
                  | KPause => reset_since s1 true
                  | KResume => reset_since s1 false
                  | _ => s1
                  end)
          else None
      | 0%Z, (KFinalizing | KFinished | KDisconnected) =>
          if cmd_eqb c c' then Some (set_user s UIdle) else None  (* controller gone: Err *)
      | _, _ => None
      end
  | ECallWait, UIdle => Some (set_user s UWaiting)
  | ERetWait code, UWaiting =>
      match code with
      | 0%Z => Some (set_user s UIdle)                      (* timeout *)
      | 1%Z =>                                             (* Trace: every result was Ok, all senders gone *)
          if all_done s && forallb (fun b => b) (s_results s) && s_ctl_ok s &&
             match s_ctl s with KFinished => true | _ => false end
          then Some (set_user s UGone) else None
      | 2%Z =>                                             (* Err: the sampler is dropped *)
          if existsb negb (s_results s) || negb (s_ctl_ok s)
          then Some {| s_chains := s_chains s; s_ctl := s_ctl s; s_user := UGone; s_cmd_open := false;
                       s_results := s_results s; s_total := s_total s; s_paused := s_paused s;
                       s_ctl_ok := s_ctl_ok s |}
          else None
      | _ => None
      end
  | ECallAbort, UIdle =>
      Some {| s_chains := s_chains s; s_ctl := s_ctl s; s_user := UAborting; s_cmd_open := false;
              s_results := s_results s; s_total := s_total s; s_paused := s_paused s;
              s_ctl_ok := s_ctl_ok s |}
  | ERetAbort code, UAborting =>
      match s_ctl s, code with
      | KFinished, 1%Z =>   (* Ok((None, trace)): no chain reported an error *)
          if s_ctl_ok s && forallb (fun b => b) (s_results s) then Some (set_user s UGone) else None
      | KFinished, 3%Z =>   (* Ok((Some err, trace)) *)
          if s_ctl_ok s && existsb negb (s_results s) then Some (set_user s UGone) else None
      | KFinished, 2%Z => if s_ctl_ok s then None else Some (set_user s UGone)
      | _, _ => None
      end
  | _, _ => None
  end.

(* wait_timeout's Disconnected branch calls abort(): the command sender is dropped while the user
   is inside wait; this is the only unlogged user action and is inferred at `disconnected` *)
Definition infer_drop (s : st) : st :=
  match s_user s with
  | UWaiting =>
      (* every chain finished (then wait_timeout calls abort) or a chain error was received (then
         wait_timeout returns Err and the sampler is dropped) *)
      if all_done s || existsb negb (s_results s)
      then {| s_chains := s_chains s; s_ctl := s_ctl s; s_user := s_user s; s_cmd_open := false;
              s_results := s_results s; s_total := s_total s; s_paused := s_paused s;
              s_ctl_ok := s_ctl_ok s |}
      else s
  | _ => s
  end.

Inductive ev := EvChain (i : nat) (e : cev) | EvCtl (e : kev) | EvUser (e : uev).

Definition step (s : st) (e : ev) : option st :=
  match e with
  | EvChain i c => chain_step s i c
  | EvCtl EDisconnected => ctl_step (infer_drop s) EDisconnected
  | EvCtl k => ctl_step s k
  | EvUser u => user_step s u
  end.

(* replay: Some final state, or the index of the first event that is not enabled *)
Fixpoint replay (s : st) (evs : list ev) (k : nat) : st + nat :=
  match evs with
  | [] => inl s
  | e :: rest => match step s e with Some s' => replay s' rest (S k) | None => inr k end
  end.

(* ---------------------------------------------------------------------------------------- *)
(* decoding of logged events: (thread, point, chain, arg) as integers                         *)
(* thread: 0 user, 1 ctl, 2 chain.  points: see tools/props/protocol.py                        *)
(* ---------------------------------------------------------------------------------------- *)
Definition decode (t p c a : Z) : option ev :=
  let i := Z.to_nat c in
  let d := Z.to_nat a in
  match t, p with
  | 2, 0 => Some (EvChain i EStarted)
  | 2, 1 => option_map (fun r => EvChain i (ETryRecv r)) (rcv_of_code a)
  | 2, 2 => Some (EvChain i EBlock)
  | 2, 3 => option_map (fun r => EvChain i (ERecv r)) (rcv_of_code a)
  | 2, 4 => Some (EvChain i (EBeforeDraw d))
  | 2, 5 => Some (EvChain i (EDrawn d))
  | 2, 6 => Some (EvChain i (ETraceGone d))
  | 2, 7 => Some (EvChain i (ERecorded d))
  | 2, 8 => Some (EvChain i (EResult (a =? 1)))
  | 1, 0 => option_map (fun k => EvCtl (ECmd k)) (cmd_of_code a)
  | 1, 1 => Some (EvCtl (ESend MPause i (a =? 1)))
  | 1, 2 => Some (EvCtl (ESend MResume i (a =? 1)))
  | 1, 3 => Some (EvCtl EDisconnected)
  | 1, 4 => Some (EvCtl (EFinalizeStart (a =? 1)))
  | 1, 5 => Some (EvCtl EFinalizeDone)
  | 0, 0 => option_map (fun k => EvUser (ECall k)) (cmd_of_code a)
  | 0, 1 => option_map (fun k => EvUser (ERet k (c))) (cmd_of_code a)
  | 0, 2 => Some (EvUser ECallWait)
  | 0, 3 => Some (EvUser (ERetWait a))
  | 0, 4 => Some (EvUser ECallAbort)
  | 0, 5 => Some (EvUser (ERetAbort a))
  | _, _ => None
  end%Z.

Fixpoint decode_all (l : list (Z * Z * Z * Z)) : option (list ev) :=
  match l with
  | [] => Some []
  | (t, p, c, a) :: rest =>
      match decode t p c a, decode_all rest with
      | Some e, Some es => Some (e :: es)
      | _, _ => None
      end
  end.

Definition pc_code (p : cpc) : Z :=
  match p with
  | PQueued => 0 | PStarted => 1 | PTop _ => 2 | PBlocked => 3 | PDrawing => 4 | PDrawn => 5
  | PAfter => 6 | PFinishing => 7 | PDone true => 8 | PDone false => 9
  end%Z.

(* result of a replay: [-1; index] when an event was rejected, otherwise per chain
   [recorded count; draw counter; pc; since_pause] *)
Definition replay_log (nchains total : nat) (l : list (Z * Z * Z * Z)) : list (list Z) :=
  match decode_all l with
  | None => [[(-2)%Z]]
  | Some evs =>
      match replay (init nchains total) evs 0 with
      | inr k => [[(-1)%Z; Z.of_nat k]]
      | inl s =>
          map (fun c => [Z.of_nat (length (c_rec c)); Z.of_nat (c_draw c); pc_code (c_pc c);
                         Z.of_nat (c_since_pause c)]) (s_chains s)
      end
  end.
