(* Model of the low-rank mass-matrix estimator around the faer pipeline (bit-exact binary64):
     rescale_points (entry-wise part), the eigenvalue filter of compute_update, the `< 3 draws`
     guard of adapt                                     (src/transform/adapt/low_rank.rs)
     LowRankMassMatrix::update (finite gate, set_transform, InnerMatrix::new)
                                                        (src/transform/low_rank.rs,
                                                         src/transform/diagonal.rs)
   The decompositions themselves (thin SVD, pivoted QR, self-adjoint eigen) and faer's row sums
   are inputs: their results are taken from the implementation. *)
From Coq Require Import ZArith NArith Bool List.
From NutsV Require Import lib.Fp.
Import ListNotations.

Definition all_finite (l : list f64) : bool := forallb is_finite l.

(* the parameters of a LowRankMassMatrix that a draw can observe *)
Record lrm := {
  lr_stds : list f64;          (* diag.stds *)
  lr_inv : list f64;           (* diag.inv_stds *)
  lr_mean : list f64;          (* diag.mean *)
  lr_inner : option (list f64 * list f64 * list f64);   (* vals_sqrt, vals_sqrt_inv, mu *)
  lr_id : Z
}.

(* update: three early returns (non-finite scales / translation; non-finite eigenvalues /
   eigenvectors; a scale whose reciprocal is not a positive finite number or an eigenvalue that is
   not strictly positive), then set_transform + InnerMatrix::new *)
Definition lr_scale_ok (s : f64) : bool := fgt s fzero && is_finite (frecip s).
Definition lr_val_ok (v : f64) : bool := fgt v fzero.
(* the gate as it was before the repair (finite checks only) *)
Definition lr_gate_finite (stds mean vals : list f64) (vecs : list (list f64)) : bool :=
  all_finite stds && all_finite mean && all_finite vals && forallb all_finite vecs.
Definition lr_gate (stds mean vals : list f64) (vecs : list (list f64)) : bool :=
  lr_gate_finite stds mean vals vecs && forallb lr_scale_ok stds && forallb lr_val_ok vals.

Definition lr_install (st : lrm) (stds mean vals : list f64) (mu : list f64) : lrm :=
  {| lr_stds := stds; lr_inv := map frecip stds; lr_mean := mean;
     lr_inner := Some (map fsqrt vals, map (fun v => frecip (fsqrt v)) vals, mu);
     lr_id := lr_id st + 1 |}.

Definition lr_update (st : lrm) (stds mean vals : list f64) (vecs : list (list f64)) (mu : list f64) : lrm :=
  if lr_gate stds mean vals vecs then lr_install st stds mean vals mu else st.
(* before the repair *)
Definition lr_update_prefix (st : lrm) (stds mean vals : list f64) (vecs : list (list f64)) (mu : list f64) : lrm :=
  if lr_gate_finite stds mean vals vecs then lr_install st stds mean vals mu else st.

(* adapt: fewer than three draws in the window: nothing happens; otherwise compute_update may give
   up (None) and nothing happens either *)
Definition lr_adapt (st : lrm) (count : N)
  (upd : option (list f64 * list f64 * list f64 * list (list f64) * list f64)) : lrm :=
  if (count <? 3)%N then st
  else match upd with
       | None => st
       | Some (stds, mean, vals, vecs, mu) => lr_update st stds mean vals vecs mu
       end.

(* rescale_points, one row: sigma from the two variances, translation, and the entry-wise maps *)
Definition lr_sigma (dv gv : f64) : f64 := fsqrt (fsqrt (fdiv dv gv)).
Definition lr_mu (draw_mean sigma grad_mean : f64) : f64 := fadd draw_mean (fmul (fmul sigma sigma) grad_mean).
Definition lr_draw_entry (v mu sigma dm : f64) : f64 := fsub (fmul (fsub v mu) (frecip sigma)) dm.
Definition lr_grad_entry (g sigma gm : f64) : f64 := fsub (fmul g sigma) gm.
(* before centring *)
Definition lr_draw_scaled (v mu sigma : f64) : f64 := fmul (fsub v mu) (frecip sigma).
Definition lr_grad_scaled (g sigma : f64) : f64 := fmul g sigma.

(* the eigenvalue filter: (val > cutoff) | (val < cutoff.recip()) *)
Definition lr_keep (cutoff v : f64) : bool := fgt v cutoff || flt v (frecip cutoff).
Definition lr_filter (cutoff : f64) (vals : list f64) : list f64 := filter (lr_keep cutoff) vals.

(* ------------------------------------------------------------------------------------------ *)
(* dispatchers for the correspondence                                                           *)
(* ------------------------------------------------------------------------------------------ *)
Definition fl (l : list Z) : list f64 := map of_bits l.

(* [changed; id] :: stds :: inv :: mean :: vals_sqrt :: vals_sqrt_inv :: mu  (bits) *)
Definition run_lr_update (id0 : Z) (count : N) (has_upd : bool) (stds mean vals : list Z) (vecs : list (list Z))
  (mu : list Z) (old_stds old_inv old_mean : list Z) : list (list Z) :=
  let st := {| lr_stds := fl old_stds; lr_inv := fl old_inv; lr_mean := fl old_mean;
               lr_inner := Some ([], [], []); lr_id := id0 |} in
  let st' := lr_adapt st count
               (if has_upd then Some (fl stds, fl mean, fl vals, map fl vecs, fl mu) else None) in
  let inner := match lr_inner st' with Some (a, b, c) => [bits_list a; bits_list b; bits_list c] | None => [] end in
  [ (if (lr_id st' =? id0)%Z then 0%Z else 1%Z); lr_id st' ]
  :: bits_list (lr_stds st') :: bits_list (lr_inv st') :: bits_list (lr_mean st') :: inner.

(* one row of the rescaled window: draws then gradients *)
Definition run_lr_row (vs gs : list Z) (mu sigma dm gm : Z) : list (list Z) :=
  [ map (fun v => to_bits (lr_draw_entry (of_bits v) (of_bits mu) (of_bits sigma) (of_bits dm))) vs;
    map (fun g => to_bits (lr_grad_entry (of_bits g) (of_bits sigma) (of_bits gm))) gs ].

Definition run_lr_keep (cutoff : Z) (vals : list Z) : list bool :=
  map (fun v => lr_keep (of_bits cutoff) (of_bits v)) vals.

(* ------------------------------------------------------------------------------------------ *)
(* the other way the transformation changes: update_from_grad (LowRankMassMatrixStrategy::init  *)
(* at the first point and after every Chain::set_position): the low-rank part is dropped and   *)
(* the diagonal comes from the gradient alone, fill_invalid = 1, clamp (1e-20, 1e20)            *)
(* ------------------------------------------------------------------------------------------ *)
From NutsV Require Import model.Estimator.

Definition f_1em20' : f64 := of_bits 4307583784117748259.
Definition f_1e20' : f64 := of_bits 4906019910204099648.

Fixpoint lr_grad_means (pos grad stds : list f64) : list f64 :=
  match pos, grad, stds with
  | p :: ps, g :: gs, s :: ss => fadd (fmul (fmul s s) g) p :: lr_grad_means ps gs ss
  | _, _, _ => []
  end.

Definition lr_update_from_grad (st : lrm) (pos grad : list f64) : lrm :=
  let r := map (fun g => f_var_inv_std_grad g fone f_1em20' f_1e20') grad in
  {| lr_stds := map fst r; lr_inv := map snd r; lr_mean := lr_grad_means pos grad (map fst r);
     lr_inner := None; lr_id := lr_id st + 1 |}.

(* the life of a transformation: re-initialisations and adaptation calls in any order *)
Inductive lr_event :=
| EvGrad (pos grad : list f64)
| EvAdapt (count : N) (upd : option (list f64 * list f64 * list f64 * list (list f64) * list f64)).

Definition lr_step (st : lrm) (e : lr_event) : lrm :=
  match e with
  | EvGrad pos grad => lr_update_from_grad st pos grad
  | EvAdapt count upd => lr_adapt st count upd
  end.

Definition run_lr_from_grad (id0 : Z) (pos grad : list Z) : list (list Z) :=
  let st := {| lr_stds := []; lr_inv := []; lr_mean := []; lr_inner := None; lr_id := id0 |} in
  let st' := lr_update_from_grad st (fl pos) (fl grad) in
  [ [ (match lr_inner st' with None => 0 | Some _ => 1 end)%Z; lr_id st' ];
    bits_list (lr_stds st'); bits_list (lr_inv st'); bits_list (lr_mean st') ].
