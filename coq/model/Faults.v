(* binary64 model of the divergence test of TransformedHamiltonian::leapfrog and of the argument
   passed to rng.random_bool in NutsTree::merge_into. *)
From Coq Require Import ZArith Bool List.
From NutsV Require Import lib.Fp.
Import ListNotations.

(* bad_energy | !energy_error.is_finite() ; micro = Microcanonical kind *)
Definition div_pred (micro : bool) (energy_error max_err : f64) : bool :=
  (if micro then fge (fabs energy_error) max_err else fgt energy_error max_err)
  || negb (is_finite energy_error).

(* merge_into: the coin is flipped only when  other < self_size  (log weights);
   its probability is exp(other - self_size) *)
Definition flips_coin (other self_size : f64) : bool := negb (fge other self_size).

Definition run_div (micro : bool) (e m : Z) : Z := if div_pred micro (of_bits e) (of_bits m) then 1%Z else 0%Z.
