(* Model of the Zarr trace backends: src/storage/zarr/common.rs (SampleBuffer), sync_impl.rs
   (ZarrChainStorage / ZarrTraceStorage) and async_impl.rs (ZarrAsyncChainStorage /
   ZarrAsyncTraceStorage, write queue).

   Values are opaque tokens: one token = one row (everything `record_sample` pushes for one
   variable and one draw).  An array of one chain is a map  chunk index -> stored chunk ; a stored
   chunk is the list of its first rows, rows beyond the list (and missing chunks) read as the
   fill value.  Chunk writes are atomic events.  Numbers are nat (sizes are small; the code uses
   usize/u64 and never subtracts).

   The store is a product over arrays and chains (zarr chunk keys contain the array path, the
   chain index - the chunk grid has extent 1 along the chain axis - and the chunk index), so the
   state of a chain is kept per variable: its SampleBuffer, its warmup and its sample array and
   the pending (queued, not yet completed) chunk writes addressed to these two arrays.  The real
   queue is one JoinSet per chain; a completion order of that queue is a completion order of each
   per-variable sub-queue and vice versa.  The queue bound (max_queued_writes) only forces some
   writes to complete early; the model lets any pending write complete at any time (OComplete). *)
From Coq Require Import Arith NArith Bool List Lia.
Import ListNotations.

Definition token := N.
Definition chunk := list token.

(* ---------------------------------------------------------------------------------------- *)
(* SampleBuffer (common.rs); full_at = cs                                                     *)
(* ---------------------------------------------------------------------------------------- *)
Record buffer := { b_items : list token; b_cur : nat }.
Record chunk_out := { co_idx : nat; co_rows : list token }.     (* Chunk: chunk_idx, values; len = length *)

Definition b_len (b : buffer) : nat := length (b_items b).
Definition sb_new : buffer := {| b_items := []; b_cur := 0 |}.

(* finish_chunk: hands out the items, current_chunk += 1, len = 0 *)
Definition sb_finish_chunk (b : buffer) : buffer * chunk_out :=
  ({| b_items := []; b_cur := S (b_cur b) |}, {| co_idx := b_cur b; co_rows := b_items b |}).

(* reset: if len == 0 { current_chunk = 0; None } else { out = finish_chunk(); current_chunk = 0; Some(out) } *)
Definition sb_reset (b : buffer) : buffer * option chunk_out :=
  match b_len b with
  | 0 => ({| b_items := b_items b; b_cur := 0 |}, None)
  | S _ => let (b1, c) := sb_finish_chunk b in ({| b_items := b_items b1; b_cur := 0 |}, Some c)
  end.

(* copy_as_chunk *)
Definition sb_copy_as_chunk (b : buffer) : option chunk_out :=
  match b_len b with
  | 0 => None
  | S _ => Some {| co_idx := b_cur b; co_rows := b_items b |}
  end.

(* the assert at the head of push *)
Definition sb_assert (cs : nat) (b : buffer) : bool := b_len b <? cs.

(* push: append, len += 1, if len == full_at { Some(finish_chunk()) } else { None } *)
Definition sb_push (cs : nat) (b : buffer) (v : token) : buffer * option chunk_out :=
  let b1 := {| b_items := b_items b ++ [v]; b_cur := b_cur b |} in
  if b_len b1 =? cs then let (b2, c) := sb_finish_chunk b1 in (b2, Some c) else (b1, None).

Definition sb_total_pushed (cs : nat) (b : buffer) : nat := b_cur b * cs + b_len b.

(* ---------------------------------------------------------------------------------------- *)
(* One zarr array of one chain                                                                *)
(* ---------------------------------------------------------------------------------------- *)
Definition astore := nat -> option chunk.
Definition a_empty : astore := fun _ => None.
Definition upd (a : astore) (i : nat) (c : chunk) : astore := fun j => if j =? i then Some c else a j.
Definition old_rows (a : astore) (i : nat) : chunk := match a i with Some c => c | None => [] end.

(* Array::store_chunk: the whole chunk is replaced *)
Definition store_chunk (a : astore) (i : nat) (rows : chunk) : astore := upd a i rows.
(* Array::store_chunk_subset with the subset [0, len) of the draw axis: read - modify - write *)
Definition store_chunk_subset (a : astore) (i : nat) (rows : chunk) : astore :=
  upd a i (rows ++ skipn (length rows) (old_rows a i)).
(* strings: Array::store_array_subset, start = chunk_idx * full_at, shape = [1, len]: the same
   chunk, read - modify - write of its first len rows *)
Definition store_array_subset (a : astore) (i : nat) (rows : chunk) : astore :=
  upd a i (rows ++ skipn (length rows) (old_rows a i)).

(* store_zarr_chunk / store_zarr_chunk_async *)
Definition store_zarr_chunk (cs : nat) (is_string : bool) (a : astore) (c : chunk_out) : astore :=
  match co_rows c with
  | [] => a                                                     (* data.values.len() == 0 *)
  | _ :: _ =>
      if is_string then store_array_subset a (co_idx c) (co_rows c)
      else if length (co_rows c) =? cs then store_chunk a (co_idx c) (co_rows c)   (* is_full *)
      else store_chunk_subset a (co_idx c) (co_rows c)
  end.

(* ---------------------------------------------------------------------------------------- *)
(* One variable of one chain                                                                  *)
(* ---------------------------------------------------------------------------------------- *)
Record wr := { w_warm : bool; w_out : chunk_out }.              (* a queued chunk write *)
Definition w_key (w : wr) : bool * nat := (w_warm w, co_idx (w_out w)).

Record vstate := {
  v_buf : buffer;
  v_warm : astore;            (* warmup_{sample_stats,posterior}/<name>, this chain *)
  v_samp : astore;            (* {sample_stats,posterior}/<name>, this chain *)
  v_pend : list wr
}.

Definition v_init : vstate := {| v_buf := sb_new; v_warm := a_empty; v_samp := a_empty; v_pend := [] |}.

Definition set_buf (vs : vstate) (b : buffer) : vstate :=
  {| v_buf := b; v_warm := v_warm vs; v_samp := v_samp vs; v_pend := v_pend vs |}.
Definition set_pend (vs : vstate) (p : list wr) : vstate :=
  {| v_buf := v_buf vs; v_warm := v_warm vs; v_samp := v_samp vs; v_pend := p |}.

(* a chunk write reaches the store *)
Definition apply_wr (cs : nat) (str : bool) (vs : vstate) (w : wr) : vstate :=
  if w_warm w
  then {| v_buf := v_buf vs; v_warm := store_zarr_chunk cs str (v_warm vs) (w_out w);
          v_samp := v_samp vs; v_pend := v_pend vs |}
  else {| v_buf := v_buf vs; v_warm := v_warm vs;
          v_samp := store_zarr_chunk cs str (v_samp vs) (w_out w); v_pend := v_pend vs |}.

(* push_param / push_draw / the transition: sync = store_zarr_chunk now, async = queue_write *)
Definition emit (async : bool) (cs : nat) (str : bool) (vs : vstate) (w : wr) : vstate :=
  if async then set_pend vs (v_pend vs ++ [w]) else apply_wr cs str vs w.

Definition emit_opt (async : bool) (cs : nat) (str : bool) (vs : vstate) (warm : bool)
           (oc : option chunk_out) : vstate :=
  match oc with
  | Some c => emit async cs str vs {| w_warm := warm; w_out := c |}
  | None => vs
  end.

(* record_sample for one variable.  first = last_sample_was_warmup && !info.tuning ; the pushed
   chunk goes to the array selected by info.tuning *)
Definition v_record (async : bool) (cs : nat) (str : bool) (first tuning : bool) (vs : vstate)
           (val : option token) : vstate :=
  let vs1 := if first
             then let (b1, oc) := sb_reset (v_buf vs) in emit_opt async cs str (set_buf vs b1) true oc
             else vs in
  match val with
  | None => vs1
  | Some t => let (b2, oc) := sb_push cs (v_buf vs1) t in emit_opt async cs str (set_buf vs1 b2) tuning oc
  end.

(* all pending writes complete, in the order chosen by ord *)
Definition v_join (cs : nat) (str : bool) (ord : list wr -> list wr) (vs : vstate) : vstate :=
  set_pend (fold_left (apply_wr cs str) (ord (v_pend vs)) vs) [].

(* one pending write completes *)
Fixpoint remove_nth {A} (i : nat) (l : list A) : list A :=
  match l, i with
  | [], _ => []
  | _ :: t, 0 => t
  | x :: t, S j => x :: remove_nth j t
  end.
Definition v_complete (cs : nat) (str : bool) (i : nat) (vs : vstate) : vstate :=
  match nth_error (v_pend vs) i with
  | Some w => set_pend (apply_wr cs str vs w) (remove_nth i (v_pend vs))
  | None => vs
  end.

(* flush: copy_as_chunk of the buffer is stored synchronously in the array selected by
   last_sample_was_warmup, then (async) all pending writes are joined *)
Definition v_flush (cs : nat) (str : bool) (ord : list wr -> list wr) (last_warm : bool)
           (vs : vstate) : vstate :=
  let vs1 := match sb_copy_as_chunk (v_buf vs) with
             | Some c => apply_wr cs str vs {| w_warm := last_warm; w_out := c |}
             | None => vs
             end in
  v_join cs str ord vs1.

(* chain finalize: buffer.reset() stored synchronously, then join *)
Definition v_finalize (cs : nat) (str : bool) (ord : list wr -> list wr) (last_warm : bool)
           (vs : vstate) : vstate :=
  let (b1, oc) := sb_reset (v_buf vs) in
  let vs1 := match oc with
             | Some c => apply_wr cs str (set_buf vs b1) {| w_warm := last_warm; w_out := c |}
             | None => set_buf vs b1
             end in
  v_join cs str ord vs1.

(* ---------------------------------------------------------------------------------------- *)
(* A fresh reader                                                                             *)
(* ---------------------------------------------------------------------------------------- *)
(* entry i of an array whose draw axis has `shape` entries; None = not an entry of the array *)
Definition read_row (cs : nat) (fill : token) (a : astore) (shape i : nat) : option token :=
  if i <? shape
  then Some (match a (i / cs) with Some ch => nth (i mod cs) ch fill | None => fill end)
  else None.
Definition read_range (cs : nat) (fill : token) (a : astore) (shape from n : nat) : list (option token) :=
  map (read_row cs fill a shape) (seq from n).
(* everything a reader can see *)
Definition read_all (cs : nat) (fill : token) (a : astore) (shape : nat) : list token :=
  map (fun i => match a (i / cs) with Some ch => nth (i mod cs) ch fill | None => fill end) (seq 0 shape).

(* ---------------------------------------------------------------------------------------- *)
(* One chain                                                                                  *)
(* ---------------------------------------------------------------------------------------- *)
Record vmeta := { m_string : bool; m_fill : token; m_dim : option nat }.   (* m_dim: event dimension *)

Record cstate := {
  c_vars : list vstate;
  c_last_warm : bool;                  (* last_sample_was_warmup *)
  c_wcounts : nat -> nat               (* warmup_event_counts: dim -> count (absent = 0) *)
}.

Definition c_init (metas : list vmeta) : cstate :=
  {| c_vars := map (fun _ => v_init) metas; c_last_warm := true; c_wcounts := fun _ => 0 |}.

Fixpoint map3 {A B C D} (f : A -> B -> C -> D) (la : list A) (lb : list B) (lc : list C) : list D :=
  match la, lb, lc with
  | a :: ta, b :: tb, c :: tc => f a b c :: map3 f ta tb tc
  | _, _, _ => []
  end.

Fixpoint map2 {A B C} (f : A -> B -> C) (la : list A) (lb : list B) : list C :=
  match la, lb with
  | a :: ta, b :: tb => f a b :: map2 f ta tb
  | _, _ => []
  end.

Definition has_dim (m : vmeta) (d : nat) : bool :=
  match m_dim m with Some e => e =? d | None => false end.

(* number of events of dimension d: the largest total_pushed() among the statistics of that
   dimension (fields of one dimension are not all populated on every event) *)
Definition dim_count (cs : nat) (metas : list vmeta) (vars : list vstate) (d : nat) : nat :=
  fold_right Nat.max 0
    (map2 (fun m vs => if has_dim m d then sb_total_pushed cs (v_buf vs) else 0) metas vars).

Inductive op :=
| ORec (tuning : bool) (vals : list (option token))
| OFlush
| OComplete (var idx : nat).

Definition c_record (async : bool) (cs : nat) (metas : list vmeta)
           (s : cstate) (tuning : bool) (vals : list (option token)) : cstate :=
  let first := c_last_warm s && negb tuning in
  {| c_vars := map3 (fun m vs val => v_record async cs (m_string m) first tuning vs val) metas (c_vars s) vals;
     c_last_warm := if first then false else c_last_warm s;
     c_wcounts := if first
                  then (fun d => Nat.max (c_wcounts s d) (dim_count cs metas (c_vars s) d))
                  else c_wcounts s |}.

Definition c_flush (cs : nat) (metas : list vmeta) (ord : list wr -> list wr) (s : cstate) : cstate :=
  {| c_vars := map2 (fun m vs => v_flush cs (m_string m) ord (c_last_warm s) vs) metas (c_vars s);
     c_last_warm := c_last_warm s; c_wcounts := c_wcounts s |}.

Fixpoint map2_at {A B} (f : A -> B -> B) (k : nat) (la : list A) (lb : list B) : list B :=
  match la, lb with
  | a :: ta, b :: tb => match k with 0 => f a b :: tb | S j => b :: map2_at f j ta tb end
  | _, _ => lb
  end.

Definition c_complete (cs : nat) (metas : list vmeta) (var idx : nat) (s : cstate) : cstate :=
  {| c_vars := map2_at (fun m vs => v_complete cs (m_string m) idx vs) var metas (c_vars s);
     c_last_warm := c_last_warm s; c_wcounts := c_wcounts s |}.

Definition c_step (async : bool) (cs : nat) (metas : list vmeta)
           (ord : list wr -> list wr) (s : cstate) (o : op) : cstate :=
  match o with
  | ORec tuning vals => c_record async cs metas s tuning vals
  | OFlush => c_flush cs metas ord s
  | OComplete var idx => c_complete cs metas var idx s
  end.

Definition c_run (async : bool) (cs : nat) (metas : list vmeta)
           (ord : list wr -> list wr) (s : cstate) (ops : list op) : cstate :=
  fold_left (c_step async cs metas ord) ops s.

(* ChainStorage::finalize: (state with everything stored, dim -> (warmup count, sample count)).
   The counts are taken from the buffers before they are reset; a chain that is finalized while
   still in warmup reports them as warmup events. *)
Definition c_finalize (cs : nat) (metas : list vmeta)
           (ord : list wr -> list wr) (s : cstate) : cstate * (nat -> nat * nat) :=
  let sample_counts := dim_count cs metas (c_vars s) in
  ({| c_vars := map2 (fun m vs => v_finalize cs (m_string m) ord (c_last_warm s) vs) metas (c_vars s);
      c_last_warm := c_last_warm s; c_wcounts := c_wcounts s |},
   fun d => if c_last_warm s then (sample_counts d, 0) else (c_wcounts s d, sample_counts d)).

(* ---------------------------------------------------------------------------------------- *)
(* The trace: shapes of the draw axis                                                         *)
(* ---------------------------------------------------------------------------------------- *)
(* TraceStorage::finalize: every array of an event dimension is resized to the maximum over
   the chains of the count reported for that dimension; other arrays keep the hinted sizes *)
Fixpoint max_over {A} (f : A -> nat) (l : list A) : nat :=
  match l with
  | [] => 0
  | c :: t => Nat.max (f c) (max_over f t)
  end.

(* shape of the (warmup, sample) array of a variable before and after the trace is finalized *)
Definition shape_running (n_tune n_draws : nat) (warm : bool) : nat := if warm then n_tune else n_draws.
Definition shape_final (n_tune n_draws : nat) (m : vmeta) (counts : list (nat -> nat * nat))
           (warm : bool) : nat :=
  match m_dim m with
  | None => shape_running n_tune n_draws warm
  | Some d =>
      match counts with
      | [] => shape_running n_tune n_draws warm       (* no chain: max_sample.get(dim) = None *)
      | _ => max_over (fun c => if warm then fst (c d) else snd (c d)) counts
      end
  end.

Definition v_array (vs : vstate) (warm : bool) : astore := if warm then v_warm vs else v_samp vs.
(* the (warmup / sample) array of variable v of a chain *)
Definition c_array (s : cstate) (v : nat) (warm : bool) : astore := v_array (nth v (c_vars s) v_init) warm.

(* ---------------------------------------------------------------------------------------- *)
(* The code before the repair (commit "fix: Zarr event arrays are sized by the number of       *)
(* events that occurred"): the count of a dimension was total_pushed() of the first field of   *)
(* that dimension in HashMap iteration order (any field: `pick`), and finalize reported        *)
(* (stored warmup count, current count) whatever the phase.  Kept for the refutation theorems. *)
(* ---------------------------------------------------------------------------------------- *)
Definition count_first (cs : nat) (pick : nat -> nat) (vars : list vstate) (d : nat) : nat :=
  sb_total_pushed cs (v_buf (nth (pick d) vars v_init)).

Definition c_record_prefix (async : bool) (cs : nat) (metas : list vmeta) (pick : nat -> nat)
           (s : cstate) (tuning : bool) (vals : list (option token)) : cstate :=
  let first := c_last_warm s && negb tuning in
  {| c_vars := map3 (fun m vs val => v_record async cs (m_string m) first tuning vs val) metas (c_vars s) vals;
     c_last_warm := if first then false else c_last_warm s;
     c_wcounts := if first then count_first cs pick (c_vars s) else c_wcounts s |}.

Definition c_step_prefix (async : bool) (cs : nat) (metas : list vmeta) (pick : nat -> nat)
           (ord : list wr -> list wr) (s : cstate) (o : op) : cstate :=
  match o with
  | ORec tuning vals => c_record_prefix async cs metas pick s tuning vals
  | OFlush => c_flush cs metas ord s
  | OComplete var idx => c_complete cs metas var idx s
  end.

Definition c_run_prefix (async : bool) (cs : nat) (metas : list vmeta) (pick : nat -> nat)
           (ord : list wr -> list wr) (s : cstate) (ops : list op) : cstate :=
  fold_left (c_step_prefix async cs metas pick ord) ops s.

Definition c_finalize_prefix (cs : nat) (metas : list vmeta) (pick : nat -> nat)
           (ord : list wr -> list wr) (s : cstate) : cstate * (nat -> nat * nat) :=
  let sample_counts := count_first cs pick (c_vars s) in
  ({| c_vars := map2 (fun m vs => v_finalize cs (m_string m) ord (c_last_warm s) vs) metas (c_vars s);
      c_last_warm := c_last_warm s; c_wcounts := c_wcounts s |},
   fun d => (c_wcounts s d, sample_counts d)).

(* ---------------------------------------------------------------------------------------- *)
(* Ghost: what has been pushed to an array by a history                                       *)
(* ---------------------------------------------------------------------------------------- *)
Fixpoint pushed (v : nat) (warm : bool) (ops : list op) : list token :=
  match ops with
  | [] => []
  | ORec tuning vals :: t =>
      (if Bool.eqb tuning warm then match nth v vals None with Some x => [x] | None => [] end else [])
      ++ pushed v warm t
  | _ :: t => pushed v warm t
  end.

(* histories of the form warmup^a sample^b (interleaved with flushes and completions), every
   record carrying one optional value per variable *)
Fixpoint phases_ok (seen_sample : bool) (ops : list op) : bool :=
  match ops with
  | [] => true
  | ORec tuning _ :: t => if tuning then negb seen_sample && phases_ok false t else phases_ok true t
  | _ :: t => phases_ok seen_sample t
  end.
Fixpoint arity_ok (n : nat) (ops : list op) : bool :=
  match ops with
  | [] => true
  | ORec _ vals :: t => (length vals =? n) && arity_ok n t
  | _ :: t => arity_ok n t
  end.
Definition wf_ops (n : nat) (ops : list op) : bool := phases_ok false ops && arity_ok n ops.

(* ---------------------------------------------------------------------------------------- *)
(* Executable run for the correspondence check                                                *)
(* ---------------------------------------------------------------------------------------- *)
(* all rows a reader sees, [warmup arrays..., sample arrays...] *)
Definition snapshot (cs : nat) (n_tune n_draws : nat) (metas : list vmeta) (s : cstate) : list (list token) :=
  map2 (fun m vs => read_all cs (m_fill m) (v_warm vs) n_tune) metas (c_vars s) ++
  map2 (fun m vs => read_all cs (m_fill m) (v_samp vs) n_draws) metas (c_vars s).

(* snapshots after every operation flagged `true` *)
Fixpoint run_snaps (async : bool) (cs n_tune n_draws : nat) (metas : list vmeta)
         (ord : list wr -> list wr) (s : cstate) (ops : list (op * bool))
  : cstate * list (list (list token)) :=
  match ops with
  | [] => (s, [])
  | (o, snap) :: t =>
      let s1 := c_step async cs metas ord s o in
      let (s2, rest) := run_snaps async cs n_tune n_draws metas ord s1 t in
      (s2, if snap then snapshot cs n_tune n_draws metas s1 :: rest else rest)
  end.

Definition final_snapshot (cs n_tune n_draws : nat) (metas : list vmeta)
           (counts : list (nat -> nat * nat)) (s : cstate) : list (list token) :=
  map2 (fun m vs => read_all cs (m_fill m) (v_warm vs) (shape_final n_tune n_draws m counts true)) metas (c_vars s) ++
  map2 (fun m vs => read_all cs (m_fill m) (v_samp vs) (shape_final n_tune n_draws m counts false)) metas (c_vars s).

(* one chain of a case: state after finalize, the chain's finalize counts, snapshots *)
Definition run_chain (async : bool) (cs n_tune n_draws : nat) (metas : list vmeta)
           (ord : list wr -> list wr) (ops : list (op * bool))
  : cstate * (nat -> nat * nat) * list (list (list token)) :=
  let (s, snaps) := run_snaps async cs n_tune n_draws metas ord (c_init metas) ops in
  let (sf, counts) := c_finalize cs metas ord s in
  (sf, counts, snaps).

(* a whole case: per chain (snapshots, counts on the given dims, rows before the trace is
   finalized, final rows) *)
Definition run_case (async : bool) (cs n_tune n_draws : nat) (metas : list vmeta) (dims : list nat)
           (ord : list wr -> list wr) (chains : list (list (op * bool)))
  : list (list (list (list token)) * list (nat * (nat * nat)) * list (list token) * list (list token)) :=
  let rs := map (run_chain async cs n_tune n_draws metas ord) chains in
  let counts := map (fun r => snd (fst r)) rs in
  map (fun r => (snd r, map (fun d => (d, snd (fst r) d)) dims,
                 snapshot cs n_tune n_draws metas (fst (fst r)),
                 final_snapshot cs n_tune n_draws metas counts (fst (fst r)))) rs.

Definition ord_id (l : list wr) : list wr := l.
Definition ord_rev (l : list wr) : list wr := rev l.
