(* Model of the warmup schedule: GlobalStrategy::{new,adapt} (src/adapt_strategy.rs),
   ExternalTransformAdaptation::{new,adapt} (src/external_adapt_strategy.rs), the estimator
   window bookkeeping of DiagAdaptStrategy / LowRankMassMatrixStrategy
   (src/transform/adapt/{diagonal,low_rank}.rs) and the order in which NutsChain::draw and
   MclmcChain::draw call adapt / build Progress / bump draw_count (src/chain.rs, src/mclmc.rs).

   Integers are N (u64 in the code; the only subtraction is draw - last_update, shown never to
   underflow).  The two f64 computations inside the schedule are modelled bit-exactly on the
   binary64 layer (gs_bounds, next_window) for the correspondence check and abstracted in the
   theorems (any early_end < num_tune \/ num_tune = 0, any next-window function). *)
From Coq Require Import ZArith NArith Bool List Lia.
From NutsV Require Import lib.Fp.
Import ListNotations.
Local Open Scope N_scope.

(* ---------------------------------------------------------------------------------------- *)
(* Options                                                                                    *)
(* ---------------------------------------------------------------------------------------- *)
Record sopts := {
  o_early_sw : N;      (* early_mass_matrix_switch_freq *)
  o_main_sw : N;       (* mass_matrix_switch_freq *)
  o_upd : N            (* mass_matrix_update_freq *)
}.

(* binary64 side: (options.early_window * num_tune as f64) as u64 etc. *)
Definition frac_of (frac : f64) (n : N) : N := f_to_u64 (fmul frac (f_of_N n)).

Inductive new_result (A : Type) := NewPanic (site : N) | NewOk (a : A).
Arguments NewPanic {A}. Arguments NewOk {A}.

(* next_window_size in the main phase: max(c+1, round(c as f64 * growth) as u64) *)
Definition next_window_f64 (growth : f64) (c : N) : N :=
  N.max (c + 1) (f_to_u64 (fround (fmul (f_of_N c) growth))).

(* ---------------------------------------------------------------------------------------- *)
(* Estimator windows (ghost: the draw numbers each estimator has been fed)                    *)
(* ---------------------------------------------------------------------------------------- *)
(* abstract pair *)
Record win := { w_fg : list Z; w_bg : list Z }.
Definition win_add (w : win) (tag : Z) : win := {| w_fg := w_fg w ++ [tag]; w_bg := w_bg w ++ [tag] |}.
Definition win_switch (w : win) : win := {| w_fg := w_bg w; w_bg := [] |}.
Definition win_init (tag : Z) : win := {| w_fg := [tag]; w_bg := [tag] |}.

(* low-rank estimator: one deque and background_split *)
Record lrwin := { lr_q : list Z; lr_split : nat }.
Definition lr_add (w : lrwin) (tag : Z) : lrwin := {| lr_q := lr_q w ++ [tag]; lr_split := lr_split w |}.
Definition lr_switch (w : lrwin) : lrwin :=
  let q := skipn (lr_split w) (lr_q w) in {| lr_q := q; lr_split := length q |}.
Definition lr_abs (w : lrwin) : win := {| w_fg := lr_q w; w_bg := skipn (lr_split w) (lr_q w) |}.

Definition len {A} (l : list A) : N := N.of_nat (length l).

(* ---------------------------------------------------------------------------------------- *)
(* GlobalStrategy                                                                             *)
(* ---------------------------------------------------------------------------------------- *)
Record gstate := {
  g_num_tune : N;
  g_early_end : N;
  g_final : N;            (* final_step_size_window: first draw of the final window *)
  g_tuning : bool;
  g_has_init : bool;      (* has_initial_mass_matrix *)
  g_last_update : N;
  g_cur_win : N;          (* current_window_size *)
  g_win : win;
  g_id : Z                (* transformation id of the diagonal/low-rank matrix *)
}.

(* ghost tags: draw k is tagged Z.of_N k, the initial point fed by init() is tagged -1 *)
Definition init_tag : Z := (-1)%Z.

Definition gs_new_raw (o : sopts) (num_tune early_end final : N) : gstate :=
  {| g_num_tune := num_tune; g_early_end := early_end; g_final := final;
     g_tuning := true; g_has_init := true; g_last_update := 0; g_cur_win := o_main_sw o;
     g_win := {| w_fg := []; w_bg := [] |}; g_id := (-1)%Z |}.

(* GlobalStrategy::new, with its two asserts as panic sites 1 and 2.
   (site 1 after the fix: assert!(num_tune == 0 || early_end < num_tune)) *)
Definition gs_new (o : sopts) (early_window step_size_window growth : f64) (num_tune : N)
  : new_result gstate :=
  let ssw := frac_of step_size_window num_tune in
  let early_end := frac_of early_window num_tune in
  let final := num_tune - ssw in                       (* saturating_sub *)
  if negb ((num_tune =? 0) || (early_end <? num_tune)) then NewPanic 1
  else if negb (fge growth fone) then NewPanic 2
  else NewOk (gs_new_raw o num_tune early_end final).

(* init(): the estimator gets the initial point, update_diag_grad bumps the id to 0 *)
Definition gs_init (st : gstate) : gstate :=
  {| g_num_tune := g_num_tune st; g_early_end := g_early_end st; g_final := g_final st;
     g_tuning := g_tuning st; g_has_init := g_has_init st; g_last_update := g_last_update st;
     g_cur_win := g_cur_win st; g_win := win_init init_tag; g_id := (g_id st + 1)%Z |}.

Inductive ev :=
| ESwitch
| EMassAdapt (changed : bool)
| EAdvance (late : bool)        (* update_estimator_late / _early *)
| EStepInit                     (* step-size search re-run at the current position *)
| ESetStep (best : bool).       (* update_stepsize(.., use_best_guess) *)

Definition ev_code (e : ev) : Z :=
  match e with
  | ESwitch => 1 | EMassAdapt false => 2 | EMassAdapt true => 3
  | EAdvance false => 4 | EAdvance true => 5 | EStepInit => 6
  | ESetStep false => 7 | ESetStep true => 8
  end%Z.

Section Adapt.
  Variable nextw : N -> N.   (* next main-phase window size *)
  Variable o : sopts.

  Definition gs_adapt (st : gstate) (draw : N) (good : bool) : gstate * list ev :=
    if g_num_tune st <=? draw then
      ({| g_num_tune := g_num_tune st; g_early_end := g_early_end st; g_final := g_final st;
          g_tuning := false; g_has_init := g_has_init st; g_last_update := g_last_update st;
          g_cur_win := g_cur_win st; g_win := g_win st; g_id := g_id st |},
       [ESetStep true])
    else if draw <? g_final st then
      let is_early := draw <? g_early_end st in
      let cur_win :=
        if negb is_early && (draw =? g_early_end st)
        then N.max (g_cur_win st) (len (w_bg (g_win st))) else g_cur_win st in
      let switch_freq := if is_early then o_early_sw o else cur_win in
      let w1 := if good then win_add (g_win st) (Z.of_N draw) else g_win st in
      let could_switch := switch_freq <=? len (w_bg w1) in
      let next_w := if is_early then o_early_sw o else nextw cur_win in
      let is_late := g_final st <? next_w + draw in
      let do_switch := could_switch && negb is_late in
      let w2 := if do_switch then win_switch w1 else w1 in
      let cur_win2 := if do_switch && negb is_early then next_w else cur_win in
      let attempt := do_switch || (o_upd o <=? draw - g_last_update st) in
      let did_change := attempt && (3 <=? len (w_fg w2)) in
      let first := did_change && g_has_init st in
      ({| g_num_tune := g_num_tune st; g_early_end := g_early_end st; g_final := g_final st;
          g_tuning := g_tuning st;
          g_has_init := if first then false else g_has_init st;
          g_last_update := if did_change then draw else g_last_update st;
          g_cur_win := cur_win2; g_win := w2;
          g_id := if did_change then (g_id st + 1)%Z else g_id st |},
       (if do_switch then [ESwitch] else []) ++
       (if attempt then [EMassAdapt did_change] else []) ++
       [EAdvance is_late] ++
       (if first then [EStepInit] else [ESetStep false]))
    else
      (st, [EAdvance true; ESetStep (draw =? g_num_tune st - 1)]).
End Adapt.

(* ---------------------------------------------------------------------------------------- *)
(* ExternalTransformAdaptation (flow presets)                                                 *)
(* ---------------------------------------------------------------------------------------- *)
Record fstate := { f_num_tune : N; f_final : N; f_tuning : bool; f_updates : N }.

(* final_window_size = floor(num_tune as f64 * (1 - step_size_window)) as u64 *)
Definition flow_new (step_size_window : f64) (num_tune : N) : fstate :=
  {| f_num_tune := num_tune;
     f_final := f_to_u64 (ffloor (fmul (f_of_N num_tune) (fsub fone step_size_window)));
     f_tuning := true; f_updates := 0 |}.

Inductive fev := FUpdate | FAdvance (late : bool) | FSetStep (best : bool).

Definition flow_adapt (upd_freq : N) (st : fstate) (draw : N) : fstate * list fev :=
  if f_num_tune st <=? draw then
    ({| f_num_tune := f_num_tune st; f_final := f_final st; f_tuning := false;
        f_updates := f_updates st |}, [FSetStep true])
  else if draw <? f_final st then
    let upd :=
      if draw <? 100 then (0 <? draw) && (draw mod 10 =? 0)
      else (0 <? draw) && (if upd_freq =? 0 then false else draw mod upd_freq =? 0) in
    ({| f_num_tune := f_num_tune st; f_final := f_final st; f_tuning := f_tuning st;
        f_updates := if upd then f_updates st + 1 else f_updates st |},
     (if upd then [FUpdate] else []) ++ [FAdvance false; FSetStep false])
  else (st, [FAdvance true; FSetStep (draw =? f_num_tune st - 1)]).

(* ---------------------------------------------------------------------------------------- *)
(* Chains: order of adapt / Progress / draw_count                                             *)
(* ---------------------------------------------------------------------------------------- *)
Record draw_rec := {
  r_draw : N;            (* Progress.draw *)
  r_tuning : bool;       (* Progress.tuning *)
  r_stat_tuning : bool;  (* `tuning` statistic extracted by expanded_draw *)
  r_id : Z;              (* transformation id after the draw *)
  r_events : list ev
}.

Section Chains.
  Variable nextw : N -> N.
  Variable o : sopts.

  (* NutsChain::draw: draw; adapt(draw_count); Progress{tuning: is_tuning()}; draw_count += 1.
     MclmcChain::draw (after the fix): kernel; adapt(draw_count); Progress; draw_count += 1. *)
  Definition chain_step (st : gstate) (k : N) (good : bool) : gstate * draw_rec :=
    let '(st', evs) := gs_adapt nextw o st k good in
    (st', {| r_draw := k; r_tuning := g_tuning st'; r_stat_tuning := g_tuning st';
             r_id := g_id st'; r_events := evs |}).

  Fixpoint chain_run (st : gstate) (k : N) (goods : list bool) : gstate * list draw_rec :=
    match goods with
    | [] => (st, [])
    | g :: gs =>
        let '(st1, r) := chain_step st k g in
        let '(st2, rs) := chain_run st1 (k + 1) gs in
        (st2, r :: rs)
    end.
End Chains.

(* The pre-fix MCLMC order, kept to state the refutation of the finding that was repaired:
   Progress was built from is_tuning() *before* adapt(draw_count). *)
Definition mclmc_step_prefix (nextw : N -> N) (o : sopts) (st : gstate) (k : N) (good : bool)
  : gstate * draw_rec :=
  let '(st', evs) := gs_adapt nextw o st k good in
  (st', {| r_draw := k; r_tuning := g_tuning st; r_stat_tuning := g_tuning st';
           r_id := g_id st'; r_events := evs |}).

Fixpoint flow_run (upd_freq : N) (st : fstate) (k : N) (n : nat) : fstate * list (bool * list fev) :=
  match n with
  | O => (st, [])
  | S n' =>
      let '(st1, evs) := flow_adapt upd_freq st k in
      let '(st2, rs) := flow_run upd_freq st1 (k + 1) n' in
      (st2, (f_tuning st1, evs) :: rs)
  end.

(* ---------------------------------------------------------------------------------------- *)
(* Printers for the correspondence check                                                      *)
(* ---------------------------------------------------------------------------------------- *)
Definition b2z (b : bool) : Z := if b then 1%Z else 0%Z.

(* [tuning; id; cur_win; last_update; has_init; fg count; bg count] ++ event codes *)
Definition print_rec (st : gstate) (r : draw_rec) : list Z :=
  [b2z (r_tuning r); r_id r] ++ map ev_code (r_events r).

Definition print_state (st : gstate) : list Z :=
  [Z.of_N (g_num_tune st); Z.of_N (g_early_end st); Z.of_N (g_final st); Z.of_N (g_cur_win st);
   Z.of_N (g_last_update st); b2z (g_has_init st); Z.of_N (len (w_fg (g_win st)));
   Z.of_N (len (w_bg (g_win st)))].

Fixpoint chain_trace (nextw : N -> N) (o : sopts) (st : gstate) (k : N) (goods : list bool)
  : list (list Z) :=
  match goods with
  | [] => []
  | g :: gs =>
      let '(st1, r) := chain_step nextw o st k g in
      (print_rec st1 r ++ [(-1)%Z] ++ print_state st1) :: chain_trace nextw o st1 (k + 1) gs
  end.

Definition fev_code (e : fev) : Z :=
  match e with FUpdate => 1 | FAdvance false => 4 | FAdvance true => 5
             | FSetStep false => 7 | FSetStep true => 8 end%Z.

Definition flow_trace (ssw : f64) (upd_freq num_tune : N) (n : nat) : list (list Z) :=
  let st := flow_new ssw num_tune in
  (Z.of_N (f_final st) :: nil) ::
  map (fun p => b2z (fst p) :: map fev_code (snd p)) (snd (flow_run upd_freq st 0 n)).

(* whole Euclidean case: new, init, run; first line is the state after new (or the panic site) *)
Definition global_trace (o : sopts) (early_window ssw growth : f64) (num_tune : N)
  (goods : list bool) : list (list Z) :=
  match gs_new o early_window ssw growth num_tune with
  | NewPanic s => [[(-2)%Z; Z.of_N s]]
  | NewOk st =>
      print_state st :: print_state (gs_init st) ::
      chain_trace (next_window_f64 growth) o (gs_init st) 0 goods
  end.

(* ---------------------------------------------------------------------------------------- *)
(* Interpretation of the events over an abstract step-size adaptation state                   *)
(* ---------------------------------------------------------------------------------------- *)
From Coq Require Import QArith.
Section StepSize.
  Variable SS : Type.
  Variable ss_advance : SS -> bool -> N -> SS.  (* advance with the (late?) statistic of draw k *)
  Variable ss_search : SS -> N -> SS * Q.       (* Strategy::init at the position of draw k *)
  Variables ss_cur ss_best : SS -> Q.           (* current_step_size / current_step_size_adapted *)
  Variable jit : N -> Q.                        (* jitter factor drawn in adapt(k) *)

  (* state of the strategy and the step size stored in the hamiltonian *)
  Definition ss_apply (k : N) (p : SS * Q) (e : ev) : SS * Q :=
    match e with
    | EAdvance late => (ss_advance (fst p) late k, snd p)
    | EStepInit => ss_search (fst p) k
    | ESetStep best => (fst p, ((if best then ss_best (fst p) else ss_cur (fst p)) * jit k)%Q)
    | _ => p
    end.
  Definition ss_run (k : N) (p : SS * Q) (evs : list ev) : SS * Q := fold_left (ss_apply k) evs p.
End StepSize.

(* ghost: draws at which a window switch happened, most recent first *)
Definition is_switch (e : ev) : bool := match e with ESwitch => true | _ => false end.
Fixpoint run_sw (nextw : N -> N) (o : sopts) (st : gstate) (k : N) (goods : list bool)
  (hist : list Z) : gstate * list Z :=
  match goods with
  | [] => (st, hist)
  | g :: gs =>
      let '(st', evs) := gs_adapt nextw o st k g in
      run_sw nextw o st' (k + 1) gs (if existsb is_switch evs then Z.of_N k :: hist else hist)
  end.

Fixpoint nseq (k : N) (n : nat) : list N :=
  match n with O => [] | S n' => k :: nseq (k + 1) n' end.

(* ---------------------------------------------------------------------------------------- *)
(* Content of the foreground estimator (C09 content tie)                                      *)
(* ---------------------------------------------------------------------------------------- *)
(* the ghost foreground window after the adapt call of every draw *)
Fixpoint fg_windows (nextw : N -> N) (o : sopts) (st : gstate) (k : N) (goods : list bool)
  : list (list Z) :=
  match goods with
  | [] => []
  | g :: gs =>
      let st1 := fst (gs_adapt nextw o st k g) in
      w_fg (g_win st1) :: fg_windows nextw o st1 (k + 1) gs
  end.

(* line ++ [-3] ++ window, pairwise *)
Fixpoint zip_lines (a b : list (list Z)) : list (list Z) :=
  match a, b with
  | x :: a', y :: b' => (x ++ [(-3)%Z] ++ y) :: zip_lines a' b'
  | _, _ => []
  end.

(* global_trace with, for every draw, the tags held by the foreground estimator after that
   draw's adapt (the draws the installed transformation must have been estimated from whenever
   it is updated at that draw); separator -3 (the window itself may contain the init tag -1) *)
Definition global_trace_fg (o : sopts) (early_window ssw growth : f64) (num_tune : N)
  (goods : list bool) : list (list Z) :=
  match gs_new o early_window ssw growth num_tune with
  | NewPanic s => [[(-2)%Z; Z.of_N s]]
  | NewOk st =>
      print_state st :: print_state (gs_init st) ::
      zip_lines (chain_trace (next_window_f64 growth) o (gs_init st) 0 goods)
                (fg_windows (next_window_f64 growth) o (gs_init st) 0 goods)
  end.

(* ghost: everything that was ever fed to the estimators, oldest first: the initial point and
   every good draw before the final step-size window *)
Definition fed_step (num_tune final k : N) (good : bool) : list Z :=
  if good && (k <? num_tune) && (k <? final) then [Z.of_N k] else [].
Fixpoint fed_from (num_tune final k : N) (goods : list bool) : list Z :=
  match goods with
  | [] => []
  | g :: gs => fed_step num_tune final k g ++ fed_from num_tune final (k + 1) gs
  end.
Definition fed_tags (st0 : gstate) (goods : list bool) : list Z :=
  init_tag :: fed_from (g_num_tune st0) (g_final st0) 0 goods.
Definition newer_than (h : Z) (l : list Z) : list Z := filter (fun t => (h <? t)%Z) l.
