(* Model of the state pool (src/dynamics/state.rs): reference-counted cells that are recycled
   through a free list.  A handle (`State`) owns one strong reference to a cell
   (`Rc<InnerStateReusable>` inside ManuallyDrop); `Drop` pushes the cell on the free list iff the
   dropping handle is the only strong reference; `new_state` pops the free list or allocates;
   `try_point_mut` succeeds iff the strong count is 1. *)
From Coq Require Import List Arith Bool Lia.
Import ListNotations.

Record pool := {
  p_counts : list nat;       (* strong count of cell i (index = cell id) *)
  p_vals : list nat;         (* value stored in cell i *)
  p_free : list nat;         (* free list, top first *)
  p_handles : list (option nat)   (* handle h -> Some cell, None once dropped *)
}.

Definition empty : pool := {| p_counts := []; p_vals := []; p_free := []; p_handles := [] |}.

Fixpoint set_nth {A} (l : list A) (i : nat) (x : A) : list A :=
  match l, i with
  | [], _ => []
  | _ :: t, O => x :: t
  | h :: t, S i' => h :: set_nth t i' x
  end.

Inductive op :=
| ONew                    (* pool.new_state(): returns handle number = length p_handles before *)
| OClone (h : nat)        (* state.clone() *)
| ODrop (h : nat)         (* drop(state) *)
| OWrite (h : nat) (v : nat).   (* try_point_mut + write *)

Inductive res := RHandle (h : nat) | ROk | RInUse | RBad.

Definition cell_of (p : pool) (h : nat) : option nat :=
  match nth_error (p_handles p) h with Some (Some c) => Some c | _ => None end.

Definition step (p : pool) (o : op) : pool * res :=
  match o with
  | ONew =>
      let h := length (p_handles p) in
      match p_free p with
      | c :: rest =>
          ({| p_counts := set_nth (p_counts p) c 1; p_vals := p_vals p; p_free := rest;
              p_handles := p_handles p ++ [Some c] |}, RHandle h)
      | [] =>
          let c := length (p_counts p) in
          ({| p_counts := p_counts p ++ [1]; p_vals := p_vals p ++ [0]; p_free := [];
              p_handles := p_handles p ++ [Some c] |}, RHandle h)
      end
  | OClone h =>
      match cell_of p h with
      | Some c =>
          ({| p_counts := set_nth (p_counts p) c (S (nth c (p_counts p) 0)); p_vals := p_vals p;
              p_free := p_free p; p_handles := p_handles p ++ [Some c] |},
           RHandle (length (p_handles p)))
      | None => (p, RBad)
      end
  | ODrop h =>
      match cell_of p h with
      | Some c =>
          let n := nth c (p_counts p) 0 in
          ({| p_counts := set_nth (p_counts p) c (n - 1); p_vals := p_vals p;
              p_free := if n =? 1 then c :: p_free p else p_free p;
              p_handles := set_nth (p_handles p) h None |}, ROk)
      | None => (p, RBad)
      end
  | OWrite h v =>
      match cell_of p h with
      | Some c =>
          if nth c (p_counts p) 0 =? 1
          then ({| p_counts := p_counts p; p_vals := set_nth (p_vals p) c v; p_free := p_free p;
                   p_handles := p_handles p |}, ROk)
          else (p, RInUse)
      | None => (p, RBad)
      end
  end.

Fixpoint run (p : pool) (ops : list op) : pool * list res :=
  match ops with
  | [] => (p, [])
  | o :: rest => let '(p1, r) := step p o in let '(p2, rs) := run p1 rest in (p2, r :: rs)
  end.

(* value observable through handle h *)
Definition read (p : pool) (h : nat) : option nat :=
  match cell_of p h with Some c => nth_error (p_vals p) c | None => None end.

(* printing for the correspondence: per live handle (handle, cell, strong count, value); free list *)
Definition snapshot (p : pool) : list (list nat) :=
  p_free p ::
  map (fun hc => match snd hc with
                 | Some c => [fst hc; c; nth c (p_counts p) 0; nth c (p_vals p) 0]
                 | None => [fst hc]
                 end)
      (combine (seq 0 (length (p_handles p))) (p_handles p)).

Definition res_code (r : res) : nat :=
  match r with RHandle h => 10 + h | ROk => 0 | RInUse => 1 | RBad => 2 end.
Definition run_codes (ops : list op) : list nat * list (list nat) :=
  let '(p, rs) := run empty ops in (map res_code rs, snapshot p).
