(* Model of the per-draw momentum refresh of NutsChain::draw -> nuts::draw ->
   TransformedHamiltonian::initialize_trajectory(resample = true) (src/chain.rs, src/nuts.rs,
   src/dynamics/transformed_hamiltonian.rs): every trajectory starts with a velocity that is the
   next `dim` outputs of the standard-normal stream (array_gaussian with unit scales), and the
   tree building itself draws nothing from that stream. *)
From Coq Require Import List Arith Lia.
Import ListNotations.

Section Momentum.
  Variable T : Type.
  Variable stream : nat -> T.        (* the i-th output of the chain's standard-normal stream *)
  Variable dim : nat.

  Definition segment (start : nat) : list T := map stream (seq start dim).

  (* state: position in the normal stream; one draw consumes one segment *)
  Definition draw_velocity (pos : nat) : list T * nat := (segment pos, pos + dim).

  Fixpoint velocities (pos : nat) (ndraws : nat) : list (list T) :=
    match ndraws with
    | O => []
    | S n => let '(v, pos') := draw_velocity pos in v :: velocities pos' n
    end.

  (* stream indices used by draw k *)
  Definition indices (k : nat) : list nat := seq (k * dim) dim.
End Momentum.
