(* Model of the SIMD kernels of src/math/util.rs (pulp::WithSimd bodies) and of the plain loops of
   src/math/cpu_math.rs, generic in
     - the lane count L of the vector type (pulp: Scalar = 1, V3/AVX2 = 4, V4/AVX-512 = 8),
     - the number type T with its operations (instantiated with binary64 for the bit-exact
       correspondence and with Q for the algebraic theorems),
     - whether mul_add_e is fused (it is on V3/V4, it is not on pulp's Scalar).
   Slices are lists.  pulp splits a slice into floor(n/L) vectors followed by n mod L scalars
   (S::as_simd_f64s), and the vectors into groups of four followed by fewer than four single
   vectors (pulp::as_arrays::<4>). *)
From Coq Require Import ZArith NArith Bool List Lia.
Import ListNotations.

Section Kern.
  Variable T : Type.
  Variables (zero : T) (add sub mul : T -> T -> T) (neg : T -> T).
  Variable fma : T -> T -> T -> T.     (* fma a b c = a*b + c, one rounding *)
  Variable fused_e : bool.             (* mul_add_e uses fma *)
  Variable L : nat.                    (* lanes, >= 1 *)

  Definition mul_add_e (a b c : T) : T := if fused_e then fma a b c else add (mul a b) c.

  (* lane-wise maps on vectors (lists of length L) *)
  Fixpoint map2 {A B C} (f : A -> B -> C) (x : list A) (y : list B) : list C :=
    match x, y with a :: x', b :: y' => f a b :: map2 f x' y' | _, _ => [] end.
  Fixpoint map3 {A B C D} (f : A -> B -> C -> D) (x : list A) (y : list B) (z : list C) : list D :=
    match x, y, z with a :: x', b :: y', c :: z' => f a b c :: map3 f x' y' z' | _, _, _ => [] end.
  Fixpoint map4 {A B C D E} (f : A -> B -> C -> D -> E) (w : list A) (x : list B) (y : list C)
    (z : list D) : list E :=
    match w, x, y, z with
    | a :: w', b :: x', c :: y', d :: z' => f a b c d :: map4 f w' x' y' z'
    | _, _, _, _ => []
    end.

  (* number of full vectors, number of groups of four, leftover vectors, scalar tail *)
  Definition nvec (n : nat) : nat := n / L.
  Definition ngroups (n : nat) : nat := nvec n / 4.
  Definition nrest (n : nat) : nat := nvec n mod 4.
  Definition ntail (n : nat) : nat := n mod L.

  (* ---------------------------------------------------------------------------------- *)
  (* element-wise kernels: a vector operation on the head, a scalar operation on the tail  *)
  (* ---------------------------------------------------------------------------------- *)
  (* the head has nvec*L elements: groups of four vectors and the leftover vectors apply the same
     lane-wise operation, so the head is one lane-wise map *)
  Definition head {A} (x : list A) : list A := firstn (nvec (length x) * L) x.
  Definition tail {A} (x : list A) : list A := skipn (nvec (length x) * L) x.

  Definition elementwise2 (fv fs : T -> T -> T) (x y : list T) : list T :=
    map2 fv (head x) (head y) ++ map2 fs (tail x) (tail y).
  Definition elementwise3 (fv fs : T -> T -> T -> T) (x y z : list T) : list T :=
    map3 fv (head x) (head y) (head z) ++ map3 fs (tail x) (tail y) (tail z).

  (* Multiply / MultiplyInplace *)
  Definition k_multiply (x y : list T) : list T := elementwise2 mul mul x y.
  (* Axpy: y := a*x + y ; AxpyOut: out := a*x + y.  Vector part mul_add_e, tail f64::mul_add *)
  Definition k_axpy (a : T) (x y : list T) : list T :=
    elementwise2 (fun xi yi => mul_add_e a xi yi) (fun xi yi => fma a xi yi) x y.
  (* StdNormFlow: (pos_out, vel') *)
  Definition k_std_norm_flow (s c : T) (pos vel : list T) : list T * list T :=
    (elementwise2 (fun p v => fma p c (mul v s)) (fun p v => add (mul p c) (mul v s)) pos vel,
     elementwise2 (fun p v => fma p (neg s) (mul v c)) (fun p v => add (mul p (neg s)) (mul v c)) pos vel).
  (* StdNormGradFlow(Inplace): vel_out = vel + eps*(pos+grad) *)
  Definition k_std_norm_grad_flow (eps : T) (pos grad vel : list T) : list T :=
    elementwise3 (fun p g v => fma eps (add p g) v) (fun p g v => add v (mul eps (add p g)))
                 pos grad vel.

  (* ---------------------------------------------------------------------------------- *)
  (* reductions                                                                          *)
  (* ---------------------------------------------------------------------------------- *)
  Definition vzero : list T := repeat zero L.
  Definition vadd (x y : list T) : list T := map2 add x y.

  (* reduce_sum_f64s: fold the upper half onto the lower half until one lane is left
     (V4: 8 -> 4 lanes, V3: 4 -> 2 lanes, then lane0 + lane1; Scalar: the value itself) *)
  Fixpoint reduce_lanes (fuel : nat) (v : list T) : T :=
    match fuel with
    | O => hd zero v
    | S f =>
        match v with
        | [] => zero
        | [a] => a
        | _ => let h := Nat.div2 (length v) in
               reduce_lanes f (map2 add (firstn h v) (skipn h v))
        end
    end.

  (* chunk i (0-based) of length L of a slice *)
  Definition vec_at {A} (x : list A) (i : nat) : list A := firstn L (skipn (i * L) x).

  (* generic reduction with `k` input slices combined per lane by `term` into a factor that is
     multiplied with x (accumulator 1) and y (accumulator 2):
     ScalarProds2: term = p1 + p2 ; ScalarProds3: term = (p1 + p2) - n1 ; VectorDot: one product.
     acc : 4 accumulators of L lanes. *)
  Record accs := { a0 : list T; a1 : list T; a2 : list T; a3 : list T }.
  Definition accs_zero : accs := {| a0 := vzero; a1 := vzero; a2 := vzero; a3 := vzero |}.

  Section Reduce.
    Variable nslices : nat.
    (* the factor vectors and the multiplicand vectors, as functions of the vector index *)
    Variable fac : nat -> list T.
    Variable mulv : nat -> list T.
    Variable n : nat.   (* slice length *)

    Definition step_group (g : nat) (a : accs) : accs :=
      {| a0 := map3 mul_add_e (fac (4 * g)) (mulv (4 * g)) (a0 a);
         a1 := map3 mul_add_e (fac (4 * g + 1)) (mulv (4 * g + 1)) (a1 a);
         a2 := map3 mul_add_e (fac (4 * g + 2)) (mulv (4 * g + 2)) (a2 a);
         a3 := map3 mul_add_e (fac (4 * g + 3)) (mulv (4 * g + 3)) (a3 a) |}.
    Definition step_rest (i : nat) (a : accs) : accs :=
      {| a0 := map3 mul_add_e (fac i) (mulv i) (a0 a); a1 := a1 a; a2 := a2 a; a3 := a3 a |}.

    Fixpoint loop_groups (g todo : nat) (a : accs) : accs :=
      match todo with O => a | S t => loop_groups (S g) t (step_group g a) end.
    Fixpoint loop_rest (i todo : nat) (a : accs) : accs :=
      match todo with O => a | S t => loop_rest (S i) t (step_rest i a) end.

    Definition reduce_head : T :=
      let a := loop_groups 0 (ngroups n) accs_zero in
      let a := loop_rest (4 * ngroups n) (nrest n) a in
      reduce_lanes L (vadd (vadd (a0 a) (a1 a)) (vadd (a2 a) (a3 a))).
  End Reduce.

  (* scalar tail: out += fac_i * x_i (two roundings) *)
  Fixpoint tail_acc (r : T) (f x : list T) : T :=
    match f, x with a :: f', b :: x' => tail_acc (add r (mul a b)) f' x' | _, _ => r end.

  Definition k_vector_dot (x y : list T) : T :=
    let n := length x in
    let r := reduce_head (vec_at x) (vec_at y) n in
    tail_acc r (tail x) (tail y).

  (* ScalarProds2(positive1, positive2, x, y) *)
  Definition k_scalar_prods2 (p1 p2 x y : list T) : T * T :=
    let n := length p1 in
    let fac i := map2 add (vec_at p1 i) (vec_at p2 i) in
    let ft := map2 add (tail p1) (tail p2) in
    (tail_acc (reduce_head fac (vec_at x) n) ft (tail x),
     tail_acc (reduce_head fac (vec_at y) n) ft (tail y)).

  (* ScalarProds3(positive1, negative1, positive2, x, y):
     vector part (p1 + p2) - n1, scalar tail (p1 - n1) + p2 *)
  Definition k_scalar_prods3 (p1 n1 p2 x y : list T) : T * T :=
    let n := length p1 in
    let fac i := map2 sub (map2 add (vec_at p1 i) (vec_at p2 i)) (vec_at n1 i) in
    let ft := map2 add (map2 sub (tail p1) (tail n1)) (tail p2) in
    (tail_acc (reduce_head fac (vec_at x) n) ft (tail x),
     tail_acc (reduce_head fac (vec_at y) n) ft (tail y)).

  (* ---------------------------------------------------------------------------------- *)
  (* plain loops of cpu_math.rs                                                           *)
  (* ---------------------------------------------------------------------------------- *)
  (* sq_norm_sum: sum_i (x_i + y_i)^2, left to right from 0.0 (Iterator::sum) *)
  Definition k_sq_norm_sum (x y : list T) : T :=
    fold_left add (map2 (fun a b => mul (add a b) (add a b)) x y) zero.
End Kern.

Arguments accs : clear implicits.
