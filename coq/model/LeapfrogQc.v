(* Qc (canonical rationals) instance of model/Leapfrog.v with polynomial test potentials, and
   the evaluation entry points of the correspondence check. *)
From Coq Require Import List ZArith QArith Qcanon.
From NutsV Require Import model.Leapfrog.
Import ListNotations.

Definition qc := Qc.
Definition QcT := Qc.
Definition cvec := list Qc.

Definition c_add := Qcplus.
Definition c_sub := Qcminus.
Definition c_mul := Qcmult.
Definition c_opp := Qcopp.
Definition c_inv := Qcinv.
Definition c0 : Qc := Q2Qc 0.
Definition c1 : Qc := Q2Qc 1.
Definition chalf : Qc := Q2Qc (1 # 2).

Definition cdiag := diag Qc.
Definition clowrank := lowrank Qc.

Definition c_dot := dot Qc c0 c_add c_mul.
Definition c_diag_fwd := diag_fwd Qc c_add c_mul.
Definition c_diag_inv := diag_inv Qc c_sub c_mul.
Definition c_diag_grad := diag_grad Qc c_mul.
Definition c_lr_fwd := lr_fwd Qc c0 c1 c_add c_sub c_mul.
Definition c_lr_inv := lr_inv Qc c0 c1 c_add c_sub c_mul.
Definition c_lr_grad := lr_grad Qc c0 c1 c_add c_sub c_mul.
Definition c_step := step Qc c_add c_mul c_opp.
Definition c_lowrank_apply := lowrank_apply Qc c0 c1 c_add c_sub c_mul.

(* potential: logp x = -1/2 sum p_i (x_i-m_i)^2 - c4/4 sum (x_i-m_i)^4 *)
Record potential := { p_prec : cvec; p_mean : cvec; p_quartic : Qc }.

Fixpoint gradx (p m : cvec) (c4 : Qc) (x : cvec) : cvec :=
  match p, m, x with
  | pi :: p', mi :: m', xi :: x' =>
      let d := (xi - mi)%Qc in (- (pi * d) - c4 * d * d * d)%Qc :: gradx p' m' c4 x'
  | _, _, _ => []
  end.
Fixpoint logp (p m : cvec) (c4 : Qc) (x : cvec) : Qc :=
  match p, m, x with
  | pi :: p', mi :: m', xi :: x' =>
      let d := (xi - mi)%Qc in
      (- (chalf * pi * d * d) - (c4 * Q2Qc (1 # 4)) * d * d * d * d + logp p' m' c4 x')%Qc
  | _, _, _ => c0
  end.

Definition pot_grad (P : potential) := gradx (p_prec P) (p_mean P) (p_quartic P).
Definition pot_logp (P : potential) := logp (p_prec P) (p_mean P) (p_quartic P).

(* whitened gradient for the low-rank (or, with l_inner = false, diagonal) transformation *)
Definition tg_of (P : potential) (l : clowrank) (q : cvec) : cvec :=
  c_lr_grad l (pot_grad P (c_lr_fwd l q)).

Definition qpair (x : Qc) : list Z := [Qnum (this x); Z.pos (Qden (this x))].
Definition print_vec (v : cvec) : list (list Z) := map qpair v.

Definition kind_of_N (k : N) : kind := match k with 1%N => ExactNormal | _ => Euclidean end.

(* one step; prints [q'; v'; x'; tg'; [logp']; [kinetic']] *)
Definition eval_step (P : potential) (l : clowrank) (k : N) (eps c s : Qc) (q v : cvec)
  : list (list (list Z)) :=
  let '(q1, v2) := c_step (tg_of P l) (kind_of_N k) eps (eps * chalf)%Qc c s (q, v) in
  let x1 := c_lr_fwd l q1 in
  [print_vec q1; print_vec v2; print_vec x1; print_vec (tg_of P l q1);
   [qpair (pot_logp P x1)]; [qpair (chalf * c_dot v2 v2)%Qc]].

(* position / gradient maps alone: [F y + mu; F^-1 x; F^T g] *)
Definition eval_maps (l : clowrank) (y x g : cvec) : list (list (list Z)) :=
  [print_vec (c_lr_fwd l y); print_vec (c_lr_inv l x); print_vec (c_lr_grad l g)].

Definition mk_diag (sigma mu : list Q) : cdiag :=
  {| d_sigma := map Q2Qc sigma; d_inv_sigma := map (fun s => Qcinv (Q2Qc s)) sigma;
     d_mu := map Q2Qc mu |}.
Definition mk_lowrank (sigma mu : list Q) (cols : list (list Q)) (r rinv lmu : list Q) (inner : bool)
  : clowrank :=
  {| l_diag := mk_diag sigma mu; l_cols := map (map Q2Qc) cols; l_r := map Q2Qc r;
     l_rinv := map Q2Qc rinv; l_mu := map Q2Qc lmu; l_inner := inner |}.
Definition mk_pot (prec mean : list Q) (c4 : Q) : potential :=
  {| p_prec := map Q2Qc prec; p_mean := map Q2Qc mean; p_quartic := Q2Qc c4 |}.
