(* Model of the microcanonical sampler's structural parts:
     - the ESH momentum update (CpuMath::esh_momentum_update, src/math/cpu_math.rs) over exact
       rationals, with zeta = exp(-delta) an input,
     - the step / halving loop of MclmcChain::mclmc_kernel (src/mclmc.rs) as an integer state
       machine over a scripted list of leapfrog outcomes,
     - the Euclidean -> Microcanonical trajectory switch of MclmcChain::draw. *)
From Coq Require Import QArith List ZArith NArith Bool Lia.
Import ListNotations.

(* ------------------------------------------------------------------------------------------ *)
(* ESH update                                                                                   *)
(* ------------------------------------------------------------------------------------------ *)
Fixpoint qdot (x y : list Q) : Q :=
  match x, y with a :: x', b :: y' => a * b + qdot x' y' | _, _ => 0 end.
Fixpoint qmap2 (f : Q -> Q -> Q) (x y : list Q) : list Q :=
  match x, y with a :: x', b :: y' => f a b :: qmap2 f x' y' | _, _ => [] end.

(* p_raw = ghat * (1 - z)(1 + z + alpha (1 - z)) + 2 z p,  alpha = p . ghat *)
Definition esh_alpha (ghat p : list Q) : Q := qdot p ghat.
Definition esh_coeff_g (alpha z : Q) : Q := (1 - z) * (1 + z + alpha * (1 - z)).
Definition esh_raw (ghat p : list Q) (z : Q) : list Q :=
  let a := esh_alpha ghat p in
  qmap2 (fun g pi => esh_coeff_g a z * g + 2 * z * pi) ghat p.
(* the closed-form norm of p_raw: 1 + alpha + (1 - alpha) z^2 *)
Definition esh_norm (alpha z : Q) : Q := 1 + alpha + (1 - alpha) * z * z.
Definition esh_update (ghat p : list Q) (z : Q) : list Q :=
  let a := esh_alpha ghat p in
  map (fun x => x / esh_norm a z) (esh_raw ghat p z).
(* argument of ln_1p in the reported kinetic energy change: alpha + (1 - alpha) z^2 *)
Definition esh_log_arg (alpha z : Q) : Q := alpha + (1 - alpha) * z * z.

(* ------------------------------------------------------------------------------------------ *)
(* the microcanonical leapfrog step                                                             *)
(* ------------------------------------------------------------------------------------------ *)
(* TransformedHamiltonian::leapfrog for KineticEnergyKind::Microcanonical:
   first_velocity_halfstep / position_step / second_velocity_halfstep.
     ghat_of x : unit gradient direction at position x,
     z_of x    : z = exp(-|eps| sqrt(d) |grad| / (2 (d - 1))) at x (an input, like z above),
     c         : eps * sqrt d.
   A backward step uses -eps: the drift changes sign and exp(-delta) becomes exp(+delta) = 1 / z. *)
Section MicroStep.
  Variable ghat_of : list Q -> list Q.
  Variable z_of : list Q -> Q.
  Variable c : Q.

  Definition micro_step (fwd : bool) (q p : list Q) : list Q * list Q :=
    let zz x := if fwd then z_of x else / z_of x in
    let p1 := esh_update (ghat_of q) p (zz q) in
    let q1 := qmap2 (fun a b => a + (if fwd then c else - c) * b) q p1 in
    let p2 := esh_update (ghat_of q1) p1 (zz q1) in (q1, p2).
End MicroStep.

Definition print_q (x : Q) : list Z := [Qnum (Qred x); Z.pos (Qden (Qred x))].
Definition eval_esh (ghat p : list Q) (z : Q) : list (list Z) :=
  map print_q (esh_update ghat p z) ++ [print_q (esh_alpha ghat p)] ++
  [print_q (qdot (esh_update ghat p z) (esh_update ghat p z))].

(* one forward/backward microcanonical step with its inputs spelled out: the unit gradient
   directions and the z = exp(-+delta) values at the start and at the new position, and the signed
   drift length c = +-eps*sqrt(d); evaluated on logged steps of the real integrator *)
Definition micro_step_inputs (g0 g1 : list Q) (z0 z1 c : Q) (q p : list Q) : list Q * list Q :=
  let p1 := esh_update g0 p z0 in
  let q1 := qmap2 (fun a b => a + c * b) q p1 in
  (q1, esh_update g1 p1 z1).
Definition eval_micro (g0 g1 : list Q) (z0 z1 c : Q) (q p : list Q) : list (list (list Z)) :=
  let r := micro_step_inputs g0 g1 z0 z1 c q p in [map print_q (fst r); map print_q (snd r)].

(* ------------------------------------------------------------------------------------------ *)
(* the step / halving loop                                                                      *)
(* ------------------------------------------------------------------------------------------ *)
Inductive outcome := OOk | ODiv | OErr.

Record kstate := {
  k_remaining : nat;
  k_stack : list nat;        (* remaining_stack, top first *)
  k_steps : nat;             (* steps_taken *)
  k_time : Q;                (* in units of the base step size: sum of factors *)
  k_log : list nat           (* halving depth h of every attempt (factor = 2^-h), oldest first *)
}.

Inductive kresult :=
| KDone (s : kstate)               (* normal exit: remaining = 0 *)
| KDiverged (s : kstate)           (* divergence with the halving budget exhausted *)
| KError (s : kstate)              (* unrecoverable error *)
| KStarved (s : kstate).           (* script exhausted (not a behaviour of the code) *)

Definition pow2inv (h : nat) : Q := 1 # (Pos.of_nat (2 ^ h)).

(* `while remaining == 0 { if let Some(prev) = stack.pop() { remaining = prev - 1; factor *= 2 } else break }` *)
Fixpoint unwind (fuel : nat) (remaining : nat) (stack : list nat) : nat * list nat :=
  match fuel with
  | O => (remaining, stack)
  | S f =>
      match remaining, stack with
      | O, prev :: rest => unwind f (prev - 1) rest
      | _, _ => (remaining, stack)
      end
  end.

Fixpoint kernel_loop (max_halvings : nat) (outs : list outcome) (s : kstate) : kresult :=
  match k_remaining s with
  | O => KDone s
  | S _ =>
      match outs with
      | [] => KStarved s
      | o :: rest =>
          let h := length (k_stack s) in
          let log := k_log s ++ [h] in
          match o with
          | OOk =>
              let '(r, st) := unwind (S h) (k_remaining s - 1) (k_stack s) in
              kernel_loop max_halvings rest
                {| k_remaining := r; k_stack := st; k_steps := S (k_steps s);
                   k_time := k_time s + pow2inv h; k_log := log |}
          | ODiv =>
              if max_halvings <=? h
              then KDiverged {| k_remaining := k_remaining s; k_stack := k_stack s; k_steps := k_steps s;
                                k_time := k_time s; k_log := log |}
              else kernel_loop max_halvings rest
                     {| k_remaining := 2; k_stack := k_remaining s :: k_stack s; k_steps := k_steps s;
                        k_time := k_time s; k_log := log |}
          | OErr => KError {| k_remaining := k_remaining s; k_stack := k_stack s; k_steps := k_steps s;
                              k_time := k_time s; k_log := log |}
          end
      end
  end.

Definition kernel (num_base max_halvings : nat) (outs : list outcome) : kresult :=
  kernel_loop max_halvings outs
    {| k_remaining := num_base; k_stack := []; k_steps := 0; k_time := 0; k_log := [] |}.

(* work still owed, in units of the base step: remaining at the current factor plus the suspended
   outer levels *)
Fixpoint owed_stack (h : nat) (stack : list nat) : Q :=
  match stack, h with
  | prev :: rest, S h' => inject_Z (Z.of_nat (prev - 1)) * pow2inv h' + owed_stack h' rest
  | _, _ => 0
  end.
Definition owed (s : kstate) : Q :=
  let h := length (k_stack s) in
  inject_Z (Z.of_nat (k_remaining s)) * pow2inv h + owed_stack h (k_stack s).

Definition out_of_code (c : Z) : outcome := match c with 0%Z => OOk | 1%Z => ODiv | _ => OErr end.

(* [kind; steps; time num; time den; remaining] :: [halving depth of every attempt] *)
Definition run_kernel_model (num_base max_halvings : nat) (codes : list Z) : list (list Z) :=
  let pr kind s := [[kind; Z.of_nat (k_steps s); Qnum (Qred (k_time s)); Z.pos (Qden (Qred (k_time s)));
                     Z.of_nat (k_remaining s)]%Z; map Z.of_nat (k_log s)] in
  match kernel num_base max_halvings (map out_of_code codes) with
  | KDone s => pr 0%Z s | KDiverged s => pr 1%Z s | KError s => pr 2%Z s | KStarved s => pr 3%Z s
  end.

(* ------------------------------------------------------------------------------------------ *)
(* trajectory switch                                                                            *)
(* ------------------------------------------------------------------------------------------ *)
Inductive tkind := TMicro | TEuclid | TEarlyThenMicro.
(* current kinetic-energy kind is microcanonical? ; returns (new kind flag, resample velocity) *)
Definition switch_step (k : tkind) (switch_draw draw_count : N) (is_micro : bool) : bool * bool :=
  match k with
  | TEarlyThenMicro =>
      if (draw_count =? switch_draw)%N && negb is_micro then (true, true) else (is_micro, false)
  | _ => (is_micro, false)
  end.
Definition initial_micro (k : tkind) : bool := match k with TMicro => true | _ => false end.

Fixpoint switch_run (k : tkind) (switch_draw : N) (d : N) (n : nat) (is_micro : bool) : list (bool * bool) :=
  match n with
  | O => []
  | S n' => let r := switch_step k switch_draw d is_micro in r :: switch_run k switch_draw (d + 1) n' (fst r)
  end.
