(* Presence model for C16: under which condition the code builds `Some` for each Option field of
   the statistics structs.  Mirrors
     DivergenceStats::from                      (src/dynamics/hamiltonian.rs)
     the two DivergenceInfo construction sites  (src/dynamics/transformed_hamiltonian.rs, leapfrog)
     TransformedPoint::extract_stats            (src/dynamics/transformed_hamiltonian.rs)
     DiagMassMatrix::extract_stats              (src/transform/diagonal.rs)
     LowRankMassMatrix::extract_stats           (src/transform/low_rank.rs)
     Chain::expanded_draw + next_stats_options  (src/chain.rs, src/mclmc.rs: last reported id)
   Fields whose Rust type is not an Option are always present (the macro wraps them in Some). *)
From Coq Require Import String List Bool ZArith.
From NutsV Require Import model.Derive.
Import ListNotations.
Local Open Scope string_scope.
Local Open Scope list_scope.

(* the option switches of the settings *)
Record opts := {
  store_gradient : bool;
  store_unconstrained : bool;
  store_transformed : bool;
  store_divergences : bool;
  store_mass_matrix : bool
}.

(* DivergenceInfo: which of its Option fields are Some *)
Record div_info := {
  di_start_momentum : bool;
  di_start_location : bool;
  di_start_gradient : bool;
  di_end_location : bool;
  di_energy_error : bool;
  di_logp_error : bool
}.

(* the two places that build a DivergenceInfo *)
Inductive cause := CLogp | CEnergy.

Definition info_of (c : cause) : div_info :=
  match c with
  | CLogp =>      (* recoverable logp error *)
      {| di_start_momentum := false; di_start_location := true; di_start_gradient := true;
         di_end_location := false; di_energy_error := false; di_logp_error := true |}
  | CEnergy =>    (* energy error above the limit, or NaN *)
      {| di_start_momentum := false; di_start_location := true; di_start_gradient := true;
         di_end_location := true; di_energy_error := true; di_logp_error := false |}
  end.

(* What one draw looks like to extract_stats: the divergence of the draw (if any), whether the
   transformation id differs from the last reported one, and (low rank only) whether the matrix
   currently has a low-rank part (`inner.is_some()`). *)
Record view := { v_div : option cause; v_upd : bool; v_inner : bool }.

Definition is_some {A : Type} (x : option A) : bool := match x with Some _ => true | None => false end.

(* `info.and_then(|d| d.field...)` *)
Definition info_field (v : view) (f : div_info -> bool) : bool :=
  match v_div v with Some c => f (info_of c) | None => false end.

(* rule for the Option fields, by statistic name; None = the model knows no such Option field *)
Definition rule_of (name : string) : option (opts -> view -> bool) :=
  (* DivergenceStats::from *)
  if name =? "divergence_draw" then Some (fun o v => is_some (v_div v))
  else if name =? "divergence_message" then Some (fun o v => is_some (v_div v))
  else if name =? "divergence_start" then Some (fun o v => store_divergences o && info_field v di_start_location)
  else if name =? "divergence_start_gradient" then Some (fun o v => store_divergences o && info_field v di_start_gradient)
  else if name =? "divergence_end" then Some (fun o v => store_divergences o && info_field v di_end_location)
  else if name =? "divergence_momentum" then Some (fun o v => store_divergences o && info_field v di_start_momentum)
  else if name =? "divergence_energy_error" then Some (fun o v => info_field v di_energy_error)
  (* TransformedPoint::extract_stats *)
  else if name =? "unconstrained_draw" then Some (fun o v => store_unconstrained o)
  else if name =? "gradient" then Some (fun o v => store_gradient o)
  else if name =? "transformed_position" then Some (fun o v => store_transformed o)
  else if name =? "transformed_gradient" then Some (fun o v => store_transformed o)
  (* DiagMassMatrix::extract_stats / LowRankMassMatrix::extract_stats *)
  else if name =? "transformation_update_id" then Some (fun o v => v_upd v)
  else if name =? "mass_matrix_inv" then Some (fun o v => v_upd v && store_mass_matrix o)
  else if name =? "transformation_mu" then Some (fun o v => v_upd v && store_mass_matrix o)
  else if name =? "mass_matrix_stds" then Some (fun o v => v_upd v && store_mass_matrix o)
  else if name =? "mass_matrix_eigvals" then Some (fun o v => v_upd v && store_mass_matrix o && v_inner v)
  else if name =? "num_eigenvalues" then Some (fun o v => v_upd v)
  else None.

(* presence of statistic `name` of declaration d as a function of the switches and the draw;
   None = unknown name or an Option field without rule *)
Definition presence_fn (d : decl) (name : string) : option (opts -> view -> bool) :=
  match lookup_src d name with
  | None => None
  | Some (_, _, _, is_opt) => if is_opt then rule_of name else Some (fun _ _ => true)
  end.

Definition present (d : decl) (o : opts) (v : view) (name : string) : option bool :=
  option_map (fun f => f o v) (presence_fn d name).

Definition row_presence (d : decl) (o : opts) (v : view) : list (string * option bool) :=
  map (fun n => (n, present d o v n)) (names d).

(* ---------------------------------------------------------------------------------------- *)
(* Classification of the declared statistics                                                  *)
(* ---------------------------------------------------------------------------------------- *)
Inductive pclass :=
| PAlways                       (* no event dimension, not an Option *)
| POption (flag : string)       (* no event dimension, switched by a settings flag *)
| PEvent (ev : string).         (* has an event dimension *)

Definition flag_of (name : string) : option string :=
  if name =? "unconstrained_draw" then Some "store_unconstrained"
  else if name =? "gradient" then Some "store_gradient"
  else if name =? "transformed_position" then Some "store_transformed"
  else if name =? "transformed_gradient" then Some "store_transformed"
  else None.

Definition classify (d : decl) (name : string) : option pclass :=
  match lookup_src d name with
  | None => None
  | Some (_, _, Some e, _) => Some (PEvent e)
  | Some (_, _, None, true) => option_map POption (flag_of name)
  | Some (_, _, None, false) => Some PAlways
  end.

Definition pclass_code (c : option pclass) : string :=
  match c with
  | None => "unclassified"
  | Some PAlways => "always"
  | Some (POption f) => "option:" ++ f
  | Some (PEvent e) => "event:" ++ e
  end.

Definition classification (d : decl) : list (string * string) :=
  map (fun n => (n, pclass_code (classify d n))) (names d).

(* the identifying statistics of the two events *)
Definition identifying (ev : string) : list string :=
  if ev =? "divergence" then ["divergence_draw"; "divergence_message"]
  else if ev =? "transformation_update" then ["transformation_update_id"]
  else [].

(* did the event happen on this draw? None = an event the model does not know *)
Definition event_fn (ev : string) : option (view -> bool) :=
  if ev =? "divergence" then Some (fun v => is_some (v_div v))
  else if ev =? "transformation_update" then Some (fun v => v_upd v)
  else None.

Definition event_happened (v : view) (ev : string) : option bool :=
  option_map (fun f => f v) (event_fn ev).

(* ---------------------------------------------------------------------------------------- *)
(* The last reported transformation id                                                        *)
(* ---------------------------------------------------------------------------------------- *)
(* expanded_draw: extract_stats compares the current id with the stored one (`self.id != last_id`),
   afterwards `stats_options.hamiltonian = next_stats_options(..) = self.id`. *)
Definition report_step (last cur : Z) : bool * Z := (negb (Z.eqb cur last), cur).

(* ids: the transformation id at the time of each expanded_draw; result: update reported? *)
Fixpoint reports (last : Z) (ids : list Z) : list bool :=
  match ids with
  | [] => []
  | cur :: tl => fst (report_step last cur) :: reports (snd (report_step last cur)) tl
  end.

(* the stored id before the first draw (`hamiltonian: -1` in every stats_options of sampler.rs) *)
Definition initial_last_id : Z := (-1)%Z.

Definition view_of (div : option cause) (last cur : Z) (inner : bool) : view :=
  {| v_div := div; v_upd := fst (report_step last cur); v_inner := inner |}.

(* ---------------------------------------------------------------------------------------- *)
(* Finite enumeration (for the closed obligations)                                            *)
(* ---------------------------------------------------------------------------------------- *)
Definition bools : list bool := [true; false].

Definition all_opts : list opts :=
  flat_map (fun a => flat_map (fun b => flat_map (fun c => flat_map (fun d => map (fun e =>
    {| store_gradient := a; store_unconstrained := b; store_transformed := c;
       store_divergences := d; store_mass_matrix := e |}) bools) bools) bools) bools) bools.

Definition all_views : list view :=
  flat_map (fun dv => flat_map (fun u => map (fun i =>
    {| v_div := dv; v_upd := u; v_inner := i |}) bools) bools) [None; Some CLogp; Some CEnergy].

Definition obool_eqb (a b : option bool) : bool :=
  match a, b with
  | None, None => true
  | Some x, Some y => Bool.eqb x y
  | _, _ => false
  end.

(* every declared statistic has a class and a presence rule *)
Definition opts0 : opts :=
  {| store_gradient := false; store_unconstrained := false; store_transformed := false;
     store_divergences := false; store_mass_matrix := false |}.
Definition view0 : view := {| v_div := None; v_upd := false; v_inner := false |}.

Definition all_classified (d : decl) : bool :=
  forallb (fun n => is_some (classify d n) && is_some (present d opts0 view0 n)) (names d).

(* event statistics: only on draws where their event happened *)
Definition chk_event_only (d : decl) (n : string) : opts -> view -> bool :=
  match event_dim d n with
  | Some (Some e) =>
      match event_fn e, presence_fn d n with
      | Some h, Some p => fun o v => implb (p o v) (h v)
      | _, _ => fun _ _ => false
      end
  | _ => fun _ _ => true
  end.

(* identifying statistics: on every such draw (and they are declared for that event) *)
Definition chk_identifying (d : decl) (n : string) : opts -> view -> bool :=
  match event_dim d n with
  | Some (Some e) =>
      if mem n (identifying e)
      then match event_fn e, presence_fn d n with
           | Some h, Some p => fun o v => Bool.eqb (p o v) (h v)
           | _, _ => fun _ _ => false
           end
      else fun _ _ => true
  | _ => fun _ _ => true
  end.

(* every event of a declaration that has event statistics also declares all identifying ones *)
Definition chk_identifying_declared (d : decl) : bool :=
  forallb (fun n => match event_dim d n with
                    | Some (Some e) =>
                        negb (Nat.eqb (length (identifying e)) 0) &&
                        forallb (fun i => match event_dim d i with
                                          | Some (Some e') => String.eqb e e'
                                          | _ => false
                                          end) (identifying e)
                    | _ => true
                    end) (names d).

(* statistics without event dimension: presence does not depend on the draw *)
Definition chk_non_event (d : decl) (n : string) : opts -> view -> bool :=
  match event_dim d n with
  | Some None =>
      match presence_fn d n with
      | Some p => fun o v => Bool.eqb (p o v) (p o view0)
      | None => fun _ _ => false
      end
  | _ => fun _ _ => true
  end.
