(* Model of the NUTS tree building of src/nuts.rs (NutsTree::{extend, merge_into, single_step},
   draw) over an abstract orbit.

   The orbit is indexed by absolute integers: the trajectory that starts at the state with index
   `a` visits a+1, a+2, ... forwards and a-1, a-2, ... backwards (the code numbers the start 0; by
   reversibility of the integrator, C02, the states reached from any state of an orbit are the same
   orbit re-indexed, which is what makes an absolute index meaningful).

     wt i      > 0   weight of state i, exp(-energy_i) up to a common factor (the code works with
                     log weights relative to the start; only ratios of weights are ever used)
     turn i j        U-turn criterion between the states with indices i < j (the code orders the
                     two states by index before evaluating it)
     bad i           stepping onto index i is a divergence (energy error too large or non-finite,
                     recoverable logp error)
     fatal i         stepping onto index i raises an unrecoverable logp error

   Random choices are nodes of a free choice tree, in the order in which the code consumes random
   words: Dir = `rng.random::<Direction>()`, Flip p = `rng.random_bool(p)`. *)
From Coq Require Import ZArith NArith Bool List QArith Lia.
Import ListNotations.
Local Open Scope Z_scope.

Inductive ptree (A : Type) : Type :=
| Ret (a : A)
| Tick (i : Z) (k : ptree A)            (* one leapfrog step onto index i *)
| Dir (k : bool -> ptree A)             (* k true = forward *)
| Flip (p : Q) (k : bool -> ptree A).   (* k true = the coin with probability p came up *)
Arguments Ret {A}. Arguments Tick {A}. Arguments Dir {A}. Arguments Flip {A}.
(* (continuations are functions so that evaluating a run does not build the other branches) *)

Fixpoint bind {A B} (m : ptree A) (f : A -> ptree B) : ptree B :=
  match m with
  | Ret a => f a
  | Tick i k => Tick i (bind k f)
  | Dir k => Dir (fun b => bind (k b) f)
  | Flip p k => Flip p (fun b => bind (k b) f)
  end.

(* expectation of g under the distribution described by the choice tree *)
Fixpoint expect {A} (m : ptree A) (g : A -> Q) : Q :=
  match m with
  | Ret a => g a
  | Tick _ k => expect k g
  | Dir k => ((1 # 2) * expect (k true) g + (1 # 2) * expect (k false) g)%Q
  | Flip p k => (p * expect (k true) g + (1 - p) * expect (k false) g)%Q
  end.

(* deterministic interpretation on a script of random words, as the scripted RNG of the harness:
   Dir consumes one word (forward iff its top bit is set: word >= 2^63), Flip p consumes one word
   w and answers yes iff w < floor(p * 2^64).  Returns the result, the unused words, the indices
   stepped on (in order) and the probabilities of the coins flipped (in order). *)
Definition two63 : Z := 9223372036854775808.
Definition two64 : Z := 18446744073709551616.
Definition coin_yes (p : Q) (w : Z) : bool :=
  w <? ((Qnum p * two64) / Z.pos (Qden p)).

Record runres (A : Type) := { rr_val : A; rr_rest : list Z; rr_ticks : list Z; rr_coins : list Q }.
Arguments rr_val {A}. Arguments rr_rest {A}. Arguments rr_ticks {A}. Arguments rr_coins {A}.

Fixpoint run {A} (m : ptree A) (script : list Z) (ticks : list Z) (coins : list Q)
  : option (runres A) :=
  match m with
  | Ret a => Some {| rr_val := a; rr_rest := script; rr_ticks := rev ticks; rr_coins := rev coins |}
  | Tick i k => run k script (i :: ticks) coins
  | Dir k => match script with
             | [] => None
             | w :: s => run (k (two63 <=? w)) s ticks coins
             end
  | Flip p k => match script with
                | [] => None
                | w :: s => run (k (coin_yes p w)) s ticks (p :: coins)
                end
  end.

Record tree := { t_lo : Z; t_hi : Z; t_sel : Z; t_w : Q; t_depth : nat; t_main : bool }.

(* result of building a sibling sub-tree *)
Inductive sres :=
| SOk (t : tree)
| STurn
| SDiv (at_idx : Z)
| SErr (at_idx : Z).

Inductive xres :=
| XOk (t : tree)
| XTurn (t : tree)
| XDiv (t : tree) (at_idx : Z)
| XErr (at_idx : Z).

Record nopts := {
  n_maxdepth : nat; n_mindepth : nat; n_extra : nat; n_check : bool; n_dim0 : bool }.

(* The depth bounds nuts::draw derives from target_integration_time (src/nuts.rs, head of `draw`):
   max_steps = ceil(target_time / step_size) (>= 1 because both are > 0; max_steps = 0 makes the
   real code panic on log2(0) and is excluded by the property's "target_integration_time > 0"),
   mindepth' = max(floor(log2 max_steps), mindepth),
   maxdepth' = min(max(max(ceil(log2 max_steps), mindepth'), 1), maxdepth).
   (eff_depths_old: the code before "fix: a target_integration_time shorter than the step size
   still integrates one step", without the max 1.) *)
Definition log2_floor (n : N) : nat := N.to_nat (N.log2 n).
Definition log2_ceil (n : N) : nat := N.to_nat (N.log2_up n).
Definition eff_depths (maxdepth mindepth : nat) (max_steps : option N) : nat * nat :=
  match max_steps with
  | None => (mindepth, maxdepth)
  | Some n =>
      let mn := Nat.max (log2_floor n) mindepth in
      (mn, Nat.min (Nat.max (Nat.max (log2_ceil n) mn) 1) maxdepth)
  end.
Definition eff_depths_old (maxdepth mindepth : nat) (max_steps : option N) : nat * nat :=
  match max_steps with
  | None => (mindepth, maxdepth)
  | Some n =>
      let mn := Nat.max (log2_floor n) mindepth in
      (mn, Nat.min (Nat.max (log2_ceil n) mn) maxdepth)
  end.
Definition eff_opts (o : nopts) (max_steps : option N) : nopts :=
  let d := eff_depths (n_maxdepth o) (n_mindepth o) max_steps in
  {| n_maxdepth := snd d; n_mindepth := fst d; n_extra := n_extra o; n_check := n_check o;
     n_dim0 := n_dim0 o |}.

Record dres := {
  d_sel : Z; d_depth : nat; d_lo : Z; d_hi : Z;
  d_div : option Z;          (* index whose evaluation diverged *)
  d_maxdepth : bool;         (* SampleInfo.reached_maxdepth *)
  d_err : option Z }.        (* unrecoverable error: draw returns Err *)

Section Tree.
  Variable wt : Z -> Q.
  Variable turn : Z -> Z -> bool.
  Variable bad : Z -> bool.
  Variable fatal : Z -> bool.

  Definition leaf (i : Z) : tree :=
    {| t_lo := i; t_hi := i; t_sel := i; t_w := wt i; t_depth := 0; t_main := false |}.

  (* NutsTree::single_step leaves from the edge of `t` in direction fwd/bwd *)
  Definition next_index (t : tree) (fwd : bool) : Z := if fwd then t_hi t + 1 else t_lo t - 1.

  (* NutsTree::merge_into.  `self` absorbs `other` built in direction fwd. *)
  Definition merged (self other : tree) (fwd : bool) (take_other : bool) : tree :=
    {| t_lo := if fwd then t_lo self else t_lo other;
       t_hi := if fwd then t_hi other else t_hi self;
       t_sel := if take_other then t_sel other else t_sel self;
       t_w := (t_w self + t_w other)%Q;
       t_depth := S (t_depth self);
       t_main := t_main self |}.

  Definition merge_into (self other : tree) (fwd : bool) : ptree tree :=
    let self_size := if t_main self then t_w self else (t_w self + t_w other)%Q in
    if Qle_bool self_size (t_w other)
    then Ret (merged self other fwd true)
    else Flip (t_w other / self_size)%Q (fun yes => Ret (merged self other fwd yes)).

  (* the three U-turn checks of extend(); each span ordered by index *)
  Definition turning (self other : tree) (fwd : bool) : bool :=
    let first := if fwd then t_lo self else t_lo other in
    let last := if fwd then t_hi other else t_hi self in
    turn first last ||
    (match t_depth self with
     | O => false
     | S _ =>
         (if fwd then turn (t_hi self) (t_hi other) else turn (t_hi other) (t_hi self)) ||
         (if fwd then turn (t_lo self) (t_lo other) else turn (t_lo other) (t_lo self))
     end).

  (* the sub-tree of depth j whose first state has index i, built in direction fwd: this is what
     `single_step` followed by `while other.depth < self.depth { other = other.extend(..) }`
     constructs (same order of leapfrogs, checks and coins) *)
  Fixpoint sibling (j : nat) (i : Z) (fwd check : bool) : ptree sres :=
    match j with
    | O => Tick i (if fatal i then Ret (SErr i) else if bad i then Ret (SDiv i) else Ret (SOk (leaf i)))
    | S j' =>
        bind (sibling j' i fwd check) (fun ra =>
          match ra with
          | SOk a =>
              bind (sibling j' (next_index a fwd) fwd check) (fun rb =>
                match rb with
                | SOk b =>
                    bind (merge_into a b fwd) (fun m =>
                      Ret (if check && turning a b fwd then STurn else SOk m))
                | r => Ret r
                end)
          | r => Ret r
          end)
    end.

  (* NutsTree::extend *)
  Definition extend (self : tree) (fwd check : bool) : ptree xres :=
    bind (sibling (t_depth self) (next_index self fwd) fwd check) (fun r =>
      match r with
      | SOk other =>
          bind (merge_into self other fwd) (fun m =>
            Ret (if check && turning self other fwd then XTurn m else XOk m))
      | STurn => Ret (XTurn self)
      | SDiv i => Ret (XDiv self i)
      | SErr i => Ret (XErr i)
      end).

  Variable o : nopts.

  Definition finish (t : tree) (maxd : bool) (dv : option Z) : dres :=
    {| d_sel := t_sel t; d_depth := t_depth t; d_lo := t_lo t; d_hi := t_hi t;
       d_div := dv; d_maxdepth := maxd; d_err := None |}.
  Definition failed (i : Z) : dres :=
    {| d_sel := 0; d_depth := 0; d_lo := 0; d_hi := 0; d_div := None; d_maxdepth := false;
       d_err := Some i |}.

  (* `for _ in 0..options.extra_doublings` after the first Turning *)
  Fixpoint extra_loop (n : nat) (t : tree) (fwd : bool) : ptree dres :=
    match n with
    | O => Ret (finish t false None)
    | S n' =>
        bind (extend t fwd false) (fun r =>
          match r with
          | XOk t' | XTurn t' => extra_loop n' t' fwd
          | XDiv t' i => Ret (finish t' false (Some i))
          | XErr i => Ret (failed i)
          end)
    end.

  (* `while tree.depth < maxdepth`; fuel = maxdepth - tree.depth *)
  Fixpoint draw_loop (fuel : nat) (t : tree) : ptree dres :=
    match fuel with
    | O => Ret (finish t true None)
    | S f =>
        let go (fwd : bool) :=
          bind (extend t fwd (n_check o && (n_mindepth o <=? t_depth t)%nat)) (fun r =>
            match r with
            | XOk t' => draw_loop f t'
            | XTurn t' => extra_loop (n_extra o) t' fwd
            | XDiv t' i => Ret (finish t' false (Some i))
            | XErr i => Ret (failed i)
            end) in
        Dir go
    end.

  Definition root (a : Z) : tree :=
    {| t_lo := a; t_hi := a; t_sel := a; t_w := wt a; t_depth := 0; t_main := true |}.

  (* nuts::draw from the state with index a *)
  Definition pdraw (a : Z) : ptree dres :=
    if n_dim0 o then Ret (finish (root a) false None)
    else draw_loop (n_maxdepth o) (root a).

  (* transition probability a -> b *)
  Definition trans_prob (a b : Z) : Q :=
    expect (pdraw a) (fun r => if (d_sel r =? b) then 1%Q else 0%Q).
End Tree.

(* ---------------------------------------------------------------------------------------- *)
(* Running the model on a logged orbit (correspondence)                                       *)
(* ---------------------------------------------------------------------------------------- *)
(* a logged state: index, weight, whitened position, velocity (exact dyadic rationals) *)
Record ostate := { os_idx : Z; os_w : Q; os_q : list Q; os_v : list Q; os_bad : bool; os_fatal : bool }.

Fixpoint find_state (l : list ostate) (i : Z) : option ostate :=
  match l with
  | [] => None
  | s :: r => if os_idx s =? i then Some s else find_state r i
  end.

Fixpoint qdot (x y : list Q) : Q :=
  match x, y with
  | a :: x', b :: y' => (a * b + qdot x' y')%Q
  | _, _ => 0%Q
  end.
Fixpoint qsub (x y : list Q) : list Q :=
  match x, y with
  | a :: x', b :: y' => (a - b)%Q :: qsub x' y'
  | _, _ => []
  end.

(* is_turning: scalar_prods3(end.q, start.q, 0, start.v, end.v) < 0 on either component *)
Definition turn_states (s e : ostate) : bool :=
  let d := qsub (os_q e) (os_q s) in
  negb (Qle_bool 0%Q (qdot d (os_v s))) || negb (Qle_bool 0%Q (qdot d (os_v e))).

Definition orbit_wt (l : list ostate) (i : Z) : Q :=
  match find_state l i with Some s => os_w s | None => 1%Q end.
Definition orbit_turn (l : list ostate) (i j : Z) : bool :=
  match find_state l i, find_state l j with
  | Some s, Some e => turn_states s e
  | _, _ => false
  end.
(* mf: an index that was never logged is the one whose evaluation raised the unrecoverable error
   (mf = true) or is treated as a divergence (mf = false; cannot happen when model and code agree) *)
Definition orbit_bad (mf : bool) (l : list ostate) (i : Z) : bool :=
  match find_state l i with Some s => os_bad s | None => negb mf end.
Definition orbit_fatal (mf : bool) (l : list ostate) (i : Z) : bool :=
  match find_state l i with Some s => os_fatal s | None => mf end.

Definition opt_z (x : option Z) : Z := match x with Some v => v | None => (-999999)%Z end.
Definition b2z (b : bool) : Z := if b then 1 else 0.

(* [sel; depth; lo; hi; div index; maxdepth flag; err index; words consumed]; ticks; coins*1e12 *)
Definition run_draw_gen (mf : bool) (l : list ostate) (o : nopts) (script : list Z) : list (list Z) :=
  match run (pdraw (orbit_wt l) (orbit_turn l) (orbit_bad mf l) (orbit_fatal mf l) o 0) script [] [] with
  | None => [[(-1)%Z]]
  | Some r =>
      let d := rr_val r in
      [ [d_sel d; Z.of_nat (d_depth d); d_lo d; d_hi d; opt_z (d_div d); b2z (d_maxdepth d);
         opt_z (d_err d); Z.of_nat (length script - length (rr_rest r))];
        rr_ticks r;
        map (fun p => (Qnum p * 1000000000000 / Z.pos (Qden p))%Z) (rr_coins r) ]
  end.

(* Mirror rebuild (C01, implementation-side oracle of tools/props/tree.py): the accepted tree of a
   draw occupies [lo, lo + 2^d - 1]; started from its state s the tree builder re-creates it when
   doubling j (0-based) goes forward iff the block of size 2^j, aligned from lo, that contains s is
   the left half of its parent block, i.e. iff bit j of s - lo is 0.  These are the direction
   words the harness `orbit` scripts for a rebuild (true = forward). *)
Definition mirror_dirs (lo : Z) (d : nat) (s : Z) : list bool :=
  map (fun j => Z.even ((s - lo) / 2 ^ Z.of_nat j)) (seq 0 d).
