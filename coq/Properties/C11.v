(* C11 - Controller never deadlocks; traces are complete or an exact prefix. *)
From Coq Require Import ZArith List Bool Arith.
From NutsV Require Import model.Protocol proofs.Protocol_facts.
Import ListNotations.

(* every trace is a prefix of the full run's trace 0,1,...,total-1 (aborted runs included) *)
Theorem C11_traces_are_prefixes :
  forall (n total : nat) (s : st) (c : chain),
    reach n total s -> In c (s_chains s) -> c_rec c = firstn (c_draw c) (seq 0 total).
Proof. exact I8_prefix. Qed.
Print Assumptions C11_traces_are_prefixes.

(* a run that is not aborted: when wait_timeout returns Trace every chain has recorded exactly
   num_tune + num_draws draws, in order, and reported Ok *)
Theorem C11_trace_complete :
  forall (n total : nat) (s s' : st) (c : chain),
    reach n total s -> step s (EvUser (ERetWait 1%Z)) = Some s' -> In c (s_chains s) ->
    c_pc c = PDone true /\ c_draw c = total /\ c_rec c = seq 0 total.
Proof. exact I4_wait_trace_complete. Qed.
Print Assumptions C11_trace_complete.

Theorem C11_no_abort_complete :
  forall (n total : nat) (s : st) (c : chain),
    reach n total s -> s_cmd_open s = true -> s_ctl_ok s = true -> In c (s_chains s) ->
    c_pc c = PDone true -> c_draw c = total /\ c_rec c = seq 0 total.
Proof. exact I4_complete. Qed.
Print Assumptions C11_no_abort_complete.

(* a chain that ended normally either recorded everything or was cut off by finalisation *)
Theorem C11_done_all_or_cut :
  forall (n total : nat) (s : st) (c : chain),
    reach n total s -> In c (s_chains s) -> c_pc c = PDone true ->
    c_draw c = total \/ (c_tx c = false /\ fin (s_ctl s)).
Proof. exact I4_done_all_or_cut. Qed.
Print Assumptions C11_done_all_or_cut.

(* a run with num_tune + num_draws = 0 records nothing *)
Theorem C11_zero_draws :
  forall (n : nat) (s : st) (c : chain),
    reach n 0 s -> In c (s_chains s) -> c_rec c = [] /\ c_draw c = 0.
Proof. exact I1_no_draws. Qed.
Print Assumptions C11_zero_draws.

(* no deadlock, chain side: a chain that is neither finished nor waiting for a Resume in the
   documented blocking receive always has an enabled event; a blocked chain with a message or a
   dropped sender can continue *)
Theorem C11_chains_never_stuck :
  (forall (s : st) (i : nat) (c : chain),
     nth_error (s_chains s) i = Some c -> is_done c = false -> ~ waiting c ->
     exists s', chain_step s i (next_ev (s_total s) c) = Some s') /\
  (forall (s : st) (i : nat) (c : chain),
     nth_error (s_chains s) i = Some c -> c_pc c = PBlocked -> c_mail c <> [] \/ c_tx c = false ->
     exists s', chain_step s i (ERecv (fst (recv_now c))) = Some s').
Proof. split; [exact I9_chain_enabled | exact I9_blocked_recv_enabled]. Qed.
Print Assumptions C11_chains_never_stuck.

(* no deadlock, controller side: while forwarding a command the next send is enabled, and once the
   controller responds the user's call returns: every pause/resume/progress/flush/inspect returns *)
Theorem C11_calls_return :
  (forall (n total : nat) (s : st) (c : cmd) (nx : nat),
     reach n total s -> s_ctl s = KHandling c nx ->
     exists s', step s (EvCtl (ESend (msg_for c) nx true)) = Some s') /\
  (forall (n total : nat) (s : st) (c : cmd),
     reach n total s -> s_ctl s = KResponding c ->
     s_user s = UCalling c /\ exists s', step s (EvUser (ERet c 1%Z)) = Some s').
Proof. split; [exact I9_ctl_send_enabled | exact I9_ret_enabled]. Qed.
Print Assumptions C11_calls_return.

Theorem C11_quiescent_is_final :
  forall (s : st) (e : ev), quiescent s -> step s e = None.
Proof. exact I9_quiescent_final. Qed.
Print Assumptions C11_quiescent_is_final.

Example C11_nonvacuous :
  replay_log 1 1 [(2, 0, 0, 0); (2, 1, 0, 0); (2, 4, 0, 0); (2, 5, 0, 0); (2, 7, 0, 0); (2, 8, 0, 1)]%Z
  = [[1; 1; 8; 1]]%Z.
Proof. vm_compute. reflexivity. Qed.
Print Assumptions C11_nonvacuous.
