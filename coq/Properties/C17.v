(* C17 - Vector kernels agree with scalar arithmetic for every length and value.
   Statements only; proofs in proofs/Kernel_facts.v.  The model (model/Kernel.v) is generic in the
   lane count L and the number type; these theorems are about its instance over Q (exact
   arithmetic: the plain element-by-element formula) and its binary64 instance. *)
From Coq Require Import ZArith QArith List Bool.
From NutsV Require Import lib.Fp model.Kernel model.KernelF64 proofs.Kernel_facts.
Import ListNotations.

(* unrolled body, leftover vectors and scalar tail partition [0,n): every element exactly once *)
Theorem C17_partition :
  forall L n : nat, (1 <= L)%nat ->
    (ngroups L n * 4 * L + nrest L n * L + ntail L n = n /\ nrest L n < 4 /\ ntail L n < L)%nat.
Proof. exact partition. Qed.
Print Assumptions C17_partition.

Theorem C17_elementwise_length :
  forall (L : nat) (T : Type) (add mul : T -> T -> T) (neg : T -> T) (fma : T -> T -> T -> T) (fe : bool),
    (forall x y, length x = length y -> length (k_multiply T mul L x y) = length x) /\
    (forall a x y, length x = length y -> length (k_axpy T add mul fma fe L a x y) = length x) /\
    (forall s c p v, length p = length v ->
       length (fst (k_std_norm_flow T add mul neg fma L s c p v)) = length p /\
       length (snd (k_std_norm_flow T add mul neg fma L s c p v)) = length p) /\
    (forall eps p g v, length p = length g -> length p = length v ->
       length (k_std_norm_grad_flow T add mul fma L eps p g v) = length p).
Proof. exact elementwise_length. Qed.
Print Assumptions C17_elementwise_length.

(* element-wise kernels, every lane count, every length *)
Theorem C17_multiply_spec :
  forall (L : nat) (x y : list Q), length x = length y ->
    Qeql (k_multiply Q Qmult L x y) (map2 Qmult x y) /\ length (k_multiply Q Qmult L x y) = length x.
Proof. exact k_multiply_spec. Qed.
Print Assumptions C17_multiply_spec.

Theorem C17_axpy_spec :
  forall (fe : bool) (L : nat) (a : Q) (x y : list Q), length x = length y ->
    Qeql (k_axpy Q Qplus Qmult Qfma fe L a x y) (map2 (fun xi yi => a * xi + yi)%Q x y) /\
    length (k_axpy Q Qplus Qmult Qfma fe L a x y) = length x.
Proof. exact k_axpy_spec. Qed.
Print Assumptions C17_axpy_spec.

Theorem C17_std_norm_flow_spec :
  forall (L : nat) (s c : Q) (p v : list Q), length p = length v ->
    let r := k_std_norm_flow Q Qplus Qmult Qopp Qfma L s c p v in
    Qeql (fst r) (map2 (fun pi vi => pi * c + vi * s)%Q p v) /\
    Qeql (snd r) (map2 (fun pi vi => pi * (- s) + vi * c)%Q p v) /\
    length (fst r) = length p /\ length (snd r) = length p.
Proof. exact k_std_norm_flow_spec. Qed.
Print Assumptions C17_std_norm_flow_spec.

Theorem C17_std_norm_grad_flow_spec :
  forall (L : nat) (eps : Q) (p g v : list Q), length p = length g -> length p = length v ->
    Qeql (k_std_norm_grad_flow Q Qplus Qmult Qfma L eps p g v)
         (map3 (fun pi gi vi => vi + eps * (pi + gi))%Q p g v) /\
    length (k_std_norm_grad_flow Q Qplus Qmult Qfma L eps p g v) = length p.
Proof. exact k_std_norm_grad_flow_spec. Qed.
Print Assumptions C17_std_norm_grad_flow_spec.

(* reductions: for every power-of-two lane count (pulp: 1, 2, 4, 8), fused or not, every length *)
Theorem C17_vector_dot_spec :
  forall (fe : bool) (L k : nat), L = (2 ^ k)%nat ->
  forall x y : list Q, length x = length y ->
    (k_vector_dot Q 0 Qplus Qmult Qfma fe L x y == dotl x y)%Q.
Proof. exact k_vector_dot_spec. Qed.
Print Assumptions C17_vector_dot_spec.

Theorem C17_scalar_prods2_spec :
  forall (fe : bool) (L k : nat), L = (2 ^ k)%nat ->
  forall p1 p2 x y : list Q, length p1 = length p2 -> length p1 = length x -> length p1 = length y ->
    let r := k_scalar_prods2 Q 0 Qplus Qmult Qfma fe L p1 p2 x y in
    (fst r == dotl (map2 Qplus p1 p2) x)%Q /\ (snd r == dotl (map2 Qplus p1 p2) y)%Q.
Proof. exact k_scalar_prods2_spec. Qed.
Print Assumptions C17_scalar_prods2_spec.

Theorem C17_scalar_prods3_spec :
  forall (fe : bool) (L k : nat), L = (2 ^ k)%nat ->
  forall p1 n1 p2 x y : list Q,
    length p1 = length n1 -> length p1 = length p2 -> length p1 = length x -> length p1 = length y ->
    let r := k_scalar_prods3 Q 0 Qplus Qminus Qmult Qfma fe L p1 n1 p2 x y in
    (fst r == dotl (map3 (fun a b c => a - b + c)%Q p1 n1 p2) x)%Q /\
    (snd r == dotl (map3 (fun a b c => a - b + c)%Q p1 n1 p2) y)%Q.
Proof. exact k_scalar_prods3_spec. Qed.
Print Assumptions C17_scalar_prods3_spec.

Theorem C17_sq_norm_sum_spec :
  forall x y : list Q,
    (k_sq_norm_sum Q 0 Qplus Qmult x y == sumQ (map2 (fun a b => (a + b) ^ 2)%Q x y))%Q.
Proof. exact k_sq_norm_sum_spec. Qed.
Print Assumptions C17_sq_norm_sum_spec.

(* the power-of-two hypothesis is necessary: with 3 lanes the lane reduction drops a lane *)
Theorem C17_three_lanes_refuted :
  (k_vector_dot Q 0 Qplus Qmult Qfma true 3 [1; 1; 1] [1; 1; 1] == 2)%Q /\
  (dotl [1; 1; 1] [1; 1; 1] == 3)%Q.
Proof. exact k_vector_dot_three_lanes_wrong. Qed.
Print Assumptions C17_three_lanes_refuted.

(* finiteness tests and NaN propagation on binary64 *)
Theorem C17_all_finite_spec :
  forall x : list f64,
    f_all_finite x = forallb is_finite x /\
    (f_all_finite x = true <-> Forall (fun v => is_finite v = true) x).
Proof. exact f_all_finite_spec. Qed.
Print Assumptions C17_all_finite_spec.

Theorem C17_all_finite_nonzero_spec :
  forall x : list f64,
    f_all_finite_nonzero x = forallb (fun v => is_finite v && negb (feq v fzero)) x /\
    (f_all_finite_nonzero x = true <->
     Forall (fun v => is_finite v = true /\ feq v fzero = false) x).
Proof. exact f_all_finite_nonzero_spec. Qed.
Print Assumptions C17_all_finite_nonzero_spec.

Theorem C17_nan_propagates :
  (forall a b : f64, is_nan a = true -> is_nan (fadd a b) = true) /\
  (forall a b : f64, is_nan b = true -> is_nan (fadd a b) = true) /\
  (forall a b : f64, is_nan a = true -> is_nan (fmul a b) = true) /\
  (forall a b : f64, is_nan b = true -> is_nan (fmul a b) = true) /\
  (forall a b c : f64, is_nan a = true -> is_nan (ffma a b c) = true) /\
  (forall a b c : f64, is_nan b = true -> is_nan (ffma a b c) = true) /\
  (forall a b c : f64, is_nan c = true -> is_nan (ffma a b c) = true).
Proof.
  repeat split; [exact fadd_nan_l | exact fadd_nan_r | exact fmul_nan_l | exact fmul_nan_r
                | exact ffma_nan_1 | exact ffma_nan_2 | exact ffma_nan_3].
Qed.
Print Assumptions C17_nan_propagates.

Example C17_nonvacuous :
  run_kernel 3 4 true [] [[4607182418800017408; 4611686018427387904]; [4613937818241073152; 4616189618054758400]]%Z
  = [[4622382067542392832%Z]].
Proof. vm_compute. reflexivity. Qed.
Print Assumptions C17_nonvacuous.
