(* C17 - placeholder; theorems are added as proofs land *)
From Coq Require Import ZArith List.
From NutsV Require Import lib.Fp model.Kernel model.KernelF64.
Import ListNotations.
Example C17_model_runs :
  run_kernel 3 4 true [] [[4607182418800017408; 4611686018427387904]; [4613937818241073152; 4616189618054758400]]%Z
  = [[4622382067542392832%Z]].
Proof. vm_compute. reflexivity. Qed.
Print Assumptions C17_model_runs.
