(* C14 - Every storage backend returns exactly what the chains recorded.
   Statements only; proofs live in proofs/Storage_facts.v, the models in model/Storage.v.

   A history h is the sequence of record_sample arguments of one chain; `expected sw h k n` are
   the present values of statistic / draw variable n in recording order (store_warmup = sw).
   Well-formed (wf_schema / wf_hist, executable): unique names per kind, every record lists the
   schema's names in schema order, present values have the declared item type / scalar-ness /
   length, draw values are present, tuning flags have the form true^a false^b.  All theorems
   hold for EVERY well-formed history: the empty one, length 1, and every prefix (aborted runs,
   inspect points) -- prefixes of well-formed histories are well-formed (C14_prefix_closed). *)
From Coq Require Import String Ascii ZArith NArith Bool Lia List.
From NutsV Require Import model.Storage proofs.Storage_facts.
Import ListNotations.
Local Open Scope string_scope.
Local Open Scope list_scope.
Local Open Scope nat_scope.

(* ---- the specification itself ---- *)
(* warmup values come before sampling values *)
Theorem C14_expected_warmup_first :
  forall h k n, tuning_prefix (map r_tuning h) = true ->
    expected true h k n = present k n (warmup_part h) ++ present k n (sample_part h).
Proof. exact expected_warmup_first. Qed.
Print Assumptions C14_expected_warmup_first.

(* store_warmup = false omits exactly the warmup records *)
Theorem C14_store_warmup_false_exact :
  forall h k n,
    expected false h k n = present k n (sample_part h) /\
    warmup_part (kept false h) = [] /\ sample_part (kept false h) = sample_part h.
Proof. exact store_warmup_false_exact_l. Qed.
Print Assumptions C14_store_warmup_false_exact.

Theorem C14_prefix_closed :
  forall sc h k, wf_hist sc h = true -> wf_hist sc (firstn k h) = true.
Proof. exact wf_hist_firstn. Qed.
Print Assumptions C14_prefix_closed.

(* ---- HashMap: finalize / inspect succeed; every statistic and draw variable holds the
   recorded values, flattened, in recording order, with the declared type.  `draw` and `chain`
   are skipped by design: their keys exist with empty vectors. ---- *)
Theorem C14_hashmap_correct :
  forall sc h, wf_schema sc = true -> wf_hist sc h = true ->
    exists res, hm_run sc h = Some res /\
      forall k f, In f (fields k sc) ->
        hm_read res k (f_name f)
        = Some (f_ty f, if skip_name (f_name f) then [] else flat (expected true h k (f_name f))).
Proof. exact hashmap_correct_l. Qed.
Print Assumptions C14_hashmap_correct.

(* ---- Arrow: one row per stored draw, null exactly where the value was absent, declared type
   and list-ness; the non-null rows are the specification. ---- *)
Theorem C14_arrow_correct :
  forall sw sc h, wf_schema sc = true -> wf_hist sc h = true ->
    exists st, ar_run sw sc h = Some st /\ ar_count st = length (kept sw h) /\
      forall k f, In f (fields k sc) ->
        exists c, ar_column st k (f_name f) = Some c /\ ac_ty c = f_ty f /\
                  ac_tensor c = negb (f_scalar f) /\
                  ac_rows c = ar_rows k (f_name f) (kept sw h) /\
                  non_null (ac_rows c) = rows_of (expected sw h k (f_name f)).
Proof. exact arrow_correct_l. Qed.
Print Assumptions C14_arrow_correct.

(* ---- CSV (CmdStan layout): one line per stored draw; header iff a draw is stored; every
   component of every F64/F32/I64/U64 draw variable has a column, and that column holds the
   recorded component values in order; the first seven columns hold the seven statistics.
   (bool / string variables and all other statistics are not representable.) ---- *)
Theorem C14_csv_rows :
  forall sw sc h,
    csv_lines (csv_run sw sc h) = map (csv_row (csv_mapping (sc_draws sc))) (kept sw h) /\
    fst (csv_file sc (csv_run sw sc h))
    = match kept sw h with [] => None | _ => Some (csv_header (sc_draws sc)) end.
Proof. intros. split; [apply csv_run_rows | apply csv_header_l]. Qed.
Print Assumptions C14_csv_rows.

Theorem C14_csv_columns_complete :
  forall dfs f i, In f dfs -> csv_numeric (f_ty f) = true -> i < f_len f ->
    In (f_name f, i) (csv_mapping dfs).
Proof. exact csv_mapping_complete. Qed.
Print Assumptions C14_csv_columns_complete.

Theorem C14_csv_param_column :
  forall sw sc h f i j, wf_schema sc = true -> wf_hist sc h = true ->
    In f (sc_draws sc) -> csv_numeric (f_ty f) = true -> i < f_len f ->
    nth_error (csv_mapping (sc_draws sc)) j = Some (f_name f, i) ->
    column CNA (7 + j) (csv_lines (csv_run sw sc h))
    = map (fun v => CVal (f_ty f) (nth i (v_items v) (TN 0))) (expected sw h Draws (f_name f)).
Proof. exact csv_param_column_l. Qed.
Print Assumptions C14_csv_param_column.

Theorem C14_csv_stat_columns :
  forall sw sc h,
    let rows := csv_lines (csv_run sw sc h) in
    let col := fun j n => column CNA j rows = map (fun r => csv_stat (r_stats r) n) (kept sw h) in
    col 0 "logp" /\ col 1 "mean_tree_accept" /\ col 2 "step_size" /\ col 3 "depth" /\
    col 4 "n_steps" /\ col 6 "energy" /\
    column CNA 5 rows = map (fun r => csv_divergent (r_stats r)) (kept sw h).
Proof. exact csv_stat_columns_l. Qed.
Print Assumptions C14_csv_stat_columns.

Theorem C14_csv_stat_value :
  forall sc r f, wf_schema sc = true -> record_ok sc r = true ->
    In f (sc_stats sc) -> f_scalar f = true ->
    csv_stat (r_stats r) (f_name f)
    = match lookup_entry (f_name f) (r_stats r) with
      | Some v => CVal (f_ty f) (hd (TN 0) (v_items v))
      | None => CNA
      end.
Proof. exact csv_stat_value. Qed.
Print Assumptions C14_csv_stat_value.

(* ---- Zarr (sync and async share the buffer logic): for every chunk size >= 1, after the
   chain's finalize the warmup / sample arrays of every variable hold exactly the warmup /
   sampling values in order, and the reported event counts are the numbers of events. ---- *)
Theorem C14_zarr_chain_correct :
  forall cs sc h, 1 <= cs -> wf_schema sc = true -> z_schema_ok sc = true -> wf_hist sc h = true ->
    exists st cnts, z_run cs sc h = Some (st, cnts) /\
      (forall k f, In f (fields k sc) -> skip_name (f_name f) = false ->
         z_array st k (f_name f) true = Some (rows_of (present k (f_name f) (warmup_part h))) /\
         z_array st k (f_name f) false = Some (rows_of (present k (f_name f) (sample_part h)))) /\
      cnts = map (fun d => (d, (ev_count sc d (warmup_part h), ev_count sc d (sample_part h))))
                 (ev_dims (ev_fields sc)).
Proof. exact zarr_chain_correct_l. Qed.
Print Assumptions C14_zarr_chain_correct.

(* an array read back at its exact length is the recorded sequence; at a larger declared
   length (aborted run) the recorded values are followed by fill values *)
Theorem C14_zarr_read :
  forall fill n rows, length rows <= n ->
    z_read fill n rows = rows ++ repeat fill (n - length rows) /\
    z_read fill (length rows) rows = rows.
Proof. intros. split; [apply z_read_pad; assumption | apply z_read_exact]. Qed.
Print Assumptions C14_zarr_read.

(* the resize of the event arrays (largest count over all chains) never loses an event *)
Theorem C14_zarr_event_no_loss :
  forall sc h all nt nd f d (warm : bool),
    In f (sc_stats sc) -> f_event f = Some d ->
    In (map (fun d => (d, (ev_count sc d (warmup_part h), ev_count sc d (sample_part h))))
            (ev_dims (ev_fields sc))) all ->
    let rows := rows_of (present Stats (f_name f) (if warm then warmup_part h else sample_part h)) in
    let n := z_len nt nd all f warm in
    length rows <= n /\
    forall fill, z_read fill n rows = rows ++ repeat fill (n - length rows).
Proof. exact zarr_event_no_loss_l. Qed.
Print Assumptions C14_zarr_event_no_loss.

(* what `inspect` (no flush) shows: prefixes of the recorded sequences *)
Theorem C14_zarr_inspect_prefix :
  forall cs sc h, 1 <= cs -> wf_schema sc = true -> z_schema_ok sc = true -> wf_hist sc h = true ->
    exists st, fold_opt (z_record cs (ev_fields sc)) (z_init sc) h = Some st /\
      forall k f, In f (fields k sc) -> skip_name (f_name f) = false ->
        exists w s j1 j2, z_array st k (f_name f) true = Some w /\ z_array st k (f_name f) false = Some s /\
          w = firstn j1 (rows_of (present k (f_name f) (warmup_part h))) /\
          s = firstn j2 (rows_of (present k (f_name f) (sample_part h))).
Proof. exact zarr_inspect_prefix_l. Qed.
Print Assumptions C14_zarr_inspect_prefix.

(* ---- ndarray (after the two fixes): variables with at most one extra dim; the array holds one
   entry per draw: the recorded value, or the default where the value was absent, default
   entries after the last recorded draw. ---- *)
Theorem C14_ndarray_correct :
  forall total sc h, wf_schema sc = true -> nd_schema_ok sc = true ->
    wf_hist sc h = true -> length h <= total ->
    exists st, nd_run total sc h = Some st /\
      forall k f, In f (fields k sc) -> skip_name (f_name f) = false ->
        exists a, nd_read st k (f_name f) = Some a /\ nd_ty a = f_ty f /\ nd_shape a = f_shape f /\
                  nd_rows a = map (nd_dense k f) h ++ repeat (nd_fillrow f) (total - length h).
Proof. exact ndarray_correct_l. Qed.
Print Assumptions C14_ndarray_correct.

(* for a variable present on every draw (all draw variables, the non-event statistics that are
   switched on) the dense entries are exactly the specification *)
Theorem C14_ndarray_present_exact :
  forall k f h, Forall (fun r => lookup_entry (f_name f) (entries k r) <> None) h ->
    map (nd_dense k f) h = rows_of (expected true h k (f_name f)).
Proof. exact nd_dense_present. Qed.
Print Assumptions C14_ndarray_present_exact.

Theorem C14_draws_always_present :
  forall sc h f, wf_schema sc = true -> wf_hist sc h = true -> In f (sc_draws sc) ->
    Forall (fun r => lookup_entry (f_name f) (entries Draws r) <> None) h.
Proof. exact draws_always_present. Qed.
Print Assumptions C14_draws_always_present.

(* ---- all backends agree with each other ---- *)
Corollary C14_backends_agree :
  forall cs sc h, 1 <= cs -> wf_schema sc = true -> z_schema_ok sc = true -> wf_hist sc h = true ->
    exists hm ar z cnts,
      hm_run sc h = Some hm /\ ar_run true sc h = Some ar /\ z_run cs sc h = Some (z, cnts) /\
      forall k f, In f (fields k sc) -> skip_name (f_name f) = false ->
        exists c w s,
          ar_column ar k (f_name f) = Some c /\
          z_array z k (f_name f) true = Some w /\ z_array z k (f_name f) false = Some s /\
          non_null (ac_rows c) = rows_of (expected true h k (f_name f)) /\
          w ++ s = non_null (ac_rows c) /\
          hm_read hm k (f_name f) = Some (ac_ty c, concat (non_null (ac_rows c))).
Proof. exact backends_agree_l. Qed.
Print Assumptions C14_backends_agree.

Corollary C14_csv_agrees_arrow :
  forall sw sc h f i j, wf_schema sc = true -> wf_hist sc h = true ->
    In f (sc_draws sc) -> csv_numeric (f_ty f) = true -> i < f_len f ->
    nth_error (csv_mapping (sc_draws sc)) j = Some (f_name f, i) ->
    exists ar c, ar_run sw sc h = Some ar /\ ar_column ar Draws (f_name f) = Some c /\
      column CNA (7 + j) (csv_lines (csv_run sw sc h))
      = map (fun row => CVal (f_ty f) (nth i row (TN 0))) (non_null (ac_rows c)).
Proof. exact csv_agrees_arrow_l. Qed.
Print Assumptions C14_csv_agrees_arrow.

(* ---- refutations: classes where a backend does NOT return exactly the recorded values
   (known findings; the witnesses are replayed on the real backends by the check) ---- *)
(* ndarray keeps one entry per draw for event statistics (default where no event happened) *)
Theorem C14_ndarray_events_dense_refuted :
  exists sc h total st a, wf_schema sc = true /\ wf_hist sc h = true /\ length h <= total /\
    nd_run total sc h = Some st /\ nd_read st Stats "divergence_draw" = Some a /\
    firstn (length h) (nd_rows a) <> rows_of (expected true h Stats "divergence_draw").
Proof. exact ndarray_events_dense_refuted_l. Qed.
Print Assumptions C14_ndarray_events_dense_refuted.

(* ndarray rejects a variable with two extra dims *)
Theorem C14_ndarray_matrix_refuted :
  exists sc h total, wf_schema sc = true /\ wf_hist sc h = true /\ length h <= total /\
    nd_run total sc h = None.
Proof. exact ndarray_matrix_refuted_l. Qed.
Print Assumptions C14_ndarray_matrix_refuted.

(* (repaired) ndarray allocated the draw arrays from the statistics schema *)
Theorem C14_ndarray_before_fix_refuted :
  exists sc h total, wf_schema sc = true /\ wf_hist sc h = true /\ length h <= total /\
    nd_run_before_fix total sc h = None /\ nd_run total sc h <> None.
Proof. exact ndarray_before_fix_refuted_l. Qed.
Print Assumptions C14_ndarray_before_fix_refuted.

(* Zarr ignores store_warmup = false *)
Theorem C14_zarr_store_warmup_refuted :
  exists cs sc h st cnts, wf_schema sc = true /\ wf_hist sc h = true /\
    z_run_cfg false cs sc h = Some (st, cnts) /\
    expected false h Draws "x" <> expected true h Draws "x" /\
    z_array st Draws "x" true <> Some [].
Proof. exact zarr_store_warmup_refuted_l. Qed.
Print Assumptions C14_zarr_store_warmup_refuted.

(* Zarr rejects a string variable with dims *)
Theorem C14_zarr_string_vector_refuted :
  exists cs sc h, wf_schema sc = true /\ wf_hist sc h = true /\ z_run cs sc h = None.
Proof. exact zarr_string_vector_refuted_l. Qed.
Print Assumptions C14_zarr_string_vector_refuted.

(* Zarr pads the event arrays of a chain with fewer events than another chain with fill values *)
Theorem C14_zarr_event_padding_refuted :
  exists cs sc h1 h2 st1 c1 st2 c2 f, wf_schema sc = true /\ wf_hist sc h1 = true /\
    wf_hist sc h2 = true /\
    z_run cs sc h1 = Some (st1, c1) /\ z_run cs sc h2 = Some (st2, c2) /\ In f (sc_stats sc) /\
    z_read (z_fillrow f) (z_len 2 2 [c1; c2] f false) (rows_of (expected false h1 Stats (f_name f)))
    <> rows_of (expected false h1 Stats (f_name f)).
Proof. exact zarr_event_padding_refuted_l. Qed.
Print Assumptions C14_zarr_event_padding_refuted.

(* ---- non-vacuity: a schema with scalar / vector / string / event fields and a history with
   warmup and sampling draws, an event in each phase and an empty string satisfies every
   hypothesis used above; the models run on it ---- *)
Example C14_hypotheses_nonvacuous :
  wf_schema ex_schema = true /\ wf_hist ex_schema ex_hist = true /\
  z_schema_ok ex_schema = true /\ nd_schema_ok ex_schema = true.
Proof. exact ex_wf. Qed.
Print Assumptions C14_hypotheses_nonvacuous.

Example C14_models_run_nonvacuous :
  (exists r, hm_run ex_schema ex_hist = Some r /\
             hm_read r Stats "divergence_draw" = Some (TU64, [TN 1%Z; TN 0%Z]) /\
             hm_read r Draws "s" = Some (TStr, [TS "a"; TS ""; TS "c"; TS "d"])) /\
  (exists st, ar_run false ex_schema ex_hist = Some st /\ ar_count st = 2) /\
  (exists st c, z_run 3 ex_schema ex_hist = Some (st, c) /\
                c = [("divergence", (1, 1))] /\
                z_array st Draws "x" true = Some [[TN 1%Z; TN 2%Z]; [TN 3%Z; TN 4%Z]]) /\
  length (csv_lines (csv_run true ex_schema ex_hist)) = 4 /\
  expected true ex_hist Stats "divergence_message"
  = [mkVal TStr true [TS "boom"]; mkVal TStr true [TS "boom"]].
Proof.
  split; [|split; [|split; [|split]]].
  - destruct (hm_run ex_schema ex_hist) as [r|] eqn:E; [|vm_compute in E; discriminate].
    exists r. split; [reflexivity|]. vm_compute in E. inversion E; subst. split; vm_compute; reflexivity.
  - destruct (ar_run false ex_schema ex_hist) as [st|] eqn:E; [|vm_compute in E; discriminate].
    exists st. split; [reflexivity|]. vm_compute in E. inversion E; subst. reflexivity.
  - destruct (z_run 3 ex_schema ex_hist) as [[st c]|] eqn:E; [|vm_compute in E; discriminate].
    exists st, c. split; [reflexivity|]. vm_compute in E. inversion E; subst. split; vm_compute; reflexivity.
  - vm_compute. reflexivity.
  - vm_compute. reflexivity.
Qed.
Print Assumptions C14_models_run_nonvacuous.
