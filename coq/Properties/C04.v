(* C04 - Adapted samplers reproduce known posteriors end to end.   PARTIAL.
   "Matches within Monte-Carlo error" is a statistical statement about finite floating-point
   runs; no theorem states it (it is searched for by long runs in the check).  What is proved is
   why the post-warmup kernel is a correct MCMC kernel on every orbit, and that momenta are fresh:
     - after warmup the kernel is frozen (C06): transformation and base step size constant;
     - with fixed step size and transformation one NUTS transition satisfies detailed balance with
       respect to the target on every orbit (C01), the orbit being the same whichever of its
       states the trajectory starts from because the integrator is reversible (C02);
     - summing detailed balance: any finite mixture of start states weighted by the target is
       mapped to target weights;
     - each trajectory starts with a velocity made of the next dim outputs of the standard-normal
       stream (scale 1 in the whitened space), disjoint from the outputs used by other draws. *)
From Coq Require Import ZArith NArith QArith Qcanon List Bool Arith.
From NutsV Require Import lib.Fp model.Tree model.Schedule model.Leapfrog model.LeapfrogQc model.Chain
  proofs.Balance proofs.Schedule_facts proofs.Leapfrog_facts proofs.Chain_facts proofs.Compose_facts.
Import ListNotations.

(* target-weighted mass flowing into b from any finite set of states = wt b * mass flowing out *)
Theorem C04_kernel_invariant_partial :
  forall (wt : Z -> Q) (turn : Z -> Z -> bool) (maxdepth : nat), (forall i, 0 < wt i)%Q ->
  forall (b : Z) (l : list Z),
    (qsum_over l (fun a => wt a * trans_prob wt turn nofault nofault (std_opts maxdepth) a b) ==
     wt b * qsum_over l (fun a => trans_prob wt turn nofault nofault (std_opts maxdepth) b a))%Q.
Proof. exact summed_balance. Qed.
Print Assumptions C04_kernel_invariant_partial.

(* the kernel is frozen after warmup: only the averaged step size (times jitter) is installed and
   the adaptation state never advances *)
Theorem C04_kernel_frozen_after_warmup :
  forall (nextw : N -> N) (o : sopts) (st : gstate) (k : N) (g : bool),
    (g_num_tune st <= k)%N ->
    snd (gs_adapt nextw o st k g) = [ESetStep true] /\
    g_id (fst (gs_adapt nextw o st k g)) = g_id st.
Proof. exact kernel_frozen_after_warmup. Qed.
Print Assumptions C04_kernel_frozen_after_warmup.

(* the orbit is the same from any of its states: the integrator is reversible *)
Theorem C04_orbit_is_reversible :
  forall (tg : cvec -> cvec) (eps half c s c' s' : Qc) (q v : list Qc),
    (forall x, length (tg x) = length x) -> length q = length v ->
    c_step tg Euclidean (- eps)%Qc (- half)%Qc c' s' (c_step tg Euclidean eps half c s (q, v)) = (q, v).
Proof. exact c_step_reversible_euclidean. Qed.
Print Assumptions C04_orbit_is_reversible.

(* momentum freshness *)
Theorem C04_momentum_fresh :
  forall (T : Type) (stream : nat -> T) (dim n k : nat), (k < n)%nat ->
    nth k (velocities T stream dim 0 n) [] = map stream (indices dim k).
Proof. exact momentum_fresh. Qed.
Print Assumptions C04_momentum_fresh.

Theorem C04_momentum_segments_disjoint :
  forall (dim j k i : nat), (j < k)%nat -> In i (indices dim j) -> In i (indices dim k) -> False.
Proof. exact segments_disjoint. Qed.
Print Assumptions C04_momentum_segments_disjoint.

Example C04_nonvacuous :
  velocities nat (fun i => i) 2 0 3 = [[0; 1]; [2; 3]; [4; 5]]%nat.
Proof. vm_compute. reflexivity. Qed.
Print Assumptions C04_nonvacuous.
