(* C15 - Flushed Zarr traces are complete at every flush point.
   Statements only; proofs live in proofs/Zarr_facts.v, the model in model/Zarr.v.

   cs = chunk size; metas = the variables of the trace (statistics and draw variables: string
   flag, fill value, event dimension); a history `ops` is a list of  ORec tuning values  (one
   record_sample: one optional row per variable),  OFlush  and  OComplete var i  (the i-th queued
   chunk write of a variable completes - any write-queue timing); wf_ops: the tuning flags have
   the form warmup^a sample^b and every record has one entry per variable.  `async` selects the
   writer (false = ZarrChainStorage, true = ZarrAsyncChainStorage), `ord` the order in which
   flush / finalize find the remaining queued writes completed (any permutation).
   pushed v warm ops = the rows record_sample pushed to the warmup / sample array of variable v.
   read_row cs fill a shape i = what a fresh reader gets for entry i of an array whose draw axis
   has `shape` entries (None = not an entry). *)
From Coq Require Import Arith NArith Bool List Lia Permutation.
From NutsV Require Import model.Zarr proofs.Zarr_facts.
Import ListNotations.

(* After flush() following the k-th record, every array holds every row recorded so far. *)
Theorem C15_flush_complete :
  forall (async : bool) (cs : nat) (metas : list vmeta) (ord : list wr -> list wr),
    0 < cs -> (forall l, Permutation (ord l) l) ->
    forall (ops : list op) (v : nat) (warm : bool) (fill : token) (shape i : nat),
      wf_ops (length metas) ops = true -> v < length metas ->
      i < length (pushed v warm ops) -> i < shape ->
      read_row cs fill
        (c_array (c_flush cs metas ord (c_run async cs metas ord (c_init metas) ops)) v warm) shape i
      = nth_error (pushed v warm ops) i.
Proof. exact c_flush_complete. Qed.
Print Assumptions C15_flush_complete.

(* The same after ChainStorage::finalize. *)
Theorem C15_finalize_complete :
  forall (async : bool) (cs : nat) (metas : list vmeta) (ord : list wr -> list wr),
    0 < cs -> (forall l, Permutation (ord l) l) ->
    forall (ops : list op) (v : nat) (warm : bool) (fill : token) (shape i : nat),
      wf_ops (length metas) ops = true -> v < length metas ->
      i < length (pushed v warm ops) -> i < shape ->
      read_row cs fill
        (c_array (fst (c_finalize cs metas ord (c_run async cs metas ord (c_init metas) ops))) v warm) shape i
      = nth_error (pushed v warm ops) i.
Proof. exact c_finalize_complete. Qed.
Print Assumptions C15_finalize_complete.

(* ... and TraceStorage::finalize leaves every event array large enough: the resized draw axis
   (maximum over the chains of the counts each chain's finalize reports) covers every row pushed
   to any statistic of that dimension, in both groups, also for a chain that is finalized while
   still in warmup.  (Arrays without event dimension keep the hinted sizes num_tune / num_draws.) *)
Theorem C15_final_shape_covers :
  forall (async : bool) (cs : nat) (metas : list vmeta) (ord : list wr -> list wr),
    0 < cs -> (forall l, Permutation (ord l) l) ->
    forall (ops : list op) (n_tune n_draws v : nat) (m : vmeta) (d : nat) (warm : bool)
           (counts : list (nat -> nat * nat)),
      wf_ops (length metas) ops = true ->
      nth_error metas v = Some m -> m_dim m = Some d ->
      In (snd (c_finalize cs metas ord (c_run async cs metas ord (c_init metas) ops))) counts ->
      length (pushed v warm ops) <= shape_final n_tune n_draws m counts warm.
Proof. exact final_shape_covers. Qed.
Print Assumptions C15_final_shape_covers.

(* Whatever happens after a flush - further records, flushes, completions of queued writes in
   any order and at any time, finalize - the rows recorded before that flush stay readable and
   unchanged.  Every state reached by ops2 is a possible crash point: a process that stops after
   a flush loses at most the rows recorded since that flush. *)
Theorem C15_flush_stable :
  forall (async : bool) (cs : nat) (metas : list vmeta) (ord : list wr -> list wr),
    0 < cs -> (forall l, Permutation (ord l) l) ->
    forall (ops1 ops2 : list op) (fin : bool) (v : nat) (warm : bool) (fill : token) (shape i : nat),
      wf_ops (length metas) (ops1 ++ OFlush :: ops2) = true -> v < length metas ->
      i < length (pushed v warm ops1) -> i < shape ->
      let s := c_run async cs metas ord (c_init metas) (ops1 ++ OFlush :: ops2) in
      let s' := if fin then fst (c_finalize cs metas ord s) else s in
      read_row cs fill (c_array s' v warm) shape i = nth_error (pushed v warm ops1) i.
Proof. exact c_flush_stable. Qed.
Print Assumptions C15_flush_stable.

(* Queued chunk writes of an array address pairwise distinct (group, chunk) keys, all different
   from the chunk the next flush writes synchronously ... *)
Theorem C15_pending_distinct :
  forall (async : bool) (cs : nat) (metas : list vmeta) (ord : list wr -> list wr),
    0 < cs -> (forall l, Permutation (ord l) l) ->
    forall (ops : list op) (v : nat),
      wf_ops (length metas) ops = true -> v < length metas ->
      let s := c_run async cs metas ord (c_init metas) ops in
      let vs := nth v (c_vars s) v_init in
      NoDup (map w_key (v_pend vs)) /\
      ~ In (c_last_warm s, b_cur (v_buf vs)) (map w_key (v_pend vs)).
Proof. exact c_pending_distinct. Qed.
Print Assumptions C15_pending_distinct.

(* ... so the store after joining does not depend on the completion order and equals the store
   the synchronous writer produces (every chunk of every array). *)
Theorem C15_async_confluent :
  forall (cs : nat) (metas : list vmeta) (ord1 ord2 : list wr -> list wr) (ops : list op)
         (v : nat) (warm : bool) (i : nat),
    0 < cs -> (forall l, Permutation (ord1 l) l) -> (forall l, Permutation (ord2 l) l) ->
    wf_ops (length metas) ops = true -> v < length metas ->
    c_array (c_flush cs metas ord1 (c_run true cs metas ord1 (c_init metas) ops)) v warm i =
    c_array (c_flush cs metas ord2 (c_run false cs metas ord2 (c_init metas) ops)) v warm i.
Proof. exact c_async_sync. Qed.
Print Assumptions C15_async_confluent.

(* SampleBuffer: the assert in push never fires (len < full_at), total_pushed() is the number of
   rows pushed to the array of the current phase, nothing is in a sample array during warmup. *)
Theorem C15_buffer_inv :
  forall (async : bool) (cs : nat) (metas : list vmeta) (ord : list wr -> list wr),
    0 < cs -> (forall l, Permutation (ord l) l) ->
    forall (ops : list op) (v : nat),
      wf_ops (length metas) ops = true -> v < length metas ->
      let s := c_run async cs metas ord (c_init metas) ops in
      let b := v_buf (nth v (c_vars s) v_init) in
      sb_assert cs b = true /\
      sb_total_pushed cs b = length (pushed v (c_last_warm s) ops) /\
      (c_last_warm s = true -> pushed v false ops = []).
Proof. exact c_buffer_inv. Qed.
Print Assumptions C15_buffer_inv.

(* ------------------------------------------------------------------------------------------ *)
(* The two defects that were repaired (fix: Zarr event arrays are sized by the number of        *)
(* events that occurred).  Model of the old code: c_run_prefix / c_finalize_prefix.             *)
(* ------------------------------------------------------------------------------------------ *)
(* two statistics of one event dimension; only the first is present on the event *)
Definition two_fields : list vmeta :=
  [ {| m_string := false; m_fill := 0%N; m_dim := Some 0 |};
    {| m_string := false; m_fill := 0%N; m_dim := Some 0 |} ].

(* D1: the count of the dimension was read from an arbitrary field (pick 0 = 1: the one that is
   never present): the event recorded and flushed at k = 0 is readable before the trace is
   finalized and is not an entry of the array afterwards. *)
Theorem C15_prefix_arbitrary_field_refuted :
  exists (cs n_tune n_draws : nat) (pick : nat -> nat) (ops : list op),
    wf_ops 2 ops = true /\
    let s := c_run_prefix false cs two_fields pick ord_id (c_init two_fields) ops in
    let (sf, counts) := c_finalize_prefix cs two_fields pick ord_id s in
    read_row cs 0%N (c_array s 0 true) (shape_running n_tune n_draws true) 0 = Some 7%N /\
    nth_error (pushed 0 true ops) 0 = Some 7%N /\
    read_row cs 0%N (c_array sf 0 true) (shape_final n_tune n_draws (nth 0 two_fields (Build_vmeta false 0%N None)) [counts] true) 0 = None.
Proof.
  exists 3, 4, 5, (fun _ => 1), [ORec true [Some 7%N; None]; OFlush; ORec false [None; None]; OFlush].
  vm_compute. repeat split.
Qed.
Print Assumptions C15_prefix_arbitrary_field_refuted.

(* D2: a chain finalized while still in warmup reported (0, events): the warmup event array was
   cut to length 0 (and the sample array got phantom entries), whatever field was picked. *)
Definition one_field : list vmeta := [ {| m_string := false; m_fill := 0%N; m_dim := Some 0 |} ].
Theorem C15_prefix_finalize_in_warmup_refuted :
  exists (cs n_tune n_draws : nat) (ops : list op),
    wf_ops 1 ops = true /\
    let s := c_run_prefix false cs one_field (fun _ => 0) ord_id (c_init one_field) ops in
    let (sf, counts) := c_finalize_prefix cs one_field (fun _ => 0) ord_id s in
    read_row cs 0%N (c_array s 0 true) (shape_running n_tune n_draws true) 0 = Some 7%N /\
    counts 0 = (0, 2) /\
    read_row cs 0%N (c_array sf 0 true) (shape_final n_tune n_draws (nth 0 one_field (Build_vmeta false 0%N None)) [counts] true) 0 = None.
Proof.
  exists 3, 4, 0, [ORec true [Some 7%N]; OFlush; ORec true [Some 8%N]; OFlush].
  vm_compute. repeat split.
Qed.
Print Assumptions C15_prefix_finalize_in_warmup_refuted.

(* the repaired code on the same two histories *)
Example C15_repaired_on_witnesses :
  (let ops := [ORec true [Some 7%N; None]; OFlush; ORec false [None; None]; OFlush] in
   let s := c_run false 3 two_fields ord_id (c_init two_fields) ops in
   let (sf, counts) := c_finalize 3 two_fields ord_id s in
   read_row 3 0%N (c_array sf 0 true) (shape_final 4 5 (nth 0 two_fields (Build_vmeta false 0%N None)) [counts] true) 0) = Some 7%N /\
  (let ops := [ORec true [Some 7%N]; OFlush; ORec true [Some 8%N]; OFlush] in
   let s := c_run false 3 one_field ord_id (c_init one_field) ops in
   let (sf, counts) := c_finalize 3 one_field ord_id s in
   (read_row 3 0%N (c_array sf 0 true) (shape_final 4 0 (nth 0 one_field (Build_vmeta false 0%N None)) [counts] true) 1, counts 0))
  = (Some 8%N, (2, 0)).
Proof. vm_compute. split; reflexivity. Qed.
Print Assumptions C15_repaired_on_witnesses.

(* ------------------------------------------------------------------------------------------ *)
(* Non-vacuity                                                                                  *)
(* ------------------------------------------------------------------------------------------ *)
(* a string statistic with an event dimension, a plain statistic and a draw variable; chunk size
   2; three warmup records, two sample records (the draw counts 3 and 2 are larger than / equal
   to the chunk size and 3 is not a multiple of it), flushes after records 1, 3 and 5, an
   asynchronous writer whose queued writes complete in reverse order, one completing early. *)
Definition nv_metas : list vmeta :=
  [ {| m_string := true; m_fill := 0%N; m_dim := Some 0 |};
    {| m_string := false; m_fill := 1%N; m_dim := None |};
    {| m_string := false; m_fill := 1%N; m_dim := None |} ].
Definition nv_ops : list op :=
  [ ORec true [Some 10%N; Some 20%N; Some 30%N]; OFlush;
    ORec true [None; Some 21%N; Some 31%N]; OComplete 1 0;
    ORec true [Some 12%N; Some 22%N; Some 32%N]; OFlush;
    ORec false [None; Some 23%N; Some 33%N];
    ORec false [Some 14%N; Some 24%N; Some 34%N]; OFlush ].

Example C15_nonvacuous :
  wf_ops (length nv_metas) nv_ops = true /\
  (forall l, Permutation (ord_rev l) l) /\
  map (fun v => (pushed v true nv_ops, pushed v false nv_ops)) [0; 1; 2] =
    [([10; 12], [14]); ([20; 21; 22], [23; 24]); ([30; 31; 32], [33; 34])]%N /\
  (* the history really queues writes: after the third record the async writer has a pending full
     chunk for the event statistic and for the draw variable (the one of the plain statistic
     completed early), and the store does not hold the rows 31, 32 of the draw variable yet *)
  (let s := c_run true 2 nv_metas ord_rev (c_init nv_metas) (firstn 5 nv_ops) in
   (map (fun v => length (v_pend (nth v (c_vars s) v_init))) [0; 1; 2],
    read_range 2 1%N (c_array s 2 true) 3 0 3)) = ([1; 0; 1], [Some 30%N; Some 1%N; Some 1%N]) /\
  (* after the last flush everything is there, for both writers *)
  (let s := c_run true 2 nv_metas ord_rev (c_init nv_metas) nv_ops in
   (read_range 2 0%N (c_array s 0 true) 3 0 3, read_range 2 1%N (c_array s 1 true) 3 0 3,
    read_range 2 1%N (c_array s 2 false) 2 0 2)) =
  ([Some 10; Some 12; Some 0], [Some 20; Some 21; Some 22], [Some 33; Some 34])%N /\
  (let s := c_run false 2 nv_metas ord_id (c_init nv_metas) nv_ops in
   (read_range 2 0%N (c_array s 0 true) 3 0 3, read_range 2 1%N (c_array s 1 true) 3 0 3,
    read_range 2 1%N (c_array s 2 false) 2 0 2)) =
  ([Some 10; Some 12; Some 0], [Some 20; Some 21; Some 22], [Some 33; Some 34])%N /\
  (* the finalize counts and the final size of the event array *)
  (let (sf, counts) := c_finalize 2 nv_metas ord_rev (c_run true 2 nv_metas ord_rev (c_init nv_metas) nv_ops) in
   (counts 0, shape_final 3 2 (nth 0 nv_metas (Build_vmeta false 0%N None)) [counts] true,
    shape_final 3 2 (nth 0 nv_metas (Build_vmeta false 0%N None)) [counts] false)) = ((2, 1), 2, 1).
Proof.
  split; [vm_compute; reflexivity|]. split; [exact ord_rev_perm|].
  vm_compute. repeat split.
Qed.
Print Assumptions C15_nonvacuous.
