(* C10 - Parallel sampling is deterministic and independent of scheduling.
   Statements over the labelled transition system model/Protocol.v: `reach n total s` = s is the
   state after some event history accepted by `step` (any interleaving of the user, the controller
   and n chains, any user script).  The content of draw k of chain i is a function of (settings,
   seed, i, k) only: chain-private state is touched by that chain's own events alone (frame), and
   the draw numbers a chain records are exactly 0,1,2,... in order whatever the schedule. *)
From Coq Require Import ZArith List Bool Arith.
From NutsV Require Import model.Protocol proofs.Protocol_facts.
Import ListNotations.

Theorem C10_replayed_histories_are_reachable :
  forall (n total : nat) (evs : list ev) (s : st),
    replay (init n total) evs 0 = inl s -> reach n total s.
Proof. exact replay_reach. Qed.
Print Assumptions C10_replayed_histories_are_reachable.

(* in every reachable state, for every schedule, pause/resume timing, number of cores and of
   other chains: chain c has recorded exactly the draws 0 .. c_draw-1, in order *)
Theorem C10_schedule_independent :
  forall (n total : nat) (s : st) (c : chain),
    reach n total s -> In c (s_chains s) -> c_rec c = seq 0 (c_draw c) /\ c_draw c <= total.
Proof. exact I1_records. Qed.
Print Assumptions C10_schedule_independent.

(* an event of chain i changes no component of any other chain and nothing of controller/user *)
Theorem C10_frame :
  forall (s : st) (i : nat) (e : cev) (s' : st),
    chain_step s i e = Some s' ->
    (forall j, j <> i -> nth_error (s_chains s') j = nth_error (s_chains s) j) /\
    length (s_chains s') = length (s_chains s) /\
    s_ctl s' = s_ctl s /\ s_user s' = s_user s /\ s_cmd_open s' = s_cmd_open s /\
    s_total s' = s_total s /\ s_paused s' = s_paused s /\ s_ctl_ok s' = s_ctl_ok s /\
    (s_results s' = s_results s \/ exists ok, s_results s' = s_results s ++ [ok]).
Proof. exact chain_step_frame. Qed.
Print Assumptions C10_frame.

Theorem C10_chain_count_constant :
  forall (n total : nat) (s : st), reach n total s -> length (s_chains s) = n /\ s_total s = total.
Proof. exact I3_chains_total. Qed.
Print Assumptions C10_chain_count_constant.

(* random streams: chain i uses ChaCha8 stream (i + 1) mod 2^64; streams of different chains
   differ and none equals the controller's stream 0 (for i < 2^64 - 1) *)
Theorem C10_stream_injective :
  forall i j : N, (i < 18446744073709551615)%N -> (j < 18446744073709551615)%N -> i <> j ->
    ((i + 1) mod 18446744073709551616 <> (j + 1) mod 18446744073709551616)%N /\
    ((i + 1) mod 18446744073709551616 <> 0)%N.
Proof.
  intros i j Hi Hj Hij.
  rewrite !N.mod_small by (apply N.lt_le_trans with (m := (18446744073709551615 + 1)%N);
                           [apply N.add_lt_mono_r; assumption | apply N.le_refl]).
  split; [intro H; apply Hij; apply N.add_cancel_r in H; exact H|].
  intro H. destruct i; discriminate H.
Qed.
Print Assumptions C10_stream_injective.

Example C10_nonvacuous :
  replay_log 1 1 [(2, 0, 0, 0); (2, 1, 0, 0); (2, 4, 0, 0); (2, 5, 0, 0); (2, 7, 0, 0); (2, 8, 0, 1)]%Z
  = [[1; 1; 8; 1]]%Z.
Proof. vm_compute. reflexivity. Qed.
Print Assumptions C10_nonvacuous.
