(* C09 - Adaptation windows discard stale draws and honour the schedule.
   Statements only; proofs live in proofs/Schedule_facts.v. *)
From Coq Require Import ZArith NArith Bool List Lia QArith.
From NutsV Require Import lib.Fp model.Schedule proofs.Schedule_facts.
Import ListNotations.
Local Open Scope N_scope.

(* Ghost tags: draw k carries tag k, the initial point tag -1.  `hist` lists the draws at which a
   window switch happened (most recent first).  After any history of good/rejected draws, every
   draw held by the foreground estimator is later than the switch before the last one, and every
   draw held by the background estimator is later than the last switch: draws older than two
   windows never influence the transformation. *)
Theorem C09_fg_is_recent :
  forall (nextw : N -> N) (o : sopts) (st0 : gstate) (goods : list bool),
    let '(st, hist) := run_sw nextw o (gs_init st0) 0 goods [] in
    Forall (fun t => (nth 1 hist (-2) < t)%Z) (w_fg (g_win st)) /\
    Forall (fun t => (nth 0 hist (-2) < t)%Z) (w_bg (g_win st)).
Proof. exact fg_is_recent. Qed.
Print Assumptions C09_fg_is_recent.

(* Exact content (completeness as well as recency): `fed_tags` lists everything that was ever fed
   to the estimators, oldest first - the initial point (tag -1), then every good draw before the
   final step-size window, each once.  The foreground estimator holds exactly those of them that
   are later than the switch before the last one (nothing older, nothing missing, nothing twice),
   the background estimator exactly those later than the last switch.  The correspondence check
   recomputes every installed diagonal transformation from these draws. *)
Theorem C09_fg_is_exact_window :
  forall (nextw : N -> N) (o : sopts) (st0 : gstate) (goods : list bool),
    let '(st, hist) := run_sw nextw o (gs_init st0) 0 goods [] in
    w_fg (g_win st) = newer_than (nth 1 hist (-2)%Z) (fed_tags st0 goods) /\
    w_bg (g_win st) = newer_than (nth 0 hist (-2)%Z) (fed_tags st0 goods).
Proof. exact fg_is_exact. Qed.
Print Assumptions C09_fg_is_exact_window.

(* The window printed for draw i by `global_trace_fg` (model/Schedule.v: `fg_windows`) is the
   foreground window of the state reached after draws 0..i, the object of the theorems above. *)
Theorem C09_printed_window_is_foreground :
  forall (nextw : N -> N) (o : sopts) (st : gstate) (k : N) (hist : list Z) (goods : list bool)
         (i : nat),
    (i < length goods)%nat ->
    nth i (fg_windows nextw o st k goods) [] =
    w_fg (g_win (fst (run_sw nextw o st k (firstn (S i) goods) hist))).
Proof. intros nextw o st k hist goods i. exact (fg_windows_spec nextw o goods st k hist i). Qed.
Print Assumptions C09_printed_window_is_foreground.

(* A switch happens exactly when the background estimator holds a full window and another full
   (next) window still fits before the final step-size window. *)
Theorem C09_switch_condition :
  forall (nextw : N -> N) (o : sopts) (st : gstate) (k : N) (g : bool),
    k < g_num_tune st -> k < g_final st ->
    (In ESwitch (snd (gs_adapt nextw o st k g)) <->
     d_switch_freq o st k <= len (w_bg (d_w1 st k g)) /\ k + d_next_w nextw o st k <= g_final st).
Proof. exact switch_condition. Qed.
Print Assumptions C09_switch_condition.

Theorem C09_no_switch_in_final_window :
  forall (nextw : N -> N) (o : sopts) (st : gstate) (k : N) (g : bool),
    (g_num_tune st <= k \/ g_final st <= k) -> ~ In ESwitch (snd (gs_adapt nextw o st k g)).
Proof. exact no_switch_outside. Qed.
Print Assumptions C09_no_switch_in_final_window.

(* Early phase: constant short windows; main phase: window target never shrinks and grows
   strictly at every switch (for any next-window function with nextw c > c, which
   max(c+1, round(c*growth)) is). *)
Theorem C09_windows_grow :
  forall (nextw : N -> N) (o : sopts), (forall c, c < nextw c) ->
  forall (st : gstate) (k : N) (g : bool),
    g_cur_win st <= g_cur_win (fst (gs_adapt nextw o st k g)) /\
    (In ESwitch (snd (gs_adapt nextw o st k g)) -> g_early_end st <= k ->
     g_cur_win st < g_cur_win (fst (gs_adapt nextw o st k g))) /\
    (k < g_early_end st -> g_cur_win (fst (gs_adapt nextw o st k g)) = g_cur_win st).
Proof. exact windows_grow. Qed.
Print Assumptions C09_windows_grow.

Theorem C09_next_window_f64_grows : forall growth c, c < next_window_f64 growth c.
Proof. intros. unfold next_window_f64. lia. Qed.
Print Assumptions C09_next_window_f64_grows.

(* Only good draws are fed to the estimators (both windows get the same draw) and a switch
   replaces the foreground by the background and empties the background. *)
Theorem C09_only_good_counted :
  forall (nextw : N -> N) (o : sopts) (st : gstate) (k : N) (g : bool),
    k < g_num_tune st -> k < g_final st ->
    g_win (fst (gs_adapt nextw o st k g)) =
      (if existsb is_switch (snd (gs_adapt nextw o st k g))
       then win_switch (d_w1 st k g) else d_w1 st k g) /\
    d_w1 st k false = g_win st /\
    d_w1 st k true = win_add (g_win st) (Z.of_N k).
Proof. exact only_good_counted. Qed.
Print Assumptions C09_only_good_counted.

(* both concrete estimators implement that abstract pair *)
Theorem C09_lowrank_refines :
  forall w t, lr_wf w ->
    (lr_abs (lr_add w t) = win_add (lr_abs w) t /\ lr_wf (lr_add w t)) /\
    (lr_abs (lr_switch w) = win_switch (lr_abs w) /\ lr_wf (lr_switch w)).
Proof. intros w t H. split; [apply lr_add_refines|apply lr_switch_refines]; exact H. Qed.
Print Assumptions C09_lowrank_refines.

(* the first transformation change, and only it, re-runs the step-size search *)
Theorem C09_reinit_on_first_change :
  forall (nextw : N -> N) (o : sopts) (st : gstate) (k : N) (g : bool),
    (In EStepInit (snd (gs_adapt nextw o st k g)) <->
     In (EMassAdapt true) (snd (gs_adapt nextw o st k g)) /\ g_has_init st = true) /\
    (In EStepInit (snd (gs_adapt nextw o st k g)) -> g_has_init (fst (gs_adapt nextw o st k g)) = false) /\
    (g_has_init st = false -> g_has_init (fst (gs_adapt nextw o st k g)) = false).
Proof. exact reinit_on_first_change. Qed.
Print Assumptions C09_reinit_on_first_change.

(* the symmetric statistic is used exactly when no further window fits or in the final window *)
Theorem C09_late_uses_symmetric :
  forall (nextw : N -> N) (o : sopts) (st : gstate) (k : N) (g b : bool),
    k < g_num_tune st -> In (EAdvance b) (snd (gs_adapt nextw o st k g)) ->
    b = (d_is_late nextw o st k || (g_final st <=? k)).
Proof. exact late_uses_symmetric. Qed.
Print Assumptions C09_late_uses_symmetric.

Theorem C09_update_freq :
  forall (nextw : N -> N) (o : sopts) (st : gstate) (k : N) (g : bool),
    k < g_num_tune st -> k < g_final st ->
    ((exists c, In (EMassAdapt c) (snd (gs_adapt nextw o st k g))) <->
     (In ESwitch (snd (gs_adapt nextw o st k g)) \/ o_upd o <= k - g_last_update st)).
Proof. exact update_freq. Qed.
Print Assumptions C09_update_freq.

Theorem C09_last_update_no_underflow :
  forall (nextw : N -> N) (o : sopts) (st : gstate) (k : N) (g : bool),
    g_last_update st <= k -> g_last_update (fst (gs_adapt nextw o st k g)) <= k + 1.
Proof. exact last_update_le. Qed.
Print Assumptions C09_last_update_no_underflow.

(* non-vacuity: a run with two switches; the foreground holds only draws after the first one *)
Definition o_small : sopts := {| o_early_sw := 2; o_main_sw := 3; o_upd := 1 |}.
Example C09_nonvacuous :
  let '(st, hist) := run_sw (fun c => c + 1) o_small (gs_init (gs_new_raw o_small 40 4 34)) 0
                       [true; true; false; true; true; true; true; true; true] [] in
  (hist, w_fg (g_win st), w_bg (g_win st)) = ([6; 3; 0]%Z, [4; 5; 6; 7; 8]%Z, [7; 8]%Z).
Proof. vm_compute. reflexivity. Qed.
Print Assumptions C09_nonvacuous.

(* non-vacuity of the exact-window theorem on the same run: draws 0..8 with draw 2 rejected *)
Example C09_exact_nonvacuous :
  fed_tags (gs_new_raw o_small 40 4 34) [true; true; false; true; true; true; true; true; true]
    = [-1; 0; 1; 3; 4; 5; 6; 7; 8]%Z /\
  fg_windows (fun c => c + 1) o_small (gs_init (gs_new_raw o_small 40 4 34)) 0
    [true; true; false; true; true; true; true; true; true]
    = [[-1; 0]; [-1; 0; 1]; [-1; 0; 1]; [1; 3]; [1; 3; 4]; [1; 3; 4; 5]; [4; 5; 6]; [4; 5; 6; 7]; [4; 5; 6; 7; 8]]%Z.
Proof. vm_compute. split; reflexivity. Qed.
Print Assumptions C09_exact_nonvacuous.
