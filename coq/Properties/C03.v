(* C03 - placeholder statements; extended below as proofs land *)
From Coq Require Import ZArith QArith List.
From NutsV Require Import model.Tree.
Import ListNotations.
Example C03_model_runs :
  run_draw_gen false [ {| os_idx := 0; os_w := 1; os_q := [1#1]; os_v := [1#1]; os_bad := false; os_fatal := false |} ]
    {| n_maxdepth := 0; n_mindepth := 0; n_extra := 0; n_check := true; n_dim0 := false |} []
  = [[0; 0; 0; 0; -999999; 1; -999999; 0]%Z; []; []].
Proof. vm_compute. reflexivity. Qed.
Print Assumptions C03_model_runs.
