(* C03 - Every draw is a real trajectory state and its statistics describe it.
   Statements only; proofs in proofs/Tree_facts.v.  `outcome m ticks r` = r is a possible result of
   the choice tree m, reached after leapfrogging onto the indices `ticks` (in that order); by
   C03_run_is_outcome every scripted run of the model (the one compared with the code) is one. *)
From Coq Require Import ZArith QArith List Bool.
From NutsV Require Import model.Tree proofs.Tree_facts.
From NutsV Require model.Pool proofs.Pool_facts.
Import ListNotations.
Local Open Scope Z_scope.

Theorem C03_run_is_outcome :
  forall (A : Type) (m : ptree A) (script : list Z) (r : runres A),
    run m script [] [] = Some r -> outcome m (rr_ticks r) (rr_val r).
Proof. exact run_outcome. Qed.
Print Assumptions C03_run_is_outcome.

(* the returned tree is a block of 2^depth consecutive indices containing the start and the draw *)
Theorem C03_interval :
  forall (wt : Z -> Q) (turn : Z -> Z -> bool) (bad fatal : Z -> bool) (o : nopts) (a : Z)
         (ticks : list Z) (r : dres),
    outcome (pdraw wt turn bad fatal o a) ticks r -> d_err r = None ->
    d_lo r <= a <= d_hi r /\ d_lo r <= d_sel r <= d_hi r /\
    d_hi r - d_lo r + 1 = 2 ^ Z.of_nat (d_depth r).
Proof. exact T1_interval. Qed.
Print Assumptions C03_interval.

(* |index_in_trajectory| <= 2^depth - 1 *)
Theorem C03_index_bound :
  forall (wt : Z -> Q) (turn : Z -> Z -> bool) (bad fatal : Z -> bool) (o : nopts) (a : Z)
         (ticks : list Z) (r : dres),
    outcome (pdraw wt turn bad fatal o a) ticks r -> d_err r = None ->
    Z.abs (d_sel r - a) <= 2 ^ Z.of_nat (d_depth r) - 1.
Proof. exact T1_distance. Qed.
Print Assumptions C03_index_bound.

Theorem C03_depth_le_maxdepth :
  forall (wt : Z -> Q) (turn : Z -> Z -> bool) (bad fatal : Z -> bool) (o : nopts) (a : Z)
         (ticks : list Z) (r : dres),
    n_extra o = 0%nat ->
    outcome (pdraw wt turn bad fatal o a) ticks r -> d_err r = None ->
    (d_depth r <= n_maxdepth o)%nat.
Proof. exact T2_depth. Qed.
Print Assumptions C03_depth_le_maxdepth.

(* ... also with target_integration_time: the bounds nuts::draw derives from it (eff_opts, any
   max_steps = ceil(target_time / step_size)) never exceed the configured maxdepth *)
Theorem C03_depth_le_maxdepth_target :
  forall (wt : Z -> Q) (turn : Z -> Z -> bool) (bad fatal : Z -> bool) (o : nopts) (max_steps : option N)
         (a : Z) (ticks : list Z) (r : dres),
    n_extra o = 0%nat ->
    outcome (pdraw wt turn bad fatal (eff_opts o max_steps) a) ticks r -> d_err r = None ->
    (d_depth r <= n_maxdepth o)%nat.
Proof. exact T2_depth_target. Qed.
Print Assumptions C03_depth_le_maxdepth_target.

(* 2^depth - 1 <= steps <= 2^(depth+1) - 1 *)
Theorem C03_step_count :
  forall (wt : Z -> Q) (turn : Z -> Z -> bool) (bad fatal : Z -> bool) (o : nopts) (a : Z)
         (ticks : list Z) (r : dres),
    n_extra o = 0%nat -> n_dim0 o = false ->
    outcome (pdraw wt turn bad fatal o a) ticks r -> d_err r = None ->
    2 ^ Z.of_nat (d_depth r) - 1 <= Z.of_nat (length ticks) <= 2 ^ (Z.of_nat (d_depth r) + 1) - 1.
Proof. exact T4_steps. Qed.
Print Assumptions C03_step_count.

(* a model with parameters integrates at least one step whenever maxdepth >= 1 *)
Theorem C03_at_least_one_step :
  forall (wt : Z -> Q) (turn : Z -> Z -> bool) (bad fatal : Z -> bool) (o : nopts) (a : Z)
         (ticks : list Z) (r : dres),
    (1 <= n_maxdepth o)%nat -> n_dim0 o = false ->
    outcome (pdraw wt turn bad fatal o a) ticks r -> (1 <= length ticks)%nat.
Proof. exact T4_at_least_one. Qed.
Print Assumptions C03_at_least_one_step.

(* ... also under target_integration_time, however short (repaired: before the fix the derived
   depth limit could be 0, witness below) *)
Theorem C03_at_least_one_step_target :
  forall (wt : Z -> Q) (turn : Z -> Z -> bool) (bad fatal : Z -> bool) (o : nopts) (max_steps : option N)
         (a : Z) (ticks : list Z) (r : dres),
    (1 <= n_maxdepth o)%nat -> n_dim0 o = false ->
    outcome (pdraw wt turn bad fatal (eff_opts o max_steps) a) ticks r -> (1 <= length ticks)%nat.
Proof. exact T4_at_least_one_target. Qed.
Print Assumptions C03_at_least_one_step_target.

Theorem C03_old_target_time_no_step_refuted :
  exists (M m : nat) (n : N), (1 <= M)%nat /\ snd (eff_depths_old M m (Some n)) = 0%nat.
Proof. exact eff_depths_old_stuck. Qed.
Print Assumptions C03_old_target_time_no_step_refuted.

(* the draw is the start or a state the integrator reached; every other state of the returned
   tree was reached too and none of them diverged or failed: nothing of a rejected sub-tree and
   no invalid state is inside the tree the draw is selected from *)
Theorem C03_draw_was_visited :
  forall (wt : Z -> Q) (turn : Z -> Z -> bool) (bad fatal : Z -> bool) (o : nopts) (a : Z)
         (ticks : list Z) (r : dres),
    outcome (pdraw wt turn bad fatal o a) ticks r -> d_err r = None ->
    (d_sel r = a \/ In (d_sel r) ticks) /\
    (forall i, d_lo r <= i <= d_hi r -> i <> a -> In i ticks /\ bad i = false /\ fatal i = false).
Proof. exact T5_visited. Qed.
Print Assumptions C03_draw_was_visited.

(* the maxdepth flag implies: depth = maxdepth, no divergence, and exactly 2^maxdepth - 1 steps
   (no rejected sub-tree): maxdepth was the only reason to stop *)
Theorem C03_maxdepth_flag :
  forall (wt : Z -> Q) (turn : Z -> Z -> bool) (bad fatal : Z -> bool) (o : nopts) (a : Z)
         (ticks : list Z) (r : dres),
    outcome (pdraw wt turn bad fatal o a) ticks r -> d_err r = None -> d_maxdepth r = true ->
    d_depth r = n_maxdepth o /\ d_div r = None /\ n_dim0 o = false /\
    Z.of_nat (length ticks) = 2 ^ Z.of_nat (n_maxdepth o) - 1.
Proof. exact T3_maxdepth_flag. Qed.
Print Assumptions C03_maxdepth_flag.

(* without the flag there was another reason: a divergence, or a U-turn between two states within
   one tree width of the returned tree (checked only at or beyond mindepth) *)
Theorem C03_no_flag_has_reason :
  forall (wt : Z -> Q) (turn : Z -> Z -> bool) (bad fatal : Z -> bool) (o : nopts) (a : Z)
         (ticks : list Z) (r : dres),
    outcome (pdraw wt turn bad fatal o a) ticks r -> d_err r = None -> n_dim0 o = false ->
    d_maxdepth r = false ->
    d_div r <> None \/
    (n_check o = true /\ (n_mindepth o <= d_depth r)%nat /\
     exists u v, turn u v = true /\ u < v /\
       d_lo r - 2 ^ Z.of_nat (d_depth r) <= u /\ v <= d_hi r + 2 ^ Z.of_nat (d_depth r)).
Proof. exact T3_flag_false. Qed.
Print Assumptions C03_no_flag_has_reason.

(* never earlier: with no U-turn anywhere and no divergence the doubling runs to maxdepth *)
Theorem C03_never_stops_early :
  forall (wt : Z -> Q) (turn : Z -> Z -> bool) (bad fatal : Z -> bool) (o : nopts) (a : Z)
         (ticks : list Z) (r : dres),
    outcome (pdraw wt turn bad fatal o a) ticks r -> d_err r = None -> n_dim0 o = false ->
    (n_check o = false \/ forall u v, turn u v = false) -> d_div r = None ->
    d_maxdepth r = true /\ d_depth r = n_maxdepth o.
Proof. exact T3_nocheck. Qed.
Print Assumptions C03_never_stops_early.

(* a reported divergence is a state that really diverged, adjacent to (outside) the returned tree *)
Theorem C03_divergence_outside_tree :
  forall (wt : Z -> Q) (turn : Z -> Z -> bool) (bad fatal : Z -> bool) (o : nopts) (a : Z)
         (ticks : list Z) (r : dres) (i : Z),
    outcome (pdraw wt turn bad fatal o a) ticks r -> d_err r = None -> d_div r = Some i ->
    bad i = true /\ fatal i = false /\ In i ticks /\ n_dim0 o = false /\
    (d_hi r < i <= d_hi r + 2 ^ Z.of_nat (d_depth r) \/
     d_lo r - 2 ^ Z.of_nat (d_depth r) <= i < d_lo r).
Proof. exact T6_divergence. Qed.
Print Assumptions C03_divergence_outside_tree.

Theorem C03_dim0 :
  forall (wt : Z -> Q) (turn : Z -> Z -> bool) (bad fatal : Z -> bool) (o : nopts) (a : Z)
         (ticks : list Z) (r : dres),
    n_dim0 o = true -> outcome (pdraw wt turn bad fatal o a) ticks r ->
    ticks = [] /\ d_sel r = a /\ d_depth r = 0%nat /\ d_err r = None /\ d_div r = None /\
    d_maxdepth r = false /\ d_lo r = a /\ d_hi r = a.
Proof. exact T7_dim0. Qed.
Print Assumptions C03_dim0.

(* state Pool.pool (model/Pool.v): for ALL sequences of new / clone / drop / write operations, a cell on
   the free list has no live handle, and a successful write through one handle changes no value
   observable through any other live handle: the next trajectory can never overwrite a draw that
   is still referenced *)
Theorem C03_pool_free_cells_unreferenced :
  forall (ops : list Pool.op) (c : nat),
    In c (Pool.p_free (fst (Pool.run Pool.empty ops))) -> forall h, Pool.cell_of (fst (Pool.run Pool.empty ops)) h <> Some c.
Proof. intros ops c H. exact (Pool_facts.free_cell_has_no_handle _ c (Pool_facts.inv_run ops) H). Qed.
Print Assumptions C03_pool_free_cells_unreferenced.

Theorem C03_pool_write_no_alias :
  forall (p : Pool.pool) (h v : nat), Pool_facts.inv p -> snd (Pool.step p (Pool.OWrite h v)) = Pool.ROk ->
    forall h', h' <> h -> Pool.read (fst (Pool.step p (Pool.OWrite h v))) h' = Pool.read p h'.
Proof. exact Pool_facts.write_no_alias. Qed.
Print Assumptions C03_pool_write_no_alias.

Theorem C03_pool_write_iff_unique_owner :
  forall (p : Pool.pool) (h v c : nat), Pool_facts.inv p -> Pool.cell_of p h = Some c ->
    (snd (Pool.step p (Pool.OWrite h v)) = Pool.ROk <-> forall h', h' <> h -> Pool.cell_of p h' <> Some c).
Proof. exact Pool_facts.write_succeeds_iff_unique. Qed.
Print Assumptions C03_pool_write_iff_unique_owner.

Theorem C03_pool_new_state_is_fresh :
  forall (p p' : Pool.pool) (h : nat), Pool_facts.inv p -> Pool.step p Pool.ONew = (p', Pool.RHandle h) ->
    exists c, Pool.cell_of p' h = Some c /\ (forall h', h' <> h -> Pool.cell_of p' h' <> Some c).
Proof. exact Pool_facts.new_is_fresh. Qed.
Print Assumptions C03_pool_new_state_is_fresh.

Theorem C03_pool_recycles_iff_last_handle :
  forall (p : Pool.pool) (h c : nat), Pool_facts.inv p -> Pool.cell_of p h = Some c ->
    (In c (Pool.p_free (fst (Pool.step p (Pool.ODrop h)))) <-> forall h', h' <> h -> Pool.cell_of p h' <> Some c).
Proof. exact Pool_facts.drop_recycles_iff_last. Qed.
Print Assumptions C03_pool_recycles_iff_last_handle.

(* non-vacuity: a concrete scripted run that doubles twice and stops at maxdepth *)
Example C03_nonvacuous :
  run_draw_gen false
    [ {| os_idx := 0; os_w := 1; os_q := [0#1]; os_v := [1#1]; os_bad := false; os_fatal := false |};
      {| os_idx := 1; os_w := 1#2; os_q := [1#1]; os_v := [1#1]; os_bad := false; os_fatal := false |};
      {| os_idx := -1; os_w := 1#2; os_q := [-1#1]; os_v := [1#1]; os_bad := false; os_fatal := false |};
      {| os_idx := -2; os_w := 1#4; os_q := [-2#1]; os_v := [1#1]; os_bad := false; os_fatal := false |} ]
    {| n_maxdepth := 2; n_mindepth := 0; n_extra := 0; n_check := true; n_dim0 := false |}
    [9223372036854775808; 0; 0; 0; 0; 0]
  = [[-2; 2; -2; 1; -999999; 1; -999999; 5]; [1; -1; -2]; [500000000000; 333333333333; 500000000000]].
Proof. vm_compute. reflexivity. Qed.
Print Assumptions C03_nonvacuous.
