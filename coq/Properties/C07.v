(* C07 - Step-size adaptation steers acceptance to the target and stays bounded.
   Statements over model/StepSize.v (exact arithmetic in log space; w n = 1/(n+t0), c n = sqrt(n)/gamma,
   m n = n^-k, cap = ln(max_step_size) are parameter sequences); proofs in proofs/StepSize_facts.v.
   The bit-exact binary64 recurrences (model/DualAvg.v) are tied to the code by correspondence. *)
From Coq Require Import QArith Qminmax List Arith Morphisms.
From NutsV Require Import model.StepSize proofs.StepSize_facts.
Import ListNotations.

(* raising any acceptance statistic never lowers any later log step size nor the averaged one *)
Theorem C07_da_monotone :
  forall (w c m : nat -> Q) (mu cap target : Q),
    (forall n, 0 <= w n /\ w n <= 1) -> (forall n, 0 <= c n) -> (forall n, 0 <= m n /\ m n <= 1) ->
    forall (a a' : list Q) (s : daq), Forall2 Qle a a' ->
      Forall2 (fun t t' => q_h t' <= q_h t /\ q_x t <= q_x t' /\ q_xbar t <= q_xbar t')
              (daq_trace w c m mu cap target s a) (daq_trace w c m mu cap target s a').
Proof. exact da_monotone_same_start. Qed.
Print Assumptions C07_da_monotone.

(* every update yields a log step size <= ln(max_step_size), and a finite lower bound *)
Theorem C07_da_bounded :
  forall (w c m : nat -> Q) (mu cap target : Q) (s : daq) (accs : list Q),
    Forall (fun t => q_x t <= cap) (daq_trace w c m mu cap target s accs).
Proof. exact da_bounded. Qed.
Print Assumptions C07_da_bounded.

Theorem C07_da_lower_bound :
  forall (w c m : nat -> Q) (mu cap target : Q),
    (forall n, 0 <= w n /\ w n <= 1) -> (forall n, 0 <= c n) ->
    forall (accs : list Q) (s : daq),
      Forall (fun a => 0 <= a /\ a <= 1) accs -> target - 1 <= q_h s /\ q_h s <= target ->
      Forall (fun t => Qmin (mu - target * c (Nat.pred (q_n t))) cap <= q_x t /\ q_x t <= cap)
             (daq_trace w c m mu cap target s accs).
Proof. exact x_lower_bound. Qed.
Print Assumptions C07_da_lower_bound.

(* the averaged log step size is the documented weighted average of the iterates *)
Theorem C07_da_bar_is_weighted_average :
  forall (w c m : nat -> Q) (mu cap target : Q) (accs : list Q) (s : daq),
    q_xbar (daq_run w c m mu cap target s accs) ==
    da_resid m (q_n s) (length accs) * q_xbar s +
    qdot (da_weights m (q_n s) (length accs)) (map q_x (daq_trace w c m mu cap target s accs)).
Proof. exact da_bar_is_weighted_average. Qed.
Print Assumptions C07_da_bar_is_weighted_average.

Theorem C07_da_weights_are_a_distribution :
  (forall (m : nat -> Q) (k n : nat), da_resid m n k + StepSize_facts.qsum (da_weights m n k) == 1) /\
  (forall m : nat -> Q, (forall n, 0 <= m n /\ m n <= 1) ->
     forall k n, Forall (fun x => 0 <= x) (da_weights m n k)).
Proof. split; [exact da_weights_sum | exact da_weights_nonneg]. Qed.
Print Assumptions C07_da_weights_are_a_distribution.

(* Adam: each update moves the step size up exactly when the smoothed acceptance error is positive *)
Theorem C07_adam_direction :
  forall (beta1 beta2 eps lr target : Q) (sq : Q -> Q) (b1t b2t : nat -> Q),
    0 < lr -> 0 < eps -> (forall x, 0 <= sq x) ->
    forall (s : adq) (a : Q), b1t (S (a_t s)) < 1 ->
      (a_x s < a_x (adq_advance beta1 beta2 eps lr target sq b1t b2t s a) <->
       0 < a_m (adq_advance beta1 beta2 eps lr target sq b1t b2t s a)) /\
      (a_x (adq_advance beta1 beta2 eps lr target sq b1t b2t s a) == a_x s <->
       a_m (adq_advance beta1 beta2 eps lr target sq b1t b2t s a) == 0) /\
      (a_x (adq_advance beta1 beta2 eps lr target sq b1t b2t s a) < a_x s <->
       a_m (adq_advance beta1 beta2 eps lr target sq b1t b2t s a) < 0).
Proof. exact adam_direction. Qed.
Print Assumptions C07_adam_direction.

Theorem C07_adam_smoothed_acceptance :
  forall (beta1 beta2 eps lr target : Q) (sq : Q -> Q) (b1t b2t : nat -> Q) (l : list Q) (s : adq),
    a_m s == 0 ->
    a_m (adq_run beta1 beta2 eps lr target sq b1t b2t s l) == (1 - beta1) * adam_wsum beta1 target l.
Proof. exact adam_m_closed_form. Qed.
Print Assumptions C07_adam_smoothed_acceptance.

(* the initial doubling / halving search brackets the target and evaluates at most 101 steps *)
Theorem C07_search_evaluations :
  forall (acc : Q -> option Q) (initial target : Q), (search_evals acc initial target <= 101)%nat.
Proof. exact search_evals_le_101. Qed.
Print Assumptions C07_search_evaluations.

Theorem C07_search_brackets_forward :
  forall (acc : Q -> option Q) (initial target : Q), Proper (Qeq ==> eq) acc ->
  forall (a0 s : Q) (k : nat),
    acc initial = Some a0 -> target < a0 -> initial <= hi_limit ->
    search acc initial target = SFound s k ->
    (1 <= k < 100)%nat /\ s == initial * qpow 2 k /\
    (exists a, acc s = Some a /\ (a <= target \/ hi_limit < s)) /\
    (exists a', acc (s / 2) = Some a' /\ target < a' /\ s / 2 <= hi_limit).
Proof. exact search_brackets_forward_half. Qed.
Print Assumptions C07_search_brackets_forward.

Theorem C07_search_brackets_backward :
  forall (acc : Q -> option Q) (initial target : Q), Proper (Qeq ==> eq) acc ->
  forall (a0 s : Q) (k : nat),
    acc initial = Some a0 -> a0 <= target -> (1 <= k)%nat ->
    search acc initial target = SFound s k ->
    (k < 100)%nat /\ s == initial / qpow 2 k /\
    (exists a, acc s = Some a /\ (target <= a \/ s < lo_limit)) /\
    (exists a', acc (2 * s) = Some a' /\ a' < target /\ lo_limit <= 2 * s).
Proof. exact search_brackets_backward_double. Qed.
Print Assumptions C07_search_brackets_backward.

(* the same search with the first (always forward) trial given separately and ARBITRARY (search2):
   when the search goes down the loop re-evaluates `initial` with the backward acceptance, so the
   found step may be `initial` itself (k = 0) *)
Theorem C07_search2_brackets_forward :
  forall (acc : Q -> option Q) (initial target : Q), Proper (Qeq ==> eq) acc ->
  forall (a0 s : Q) (k : nat),
    target < a0 -> initial <= hi_limit ->
    search2 acc initial target (Some a0) = SFound s k ->
    s == initial * qpow 2 k /\ (k < 100)%nat /\
    (exists a, acc s = Some a /\ (a <= target \/ hi_limit < s)) /\
    ((1 <= k)%nat -> exists a', acc (s / 2) = Some a' /\ target < a' /\ s / 2 <= hi_limit).
Proof. exact search2_brackets_forward. Qed.
Print Assumptions C07_search2_brackets_forward.

Theorem C07_search2_brackets_backward :
  forall (acc : Q -> option Q) (initial target : Q), Proper (Qeq ==> eq) acc ->
  forall (a0 s : Q) (k : nat),
    a0 <= target ->
    search2 acc initial target (Some a0) = SFound s k ->
    s == initial / qpow 2 k /\ (k < 100)%nat /\
    (exists a, acc s = Some a /\ (target <= a \/ s < lo_limit)) /\
    ((1 <= k)%nat -> exists a', acc (2 * s) = Some a' /\ a' < target /\ lo_limit <= 2 * s).
Proof. exact search2_brackets_backward. Qed.
Print Assumptions C07_search2_brackets_backward.

(* the initial step is kept exactly when the first trial diverged, or a trial of the ladder
   initial * 2^(+-j) diverged before any trial stopped the search, or 100 trials did not stop it *)
Theorem C07_search2_keeps_initial_iff_diverged_or_exhausted :
  forall (acc : Q -> option Q) (initial target : Q), Proper (Qeq ==> eq) acc ->
  forall a_first : option Q,
    search2 acc initial target a_first = SKeepInitial <->
    a_first = None \/
    exists a0, a_first = Some a0 /\
      ((target < a0 /\
        ((exists j, (j < 100)%nat /\ acc (initial * qpow 2 j) = None /\
                    forall i, (i < j)%nat -> exists a, acc (initial * qpow 2 i) = Some a /\
                                                     target < a /\ initial * qpow 2 i <= hi_limit)
         \/ (forall i, (i < 100)%nat -> exists a, acc (initial * qpow 2 i) = Some a /\
                                                target < a /\ initial * qpow 2 i <= hi_limit)))
       \/
       (a0 <= target /\
        ((exists j, (j < 100)%nat /\ acc (initial / qpow 2 j) = None /\
                    forall i, (i < j)%nat -> exists a, acc (initial / qpow 2 i) = Some a /\
                                                     a < target /\ lo_limit <= initial / qpow 2 i)
         \/ (forall i, (i < 100)%nat -> exists a, acc (initial / qpow 2 i) = Some a /\
                                                a < target /\ lo_limit <= initial / qpow 2 i)))).
Proof. exact search2_keeps_initial_iff_diverged_or_exhausted. Qed.
Print Assumptions C07_search2_keeps_initial_iff_diverged_or_exhausted.

(* at most 101 acceptance evaluations (the first trial + at most 100 trials of the loop); a found
   step took k + 2 of them, with k < 100 *)
Theorem C07_search2_evaluations :
  forall (acc : Q -> option Q) (initial target : Q) (a_first : option Q),
    (search2_evals acc initial target a_first <= 101)%nat.
Proof. exact search2_evals_le_101. Qed.
Print Assumptions C07_search2_evaluations.

Theorem C07_search2_found_evaluations :
  forall (acc : Q -> option Q) (initial target : Q) (a_first : option Q) (s : Q) (k : nat),
    search2 acc initial target a_first = SFound s k ->
    (k < 100)%nat /\ search2_evals acc initial target a_first = (k + 2)%nat.
Proof. exact search2_found_iters_evals. Qed.
Print Assumptions C07_search2_found_evaluations.

(* both per-leapfrog acceptance statistics lie in [0,1] *)
Theorem C07_accept_stat_range :
  (forall e : Q, 0 < e -> e <= 1 -> 0 <= acc_stat e /\ acc_stat e <= 1) /\
  (forall e f : Q, 0 < e -> e <= 1 -> e <= f -> 0 < acc_stat_sym e f /\ acc_stat_sym e f <= 1).
Proof. split; [exact accept_stat_range | exact accept_stat_sym_range]. Qed.
Print Assumptions C07_accept_stat_range.

Example C07_nonvacuous :
  let w := fun n => 1 # Pos.of_nat (n + 10) in
  let c := fun n => inject_Z (Z.of_nat n) in
  let m := fun n => 1 # Pos.of_nat n in
  Qred (q_x (daq_run w c m 0 (3 # 1) (4 # 5) {| q_x := 0; q_xbar := 0; q_h := 0; q_n := 1 |} [1; 0])) = (-1 # 10).
Proof. vm_compute. reflexivity. Qed.
Print Assumptions C07_nonvacuous.

(* a DOWN search (forward first trial 1/2 <= target 4/5): the backward acceptance at `initial` = 1
   already reaches the target, so the loop stops at once with k = 0; and one that halves once *)
Example C07_search2_nonvacuous :
  eval_search [(1, Some 1)] 1 (4 # 5) (Some (1 # 2)) = [1; 1; 1; 0]%Z /\
  eval_search [(1, Some (1 # 2)); (1 # 2, Some 1)] 1 (4 # 5) (Some (1 # 2)) = [1; 1; 2; 1]%Z /\
  eval_search [(1, Some 1)] 1 (4 # 5) None = [0]%Z.
Proof. vm_compute. repeat split. Qed.
Print Assumptions C07_search2_nonvacuous.
