(* C07 - placeholder; theorems are added as proofs land *)
From Coq Require Import ZArith List.
From NutsV Require Import lib.Fp model.DualAvg model.StepSize.
Import ListNotations.
Example C07_model_runs : length (run_da 0 0 0 0 0 0 0 []) = 1%nat.
Proof. vm_compute. reflexivity. Qed.
Print Assumptions C07_model_runs.
