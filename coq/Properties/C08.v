(* C08 - Mass-matrix adaptation whitens Gaussians exactly and never degenerates.
   Exact-arithmetic statements about the estimator the code implements (model/Estimator.v; note
   that its variance accumulator is  var += diff*diff  with diff = x - mean_before, which is NOT
   the textbook sum of squared deviations: what makes the diagonal update exact on Gaussians is
   that the same accumulator is applied to draws and gradients and only their ratio is used), and
   binary64 statements about the scale-update kernels for every bit pattern of their inputs. *)
From Coq Require Import QArith List ZArith Bool.
From NutsV Require Import lib.Fp model.Estimator proofs.Estimator_facts.
Import ListNotations.

Theorem C08_running_mean_exact :
  forall xs : list Q, xs <> [] ->
    rv_mean (rvq_run xs) == qsum xs / Qn (length xs) /\ rv_count (rvq_run xs) = length xs.
Proof. exact running_mean_exact. Qed.
Print Assumptions C08_running_mean_exact.

(* the accumulator is a quadratic form: affine maps of the samples scale it by a^2 *)
Theorem C08_accumulator_scaling :
  forall (a b : Q) (xs : list Q), xs <> [] ->
    let ys := map (fun x => a * x + b) xs in
    rv_var (rvq_run ys) == a * a * rv_var (rvq_run xs) /\
    rv_mean (rvq_run ys) == a * rv_mean (rvq_run xs) + b.
Proof. exact var_scaling. Qed.
Print Assumptions C08_accumulator_scaling.

Theorem C08_accumulator_zero_iff_constant :
  forall (x0 : Q) (xs : list Q),
    rv_var (rvq_run (x0 :: xs)) == 0 <-> Forall (fun x => x == x0) xs.
Proof. exact var_zero_iff. Qed.
Print Assumptions C08_accumulator_zero_iff_constant.

(* Gaussian coordinate with mean mm and variance s2: from ANY set of draws that are not all equal
   the diagonal update recovers sigma^2 = s2 and mu = mm exactly *)
Theorem C08_diag_gaussian_exact :
  forall mm s2 : Q, 0 < s2 ->
  forall sq : Q -> Q,
    (forall z, 0 <= z -> 0 <= sq z) ->
    (forall z y, 0 <= y -> z == y * y -> sq z * sq z == z) ->
  forall (x0 : Q) (xs : list Q), ~ Forall (fun x => x == x0) xs ->
    let draws := x0 :: xs in
    let gs := map (score mm s2) draws in
    diag_sigma2 sq (rv_var (rvq_run draws)) (rv_var (rvq_run gs)) == s2 /\
    diag_mu (rv_mean (rvq_run draws)) (rv_mean (rvq_run gs)) s2 == mm /\
    diag_mu (rv_mean (rvq_run draws)) (rv_mean (rvq_run gs))
            (diag_sigma2 sq (rv_var (rvq_run draws)) (rv_var (rvq_run gs))) == mm.
Proof. exact diag_gaussian_exact. Qed.
Print Assumptions C08_diag_gaussian_exact.

(* hence in the whitened space gradient = -position *)
Theorem C08_whitened_gradient_is_minus_position :
  forall mm s2 sd x : Q, 0 < sd -> sd * sd == s2 -> sd * score mm s2 x == - ((x - mm) / sd).
Proof. exact whitening. Qed.
Print Assumptions C08_whitened_gradient_is_minus_position.

(* invalid estimates (non-finite or zero) leave the previous value in place *)
Theorem C08_invalid_estimate_keeps_previous :
  (forall std inv dv scale lo hi : f64,
     f_invalid (fmul dv scale) = true -> f_var_inv_std_draw std inv dv scale None lo hi = (std, inv)) /\
  (forall std inv dv gv lo hi : f64,
     f_invalid (fsqrt (fdiv dv gv)) = true -> f_var_inv_std_draw_grad std inv dv gv None lo hi = (std, inv)).
Proof. split; [exact keep_when_invalid_draw | exact keep_when_invalid_draw_grad]. Qed.
Print Assumptions C08_invalid_estimate_keeps_previous.

(* for EVERY binary64 input (finite, zero, subnormal, huge, NaN, infinite) the scales of the
   transformation stay finite and strictly positive, with the clamp limits 1e-20 / 1e20 of the code *)
Theorem C08_scale_update_safe :
  forall v : f64, f_invalid v = false ->
    let r := f_set (fclamp v f_1em20 f_1e20) in
    (is_finite (fst r) = true /\ flt fzero (fst r) = true) /\
    is_finite (snd r) = true /\ flt fzero (snd r) = true.
Proof. exact scale_update_safe_1e20. Qed.
Print Assumptions C08_scale_update_safe.

Theorem C08_kernels_preserve_finite_positive_scales :
  (forall std inv dv scale : f64, finpos std -> finpos inv ->
     let r := f_var_inv_std_draw std inv dv scale None f_1em20 f_1e20 in finpos (fst r) /\ finpos (snd r)) /\
  (forall std inv dv gv : f64, finpos std -> finpos inv ->
     let r := f_var_inv_std_draw_grad std inv dv gv None f_1em20 f_1e20 in finpos (fst r) /\ finpos (snd r)) /\
  (forall g fill : f64, good fill ->
     let r := f_var_inv_std_grad g fill f_1em20 f_1e20 in finpos (fst r) /\ finpos (snd r)).
Proof.
  split; [exact draw_preserves_finpos_1e20 | split; [exact draw_grad_preserves_finpos_1e20 | exact grad_finpos_1e20]].
Qed.
Print Assumptions C08_kernels_preserve_finite_positive_scales.

(* the magnitude condition on the clamp limits is necessary: with a subnormal limit 1/lo overflows *)
Theorem C08_subnormal_limit_refuted :
  let d := of_bits 1 in
  is_finite d = true /\ flt fzero d = true /\ f_invalid d = false /\
  is_finite (snd (f_set (fclamp d d d))) = false.
Proof. exact scale_update_unsafe_for_subnormal_lo. Qed.
Print Assumptions C08_subnormal_limit_refuted.

Example C08_nonvacuous :
  run_estimator 4 [4607182418800017408; 4607182418800017408; 4307583784117748259; 4906019910204099648]%Z
  = [4607182418800017408; 4607182418800017408]%Z.
Proof. vm_compute. reflexivity. Qed.
Print Assumptions C08_nonvacuous.
