(* C08 - placeholder; theorems are added as proofs land *)
From Coq Require Import ZArith List.
From NutsV Require Import lib.Fp model.Estimator.
Import ListNotations.
Example C08_model_runs : run_estimator 4 [4607182418800017408; 4607182418800017408; 4307583784117748259; 4906019910204099648]%Z = [4607182418800017408; 4607182418800017408]%Z.
Proof. vm_compute. reflexivity. Qed.
Print Assumptions C08_model_runs.
