(* C08 - Mass-matrix adaptation whitens Gaussians exactly and never degenerates.
   Exact-arithmetic statements about the estimator the code implements (model/Estimator.v; note
   that its variance accumulator is  var += diff*diff  with diff = x - mean_before, which is NOT
   the textbook sum of squared deviations: what makes the diagonal update exact on Gaussians is
   that the same accumulator is applied to draws and gradients and only their ratio is used), and
   binary64 statements about the scale-update kernels for every bit pattern of their inputs. *)
From Coq Require Import QArith List ZArith Bool.
From NutsV Require Import lib.Fp model.Estimator proofs.Estimator_facts model.LowRank proofs.LowRank_facts.
Import ListNotations.

Theorem C08_running_mean_exact :
  forall xs : list Q, xs <> [] ->
    rv_mean (rvq_run xs) == qsum xs / Qn (length xs) /\ rv_count (rvq_run xs) = length xs.
Proof. exact running_mean_exact. Qed.
Print Assumptions C08_running_mean_exact.

(* the accumulator is a quadratic form: affine maps of the samples scale it by a^2 *)
Theorem C08_accumulator_scaling :
  forall (a b : Q) (xs : list Q), xs <> [] ->
    let ys := map (fun x => a * x + b) xs in
    rv_var (rvq_run ys) == a * a * rv_var (rvq_run xs) /\
    rv_mean (rvq_run ys) == a * rv_mean (rvq_run xs) + b.
Proof. exact var_scaling. Qed.
Print Assumptions C08_accumulator_scaling.

Theorem C08_accumulator_zero_iff_constant :
  forall (x0 : Q) (xs : list Q),
    rv_var (rvq_run (x0 :: xs)) == 0 <-> Forall (fun x => x == x0) xs.
Proof. exact var_zero_iff. Qed.
Print Assumptions C08_accumulator_zero_iff_constant.

(* Gaussian coordinate with mean mm and variance s2: from ANY set of draws that are not all equal
   the diagonal update recovers sigma^2 = s2 and mu = mm exactly *)
Theorem C08_diag_gaussian_exact :
  forall mm s2 : Q, 0 < s2 ->
  forall sq : Q -> Q,
    (forall z, 0 <= z -> 0 <= sq z) ->
    (forall z y, 0 <= y -> z == y * y -> sq z * sq z == z) ->
  forall (x0 : Q) (xs : list Q), ~ Forall (fun x => x == x0) xs ->
    let draws := x0 :: xs in
    let gs := map (score mm s2) draws in
    diag_sigma2 sq (rv_var (rvq_run draws)) (rv_var (rvq_run gs)) == s2 /\
    diag_mu (rv_mean (rvq_run draws)) (rv_mean (rvq_run gs)) s2 == mm /\
    diag_mu (rv_mean (rvq_run draws)) (rv_mean (rvq_run gs))
            (diag_sigma2 sq (rv_var (rvq_run draws)) (rv_var (rvq_run gs))) == mm.
Proof. exact diag_gaussian_exact. Qed.
Print Assumptions C08_diag_gaussian_exact.

(* hence in the whitened space gradient = -position *)
Theorem C08_whitened_gradient_is_minus_position :
  forall mm s2 sd x : Q, 0 < sd -> sd * sd == s2 -> sd * score mm s2 x == - ((x - mm) / sd).
Proof. exact whitening. Qed.
Print Assumptions C08_whitened_gradient_is_minus_position.

(* invalid estimates (non-finite or zero) leave the previous value in place *)
Theorem C08_invalid_estimate_keeps_previous :
  (forall std inv dv scale lo hi : f64,
     f_invalid (fmul dv scale) = true -> f_var_inv_std_draw std inv dv scale None lo hi = (std, inv)) /\
  (forall std inv dv gv lo hi : f64,
     f_invalid (fsqrt (fdiv dv gv)) = true -> f_var_inv_std_draw_grad std inv dv gv None lo hi = (std, inv)).
Proof. split; [exact keep_when_invalid_draw | exact keep_when_invalid_draw_grad]. Qed.
Print Assumptions C08_invalid_estimate_keeps_previous.

(* for EVERY binary64 input (finite, zero, subnormal, huge, NaN, infinite) the scales of the
   transformation stay finite and strictly positive, with the clamp limits 1e-20 / 1e20 of the code *)
Theorem C08_scale_update_safe :
  forall v : f64, f_invalid v = false ->
    let r := f_set (fclamp v f_1em20 f_1e20) in
    (is_finite (fst r) = true /\ flt fzero (fst r) = true) /\
    is_finite (snd r) = true /\ flt fzero (snd r) = true.
Proof. exact scale_update_safe_1e20. Qed.
Print Assumptions C08_scale_update_safe.

Theorem C08_kernels_preserve_finite_positive_scales :
  (forall std inv dv scale : f64, finpos std -> finpos inv ->
     let r := f_var_inv_std_draw std inv dv scale None f_1em20 f_1e20 in finpos (fst r) /\ finpos (snd r)) /\
  (forall std inv dv gv : f64, finpos std -> finpos inv ->
     let r := f_var_inv_std_draw_grad std inv dv gv None f_1em20 f_1e20 in finpos (fst r) /\ finpos (snd r)) /\
  (forall g fill : f64, good fill ->
     let r := f_var_inv_std_grad g fill f_1em20 f_1e20 in finpos (fst r) /\ finpos (snd r)).
Proof.
  split; [exact draw_preserves_finpos_1e20 | split; [exact draw_grad_preserves_finpos_1e20 | exact grad_finpos_1e20]].
Qed.
Print Assumptions C08_kernels_preserve_finite_positive_scales.

(* the magnitude condition on the clamp limits is necessary: with a subnormal limit 1/lo overflows *)
Theorem C08_subnormal_limit_refuted :
  let d := of_bits 1 in
  is_finite d = true /\ flt fzero d = true /\ f_invalid d = false /\
  is_finite (snd (f_set (fclamp d d d))) = false.
Proof. exact scale_update_unsafe_for_subnormal_lo. Qed.
Print Assumptions C08_subnormal_limit_refuted.

(* ------------------------------------------------------------------------------------------ *)
(* low-rank estimator: everything around the faer decompositions (model/LowRank.v)             *)
(* ------------------------------------------------------------------------------------------ *)
(* one non-finite entry anywhere in what compute_update hands over - scales, translation,
   eigenvalues, eigenvectors - and the transformation (and its id) stays exactly what it was *)
Theorem C08_lowrank_invalid_estimate_keeps_previous :
  forall (st : lrm) (stds mean vals : list f64) (vecs : list (list f64)) (mu : list f64) (x : f64),
    is_finite x = false ->
    (In x stds \/ In x mean \/ In x vals \/ exists col, In col vecs /\ In x col) ->
    lr_update st stds mean vals vecs mu = st.
Proof. exact lr_nonfinite_entry_keeps_previous. Qed.
Print Assumptions C08_lowrank_invalid_estimate_keeps_previous.

(* fewer than three draws, or a pipeline that gave up: nothing changes *)
Theorem C08_lowrank_adapt_guards :
  (forall st count upd, (count < 3)%N -> lr_adapt st count upd = st) /\
  (forall st count, lr_adapt st count None = st).
Proof. split; [exact lr_adapt_needs_three | exact lr_adapt_none]. Qed.
Print Assumptions C08_lowrank_adapt_guards.

(* an accepted update installs exactly the estimate and bumps the id; the id moves iff anything moves *)
Theorem C08_lowrank_update_installs :
  forall st stds mean vals vecs mu, lr_gate stds mean vals vecs = true ->
    let st' := lr_update st stds mean vals vecs mu in
    lr_stds st' = stds /\ lr_inv st' = map frecip stds /\ lr_mean st' = mean /\
    lr_inner st' = Some (map fsqrt vals, map (fun v => frecip (fsqrt v)) vals, mu) /\
    lr_id st' = (lr_id st + 1)%Z.
Proof. exact lr_update_installs. Qed.
Print Assumptions C08_lowrank_update_installs.

Theorem C08_lowrank_id_moves_iff_changed :
  forall st stds mean vals vecs mu,
    lr_id (lr_update st stds mean vals vecs mu) = lr_id st <-> lr_update st stds mean vals vecs mu = st.
Proof. exact lr_update_id_iff. Qed.
Print Assumptions C08_lowrank_id_moves_iff_changed.

(* a scale that is not strictly positive or whose reciprocal overflows, or an eigenvalue that is
   not strictly positive, is an invalid estimate too (repair c9d2473) *)
Theorem C08_lowrank_nonpositive_keeps_previous :
  forall (st : lrm) (stds mean vals : list f64) (vecs : list (list f64)) (mu : list f64) (x : f64),
    (In x stds /\ lr_scale_ok x = false) \/ (In x vals /\ lr_val_ok x = false) ->
    lr_update st stds mean vals vecs mu = st.
Proof. exact lr_nonpositive_keeps_previous. Qed.
Print Assumptions C08_lowrank_nonpositive_keeps_previous.

(* for EVERY input that update accepts - no range hypothesis - every scale in use afterwards
   (sigma, 1/sigma, lambda^(1/2), lambda^(-1/2)) is finite and strictly positive *)
Theorem C08_lowrank_scales_finite_positive :
  forall st stds mean vals vecs mu,
    lr_gate stds mean vals vecs = true ->
    let st' := lr_update st stds mean vals vecs mu in
    Forall finpos (lr_stds st') /\ Forall finpos (lr_inv st') /\
    match lr_inner st' with
    | Some (vs, vsi, _) => Forall finpos vs /\ Forall finpos vsi
    | None => False
    end.
Proof. exact lr_update_scales_ok. Qed.
Print Assumptions C08_lowrank_scales_finite_positive.

(* hence for every history of windows and pipeline results, of any length, fed to adapt: a
   transformation whose scales are finite and positive stays so *)
Theorem C08_lowrank_never_degenerates :
  forall (st : lrm) (h : list (N * option (list f64 * list f64 * list f64 * list (list f64) * list f64))),
    lrm_ok st -> lrm_ok (fold_left (fun s cu => lr_adapt s (fst cu) (snd cu)) h st).
Proof. exact lr_history_ok. Qed.
Print Assumptions C08_lowrank_never_degenerates.

(* the whole life of a low-rank transformation: from its first initialisation (update_from_grad at
   the first point; again after every set_position) on, for ANY sequence of re-initialisations and
   adaptation calls with any gradients, windows and pipeline results, the scales in use are finite
   and strictly positive *)
Theorem C08_lowrank_lifetime_never_degenerates :
  forall (st0 : lrm) (pos grad : list f64) (evs : list lr_event),
    lrm_ok (fold_left lr_step evs (lr_update_from_grad st0 pos grad)).
Proof. exact lr_lifetime_ok. Qed.
Print Assumptions C08_lowrank_lifetime_never_degenerates.

(* the finite gate as it was before the repair is refuted: a zero eigenvalue (returned by the
   SPD-mean pipeline for singular windows with gamma = 1e-10, witness in KNOWN_FINDINGS.json)
   or a zero scale passed it and left an infinite inverse scale in use; the repaired gate
   rejects both *)
Theorem C08_lowrank_prefix_gate_refuted :
  let st := {| lr_stds := [fone]; lr_inv := [fone]; lr_mean := [fzero]; lr_inner := None; lr_id := 0 |} in
  let a := lr_update_prefix st [fone] [fzero] [fzero] [[fone]] [fzero] in
  let b := lr_update_prefix st [fzero] [fzero] [] [] [fzero] in
  (lr_id a = 1%Z /\ match lr_inner a with Some (_, vsi, _) => map is_finite vsi = [false] | None => False end) /\
  (lr_id b = 1%Z /\ map is_finite (lr_inv b) = [false]) /\
  lr_update st [fone] [fzero] [fzero] [[fone]] [fzero] = st /\
  lr_update st [fzero] [fzero] [] [] [fzero] = st.
Proof. exact lr_prefix_gate_admits_zero. Qed.
Print Assumptions C08_lowrank_prefix_gate_refuted.

(* a second line of defence in front of `update`: rescale_points multiplies the whole
   row by 1/sigma (draws) and sigma (gradients), and for EVERY entry value one of the two rows
   becomes non-finite, so the decompositions see a non-finite matrix (they fail or return
   non-finite factors - checked on the implementation - and the gate above rejects) *)
Theorem C08_lowrank_bad_sigma_poisons_window :
  forall sigma : f64, (is_finite sigma = false \/ feq sigma fzero = true) ->
    (forall v mu, is_finite (lr_draw_scaled v mu sigma) = false) \/
    (forall g, is_finite (lr_grad_scaled g sigma) = false).
Proof. exact lr_bad_sigma_poisons_row. Qed.
Print Assumptions C08_lowrank_bad_sigma_poisons_window.

(* ... and nothing else can come out of sigma = sqrt(sqrt(var(x)/var(g))): for EVERY pair of
   binary64 variances the scale is either in [2^-1022, 2^1022] (the hypothesis of
   C08_lowrank_scales_finite_positive) or it poisons its row *)
Theorem C08_lowrank_sigma_in_range_or_poison :
  forall dv gv : f64,
    let s := lr_sigma dv gv in
    good s \/
    (forall v mu, is_finite (lr_draw_scaled v mu s) = false) \/
    (forall g, is_finite (lr_grad_scaled g s) = false).
Proof. exact lr_sigma_good_or_poison. Qed.
Print Assumptions C08_lowrank_sigma_in_range_or_poison.

(* the eigenvalue filter keeps exactly the eigenvalues outside [1/cutoff, cutoff]; NaN is dropped,
   +inf is kept (and then rejected by the gate) *)
Theorem C08_lowrank_filter :
  (forall cutoff vals v, In v (lr_filter cutoff vals) <-> In v vals /\ lr_keep cutoff v = true) /\
  (forall cutoff v, is_nan v = true -> lr_keep cutoff v = false) /\
  (forall cutoff, is_finite cutoff = true -> lr_keep cutoff finf = true) /\
  to_bits (frecip f_two) = 4602678819172646912%Z.
Proof.
  split; [exact lr_filter_spec | split; [exact lr_keep_nan | split; [exact lr_keep_inf | exact lr_default_cutoff_recip]]].
Qed.
Print Assumptions C08_lowrank_filter.

Local Open Scope Z_scope.
Example C08_lowrank_nonvacuous :
  run_lr_update 0 3%N true [4607182418800017408; 4611686018427387904] [0; 0] [4616189618054758400]
                [[4607182418800017408; 0]] [0; 0] [4607182418800017408; 4607182418800017408]
                [4607182418800017408; 4607182418800017408] [0; 0]
  = [[1; 1]; [4607182418800017408; 4611686018427387904]; [4607182418800017408; 4602678819172646912];
     [0; 0]; [4611686018427387904]; [4602678819172646912]; [0; 0]].
Proof. vm_compute. reflexivity. Qed.
Print Assumptions C08_lowrank_nonvacuous.
Local Close Scope Z_scope.

Example C08_nonvacuous :
  run_estimator 4 [4607182418800017408; 4607182418800017408; 4307583784117748259; 4906019910204099648]%Z
  = [4607182418800017408; 4607182418800017408]%Z.
Proof. vm_compute. reflexivity. Qed.
Print Assumptions C08_nonvacuous.
