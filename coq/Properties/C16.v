(* C16 - Statistics schema and per-draw values are mutually consistent.
   Statements only; proofs live in proofs/Derive_facts.v and proofs/Stats_facts.v.
   gen/StorableDecls.v is regenerated from the Rust sources on every run of ./check C16. *)
From Coq Require Import String List Bool ZArith.
From NutsV Require Import model.Derive model.Stats gen.StorableDecls proofs.Derive_facts proofs.Stats_facts.
Import ListNotations.
Local Open Scope string_scope.
Local Open Scope list_scope.

(* ---- the derive macro, for ALL declarations ------------------------------------------------ *)

(* FIRST MATCHING ARM: for every declaration and every name, the generated `match` of item_type /
   dims / event_dim selects the first field (in names() order) that carries this name; the
   panic arm is reached exactly for names that names() does not list. *)
Theorem C16_first_matching_arm :
  forall (d : decl) (name : string),
    lookup_src d name = assoc name (decls_of d) /\
    names d = map fst (decls_of d) /\
    (event_dim d name <> None <-> In name (names d)).
Proof.
  intros. split; [apply lookup_src_first_match | split; [apply names_decls | apply lookup_known_name]].
Qed.
Print Assumptions C16_first_matching_arm.

(* If a declaration has no duplicate names and flattens no Option<Inner>, then for every value
   of it: the row lists exactly the declared names in the declared order, and for every entry
   the schema functions return what is written on the field that produced the entry; a present
   value has the item type the schema declares for its name. *)
Theorem C16_derive_aligned :
  forall (d : decl) (v : dval),
    NoDup (names d) -> no_option_flatten d = true -> shaped d v ->
    map fst (get_all d v) = names d /\
    Forall (fun e : string * src_info * option value_tag =>
              let '(n, (ty, dm, ev, o), x) := e in
              item_type d n = macro_item_type ty /\
              dims d n = Some dm /\
              event_dim d n = Some ev /\
              (forall t len, x = Some (t, len) -> macro_item_type ty <> None -> item_type d n = Some t))
           (get_all_src d v) /\
    get_all d v = map (fun e => (fst (fst e), snd e)) (get_all_src d v).
Proof.
  intros d v H1 H2 H3. destruct (derive_aligned_lemma d v H1 H2 H3) as [Ha Hb].
  split; [exact Ha | split; [exact Hb | reflexivity]].
Qed.
Print Assumptions C16_derive_aligned.

(* the same with duplicates that repeat an identical declaration (decidable side condition) *)
Theorem C16_derive_aligned_consistent_duplicates :
  forall (d : decl) (v : dval),
    dup_consistentb d = true -> no_option_flatten d = true -> shaped d v ->
    map fst (get_all d v) = names d /\ Forall (entry_aligned d) (get_all_src d v).
Proof. intros d v H. apply aligned_core. apply dup_consistentb_sound. exact H. Qed.
Print Assumptions C16_derive_aligned_consistent_duplicates.

(* The excluded case really breaks alignment: a flattened Option<Inner> that is None pushes
   nothing although names() lists the inner names. *)
Theorem C16_derive_option_flatten_misaligned :
  NoDup (names w_optflat) /\ shaped w_optflat w_optflat_val /\
  names w_optflat = ["a"; "b"] /\ map fst (get_all w_optflat w_optflat_val) = ["b"].
Proof. exact option_flatten_misaligned. Qed.
Print Assumptions C16_derive_option_flatten_misaligned.

(* ... and so does a duplicated name with a different declaration: the second arm is shadowed,
   the row carries a Vec<u64> under a name declared as scalar f64 without event dimension. *)
Theorem C16_duplicate_shadowed :
  no_option_flatten w_dup = true /\ shaped w_dup w_dup_val /\
  get_all w_dup w_dup_val = [("x", Some (TF64, None)); ("x", Some (TU64, Some 3))] /\
  item_type w_dup "x" = Some TF64 /\ dims w_dup "x" = Some [] /\ event_dim w_dup "x" = Some None.
Proof. exact duplicate_shadowed. Qed.
Print Assumptions C16_duplicate_shadowed.

(* The macro's type table: every row that can match declares the item type of the Value its
   value_expr really builds (From impls of nuts_storable::Value) ... *)
Theorem C16_macro_table_consistent :
  forall ty t, macro_item_type ty = Some t ->
    forall t' vec opt, rust_value ty = Some (t', vec, opt) -> t' = t.
Proof. exact table_consistent. Qed.
Print Assumptions C16_macro_table_consistent.

(* ... and the table of the model is the table in the CURRENT nuts-derive/src/lib.rs. *)
Theorem C16_macro_table_is_source : macro_table_src = macro_table.
Proof. vm_compute. reflexivity. Qed.
Print Assumptions C16_macro_table_is_source.

(* ---- the regenerated declarations ---------------------------------------------------------- *)

(* the generated Gallina declarations repeat the raw source embedding field by field *)
Theorem C16_decls_match_raw :
  forallb (fun p : raw_struct * decl => raw_matches (fst p) (snd p)) decls_with_raw = true /\
  map fst decls_with_raw = raw_structs.
Proof. split; vm_compute; reflexivity. Qed.
Print Assumptions C16_decls_match_raw.

(* the six presets satisfy the hypotheses of C16_derive_aligned *)
Theorem C16_presets_well_formed :
  map fst presets = ["diag_nuts"; "lowrank_nuts"; "flow_nuts"; "diag_mclmc"; "lowrank_mclmc"; "flow_mclmc"] /\
  forall pn d, In (pn, d) presets ->
    NoDup (names d) /\ no_option_flatten d = true /\ basics_known d = true.
Proof.
  split; [vm_compute; reflexivity|].
  assert (H : forallb (fun pd : string * decl => well_formed (snd pd)) presets = true)
    by (vm_compute; reflexivity).
  intros pn d Hin. rewrite forallb_forall in H. specialize (H (pn, d) Hin).
  unfold well_formed in H. simpl in H.
  apply andb_true_iff in H. destruct H as [H H3]. apply andb_true_iff in H. destruct H as [H1 H2].
  split; [apply nodupb_NoDup; exact H1 | split; assumption].
Qed.
Print Assumptions C16_presets_well_formed.

Corollary C16_presets_aligned :
  forall pn d v, In (pn, d) presets -> shaped d v ->
    map fst (get_all d v) = names d /\ Forall (entry_aligned d) (get_all_src d v).
Proof.
  intros pn d v Hin Hs. destruct C16_presets_well_formed as [_ H].
  destruct (H pn d Hin) as [H1 [H2 _]]. apply derive_aligned_lemma; assumption.
Qed.
Print Assumptions C16_presets_aligned.

(* The form used by the correspondence check: an observed row that `replay_row` rebuilds into a
   value passing the decidable shape check is covered by the alignment theorem. *)
Theorem C16_replayed_rows_aligned :
  forall pn d row v rest, In (pn, d) presets ->
    build_val d row = Some (v, rest) -> shapedb d v = true ->
    map fst (get_all d v) = names d /\ Forall (entry_aligned d) (get_all_src d v).
Proof.
  intros pn d row v rest Hin _ Hs. apply (C16_presets_aligned pn d v Hin). apply shapedb_sound. exact Hs.
Qed.
Print Assumptions C16_replayed_rows_aligned.

(* ---- presence ------------------------------------------------------------------------------ *)

(* every declared statistic of every preset is classified (always / option / event) and has a
   presence rule *)
Theorem C16_presets_classified :
  forall pn d, In (pn, d) presets -> all_classified d = true.
Proof.
  intros pn d Hin. pose proof presets_classified as H. rewrite forallb_forall in H. exact (H (pn, d) Hin).
Qed.
Print Assumptions C16_presets_classified.

(* A statistic with an event dimension is present only on draws where that event happened. *)
Theorem C16_event_only_on_event :
  forall pn d, In (pn, d) presets ->
  forall name ev o v,
    event_dim d name = Some (Some ev) -> present d o v name = Some true ->
    event_happened v ev = Some true.
Proof. exact event_only_on_event_lemma. Qed.
Print Assumptions C16_event_only_on_event.

(* The identifying statistics of an event are present on exactly the draws of that event, for
   every setting of the switches ... *)
Theorem C16_identifying_on_every_event :
  forall pn d, In (pn, d) presets ->
  forall name ev o v,
    event_dim d name = Some (Some ev) -> In name (identifying ev) ->
    exists h, event_happened v ev = Some h /\ present d o v name = Some h.
Proof. exact identifying_on_every_event_lemma. Qed.
Print Assumptions C16_identifying_on_every_event.

(* ... and a preset that declares any statistic of an event declares all its identifying ones
   (divergence_draw, divergence_message; transformation_update_id). *)
Theorem C16_identifying_declared :
  forall pn d, In (pn, d) presets ->
  forall name ev, event_dim d name = Some (Some ev) ->
    identifying ev <> [] /\ forall i, In i (identifying ev) -> event_dim d i = Some (Some ev).
Proof. exact identifying_declared_lemma. Qed.
Print Assumptions C16_identifying_declared.

(* A statistic without event dimension is present on every draw or on none: its presence is a
   function of the switches only. *)
Theorem C16_non_event_all_or_none :
  forall pn d, In (pn, d) presets ->
  forall name o, event_dim d name = Some None ->
    exists b, forall v, present d o v name = Some b.
Proof. exact non_event_all_or_none_lemma. Qed.
Print Assumptions C16_non_event_all_or_none.

(* An update is reported on draw k iff the transformation id at draw k differs from the id at
   draw k-1 (draw 0: from the initially stored id) ... *)
Theorem C16_update_report_spec :
  forall (ids : list Z) (last : Z) (k : nat),
    nth_error (reports last ids) k =
    option_map (fun cur => negb (Z.eqb cur (nth k (last :: ids) 0%Z))) (nth_error ids k).
Proof. exact reports_spec. Qed.
Print Assumptions C16_update_report_spec.

(* ... hence exactly once per change: while the id stays at x, only the first draw can report. *)
Theorem C16_update_reported_once :
  forall (pre : list Z) (x : Z) (n : nat) (last : Z),
    reports last (pre ++ repeat x (S n)) =
    reports last pre ++ negb (Z.eqb x (List.last pre last)) :: repeat false n.
Proof. exact update_reported_once_lemma. Qed.
Print Assumptions C16_update_reported_once.

(* ---- non-vacuity --------------------------------------------------------------------------- *)
Example C16_derive_aligned_nonvacuous :
  NoDup (names w_ok) /\ no_option_flatten w_ok = true /\ shaped w_ok w_ok_val /\
  get_all w_ok w_ok_val = [("k", Some (TU64, None)); ("v", Some (TF64, Some 4)); ("s", None)].
Proof. destruct w_ok_hyps as [H1 [H2 H3]]. split; [exact H1 | split; [exact H2 | split; [exact H3 | reflexivity]]]. Qed.
Print Assumptions C16_derive_aligned_nonvacuous.

(* events do happen in the model and the hypotheses of the presence theorems are satisfiable *)
Example C16_presence_nonvacuous :
  In ("diag_nuts", preset_diag_nuts) presets /\
  event_dim preset_diag_nuts "divergence_end" = Some (Some "divergence") /\
  present preset_diag_nuts
          {| store_gradient := false; store_unconstrained := false; store_transformed := false;
             store_divergences := true; store_mass_matrix := false |}
          {| v_div := Some CEnergy; v_upd := true; v_inner := false |} "divergence_end" = Some true /\
  event_dim preset_diag_nuts "logp" = Some None /\
  reports (-1) [0; 0; 1; 1; 1; 2]%Z = [true; false; true; false; false; true].
Proof. repeat split; vm_compute; auto. Qed.
Print Assumptions C16_presence_nonvacuous.
