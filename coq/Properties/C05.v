(* C05 - Density faults become divergences or errors, never panics or bad draws.
   Statements about the tree builder model (model/Tree.v: `bad i` = the evaluation reaching index i
   is a divergence, `fatal i` = it raises an unrecoverable error) and the binary64 divergence test. *)
From Coq Require Import ZArith QArith List Bool.
From NutsV Require Import lib.Fp model.Tree model.Faults proofs.Tree_facts proofs.Faults_facts.
Import ListNotations.
Local Open Scope Z_scope.

(* NaN, +-inf and any error above the limit select the divergence branch *)
Theorem C05_div_predicate_total :
  (forall micro e m, is_finite e = false -> div_pred micro e m = true) /\
  (forall e m, fgt e m = true -> div_pred false e m = true) /\
  (forall e m, fge (fabs e) m = true -> div_pred true e m = true) /\
  (forall e : f64, is_nan e = true -> is_finite e = false).
Proof.
  repeat split; [exact div_pred_nonfinite | exact div_pred_above | exact div_pred_abs_above
                | exact is_finite_nan_false].
Qed.
Print Assumptions C05_div_predicate_total.

(* the returned tree contains no diverged or failed state; the draw is one of them or the start *)
Theorem C05_draw_is_valid_state :
  forall (wt : Z -> Q) (turn : Z -> Z -> bool) (bad fatal : Z -> bool) (o : nopts) (a : Z)
         (ticks : list Z) (r : dres),
    outcome (pdraw wt turn bad fatal o a) ticks r -> d_err r = None ->
    (d_sel r = a \/ In (d_sel r) ticks) /\
    (forall i, d_lo r <= i <= d_hi r -> i <> a -> In i ticks /\ bad i = false /\ fatal i = false).
Proof. exact T5_visited. Qed.
Print Assumptions C05_draw_is_valid_state.

(* a reported divergence is a really diverged state outside the returned tree *)
Theorem C05_divergence_reported :
  forall (wt : Z -> Q) (turn : Z -> Z -> bool) (bad fatal : Z -> bool) (o : nopts) (a : Z)
         (ticks : list Z) (r : dres) (i : Z),
    outcome (pdraw wt turn bad fatal o a) ticks r -> d_err r = None -> d_div r = Some i ->
    bad i = true /\ fatal i = false /\ In i ticks /\ n_dim0 o = false /\
    (d_hi r < i <= d_hi r + 2 ^ Z.of_nat (d_depth r) \/
     d_lo r - 2 ^ Z.of_nat (d_depth r) <= i < d_lo r).
Proof. exact T6_divergence. Qed.
Print Assumptions C05_divergence_reported.

(* an unrecoverable error makes the call return Err *)
Theorem C05_unrecoverable_is_err :
  forall (wt : Z -> Q) (turn : Z -> Z -> bool) (bad fatal : Z -> bool) (o : nopts) (a : Z)
         (ticks : list Z) (r : dres) (i : Z),
    outcome (pdraw wt turn bad fatal o a) ticks r -> d_err r = Some i -> fatal i = true /\ In i ticks.
Proof. exact T6_error. Qed.
Print Assumptions C05_unrecoverable_is_err.

(* stepping on a divergent state ends the transition at once and is reported; at most one faulty
   evaluation is performed per transition and it is the last one *)
Theorem C05_bad_evaluation_diverges :
  forall (wt : Z -> Q) (turn : Z -> Z -> bool) (bad fatal : Z -> bool) (o : nopts) (a : Z)
         (ticks : list Z) (r : dres) (i : Z),
    outcome (pdraw wt turn bad fatal o a) ticks r -> d_err r = None ->
    In i ticks -> bad i = true -> fatal i = false ->
    d_div r = Some i /\ exists l, ticks = l ++ [i].
Proof. exact T9_bad_tick_diverges. Qed.
Print Assumptions C05_bad_evaluation_diverges.

Theorem C05_fatal_evaluation_errors :
  forall (wt : Z -> Q) (turn : Z -> Z -> bool) (bad fatal : Z -> bool) (o : nopts) (a : Z)
         (ticks : list Z) (r : dres) (i : Z),
    outcome (pdraw wt turn bad fatal o a) ticks r -> In i ticks -> fatal i = true ->
    d_err r = Some i /\ exists l, ticks = l ++ [i].
Proof. exact T10_fatal_tick_errors. Qed.
Print Assumptions C05_fatal_evaluation_errors.

Theorem C05_no_fault_no_flags :
  forall (wt : Z -> Q) (turn : Z -> Z -> bool) (bad fatal : Z -> bool) (o : nopts) (a : Z)
         (ticks : list Z) (r : dres),
    outcome (pdraw wt turn bad fatal o a) ticks r ->
    (forall i, In i ticks -> bad i = false /\ fatal i = false) ->
    d_div r = None /\ d_err r = None.
Proof. exact T11_no_fault_no_flags. Qed.
Print Assumptions C05_no_fault_no_flags.

Theorem C05_returned_draw_is_good :
  forall (wt : Z -> Q) (turn : Z -> Z -> bool) (bad fatal : Z -> bool) (o : nopts) (a : Z)
         (ticks : list Z) (r : dres),
    outcome (pdraw wt turn bad fatal o a) ticks r -> d_err r = None ->
    d_sel r = a \/ (bad (d_sel r) = false /\ fatal (d_sel r) = false /\ In (d_sel r) ticks).
Proof. exact T13_draw_is_good_state. Qed.
Print Assumptions C05_returned_draw_is_good.


(* the argument of every random_bool call is a probability: no panic from rand *)
Theorem C05_random_bool_argument_in_range :
  forall (wt : Z -> Q) (turn : Z -> Z -> bool) (bad fatal : Z -> bool) (o : nopts) (a : Z),
    (forall i, 0 < wt i)%Q -> wf_probs (pdraw wt turn bad fatal o a).
Proof. exact pdraw_wf. Qed.
Print Assumptions C05_random_bool_argument_in_range.

Example C05_nonvacuous :
  run_div false 9218868437227405312 4652007308841189376 = 1 /\   (* +inf vs 1000 *)
  run_div false 9221120237041090560 4652007308841189376 = 1 /\   (* NaN *)
  run_div false 4607182418800017408 4652007308841189376 = 0.     (* 1.0 *)
Proof. vm_compute. repeat split. Qed.
Print Assumptions C05_nonvacuous.
