(* C02 - placeholder; theorems are added as proofs land *)
From Coq Require Import ZArith QArith Qcanon List.
From NutsV Require Import model.Leapfrog model.LeapfrogQc.
Import ListNotations.
Example C02_model_runs :
  eval_maps (mk_lowrank [2#1] [1#1] [] [] [] [] false) [Q2Qc (3#1)] [Q2Qc (7#1)] [Q2Qc (5#1)]
  = [[[7; 1]]; [[3; 1]]; [[10; 1]]]%Z.
Proof. vm_compute. reflexivity. Qed.
Print Assumptions C02_model_runs.
