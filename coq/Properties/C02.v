(* C02 - Integrator is the textbook leapfrog for the implied mass matrix.
   Statements only (Qc = canonical rationals instance of model/Leapfrog.v, the instance that is
   evaluated against the real integrator); proofs in proofs/Leapfrog_facts.v, which also holds
   the same theorems over an arbitrary commutative ring. *)
From Coq Require Import ZArith QArith Qcanon List.
From NutsV Require Import model.Leapfrog model.LeapfrogQc proofs.Leapfrog_facts.
From NutsV Require model.Mclmc proofs.Mclmc_facts.
Import ListNotations.
Local Open Scope Qc_scope.

(* time reversibility: a forward step followed by a backward step returns the start exactly,
   for every (length-preserving) gradient function, step size of either sign, and state *)
Theorem C02_reversible_euclidean :
  forall (tg : cvec -> cvec) (eps half c s c' s' : Qc) (q v : list Qc),
    (forall x, length (tg x) = length x) -> length q = length v ->
    c_step tg Euclidean (- eps) (- half) c' s' (c_step tg Euclidean eps half c s (q, v)) = (q, v).
Proof. exact c_step_reversible_euclidean. Qed.
Print Assumptions C02_reversible_euclidean.

Theorem C02_reversible_exact_normal :
  forall (tg : cvec -> cvec) (eps half c s : Qc) (q v : list Qc),
    (forall x, length (tg x) = length x) -> c * c + s * s = Q2Qc 1 -> length q = length v ->
    c_step tg ExactNormal (- eps) (- half) c (- s) (c_step tg ExactNormal eps half c s (q, v)) = (q, v).
Proof. exact c_step_reversible_exact_normal. Qed.
Print Assumptions C02_reversible_exact_normal.

(* the whitened step IS the velocity-Verlet step of H(x,p) = -logp(x) + 1/2 p^T (F F^T) p, written
   in (x, u = F F^T p) coordinates, for the diagonal and the low-rank transformation
   x = F y + mu (F = lr_lin, F^T = lr_grad) and the model's polynomial densities *)
Theorem C02_leapfrog_textbook :
  forall (n : nat) (P : potential) (l : clowrank) (eps half c s : Qc) (q v : list Qc),
    c_lowrank_dims n l -> length (p_prec P) = n -> length (p_mean P) = n ->
    length q = n -> length v = n ->
    let g := pot_grad P in
    let Minv := fun w => c_lr_lin l (c_lr_grad l w) in
    let '(q1, v2) := c_step (tg_of P l) Euclidean eps half c s (q, v) in
    let x := c_lr_fwd l q in
    let u := c_lr_lin l v in
    let u1 := c_axpy half (Minv (g x)) u in
    let x1 := c_axpy eps u1 x in
    c_lr_fwd l q1 = x1 /\ c_lr_lin l v2 = c_axpy half (Minv (g x1)) u1.
Proof. exact c_leapfrog_textbook_tg_of. Qed.
Print Assumptions C02_leapfrog_textbook.

(* the transformation is a bijection with the stored inverse (sigma_i * inv_sigma_i = 1,
   orthonormal columns, r_k * rinv_k = 1) *)
Theorem C02_diag_roundtrip :
  forall (n : nat) (d : cdiag), c_diag_ok n d ->
    (forall y, length y = n -> c_diag_inv d (c_diag_fwd d y) = y) /\
    (forall x, length x = n -> c_diag_fwd d (c_diag_inv d x) = x).
Proof. exact c_diag_roundtrip. Qed.
Print Assumptions C02_diag_roundtrip.

Theorem C02_lowrank_roundtrip :
  forall (n : nat) (l : clowrank), c_lowrank_ok n l ->
    (forall y, length y = n -> c_lr_inv l (c_lr_fwd l y) = y) /\
    (forall x, length x = n -> c_lr_fwd l (c_lr_inv l x) = x).
Proof. exact c_lr_roundtrip. Qed.
Print Assumptions C02_lowrank_roundtrip.

(* the position map is affine with Jacobian lr_lin, and the gradient map is its transpose *)
Theorem C02_position_map_affine :
  forall (n : nat) (l : clowrank) (y delta : cvec),
    c_all_len n (l_cols Qc l) -> length y = n -> length delta = n ->
    c_lr_fwd l (c_vadd y delta) = c_vadd (c_lr_fwd l y) (c_lr_lin l delta).
Proof. exact c_lr_fwd_affine. Qed.
Print Assumptions C02_position_map_affine.

Theorem C02_gradient_pullback :
  forall (n : nat) (l : clowrank) (g delta : cvec),
    c_all_len n (l_cols Qc l) -> length (d_sigma Qc (l_diag Qc l)) = n ->
    length g = n -> length delta = n ->
    c_dot (c_lr_grad l g) delta = c_dot g (c_lr_lin l delta).
Proof. exact c_grad_pullback. Qed.
Print Assumptions C02_gradient_pullback.

(* ExactNormal conserves the energy exactly on a standard-normal target, for every step size *)
Theorem C02_exact_normal_conserves :
  forall (tg : cvec -> cvec) (eps half c s : Qc) (q v : list Qc),
    (forall x, tg x = map Qcopp x) -> c * c + s * s = Q2Qc 1 -> length q = length v ->
    let '(q1, v2) := c_step tg ExactNormal eps half c s (q, v) in
    c_dot q1 q1 + c_dot v2 v2 = c_dot q q + c_dot v v.
Proof. exact c_exact_normal_conserves. Qed.
Print Assumptions C02_exact_normal_conserves.

(* volume preservation, structural form: the step is a composition of three shears, each with an
   explicit inverse; for an affine force in one dimension the Jacobian determinant is 1 *)
Theorem C02_three_shears :
  forall (tg : cvec -> cvec) (eps half c s : Qc) (qv : vec Qc * vec Qc),
    c_step tg Euclidean eps half c s qv = c_kick tg half (c_drift eps (c_kick tg half qv)).
Proof. exact c_step_is_three_shears. Qed.
Print Assumptions C02_three_shears.

Theorem C02_shears_invertible :
  (forall (tg : cvec -> cvec) (h : Qc) (q v : list Qc),
     (forall x, length (tg x) = length x) -> length q = length v ->
     c_kick tg (- h) (c_kick tg h (q, v)) = (q, v) /\ c_kick tg h (c_kick tg (- h) (q, v)) = (q, v)) /\
  (forall (e : Qc) (q v : cvec), length q = length v ->
     c_drift (- e) (c_drift e (q, v)) = (q, v) /\ c_drift e (c_drift (- e) (q, v)) = (q, v)).
Proof. split; [exact c_kick_inverse | exact c_drift_inverse]. Qed.
Print Assumptions C02_shears_invertible.

(* energy error is O(eps^2): for a Gaussian coordinate with precision w2 the modified energy
   v^2 + w2 q^2 (1 - eps^2 w2 / 4) is conserved exactly, so the true energy changes by
   eps^2/4 * w2^2 * (q1^2 - q^2) *)
Theorem C02_energy_error_quadratic :
  forall (tg : cvec -> cvec) (w2 eps c s q v : Qc),
    (forall q0, tg [q0] = [- (w2 * q0)]) ->
    let quarter := Q2Qc (1 # 4) in
    let Emod := fun q0 v0 => v0 * v0 + w2 * q0 * q0 * (Q2Qc 1 - eps * eps * w2 * quarter) in
    let E := fun q0 v0 => v0 * v0 + w2 * q0 * q0 in
    exists q1 v2,
      c_step tg Euclidean eps (eps * chalf) c s ([q], [v]) = ([q1], [v2]) /\
      Emod q1 v2 = Emod q v /\
      E q1 v2 - E q v = eps * eps * quarter * (w2 * w2) * (q1 * q1 - q * q).
Proof. exact c_energy_error_quadratic. Qed.
Print Assumptions C02_energy_error_quadratic.

(* the third kinetic-energy kind (microcanonical / ESH dynamics, model/Mclmc.v): a forward step
   followed by a backward step returns to the start, for every unit-gradient field and every
   non-zero z field that respect equality of positions (n = dimension) *)
Theorem C02_microcanonical_step_reversible :
  forall (ghat_of : list Q -> list Q) (z_of : list Q -> Q) (c : Q) (n : nat),
    (forall x, length x = n -> length (ghat_of x) = n) ->
    (forall x, length x = n -> (Mclmc.qdot (ghat_of x) (ghat_of x) == 1)%Q) ->
    (forall x, length x = n -> ~ (z_of x == 0)%Q) ->
    (forall x y, length x = n -> Forall2 Qeq x y ->
       Forall2 Qeq (ghat_of x) (ghat_of y) /\ (z_of x == z_of y)%Q) ->
    forall q p : list Q, length q = n -> length p = n -> (Mclmc.qdot p p == 1)%Q ->
    let (q1, p1) := Mclmc.micro_step ghat_of z_of c true q p in
    let (q2, p2) := Mclmc.micro_step ghat_of z_of c false q1 p1 in
    Forall2 Qeq q2 q /\ Forall2 Qeq p2 p.
Proof. exact Mclmc_facts.micro_step_reversible. Qed.
Print Assumptions C02_microcanonical_step_reversible.

(* non-vacuity: the model evaluates; a diagonal transformation of the kind the harness builds
   satisfies the round-trip hypotheses *)
Example C02_nonvacuous :
  eval_maps (mk_lowrank [2#1] [1#1] [] [] [] [] false) [Q2Qc (3#1)] [Q2Qc (7#1)] [Q2Qc (5#1)]
  = [[[7; 1]]; [[3; 1]]; [[10; 1]]]%Z.
Proof. vm_compute. reflexivity. Qed.
Print Assumptions C02_nonvacuous.
