(* C12 - placeholder; theorems are added as proofs land *)
From Coq Require Import ZArith List.
From NutsV Require Import model.Protocol.
Import ListNotations.
Example C12_model_runs :
  replay_log 1 1 [(2, 0, 0, 0); (2, 1, 0, 0); (2, 4, 0, 0); (2, 5, 0, 0); (2, 7, 0, 0); (2, 8, 0, 1)]%Z
  = [[1; 1; 8; 1]]%Z.
Proof. vm_compute. reflexivity. Qed.
Print Assumptions C12_model_runs.
