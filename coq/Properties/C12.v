(* C12 - Pause stops chains within a bounded number of draws; resume loses nothing. *)
From Coq Require Import ZArith List Bool Arith.
From NutsV Require Import model.Protocol proofs.Protocol_facts.
Import ListNotations.

(* from the moment pause() returns until the controller handles the next command, chain j records
   at most pot c0 <= (number of Resume messages still queued for it) + 1 further draws *)
Theorem C12_pause_bound :
  forall (n total : nat) (s s0 : st) (evs : list ev) (s' : st) (j : nat) (c0 c' : chain),
    reach n total s -> step s (EvUser (ERet KPause 1%Z)) = Some s0 ->
    run s0 evs = Some s' -> no_cmd evs ->
    nth_error (s_chains s0) j = Some c0 -> nth_error (s_chains s') j = Some c' ->
    c_since_pause c' <= pot c0 /\ length (c_rec c') <= length (c_rec c0) + pot c0 /\
    pot c0 <= nres (c_mail c0) + 1 /\ s_paused s' = true.
Proof. exact I6_pause_bound. Qed.
Print Assumptions C12_pause_bound.

(* with no other command outstanding (mailbox = [Pause]): at most one further draw *)
Theorem C12_pause_at_most_one_more_draw :
  forall (n total : nat) (s s0 : st) (evs : list ev) (s' : st) (j : nat) (c0 c' : chain),
    reach n total s -> step s (EvUser (ERet KPause 1%Z)) = Some s0 ->
    run s0 evs = Some s' -> no_cmd evs ->
    nth_error (s_chains s0) j = Some c0 -> nth_error (s_chains s') j = Some c' ->
    c_mail c0 = [MPause] -> c_since_pause c' <= 1.
Proof. exact I6_pause_mailbox_only_pause. Qed.
Print Assumptions C12_pause_at_most_one_more_draw.

(* a blocked chain records nothing until a Resume is sent to it, whatever else happens *)
Theorem C12_blocked_records_nothing :
  forall (s : st) (evs : list ev) (s' : st) (j : nat) (c : chain),
    nth_error (s_chains s) j = Some c -> c_pc c = PBlocked -> ~ In MResume (c_mail c) ->
    run s evs = Some s' -> ~ In (EvCtl (ESend MResume j true)) evs ->
    exists c', nth_error (s_chains s') j = Some c' /\ c_rec c' = c_rec c /\ c_draw c' = c_draw c.
Proof. exact I6_blocked_records_nothing. Qed.
Print Assumptions C12_blocked_records_nothing.

(* a chain that has not started drawing and finds Pause first in its mailbox does not draw *)
Theorem C12_queued_chain_stays :
  (forall (s : st) (i : nat) (e : cev) (s' : st) (c : chain),
     nth_error (s_chains s) i = Some c -> c_pc c = PQueued -> chain_step s i e = Some s' ->
     e = EStarted \/ e = EResult false) /\
  (forall (s : st) (i : nat) (e : cev) (s' : st) (c : chain) (rest : list msg),
     nth_error (s_chains s) i = Some c -> c_pc c = PStarted -> c_mail c = MPause :: rest ->
     chain_step s i e = Some s' ->
     (e = ETryRecv (RMsg MPause) \/ e = EResult false) /\
     exists c', nth_error (s_chains s') i = Some c' /\ c_rec c' = c_rec c /\
                (c_pc c' = PTop (RMsg MPause) \/ c_pc c' = PDone false)) /\
  (forall (s : st) (i : nat) (e : cev) (s' : st) (c : chain),
     nth_error (s_chains s) i = Some c -> c_pc c = PTop (RMsg MPause) -> chain_step s i e = Some s' ->
     (e = EBlock /\ c_draw c < s_total s \/ e = EResult true /\ s_total s <= c_draw c) /\
     exists c', nth_error (s_chains s') i = Some c' /\ c_rec c' = c_rec c /\
                (c_pc c' = PBlocked \/ c_pc c' = PDone true)).
Proof. split; [exact I7_queued_forced | split; [exact I7_started_pause_forced | exact I7_top_pause_forced]]. Qed.
Print Assumptions C12_queued_chain_stays.

(* resume loses nothing: in every reachable state (any number of pauses and resumes) the recorded
   draws are 0,1,2,... without gap, duplicate or reordering *)
Theorem C12_resume_lossless :
  forall (n total : nat) (s : st) (c : chain),
    reach n total s -> In c (s_chains s) -> c_rec c = seq 0 (c_draw c) /\ c_draw c <= total.
Proof. exact I1_records. Qed.
Print Assumptions C12_resume_lossless.

Example C12_nonvacuous :
  replay_log 1 3 [(0,0,0,1); (2,0,0,0); (1,0,0,1); (1,1,0,1); (2,1,0,1); (0,1,1,1); (2,2,0,0)]%Z
  = [[0; 0; 3; 0]]%Z.
Proof. vm_compute. reflexivity. Qed.
Print Assumptions C12_nonvacuous.
