(* C06 - Warmup ends exactly at num_tune and the kernel is frozen afterwards.
   Statements only; proofs live in proofs/Schedule_facts.v. *)
From Coq Require Import ZArith NArith Bool List Lia QArith.
From NutsV Require Import lib.Fp model.Schedule proofs.Schedule_facts.
Import ListNotations.
Local Open Scope N_scope.

(* Exactly the draws k < num_tune are reported as tuning (Progress.tuning and the `tuning`
   statistic), for every option set, window function, and history of good/rejected draws;
   draws are numbered 0,1,2,... *)
Theorem C06_tuning_exact :
  forall (nextw : N -> N) (o : sopts) (st : gstate) (goods : list bool),
    g_tuning st = true ->
    Forall (fun r => r_tuning r = (r_draw r <? g_num_tune st) /\ r_stat_tuning r = r_tuning r)
           (snd (chain_run nextw o (gs_init st) 0 goods)) /\
    map r_draw (snd (chain_run nextw o (gs_init st) 0 goods)) = nseq 0 (length goods).
Proof. exact tuning_exact_chain. Qed.
Print Assumptions C06_tuning_exact.

(* From the first draw of the final step-size window on, the transformation id, both estimator
   windows, the window size and last_update never change and only step-size events occur. *)
Theorem C06_transformation_frozen :
  forall (nextw : N -> N) (o : sopts) (st : gstate) (k : N) (goods : list bool),
    g_final st <= k ->
    Forall (fun r => r_id r = g_id st /\ Forall step_only (r_events r))
           (snd (chain_run nextw o st k goods)).
Proof. exact id_frozen_chain. Qed.
Print Assumptions C06_transformation_frozen.

Theorem C06_frozen_step :
  forall (nextw : N -> N) (o : sopts) (st : gstate) (k : N) (g : bool),
    g_final st <= k ->
    let st' := fst (gs_adapt nextw o st k g) in
    g_id st' = g_id st /\ g_win st' = g_win st /\ g_cur_win st' = g_cur_win st /\
    g_last_update st' = g_last_update st /\ g_has_init st' = g_has_init st /\
    Forall step_only (snd (gs_adapt nextw o st k g)).
Proof. exact frozen_from_final. Qed.
Print Assumptions C06_frozen_step.

(* After warmup the adaptation state is never advanced and every step size is the final
   averaged step size times that draw's jitter factor, for any step-size method (abstract
   state SS with its current / averaged read-outs). *)
Theorem C06_stepsize_frozen :
  forall (nextw : N -> N) (o : sopts) (SS : Type) (ss_advance : SS -> bool -> N -> SS)
         (ss_search : SS -> N -> SS * Q) (ss_cur ss_best : SS -> Q) (jit : N -> Q)
         (goods : list bool) (st : gstate) (ss : SS) (eps : Q) (k : N),
    g_num_tune st <= k ->
    Forall (fun t => let '(d, s, e) := t in s = ss /\ e = (ss_best ss * jit d)%Q)
           (ss_chain nextw o SS ss_advance ss_search ss_cur ss_best jit st (ss, eps) k goods).
Proof. exact stepsize_frozen_run. Qed.
Print Assumptions C06_stepsize_frozen.

Theorem C06_jitter_band :
  forall best j x : Q, (0 < best)%Q -> (1 - j <= x)%Q -> (x < 1 + j)%Q ->
    (best * (1 - j) <= best * x)%Q /\ (best * x < best * (1 + j))%Q.
Proof. exact jitter_band. Qed.
Print Assumptions C06_jitter_band.

(* the last warmup draw installs the averaged step size (use_best_guess = true) *)
Theorem C06_last_warmup_draw :
  forall (nextw : N -> N) (o : sopts) (st : gstate) (k : N) (g : bool),
    g_final st <= k -> k < g_num_tune st ->
    snd (gs_adapt nextw o st k g) = [EAdvance true; ESetStep (k =? g_num_tune st - 1)].
Proof. exact last_warmup_draw_events. Qed.
Print Assumptions C06_last_warmup_draw.

(* Any num_tune yields a strategy: `new` panics only for early_end >= num_tune > 0 or growth < 1 *)
Theorem C06_new_total :
  forall (o : sopts) (ew ssw growth : f64) (n : N),
    (exists st, gs_new o ew ssw growth n = NewOk st) <->
    ((n = 0 \/ frac_of ew n < n) /\ fge growth fone = true).
Proof. exact gs_new_total. Qed.
Print Assumptions C06_new_total.

(* exhaustive over the property's range num_tune in 0..2000, default fractions
   (early_window = 0.3, step_size_window = 0.15, growth = 1.5): `new` never panics and the
   phase boundaries are ordered early_end <= final <= num_tune *)
Definition default_o : sopts := {| o_early_sw := 10; o_main_sw := 80; o_upd := 1 |}.
Definition f_0_3 := of_bits 4599075939470750515.
Definition f_0_15 := of_bits 4594572339843380019.
Definition f_1_5 := of_bits 4609434218613702656.
Definition new_ok (n : N) : bool :=
  match gs_new default_o f_0_3 f_0_15 f_1_5 n with
  | NewOk st => (g_early_end st <=? g_final st) && (g_final st <=? n) &&
                ((n =? 0) || (g_early_end st <? n))
  | NewPanic _ => false
  end.
Theorem C06_num_tune_0_2000_ok : forallb new_ok (nseq 0 2001) = true.
Proof. vm_compute. reflexivity. Qed.
Print Assumptions C06_num_tune_0_2000_ok.

(* flow presets *)
Theorem C06_flow_tuning_exact :
  forall (upd : N) (n : nat) (ssw : f64) (num_tune : N),
    Forall2 (fun d p => fst p = (d <? num_tune)) (nseq 0 n)
            (snd (flow_run upd (flow_new ssw num_tune) 0 n)).
Proof. exact flow_tuning_exact_new. Qed.
Print Assumptions C06_flow_tuning_exact.

Theorem C06_flow_frozen :
  forall (upd : N) (st : fstate) (k : N),
    f_final st <= k ->
    f_updates (fst (flow_adapt upd st k)) = f_updates st /\ ~ In FUpdate (snd (flow_adapt upd st k)).
Proof. exact flow_frozen. Qed.
Print Assumptions C06_flow_frozen.

(* The finding that was repaired (fix: MclmcChain reports Progress.tuning after adaptation):
   with Progress built before adapt, draw number num_tune was still reported as tuning. *)
Theorem C06_mclmc_prefix_refuted :
  exists (st : gstate) (k : N),
    g_tuning st = true /\ k = g_num_tune st /\
    r_tuning (snd (mclmc_step_prefix (fun c => c + 1) default_o st k true)) = true.
Proof.
  exists (gs_init (gs_new_raw default_o 3 0 3)), 3. vm_compute. repeat split.
Qed.
Print Assumptions C06_mclmc_prefix_refuted.

(* non-vacuity: a concrete run reaches all three phases *)
Example C06_nonvacuous :
  map r_tuning (snd (chain_run (next_window_f64 f_1_5) default_o
        (gs_init (gs_new_raw default_o 4 1 3)) 0 [true; true; true; true; true; true]))
  = [true; true; true; true; false; false].
Proof. vm_compute. reflexivity. Qed.
Print Assumptions C06_nonvacuous.
