(* C18 - MCLMC keeps its structural invariants.
   Statements over model/Mclmc.v (exact rationals; zeta = exp(-delta) in (0,1] is an input);
   proofs in proofs/Mclmc_facts.v. *)
From Coq Require Import QArith List ZArith NArith Bool Arith.
From NutsV Require Import model.Mclmc proofs.Mclmc_facts.
Import ListNotations.

(* the raw ESH update has the closed-form norm 1 + alpha + (1 - alpha) zeta^2 ... *)
Theorem C18_esh_raw_norm :
  forall (ghat p : list Q) (z : Q),
    length ghat = length p -> qdot ghat ghat == 1 -> qdot p p == 1 ->
    qdot (esh_raw ghat p z) (esh_raw ghat p z) ==
    esh_norm (esh_alpha ghat p) z * esh_norm (esh_alpha ghat p) z.
Proof. exact esh_raw_norm. Qed.
Print Assumptions C18_esh_raw_norm.

(* ... which is positive, so the renormalised momentum has unit norm after every update *)
Theorem C18_esh_unit_norm :
  forall (ghat p : list Q) (z : Q),
    length ghat = length p -> qdot ghat ghat == 1 -> qdot p p == 1 -> 0 < z -> z <= 1 ->
    0 < esh_norm (esh_alpha ghat p) z /\
    qdot (esh_update ghat p z) (esh_update ghat p z) == 1.
Proof. exact esh_unit_norm. Qed.
Print Assumptions C18_esh_unit_norm.

Theorem C18_esh_alpha_in_range :
  forall ghat p : list Q,
    length ghat = length p -> qdot ghat ghat == 1 -> qdot p p == 1 ->
    - (1) <= esh_alpha ghat p /\ esh_alpha ghat p <= 1.
Proof. exact esh_alpha_bounds. Qed.
Print Assumptions C18_esh_alpha_in_range.

(* the reported kinetic-energy change takes ln_1p of that same denominator minus one *)
Theorem C18_esh_kinetic_energy_argument :
  forall alpha z : Q, esh_log_arg alpha z == esh_norm alpha z - 1.
Proof. exact esh_log_arg_is_norm_minus_one. Qed.
Print Assumptions C18_esh_kinetic_energy_argument.

Theorem C18_normalize_unit :
  forall (sq : Q -> Q) (v : list Q),
    0 < qdot v v -> sq (qdot v v) * sq (qdot v v) == qdot v v ->
    qdot (qnormalize sq v) (qnormalize sq v) == 1.
Proof. exact normalize_unit_at. Qed.
Print Assumptions C18_normalize_unit.

(* the momentum update is a flow in delta: successive updates along the same direction compose
   (z = exp(-delta) multiplies), and the update with 1 / z (delta -> -delta) undoes the one with z *)
Theorem C18_esh_update_compose :
  forall (ghat p : list Q) (z1 z2 : Q),
    length ghat = length p -> qdot ghat ghat == 1 -> qdot p p == 1 -> ~ z1 == 0 -> ~ z2 == 0 ->
    Forall2 Qeq (esh_update ghat (esh_update ghat p z1) z2) (esh_update ghat p (z1 * z2)).
Proof. exact esh_update_compose. Qed.
Print Assumptions C18_esh_update_compose.

Theorem C18_esh_update_inverse :
  forall (ghat p : list Q) (z : Q),
    length ghat = length p -> qdot ghat ghat == 1 -> qdot p p == 1 -> ~ z == 0 ->
    Forall2 Qeq (esh_update ghat (esh_update ghat p z) (/ z)) p.
Proof. exact esh_update_inverse. Qed.
Print Assumptions C18_esh_update_inverse.

(* the microcanonical leapfrog step (half momentum update, drift, half momentum update) is
   time-reversible: a backward step (drift -c, z -> 1 / z) from where a forward step arrived returns
   to the starting point, componentwise up to Qeq.  n is the dimension: on positions of length n the
   direction field is a unit vector of length n, z is non-zero, and both respect Qeq of positions. *)
Theorem C18_micro_step_reversible :
  forall (ghat_of : list Q -> list Q) (z_of : list Q -> Q) (c : Q) (n : nat),
    (forall x, length x = n -> length (ghat_of x) = n) ->
    (forall x, length x = n -> qdot (ghat_of x) (ghat_of x) == 1) ->
    (forall x, length x = n -> ~ z_of x == 0) ->
    (forall x y, length x = n -> Forall2 Qeq x y ->
       Forall2 Qeq (ghat_of x) (ghat_of y) /\ z_of x == z_of y) ->
    forall q p : list Q, length q = n -> length p = n -> qdot p p == 1 ->
    let (q1, p1) := micro_step ghat_of z_of c true q p in
    let (q2, p2) := micro_step ghat_of z_of c false q1 p1 in
    Forall2 Qeq q2 q /\ Forall2 Qeq p2 p.
Proof. exact micro_step_reversible. Qed.
Print Assumptions C18_micro_step_reversible.

(* ... and the same starting with the backward step *)
Theorem C18_micro_step_reversible_bwd :
  forall (ghat_of : list Q -> list Q) (z_of : list Q -> Q) (c : Q) (n : nat),
    (forall x, length x = n -> length (ghat_of x) = n) ->
    (forall x, length x = n -> qdot (ghat_of x) (ghat_of x) == 1) ->
    (forall x, length x = n -> ~ z_of x == 0) ->
    (forall x y, length x = n -> Forall2 Qeq x y ->
       Forall2 Qeq (ghat_of x) (ghat_of y) /\ z_of x == z_of y) ->
    forall q p : list Q, length q = n -> length p = n -> qdot p p == 1 ->
    let (q1, p1) := micro_step ghat_of z_of c false q p in
    let (q2, p2) := micro_step ghat_of z_of c true q1 p1 in
    Forall2 Qeq q2 q /\ Forall2 Qeq p2 p.
Proof. exact micro_step_reversible_bwd. Qed.
Print Assumptions C18_micro_step_reversible_bwd.

(* the hypotheses are satisfiable: ghat = (3/5, 4/5), p = (0, 1), z = 1/2 for the update ... *)
Example C18_esh_update_inverse_nonvacuous :
  let ghat := [3 # 5; 4 # 5] in let p := [0; 1] in let z := 1 # 2 in
  length ghat = length p /\ qdot ghat ghat == 1 /\ qdot p p == 1 /\ ~ z == 0 /\
  map Qred (esh_update ghat p z) = [57 # 185; 176 # 185] /\
  map Qred (esh_update ghat (esh_update ghat p z) (/ z)) = p.
Proof. exact esh_inverse_concrete. Qed.
Print Assumptions C18_esh_update_inverse_nonvacuous.

(* ... and a position-dependent direction field and z in dimension 2 for the leapfrog step, with a
   concrete round trip *)
Example C18_micro_step_reversible_nonvacuous :
  ((forall x, length x = 2%nat -> length (ex_ghat x) = 2%nat) /\
   (forall x, length x = 2%nat -> qdot (ex_ghat x) (ex_ghat x) == 1) /\
   (forall x, length x = 2%nat -> ~ ex_z x == 0) /\
   (forall x y, length x = 2%nat -> Forall2 Qeq x y ->
      Forall2 Qeq (ex_ghat x) (ex_ghat y) /\ ex_z x == ex_z y)) /\
  (let s := micro_step ex_ghat ex_z 3 true [-1 # 2; -2 # 1] [0; 1] in
   let s' := micro_step ex_ghat ex_z 3 false (fst s) (snd s) in
   map Qred (fst s) = [13 # 82; 38 # 41] /\
   Forall2 Qeq (fst s') [-1 # 2; -2 # 1] /\ Forall2 Qeq (snd s') [0; 1]).
Proof. exact (conj ex_micro_hyps micro_roundtrip_concrete). Qed.
Print Assumptions C18_micro_step_reversible_nonvacuous.

(* a draw without divergence takes exactly num_base full-size steps *)
Theorem C18_steps_exact :
  forall (num_base mh : nat) (outs : list outcome),
    Forall (fun o => o = OOk) outs -> (num_base <= length outs)%nat ->
    exists s, kernel num_base mh outs = KDone s /\ k_steps s = num_base /\
              k_time s == inject_Z (Z.of_nat num_base) /\ k_log s = repeat 0%nat num_base /\
              k_remaining s = 0%nat /\ k_stack s = [].
Proof. exact steps_exact. Qed.
Print Assumptions C18_steps_exact.

(* with retries: the integration time is still exactly num_base base steps, more and smaller steps
   are taken, every extra step has a factor < 1, and exactly num_base steps iff no divergence *)
Theorem C18_retry_accounting :
  forall (num_base mh : nat) (outs : list outcome) (s : kstate),
    kernel num_base mh outs = KDone s ->
    k_time s == inject_Z (Z.of_nat num_base) /\ (num_base <= k_steps s)%nat /\
    ((num_base < k_steps s)%nat -> Exists (fun h => (0 < h)%nat) (k_log s)) /\
    (k_steps s = num_base <->
     Forall (fun o => o = OOk) (firstn (consumed mh outs (init_state num_base)) outs)).
Proof.
  intros num_base mh outs s H. repeat split.
  - exact (retry_accounting num_base mh outs s H).
  - exact (retry_steps_ge num_base mh outs s H).
  - exact (retry_extra_steps_halved num_base mh outs s H).
  - apply (proj1 (retry_steps_eq_iff_no_div num_base mh outs s H)).
  - apply (proj2 (retry_steps_eq_iff_no_div num_base mh outs s H)).
Qed.
Print Assumptions C18_retry_accounting.

Theorem C18_halving_depth_bounded :
  forall (num_base mh : nat) (outs : list outcome),
    Forall (fun h => (h <= mh)%nat) (k_log (kstate_of (kernel num_base mh outs))) /\
    (length (k_stack (kstate_of (kernel num_base mh outs))) <= mh)%nat /\
    Forall (fun s => (length (k_stack s) <= mh)%nat /\ Forall (fun h => (h <= mh)%nat) (k_log s))
           (ktrace mh outs (init_state num_base)).
Proof. exact halving_depth_bounded. Qed.
Print Assumptions C18_halving_depth_bounded.

(* a recorded divergence happens only with the halving budget exhausted; without dynamic step
   size (budget 0) any divergence ends the draw *)
Theorem C18_divergence_only_when_budget_exhausted :
  forall (num_base mh : nat) (outs : list outcome) (s : kstate),
    kernel num_base mh outs = KDiverged s -> length (k_stack s) = mh.
Proof. intros n mh outs s H. exact (proj1 (divergence_only_when_budget_exhausted n mh outs s H)). Qed.
Print Assumptions C18_divergence_only_when_budget_exhausted.

Theorem C18_static_step_divergence_ends_draw :
  forall (num_base : nat) (outs : list outcome),
    In ODiv (firstn (consumed 0 outs (init_state num_base)) outs) ->
    exists s, kernel num_base 0 outs = KDiverged s.
Proof. exact no_budget_any_div_diverges. Qed.
Print Assumptions C18_static_step_divergence_ends_draw.

(* the trajectory switch happens once, at the configured draw, with a fresh momentum *)
Theorem C18_switch_once :
  forall (sd : N) (n : nat),
    switch_run TEarlyThenMicro sd 0%N n (initial_micro TEarlyThenMicro) =
    map (switch_flags sd) (seq 0 n).
Proof. exact switch_once. Qed.
Print Assumptions C18_switch_once.

Theorem C18_switch_never :
  forall (k : tkind) (sd : N) (n : nat), k = TMicro \/ k = TEuclid ->
    switch_run k sd 0%N n (initial_micro k) = repeat (initial_micro k, false) n.
Proof. exact switch_never_initial. Qed.
Print Assumptions C18_switch_never.

Example C18_nonvacuous : run_kernel_model 2 10 [1; 0; 0; 0]%Z = [[0; 3; 2; 1; 0]; [0; 1; 1; 0]]%Z.
Proof. vm_compute. reflexivity. Qed.
Print Assumptions C18_nonvacuous.
