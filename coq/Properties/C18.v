(* C18 - placeholder; theorems are added as proofs land *)
From Coq Require Import ZArith QArith List.
From NutsV Require Import model.Mclmc.
Import ListNotations.
Example C18_model_runs : run_kernel_model 2 10 [1; 0; 0; 0]%Z = [[0; 3; 2; 1; 0]; [0; 1; 1; 0]]%Z.
Proof. vm_compute. reflexivity. Qed.
Print Assumptions C18_model_runs.
