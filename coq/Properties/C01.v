(* C01 - NUTS transition is reversible with respect to the target density.
   Statements only; proofs in proofs/Balance.v and proofs/Tree_facts.v. *)
From Coq Require Import ZArith QArith List Bool.
From NutsV Require Import model.Tree proofs.Tree_facts proofs.Balance proofs.Balance2.
Import ListNotations.

(* Detailed balance on every orbit: for all positive weights (pi up to a constant), every U-turn
   predicate on index pairs, every maxdepth, and any two states a, b of the orbit,
   pi(a) P(a -> b) = pi(b) P(b -> a), where P is the exact distribution of the model of nuts::draw
   (default options: mindepth 0, no extra doublings, check_turning, no divergences). *)
Theorem C01_detailed_balance :
  forall (wt : Z -> Q) (turn : Z -> Z -> bool) (maxdepth : nat),
    (forall i, 0 < wt i)%Q ->
    forall a b : Z,
      (wt a * trans_prob wt turn nofault nofault (std_opts maxdepth) a b ==
       wt b * trans_prob wt turn nofault nofault (std_opts maxdepth) b a)%Q.
Proof. exact detailed_balance. Qed.
Print Assumptions C01_detailed_balance.

(* the target is invariant on every orbit: summing over the window of states that can reach b *)
Theorem C01_stationary :
  forall (wt : Z -> Q) (turn : Z -> Z -> bool) (maxdepth : nat),
    (forall i, 0 < wt i)%Q ->
    forall b : Z,
      (zsum (b - 2 ^ Z.of_nat maxdepth + 1) (Z.to_nat (2 * 2 ^ Z.of_nat maxdepth - 1))
         (fun a => wt a * trans_prob wt turn nofault nofault (std_opts maxdepth) a b) == wt b)%Q.
Proof. exact stationary. Qed.
Print Assumptions C01_stationary.

Theorem C01_transition_is_a_distribution :
  forall (wt : Z -> Q) (turn : Z -> Z -> bool) (maxdepth : nat) (b : Z),
    (zsum (b - 2 ^ Z.of_nat maxdepth + 1) (Z.to_nat (2 * 2 ^ Z.of_nat maxdepth - 1))
       (fun a => trans_prob wt turn nofault nofault (std_opts maxdepth) b a) == 1)%Q.
Proof. exact trans_prob_total. Qed.
Print Assumptions C01_transition_is_a_distribution.

(* the shape of the trajectory (interval, depth, whether a U-turn stopped it) is a function of the
   doubling directions only, not of the coins ... *)
Theorem C01_shape_sound :
  forall (wt : Z -> Q) (turn : Z -> Z -> bool) (maxdepth : nat) (a : Z) (ds : list bool) (r : dres),
    douts (pdraw wt turn nofault nofault (std_opts maxdepth) a) ds r ->
    dshape turn maxdepth a ds = Some (d_lo r, d_hi r, d_depth r, negb (d_maxdepth r)).
Proof. exact shape_sound. Qed.
Print Assumptions C01_shape_sound.

(* ... and the trajectory built from any state b of it with the mirrored doubling choices is the
   same trajectory with the same stopping depth; both direction sequences have the same length,
   hence the same probability 2^-length *)
Theorem C01_trajectory_mirror :
  forall (turn : Z -> Z -> bool) (maxdepth : nat) (a : Z) (ds : list bool) (lo hi : Z) (depth : nat) (flag : bool),
    dshape turn maxdepth a ds = Some (lo, hi, depth, flag) ->
    forall b, (lo <= b <= hi)%Z ->
      length (mirror turn maxdepth a b ds) = length ds /\
      dshape turn maxdepth b (mirror turn maxdepth a b ds) = Some (lo, hi, depth, flag).
Proof. exact trajectory_mirror. Qed.
Print Assumptions C01_trajectory_mirror.

(* mirror rebuild, the statement behind the implementation-side oracle of the check: from every
   state s of the trajectory [lo, hi] reached from a, the directions `mirror_dirs lo depth s`
   (doubling j goes forward iff bit j of s - lo is 0) with maxdepth = depth re-create exactly
   [lo, hi] at the same depth; the rebuild stops for a U-turn iff [lo, hi] itself turns, which it
   does not when the original was not stopped by a U-turn *)
Theorem C01_mirror_rebuild :
  forall (turn : Z -> Z -> bool) (maxdepth : nat) (a : Z) (ds : list bool) (lo hi : Z) (depth : nat) (flag : bool),
    dshape turn maxdepth a ds = Some (lo, hi, depth, flag) ->
    forall s, (lo <= s <= hi)%Z ->
      mirror_dirs lo depth s = path lo depth s /\
      length (mirror_dirs lo depth s) = depth /\
      dshape turn depth s (mirror_dirs lo depth s) = Some (lo, hi, depth, top_turn turn lo depth) /\
      (flag = false -> top_turn turn lo depth = false).
Proof. exact mirror_rebuild. Qed.
Print Assumptions C01_mirror_rebuild.

Theorem C01_direction_sequence_mass :
  forall (wt : Z -> Q) (turn : Z -> Z -> bool) (maxdepth : nat), (forall i, 0 < wt i)%Q ->
  forall (a : Z) (ds : list bool),
    (expectD (pdraw wt turn nofault nofault (std_opts maxdepth) a) ds (fun _ => 1) ==
     match dshape turn maxdepth a ds with Some _ => halfpow (length ds) | None => 0 end)%Q.
Proof. exact dir_mass. Qed.
Print Assumptions C01_direction_sequence_mass.

(* closed form: P(a->b) = [a=b] Keep + Rr (linear in the current selection) *)
Theorem C01_trans_prob_formula :
  forall (wt : Z -> Q) (turn : Z -> Z -> bool) (maxdepth : nat),
    (forall i, 0 < wt i)%Q ->
    forall a b : Z,
      (trans_prob wt turn nofault nofault (std_opts maxdepth) a b ==
       ind a b * Keep wt turn maxdepth a 0 + Rr wt turn maxdepth a 0 b)%Q.
Proof. exact trans_prob_formula. Qed.
Print Assumptions C01_trans_prob_formula.

(* Sub-trees: uniform progressive sampling is exact multinomial sampling over the block, and
   whether the sub-tree is rejected depends only on the U-turn checks of its dyadic sub-blocks
   (the same set of checks in both directions: `ok`), never on the coins. *)
Theorem C01_subtree_multinomial_fwd :
  forall (wt : Z -> Q) (turn : Z -> Z -> bool),
    (forall i, 0 < wt i)%Q ->
    forall (j : nat) (i : Z),
    exists w : Q, (w == bw wt i j)%Q /\
      forall G : sres -> Q,
        (expect (sibling wt turn nofault nofault j i true true) G ==
         if ok turn i j then avg wt i j (fun x => G (SOk (mk i j x w false))) else G STurn)%Q.
Proof. exact sibling_fwd. Qed.
Print Assumptions C01_subtree_multinomial_fwd.

Theorem C01_subtree_multinomial_bwd :
  forall (wt : Z -> Q) (turn : Z -> Z -> bool),
    (forall i, 0 < wt i)%Q ->
    forall (j : nat) (lo i : Z), i = (lo + P2 j - 1)%Z ->
    exists w : Q, (w == bw wt lo j)%Q /\
      forall G : sres -> Q,
        (expect (sibling wt turn nofault nofault j i false true) G ==
         if ok turn lo j then avg wt lo j (fun x => G (SOk (mk lo j x w false))) else G STurn)%Q.
Proof. exact sibling_bwd. Qed.
Print Assumptions C01_subtree_multinomial_bwd.

(* the choice tree is a probability distribution: every coin has a probability in [0,1], every
   doubling direction has mass 1/2 (definition of `expect` on Dir), total mass 1 *)
Theorem C01_probabilities_well_formed :
  forall (wt : Z -> Q) (turn : Z -> Z -> bool) (bad fatal : Z -> bool) (o : nopts) (a : Z),
    (forall i, 0 < wt i)%Q -> wf_probs (pdraw wt turn bad fatal o a).
Proof. exact pdraw_wf. Qed.
Print Assumptions C01_probabilities_well_formed.

Theorem C01_total_mass :
  forall (A : Type) (m : ptree A), (expect m (fun _ => 1) == 1)%Q.
Proof. exact expect_total. Qed.
Print Assumptions C01_total_mass.

Theorem C01_direction_half :
  forall (A : Type) (k : bool -> ptree A) (g : A -> Q),
    (expect (Dir k) g == (1 # 2) * expect (k true) g + (1 # 2) * expect (k false) g)%Q.
Proof. intros. reflexivity. Qed.
Print Assumptions C01_direction_half.

(* the leapfrogs of one doubling are the consecutive indices beyond the tree's edge: the same
   orbit is traversed whichever state of it the trajectory started from *)
Theorem C01_extend_walks_orbit :
  forall (wt : Z -> Q) (turn : Z -> Z -> bool) (bad fatal : Z -> bool) (t : tree) (fwd check : bool)
         (l : list Z) (r : xres),
    outcome (extend wt turn bad fatal t fwd check) l r ->
    l = walk (next_index t fwd) fwd (length l).
Proof. exact extend_walk. Qed.
Print Assumptions C01_extend_walks_orbit.

(* non-vacuity: a 3-state orbit with unequal weights; both sides of the balance equation are
   the same non-zero number *)
Definition wt_ex (i : Z) : Q := if (i =? 0)%Z then 1 else if (i =? 1)%Z then (1 # 2) else (1 # 3).
Example C01_nonvacuous :
  (Qred (wt_ex 0 * trans_prob wt_ex (fun _ _ => false) nofault nofault (std_opts 2) 0 1),
   Qred (wt_ex 1 * trans_prob wt_ex (fun _ _ => false) nofault nofault (std_opts 2) 1 0))
  = ((67 # 288)%Q, (67 # 288)%Q).
Proof. vm_compute. reflexivity. Qed.
Print Assumptions C01_nonvacuous.
