(* C19 - Settings survive serialisation and reproduce the same chain.
   Statements only; proofs live in proofs/Serde_facts.v.  model/Serde.v is the model of the serde
   derive / serde_json conventions, gen/SerdeDecls.v the declarations regenerated from the
   current sources of the crate by tools/translate_serde.py. *)
From Coq Require Import String List NArith ZArith Bool.
From NutsV Require Import model.Serde gen.SerdeDecls proofs.Serde_facts.
Import ListNotations.
Local Open Scope string_scope.

(* For ALL type descriptions (not only the six presets): a value of a well-formed description
   (no duplicate field / variant names, no Option<Option<_>>) whose floats are finite and whose
   integers fit 64 bits serialises to a JSON tree that deserialises to the identical value. *)
Theorem C19_serde_roundtrip :
  forall (ty : sty) (v : sval),
    wf ty = true -> typed ty v = true -> dec ty (enc ty v) = Some v.
Proof. exact serde_roundtrip. Qed.
Print Assumptions C19_serde_roundtrip.

(* The declarations regenerated from the current sources: there are six presets with distinct
   names, each resolves (generic parameter A instantiated as the alias says) to a well-formed
   type description, every reachable struct / enum derives both Serialize and Deserialize, and NO
   serde attribute (skip, default, rename, flatten, with, tag, ...) is present on any item, field
   or variant - so the derive defaults modelled by enc / dec are the ones in force. *)
Theorem C19_settings_wf : presets_ok decls presets = true.
Proof. vm_compute. reflexivity. Qed.
Print Assumptions C19_settings_wf.

Theorem C19_no_serde_attributes : serde_attrs decls = [].
Proof. vm_compute. reflexivity. Qed.
Print Assumptions C19_no_serde_attributes.

(* hence the round trip holds for every preset of the current sources *)
Theorem C19_presets_roundtrip :
  forall (p : string * rty) (ty : sty) (v : sval),
    In p presets -> preset_sty decls p = Some ty -> typed ty v = true ->
    dec ty (enc ty v) = Some v.
Proof.
  intros p ty v Hin Hres Hty. apply serde_roundtrip; [|exact Hty].
  pose proof C19_settings_wf as H. unfold presets_ok in H.
  repeat (apply andb_true_iff in H; destruct H as [H ?]).
  match goal with
  | HF : forallb (fun p => match preset_sty decls p with Some ty => wf ty | None => false end) presets = true |- _ =>
      rewrite forallb_forall in HF; specialize (HF p Hin); rewrite Hres in HF; exact HF
  end.
Qed.
Print Assumptions C19_presets_roundtrip.

(* Congruence: anything computed from the deserialised settings - in particular the chain built
   from them with a given seed - is what is computed from the original settings. *)
Corollary C19_same_settings_same_chain :
  forall (T : Type) (chain_of : sval -> N -> T) (ty : sty) (v : sval) (seed : N),
    wf ty = true -> typed ty v = true ->
    option_map (fun s => chain_of s seed) (dec ty (enc ty v)) = Some (chain_of v seed).
Proof. exact same_settings_same_chain. Qed.
Print Assumptions C19_same_settings_same_chain.

(* The hypotheses are needed: a non-finite float is written as null and does not come back
   (serde_json), and Some(None) of an Option<Option<_>> comes back as None. *)
Theorem C19_nonfinite_refuted :
  typed SF64 (VF64 9218868437227405312) = false /\
  dec SF64 (enc SF64 (VF64 9218868437227405312)) = None.
Proof. vm_compute. split; reflexivity. Qed.
Print Assumptions C19_nonfinite_refuted.

Theorem C19_nested_option_refuted :
  typed (SOpt (SOpt SBool)) (VSome VNone) = true /\ wf (SOpt (SOpt SBool)) = false /\
  dec (SOpt (SOpt SBool)) (enc (SOpt (SOpt SBool)) (VSome VNone)) = Some VNone.
Proof. vm_compute. repeat split; reflexivity. Qed.
Print Assumptions C19_nested_option_refuted.

(* non-vacuity: a concrete value of the first preset of the regenerated declarations (all
   defaults of DiagNutsSettings except a Fixed step size method and target_integration_time =
   Some 0.1) satisfies the hypotheses, and the round trip computes *)
Definition f01 : Z := 4591870180066957722.  (* 0.1 *)
Definition ex_dual : sval := VStruct [("k", VF64 4604930618986332160); ("t0", VF64 4621819117588971520);
                                      ("gamma", VF64 4587366580439587226); ("max_step_size", VF64 4614256656552045848)].
Definition ex_adam : sval := VStruct [("beta1", VF64 4606281698874543309); ("beta2", VF64 4607173411600762667);
                                      ("epsilon", VF64 4487126258331716666); ("learning_rate", VF64 4587366580439587226)].
Definition ex_step : sval :=
  VStruct [("target_accept", VF64 4605380978949069210); ("initial_step", VF64 f01); ("jitter", VSome (VF64 f01));
           ("adapt_options", VStruct [("method", VEnum "Fixed" (Some (VF64 4602678819172646912)));
                                      ("dual_average", ex_dual); ("adam", ex_adam)])].
Definition ex_adapt : sval :=
  VStruct [("step_size_settings", ex_step);
           ("mass_matrix_options", VStruct [("store_mass_matrix", VBool false); ("use_grad_based_estimate", VBool true)]);
           ("early_window", VF64 4599075939470750515); ("step_size_window", VF64 4594572339843380019);
           ("mass_matrix_switch_freq", VU64 80); ("early_mass_matrix_switch_freq", VU64 10);
           ("mass_matrix_update_freq", VU64 1); ("mass_matrix_window_growth", VF64 4609434218613702656)].
Definition ex_settings : sval :=
  VStruct [("num_tune", VU64 400); ("num_draws", VU64 1000); ("maxdepth", VU64 10); ("mindepth", VU64 0);
           ("store_gradient", VBool false); ("store_unconstrained", VBool false); ("store_transformed", VBool false);
           ("max_energy_error", VF64 4652007308841189376); ("store_divergences", VBool false);
           ("adapt_options", ex_adapt); ("check_turning", VBool true);
           ("target_integration_time", VSome (VF64 f01)); ("trajectory_kind", VEnum "Euclidean" None);
           ("num_chains", VUsize 6); ("seed", VU64 0); ("extra_doublings", VU64 0)].

Example C19_nonvacuous :
  match preset_sty decls (nth 0 presets ("", RPrim "")) with
  | Some ty => wf ty = true /\ typed ty ex_settings = true /\
               dec ty (enc ty ex_settings) = Some ex_settings /\
               enc ty ex_settings <> JNull
  | None => False
  end.
Proof. vm_compute. repeat split; try reflexivity. discriminate. Qed.
Print Assumptions C19_nonvacuous.
