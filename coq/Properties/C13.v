(* C13 - Failures in any chain surface as errors of the parallel sampler. *)
From Coq Require Import ZArith List Bool Arith.
From NutsV Require Import model.Protocol proofs.Protocol_facts.
Import ListNotations.

(* the results channel holds exactly one result per finished chain *)
Theorem C13_results_channel :
  forall (n total : nat) (s : st), reach n total s ->
    length (s_results s) = cnt is_done (s_chains s) /\
    (existsb negb (s_results s) = true <-> exists c, In c (s_chains s) /\ c_pc c = PDone false).
Proof. intros n total s H. split; [exact (I5_results_count n total s H) | exact (I5_false_iff_failed n total s H)]. Qed.
Print Assumptions C13_results_channel.

(* once a chain has failed, wait_timeout can never return Trace, in any continuation *)
Theorem C13_error_surfaces_wait :
  forall (n total : nat) (s : st) (evs : list ev) (s' : st) (c : chain),
    reach n total s -> In c (s_chains s) -> c_pc c = PDone false -> run s evs = Some s' ->
    step s' (EvUser (ERetWait 1%Z)) = None.
Proof. exact I5_failed_never_trace. Qed.
Print Assumptions C13_error_surfaces_wait.

Theorem C13_trace_means_all_ok :
  forall (n total : nat) (s s' : st),
    reach n total s -> step s (EvUser (ERetWait 1%Z)) = Some s' ->
    forall c, In c (s_chains s) -> c_pc c = PDone true.
Proof. exact I5_wait_trace_all_ok. Qed.
Print Assumptions C13_trace_means_all_ok.

(* abort() returns Ok((None, trace)) only when no chain failed *)
Theorem C13_error_surfaces_abort :
  forall (n total : nat) (s s' : st),
    reach n total s -> step s (EvUser (ERetAbort 1%Z)) = Some s' ->
    forall c, In c (s_chains s) -> c_pc c <> PDone false.
Proof. exact I5_abort_ok_no_failed. Qed.
Print Assumptions C13_error_surfaces_abort.

(* a return value always answers the pending call *)
Theorem C13_return_matches_call :
  forall (s : st) (c : cmd) (code : Z) (s' : st),
    step s (EvUser (ERet c code)) = Some s' ->
    s_user s = UCalling c /\ (code = 1%Z -> s_ctl s = KResponding c).
Proof. exact ret_matches_call. Qed.
Print Assumptions C13_return_matches_call.

(* healthy chains are unaffected by the failure of another chain: frame *)
Theorem C13_healthy_chains_unaffected :
  forall (s : st) (i : nat) (e : cev) (s' : st),
    chain_step s i e = Some s' ->
    forall j, j <> i -> nth_error (s_chains s') j = nth_error (s_chains s) j.
Proof. intros s i e s' H. exact (proj1 (chain_step_frame s i e s' H)). Qed.
Print Assumptions C13_healthy_chains_unaffected.

Example C13_nonvacuous :
  replay_log 1 2 [(2, 0, 0, 0); (2, 1, 0, 0); (2, 4, 0, 0); (2, 8, 0, 0); (0, 2, 0, 0); (0, 3, 0, 2)]%Z
  = [[0; 0; 9; 0]]%Z.
Proof. vm_compute. reflexivity. Qed.
Print Assumptions C13_nonvacuous.
