(* composition lemmas used by Properties/C04.v *)
From Coq Require Import ZArith NArith QArith List Bool.
From NutsV Require Import lib.Fp model.Tree model.Schedule proofs.Balance proofs.Schedule_facts.
Import ListNotations.

Fixpoint qsum_over (l : list Z) (f : Z -> Q) : Q :=
  match l with [] => 0 | a :: r => f a + qsum_over r f end.

Lemma summed_balance (wt : Z -> Q) (turn : Z -> Z -> bool) (maxdepth : nat)
  (Hpos : forall i, (0 < wt i)%Q) (b : Z) (l : list Z) :
  (qsum_over l (fun a => wt a * trans_prob wt turn nofault nofault (std_opts maxdepth) a b) ==
   wt b * qsum_over l (fun a => trans_prob wt turn nofault nofault (std_opts maxdepth) b a))%Q.
Proof.
  induction l as [|a r IH]; cbn [qsum_over]; [ring|].
  rewrite IH. rewrite (detailed_balance wt turn maxdepth Hpos a b). ring.
Qed.


Lemma kernel_frozen_after_warmup :
  forall (nextw : N -> N) (o : sopts) (st : gstate) (k : N) (g : bool),
    (g_num_tune st <= k)%N ->
    snd (gs_adapt nextw o st k g) = [ESetStep true] /\
    g_id (fst (gs_adapt nextw o st k g)) = g_id st.
Proof.
  intros nextw o st k g H. split.
  - apply after_warmup_events. exact H.
  - unfold gs_adapt. destruct (N.leb_spec (g_num_tune st) k) as [_|Hc]; [reflexivity|].
    exfalso. apply (N.lt_irrefl k). eapply N.lt_le_trans; eassumption.
Qed.
