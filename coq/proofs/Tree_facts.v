(* Structural invariants of the NUTS tree-building model (model/Tree.v) and the laws of the
   `expect` monad.  Everything here is proved for ALL wt, turn, bad, fatal and all options;
   side conditions are stated explicitly in each theorem. *)
From Coq Require Import ZArith NArith Bool List QArith Lia Lqa Qfield.
From NutsV Require Import model.Tree.
Import ListNotations.
Local Open Scope Z_scope.

(* ---------------------------------------------------------------------------------------- *)
(* 1. outcomes of a choice tree                                                              *)
(* ---------------------------------------------------------------------------------------- *)
(* all results reachable through any choices, with the list of Tick indices seen on the way *)
Inductive outcome {A} : ptree A -> list Z -> A -> Prop :=
| O_ret a : outcome (Ret a) [] a
| O_tick i k l a : outcome k l a -> outcome (Tick i k) (i :: l) a
| O_dir k b l a : outcome (k b) l a -> outcome (Dir k) l a
| O_flip p k b l a : outcome (k b) l a -> outcome (Flip p k) l a.

Lemma outcome_ret_inv A (a b : A) l : outcome (Ret a) l b -> l = [] /\ b = a.
Proof. intros H; inversion H; subst; auto. Qed.

Lemma outcome_tick_inv A i (k : ptree A) l b :
  outcome (Tick i k) l b -> exists l', l = i :: l' /\ outcome k l' b.
Proof. intros H; inversion H; subst; eauto. Qed.

Lemma outcome_dir_inv A (k : bool -> ptree A) l b :
  outcome (Dir k) l b -> exists c, outcome (k c) l b.
Proof. intros H; inversion H; subst; eauto. Qed.

Lemma outcome_flip_inv A p (k : bool -> ptree A) l b :
  outcome (Flip p k) l b -> exists c, outcome (k c) l b.
Proof. intros H; inversion H; subst; eauto. Qed.

Lemma outcome_bind_inv A B (m : ptree A) (f : A -> ptree B) l b :
  outcome (bind m f) l b ->
  exists a l1 l2, outcome m l1 a /\ outcome (f a) l2 b /\ l = l1 ++ l2.
Proof.
  revert l; induction m as [a|i k IH|k IH|p k IH]; intros l H; cbn [bind] in H.
  - exists a, [], l; repeat split; auto; constructor.
  - apply outcome_tick_inv in H; destruct H as (l' & -> & H).
    destruct (IH _ H) as (a & l1 & l2 & H1 & H2 & ->).
    exists a, (i :: l1), l2; repeat split; auto; constructor; auto.
  - apply outcome_dir_inv in H; destruct H as (c & H).
    destruct (IH c _ H) as (a & l1 & l2 & H1 & H2 & ->).
    exists a, l1, l2; repeat split; auto; econstructor; eauto.
  - apply outcome_flip_inv in H; destruct H as (c & H).
    destruct (IH c _ H) as (a & l1 & l2 & H1 & H2 & ->).
    exists a, l1, l2; repeat split; auto; econstructor; eauto.
Qed.

Lemma outcome_bind_intro A B (m : ptree A) (f : A -> ptree B) a l1 l2 b :
  outcome m l1 a -> outcome (f a) l2 b -> outcome (bind m f) (l1 ++ l2) b.
Proof.
  intros H1 H2; induction H1; cbn [bind app]; auto.
  - constructor; auto.
  - econstructor; eauto.
  - econstructor; eauto.
Qed.

Theorem outcome_bind A B (m : ptree A) (f : A -> ptree B) l b :
  outcome (bind m f) l b <->
  exists a l1 l2, outcome m l1 a /\ outcome (f a) l2 b /\ l = l1 ++ l2.
Proof.
  split; [apply outcome_bind_inv|].
  intros (a & l1 & l2 & H1 & H2 & ->); eapply outcome_bind_intro; eauto.
Qed.

(* a scripted run is one of the outcomes (ticks are accumulated reversed) *)
Lemma run_outcome_gen A (m : ptree A) script acc coins r :
  run m script acc coins = Some r ->
  exists l, outcome m l (rr_val r) /\ rr_ticks r = rev acc ++ l.
Proof.
  revert script acc coins; induction m as [a|i k IH|k IH|p k IH]; intros script acc coins H;
    cbn [run] in H.
  - inversion H; subst; cbn. exists []; split; [constructor|now rewrite app_nil_r].
  - destruct (IH _ _ _ H) as (l & H1 & H2). exists (i :: l); split; [constructor; auto|].
    rewrite H2; cbn [rev]; now rewrite <- app_assoc.
  - destruct script as [|w s]; [discriminate|].
    destruct (IH _ _ _ _ H) as (l & H1 & H2). exists l; split; auto; econstructor; eauto.
  - destruct script as [|w s]; [discriminate|].
    destruct (IH _ _ _ _ H) as (l & H1 & H2). exists l; split; auto; econstructor; eauto.
Qed.

Theorem run_outcome A (m : ptree A) script r :
  run m script [] [] = Some r -> outcome m (rr_ticks r) (rr_val r).
Proof.
  intros H; destruct (run_outcome_gen _ _ _ _ _ _ H) as (l & H1 & H2).
  cbn in H2; now rewrite H2.
Qed.

(* ---------------------------------------------------------------------------------------- *)
(* 2. the `expect` monad                                                                     *)
(* ---------------------------------------------------------------------------------------- *)
Section Expect.
  Local Open Scope Q_scope.

  Theorem expect_ext A (m : ptree A) (g h : A -> Q) :
    (forall x, g x == h x) -> expect m g == expect m h.
  Proof.
    intros E; induction m as [a|i k IH|k IH|p k IH]; cbn [expect]; auto.
    - now rewrite (IH true), (IH false).
    - now rewrite (IH true), (IH false).
  Qed.

  Theorem expect_bind A B (m : ptree A) (f : A -> ptree B) (g : B -> Q) :
    expect (bind m f) g == expect m (fun x => expect (f x) g).
  Proof.
    induction m as [a|i k IH|k IH|p k IH]; cbn [expect bind]; auto.
    - reflexivity.
    - now rewrite (IH true), (IH false).
    - now rewrite (IH true), (IH false).
  Qed.

  Theorem expect_const A (m : ptree A) (c : Q) : expect m (fun _ => c) == c.
  Proof.
    induction m as [a|i k IH|k IH|p k IH]; cbn [expect]; auto.
    - reflexivity.
    - rewrite (IH true), (IH false); ring.
    - rewrite (IH true), (IH false); ring.
  Qed.

  Theorem expect_total A (m : ptree A) : expect m (fun _ => 1) == 1.
  Proof. apply expect_const. Qed.

  Theorem expect_linear A (m : ptree A) (c : Q) (g h : A -> Q) :
    expect m (fun x => c * g x + h x) == c * expect m g + expect m h.
  Proof.
    induction m as [a|i k IH|k IH|p k IH]; cbn [expect]; auto.
    - reflexivity.
    - rewrite (IH true), (IH false); ring.
    - rewrite (IH true), (IH false); ring.
  Qed.

  Corollary expect_plus A (m : ptree A) (g h : A -> Q) :
    expect m (fun x => g x + h x) == expect m g + expect m h.
  Proof.
    rewrite (expect_ext _ m _ (fun x => 1 * g x + h x)); [|intros; ring].
    rewrite expect_linear; ring.
  Qed.

  Corollary expect_scale A (m : ptree A) (c : Q) (g : A -> Q) :
    expect m (fun x => c * g x) == c * expect m g.
  Proof.
    rewrite (expect_ext _ m _ (fun x => c * g x + 0)); [|intros; ring].
    rewrite expect_linear, expect_const; ring.
  Qed.

  (* every coin on every path has a probability in [0,1] *)
  Inductive wf_probs {A} : ptree A -> Prop :=
  | W_ret a : wf_probs (Ret a)
  | W_tick i k : wf_probs k -> wf_probs (Tick i k)
  | W_dir k : (forall b, wf_probs (k b)) -> wf_probs (Dir k)
  | W_flip p k : 0 <= p <= 1 -> (forall b, wf_probs (k b)) -> wf_probs (Flip p k).

  Theorem wf_probs_bind A B (m : ptree A) (f : A -> ptree B) :
    wf_probs m -> (forall a l, outcome m l a -> wf_probs (f a)) -> wf_probs (bind m f).
  Proof.
    intros W; induction W as [a|i k W IH|k W IH|p k Hp W IH]; intros F; cbn [bind].
    - eapply F; constructor.
    - constructor; apply IH; intros a l H; eapply F; constructor; eauto.
    - constructor; intros b; apply IH; intros a l H; eapply F; econstructor; eauto.
    - constructor; auto; intros b; apply IH; intros a l H; eapply F; econstructor; eauto.
  Qed.

  (* nonnegativity: g need only be nonnegative on the reachable results *)
  Theorem expect_nonneg_outcome A (m : ptree A) (g : A -> Q) :
    wf_probs m -> (forall l x, outcome m l x -> 0 <= g x) -> 0 <= expect m g.
  Proof.
    intros W; induction W as [a|i k W IH|k W IH|p k Hp W IH]; intros G; cbn [expect].
    - eapply G; constructor.
    - apply IH; intros l x H; eapply G; constructor; eauto.
    - assert (H1 : 0 <= expect (k true) g)
        by (apply IH; intros l x H; eapply G; econstructor; eauto).
      assert (H2 : 0 <= expect (k false) g)
        by (apply IH; intros l x H; eapply G; econstructor; eauto).
      lra.
    - assert (H1 : 0 <= expect (k true) g)
        by (apply IH; intros l x H; eapply G; econstructor; eauto).
      assert (H2 : 0 <= expect (k false) g)
        by (apply IH; intros l x H; eapply G; econstructor; eauto).
      assert (0 <= p * expect (k true) g) by (apply Qmult_le_0_compat; lra).
      assert (0 <= (1 - p) * expect (k false) g) by (apply Qmult_le_0_compat; lra).
      lra.
  Qed.

  Theorem expect_nonneg A (m : ptree A) (g : A -> Q) :
    wf_probs m -> (forall x, 0 <= g x) -> 0 <= expect m g.
  Proof. intros W G; apply expect_nonneg_outcome; auto. Qed.

  Theorem expect_mono A (m : ptree A) (g h : A -> Q) :
    wf_probs m -> (forall x, g x <= h x) -> expect m g <= expect m h.
  Proof.
    intros W G.
    assert (H : 0 <= expect m (fun x => (-1) * g x + h x))
      by (apply expect_nonneg; auto; intros x; specialize (G x); lra).
    rewrite expect_linear in H; lra.
  Qed.

  Corollary expect_le_1 A (m : ptree A) (g : A -> Q) :
    wf_probs m -> (forall x, g x <= 1) -> expect m g <= 1.
  Proof.
    intros W G. rewrite <- (expect_total _ m). apply expect_mono; auto.
  Qed.
End Expect.

(* ---------------------------------------------------------------------------------------- *)
(* 3. powers of two, blocks of indices                                                       *)
(* ---------------------------------------------------------------------------------------- *)
Definition p2 (j : nat) : Z := 2 ^ Z.of_nat j.

Lemma p2_0 : p2 0 = 1.
Proof. reflexivity. Qed.
Lemma p2_S j : p2 (S j) = 2 * p2 j.
Proof. unfold p2. rewrite Nat2Z.inj_succ, Z.pow_succ_r; lia. Qed.
Lemma p2_pos j : 1 <= p2 j.
Proof. unfold p2. assert (0 < 2 ^ Z.of_nat j) by (apply Z.pow_pos_nonneg; lia). lia. Qed.
Lemma p2_mono i j : (i <= j)%nat -> p2 i <= p2 j.
Proof. unfold p2; intros; apply Z.pow_le_mono_r; lia. Qed.
Lemma p2_eq j : p2 j = 2 ^ Z.of_nat j.
Proof. reflexivity. Qed.
Global Opaque p2.

(* the n consecutive indices starting at i in direction fwd *)
Definition blk (i : Z) (fwd : bool) (n : Z) (x : Z) : Prop :=
  if fwd then i <= x < i + n else i - n < x <= i.
(* the last of them *)
Definition blk_last (i : Z) (fwd : bool) (n : Z) : Z :=
  if fwd then i + n - 1 else i - n + 1.

Definition zlen (l : list Z) : Z := Z.of_nat (length l).
Lemma zlen_app l1 l2 : zlen (l1 ++ l2) = zlen l1 + zlen l2.
Proof. unfold zlen; rewrite app_length; lia. Qed.
Lemma zlen_nil : zlen [] = 0.
Proof. reflexivity. Qed.
Lemma zlen_cons x l : zlen (x :: l) = 1 + zlen l.
Proof. unfold zlen; cbn [length]; lia. Qed.
Lemma zlen_nonneg l : 0 <= zlen l.
Proof. unfold zlen; lia. Qed.

Ltac splits := repeat match goal with |- _ /\ _ => split end.

Section TreeFacts.
  Variable wt : Z -> Q.
  Variable turn : Z -> Z -> bool.
  Variable bad : Z -> bool.
  Variable fatal : Z -> bool.

  Notation sibling := (sibling wt turn bad fatal).
  Notation extend := (extend wt turn bad fatal).
  Notation merge_into := (merge_into).
  Notation leaf := (leaf wt).
  Notation root := (root wt).

  Definition good (x : Z) : Prop := bad x = false /\ fatal x = false.

  (* a U-turn criterion fired on a pair of indices u < v of the block *)
  Definition turn_in (lo hi : Z) : Prop :=
    exists u v, turn u v = true /\ lo <= u /\ u < v /\ v <= hi.

  Lemma merge_into_outcome self other fwd l m :
    outcome (merge_into self other fwd) l m ->
    l = [] /\ exists b, m = merged self other fwd b.
  Proof.
    unfold Tree.merge_into. destruct (Qle_bool _ _); intros H.
    - apply outcome_ret_inv in H; destruct H; eauto.
    - apply outcome_flip_inv in H; destruct H as (c & H).
      apply outcome_ret_inv in H; destruct H; eauto.
  Qed.

  (* ------------------------------------------------------------------------------------ *)
  (* 4. sibling sub-trees                                                                   *)
  (* ------------------------------------------------------------------------------------ *)
  Definition sib_post (j : nat) (i : Z) (fwd check : bool) (l : list Z) (r : sres) : Prop :=
    1 <= zlen l <= p2 j /\
    (forall x, In x l <-> blk i fwd (zlen l) x) /\
    match r with
    | SOk t =>
        zlen l = p2 j /\ t_depth t = j /\ t_main t = false /\
        t_lo t = (if fwd then i else i - p2 j + 1) /\
        t_hi t = (if fwd then i + p2 j - 1 else i) /\
        t_lo t <= t_sel t <= t_hi t /\
        (forall x, In x l -> good x)
    | STurn =>
        check = true /\ (forall x, In x l -> good x) /\
        turn_in (if fwd then i else i - p2 j + 1) (if fwd then i + p2 j - 1 else i)
    | SDiv x =>
        bad x = true /\ fatal x = false /\ x = blk_last i fwd (zlen l) /\
        (forall y, In y l -> y <> x -> good y)
    | SErr x =>
        fatal x = true /\ x = blk_last i fwd (zlen l) /\
        (forall y, In y l -> y <> x -> good y)
    end.

  Lemma turning_turn_in a b fwd :
    turning turn a b fwd = true ->
    t_lo a <= t_hi a -> t_lo b <= t_hi b ->
    (if fwd then t_hi a < t_lo b else t_hi b < t_lo a) ->
    turn_in (if fwd then t_lo a else t_lo b) (if fwd then t_hi b else t_hi a).
  Proof.
    unfold turning, turn_in; intros H Ha Hb Hab.
    apply orb_true_iff in H; destruct H as [H|H].
    - destruct fwd; eexists _, _; split; [exact H| lia | exact H | lia].
    - destruct (t_depth a); [discriminate|].
      apply orb_true_iff in H; destruct H as [H|H]; destruct fwd;
        eexists _, _; (split; [exact H | lia]).
  Qed.

  Lemma sibling_spec j : forall i fwd check l r,
    outcome (sibling j i fwd check) l r -> sib_post j i fwd check l r.
  Proof.
    induction j as [|j IH]; intros i fwd check l r H; cbn [Tree.sibling] in H.
    - apply outcome_tick_inv in H; destruct H as (l' & -> & H).
      unfold sib_post. rewrite p2_0.
      destruct (fatal i) eqn:Ef; [|destruct (bad i) eqn:Eb];
        apply outcome_ret_inv in H; destruct H as (-> & ->);
        rewrite zlen_cons, zlen_nil; (split; [lia|]);
        (split; [intros x; cbn [In]; unfold blk; destruct fwd; lia|]).
      + unfold blk_last; splits; auto; try (destruct fwd; lia).
        intros y [<-|[]] Hy; congruence.
      + unfold blk_last; splits; auto; try (destruct fwd; lia).
        intros y [<-|[]] Hy; congruence.
      + cbn [leaf Tree.leaf t_depth t_main t_lo t_hi t_sel].
        splits; auto; try (destruct fwd; lia). intros x [<-|[]]; split; auto.
    - apply outcome_bind_inv in H; destruct H as (ra & l1 & l2 & H1 & H2 & ->).
      apply IH in H1. destruct H1 as (Hn1 & Hin1 & Hr1).
      assert (P2 := p2_S j). assert (P2p := p2_pos j).
      destruct ra as [a| |x|x].
      2:{ (* STurn *)
        apply outcome_ret_inv in H2; destruct H2 as (-> & ->). rewrite app_nil_r.
        unfold sib_post. split; [lia|]. split; [auto|].
        destruct Hr1 as (Hc & Hg & (u & v & Hu)). splits; auto.
        exists u, v. destruct fwd; intuition lia. }
      2:{ apply outcome_ret_inv in H2; destruct H2 as (-> & ->). rewrite app_nil_r.
        unfold sib_post. split; [lia|]. split; [auto|]. auto. }
      2:{ apply outcome_ret_inv in H2; destruct H2 as (-> & ->). rewrite app_nil_r.
        unfold sib_post. split; [lia|]. split; [auto|]. auto. }
      destruct Hr1 as (Hl1 & Hd & Hm & Hlo & Hhi & Hsel & Hg1).
      apply outcome_bind_inv in H2; destruct H2 as (rb & l2a & l2b & H2 & H3 & ->).
      apply IH in H2. destruct H2 as (Hn2 & Hin2 & Hr2).
      assert (Hnext : next_index a fwd = if fwd then i + p2 j else i - p2 j).
      { unfold next_index; destruct fwd; lia. }
      rewrite Hnext in *.
      assert (Hin12 : forall x, In x (l1 ++ l2a) <-> blk i fwd (zlen (l1 ++ l2a)) x).
      { intros x. rewrite in_app_iff, Hin1, Hin2, zlen_app. unfold blk; destruct fwd; lia. }
      destruct rb as [b| |x|x].
      2:{ apply outcome_ret_inv in H3; destruct H3 as (-> & ->). rewrite app_nil_r.
        unfold sib_post. rewrite zlen_app. split; [lia|]. split; [rewrite <- zlen_app; auto|].
        destruct Hr2 as (Hc & Hg & (u & v & Hu)). splits; auto.
        - intros y Hy; apply in_app_iff in Hy; destruct Hy; auto.
        - exists u, v. destruct fwd; intuition lia. }
      2:{ apply outcome_ret_inv in H3; destruct H3 as (-> & ->). rewrite app_nil_r.
        unfold sib_post. rewrite zlen_app. split; [lia|]. split; [rewrite <- zlen_app; auto|].
        destruct Hr2 as (Hb & Hf & Hx & Hg). splits; auto.
        - unfold blk_last in *; destruct fwd; lia.
        - intros y Hy Hne; apply in_app_iff in Hy; destruct Hy; [apply Hg1 | apply Hg]; auto. }
      2:{ apply outcome_ret_inv in H3; destruct H3 as (-> & ->). rewrite app_nil_r.
        unfold sib_post. rewrite zlen_app. split; [lia|]. split; [rewrite <- zlen_app; auto|].
        destruct Hr2 as (Hf & Hx & Hg). splits; auto.
        - unfold blk_last in *; destruct fwd; lia.
        - intros y Hy Hne; apply in_app_iff in Hy; destruct Hy; [apply Hg1 | apply Hg]; auto. }
      destruct Hr2 as (Hl2 & Hd2 & Hm2 & Hlo2 & Hhi2 & Hsel2 & Hg2).
      apply outcome_bind_inv in H3; destruct H3 as (m & l3 & l4 & H3 & H4 & ->).
      apply merge_into_outcome in H3; destruct H3 as (-> & c & ->).
      apply outcome_ret_inv in H4; destruct H4 as (-> & ->). cbn [app]. rewrite app_nil_r.
      assert (Hg12 : forall x, In x (l1 ++ l2a) -> good x).
      { intros y Hy; apply in_app_iff in Hy; destruct Hy; auto. }
      unfold sib_post. split; [rewrite zlen_app; lia|]. split; [auto|].
      destruct (check && turning turn a b fwd) eqn:Et.
      + apply andb_true_iff in Et; destruct Et as (Ec & Et).
        split; auto. split; auto.
        apply turning_turn_in in Et; try lia; [|destruct fwd; lia].
        destruct Et as (u & v & Hu); exists u, v. destruct fwd; intuition lia.
      + cbn [merged t_depth t_main t_lo t_hi t_sel]. rewrite zlen_app.
        splits; auto; try (destruct fwd; lia); destruct c, fwd; lia.
  Qed.

  (* T8: without the U-turn check a sibling never reports a turn *)
  Theorem sibling_nocheck_noturn j i fwd l :
    ~ outcome (sibling j i fwd false) l STurn.
  Proof.
    intros H; apply sibling_spec in H. destruct H as (_ & _ & (H & _)); discriminate.
  Qed.

  (* ------------------------------------------------------------------------------------ *)
  (* 5. extend                                                                              *)
  (* ------------------------------------------------------------------------------------ *)
  Definition shape (t : tree) : Prop :=
    t_lo t <= t_sel t <= t_hi t /\ t_hi t - t_lo t + 1 = p2 (t_depth t).

  (* t' is t doubled in direction fwd *)
  Definition ext_tree (t t' : tree) (fwd : bool) : Prop :=
    t_main t' = t_main t /\ t_depth t' = S (t_depth t) /\
    t_lo t' = (if fwd then t_lo t else t_lo t - p2 (t_depth t)) /\
    t_hi t' = (if fwd then t_hi t + p2 (t_depth t) else t_hi t) /\
    t_lo t' <= t_sel t' <= t_hi t'.

  Definition ext_post (t : tree) (fwd check : bool) (l : list Z) (r : xres) : Prop :=
    let d := t_depth t in
    1 <= zlen l <= p2 d /\
    (forall x, In x l <-> blk (next_index t fwd) fwd (zlen l) x) /\
    match r with
    | XOk t' => zlen l = p2 d /\ ext_tree t t' fwd /\ (forall x, In x l -> good x)
    | XTurn t' =>
        check = true /\ (forall x, In x l -> good x) /\
        (t' = t \/ (zlen l = p2 d /\ ext_tree t t' fwd)) /\
        turn_in (if fwd then t_lo t else t_lo t - p2 d) (if fwd then t_hi t + p2 d else t_hi t)
    | XDiv t' x =>
        t' = t /\ bad x = true /\ fatal x = false /\
        x = blk_last (next_index t fwd) fwd (zlen l) /\
        (forall y, In y l -> y <> x -> good y)
    | XErr x =>
        fatal x = true /\ x = blk_last (next_index t fwd) fwd (zlen l) /\
        (forall y, In y l -> y <> x -> good y)
    end.

  Lemma extend_spec t fwd check l r :
    shape t -> outcome (extend t fwd check) l r -> ext_post t fwd check l r.
  Proof.
    intros (Hsel & Hsz) H. unfold Tree.extend in H.
    apply outcome_bind_inv in H; destruct H as (rs & l1 & l2 & H1 & H2 & ->).
    apply sibling_spec in H1; destruct H1 as (Hn & Hin & Hr).
    assert (P2p := p2_pos (t_depth t)).
    destruct rs as [b| |x|x].
    - destruct Hr as (Hl & Hd & Hm & Hlo & Hhi & Hselb & Hg).
      apply outcome_bind_inv in H2; destruct H2 as (m & l3 & l4 & H3 & H4 & ->).
      apply merge_into_outcome in H3; destruct H3 as (-> & c & ->).
      apply outcome_ret_inv in H4; destruct H4 as (-> & ->). cbn [app]. rewrite app_nil_r.
      assert (Hext : ext_tree t (merged t b fwd c) fwd).
      { unfold ext_tree, next_index in *. cbn [merged t_depth t_main t_lo t_hi t_sel].
        splits; auto; destruct c, fwd; lia. }
      unfold ext_post. split; [lia|]. split; [auto|].
      destruct (check && turning turn t b fwd) eqn:Et.
      + apply andb_true_iff in Et; destruct Et as (Ec & Et). splits; auto.
        apply turning_turn_in in Et; try lia; [|unfold next_index in *; destruct fwd; lia].
        destruct Et as (u & v & Hu); exists u, v.
        unfold next_index in *; destruct fwd; intuition lia.
      + splits; auto.
    - apply outcome_ret_inv in H2; destruct H2 as (-> & ->). rewrite app_nil_r.
      unfold ext_post. split; [lia|]. split; [auto|].
      destruct Hr as (Hc & Hg & (u & v & Hu)). splits; auto.
      exists u, v. unfold next_index in *; destruct fwd; intuition lia.
    - apply outcome_ret_inv in H2; destruct H2 as (-> & ->). rewrite app_nil_r.
      unfold ext_post. split; [lia|]. split; [auto|].
      destruct Hr as (Hb & Hf & Hx & Hg). splits; auto.
    - apply outcome_ret_inv in H2; destruct H2 as (-> & ->). rewrite app_nil_r.
      unfold ext_post. split; [lia|]. split; [auto|]. auto.
  Qed.

  (* T8 for extend *)
  Theorem extend_nocheck_noturn t fwd l t' :
    shape t -> ~ outcome (extend t fwd false) l (XTurn t').
  Proof.
    intros Hs H; apply extend_spec in H; auto. destruct H as (_ & _ & (H & _)); discriminate.
  Qed.

  (* ------------------------------------------------------------------------------------ *)
  (* 6. the main tree                                                                       *)
  (* ------------------------------------------------------------------------------------ *)
  (* the tree [lo,hi] of depth d with draw sel, grown from a, after the ticks l *)
  Definition inv (a : Z) (l : list Z) (lo hi sel : Z) (d : nat) : Prop :=
    lo <= a <= hi /\ lo <= sel <= hi /\ hi - lo + 1 = p2 d /\
    (forall x, lo <= x <= hi -> x <> a -> In x l /\ good x).
  Notation tinv a l t := (inv a l (t_lo t) (t_hi t) (t_sel t) (t_depth t)).
  Notation rinv a l r := (inv a l (d_lo r) (d_hi r) (d_sel r) (d_depth r)).

  Lemma tinv_shape a l t : tinv a l t -> shape t.
  Proof. intros (? & ? & ? & ?); split; auto. Qed.

  Lemma inv_weaken a l l' lo hi sel d : inv a l lo hi sel d -> inv a (l ++ l') lo hi sel d.
  Proof.
    intros (H1 & H2 & H3 & H4); unfold inv; splits; try lia.
    intros x Hx Hne; destruct (H4 x Hx Hne); split; auto. apply in_app_iff; auto.
  Qed.

  Lemma tinv_ext a l0 l t t' fwd :
    tinv a l0 t -> ext_tree t t' fwd ->
    (forall x, In x l <-> blk (next_index t fwd) fwd (p2 (t_depth t)) x) ->
    (forall x, In x l -> good x) ->
    tinv a (l0 ++ l) t'.
  Proof.
    intros (H1 & H2 & H3 & H4) (E1 & E2 & E3 & E4 & E5) Hin Hg.
    assert (P2 := p2_S (t_depth t)). assert (P2p := p2_pos (t_depth t)).
    unfold inv. rewrite E2. splits; try (destruct fwd; lia).
    intros x Hx Hne. rewrite in_app_iff.
    destruct (Z_le_dec (t_lo t) x) as [Hl|Hl]; [destruct (Z_le_dec x (t_hi t)) as [Hh|Hh]|].
    - destruct (H4 x (conj Hl Hh) Hne); auto.
    - assert (Hx' : In x l) by (apply Hin; unfold blk, next_index; destruct fwd; lia). auto.
    - assert (Hx' : In x l) by (apply Hin; unfold blk, next_index; destruct fwd; lia). auto.
  Qed.

  Lemma blk_last_in i fwd n : 1 <= n -> blk i fwd n (blk_last i fwd n).
  Proof. unfold blk, blk_last; destruct fwd; lia. Qed.

  (* where a reported divergence lies: outside the returned tree, within one tree-width *)
  Definition div_post (l : list Z) (r : dres) : Prop :=
    forall x, d_div r = Some x ->
      bad x = true /\ fatal x = false /\ In x l /\
      (d_hi r < x <= d_hi r + p2 (d_depth r) \/ d_lo r - p2 (d_depth r) <= x < d_lo r).

  Notation extra_loop := (extra_loop wt turn bad fatal).

  Lemma xdiv_post a l0 l1 t fwd x :
    tinv a l0 t ->
    ext_post t fwd false l1 (XDiv t x) \/ ext_post t fwd true l1 (XDiv t x) ->
    rinv a (l0 ++ l1 ++ []) (finish t false (Some x)) /\
    div_post (l1 ++ []) (finish t false (Some x)).
  Proof.
    intros Hinv Hp. rewrite app_nil_r.
    assert (Hp' : 1 <= zlen l1 <= p2 (t_depth t) /\
                  (forall y, In y l1 <-> blk (next_index t fwd) fwd (zlen l1) y) /\
                  bad x = true /\ fatal x = false /\
                  x = blk_last (next_index t fwd) fwd (zlen l1)).
    { destruct Hp as [Hp|Hp]; destruct Hp as (Hn & Hin & (_ & Hb & Hf & Hx & _)); auto. }
    clear Hp. destruct Hp' as (Hn & Hin & Hb & Hf & Hx).
    split; [apply inv_weaken; exact Hinv|].
    intros y Hy. cbn [finish d_div d_hi d_lo d_depth] in *. inversion Hy; subst y.
    assert (Hb' := blk_last_in (next_index t fwd) fwd (zlen l1) ltac:(lia)).
    rewrite <- Hx in Hb'. splits; auto; [apply Hin; auto|].
    unfold blk, next_index in Hb'; destruct fwd; lia.
  Qed.

  Lemma extra_spec a n : forall t fwd l0 l r,
    tinv a l0 t -> outcome (extra_loop n t fwd) l r ->
    match d_err r with
    | Some x => fatal x = true /\ In x l
    | None =>
        rinv a (l0 ++ l) r /\ d_maxdepth r = false /\
        (t_depth t <= d_depth r <= t_depth t + n)%nat /\
        d_lo r <= t_lo t /\ t_hi t <= d_hi r /\
        (n = 0%nat -> l = []) /\
        div_post l r
    end.
  Proof.
    induction n as [|n IH]; intros t fwd l0 l r Hinv H; cbn [Tree.extra_loop] in H.
    - apply outcome_ret_inv in H; destruct H as (-> & ->).
      cbn [finish d_err d_lo d_hi d_sel d_depth d_maxdepth]. rewrite app_nil_r.
      splits; auto; try lia. intros x Hx; discriminate.
    - apply outcome_bind_inv in H; destruct H as (rx & l1 & l2 & H1 & H2 & ->).
      apply extend_spec in H1; [|eapply tinv_shape; eauto].
      assert (P2 := p2_S (t_depth t)). assert (P2p := p2_pos (t_depth t)).
      assert (Step : forall t', ext_tree t t' fwd -> zlen l1 = p2 (t_depth t) ->
                (forall x, In x l1 <-> blk (next_index t fwd) fwd (zlen l1) x) ->
                (forall x, In x l1 -> good x) ->
                outcome (extra_loop n t' fwd) l2 r ->
                match d_err r with
                | Some x => fatal x = true /\ In x (l1 ++ l2)
                | None =>
                    rinv a (l0 ++ l1 ++ l2) r /\ d_maxdepth r = false /\
                    (t_depth t <= d_depth r <= t_depth t + S n)%nat /\
                    d_lo r <= t_lo t /\ t_hi t <= d_hi r /\
                    (S n = 0%nat -> l1 ++ l2 = []) /\
                    div_post (l1 ++ l2) r
                end).
      { intros t' Hext Hl Hin Hg H2'.
        assert (Hinv' : tinv a (l0 ++ l1) t').
        { eapply tinv_ext; eauto. rewrite <- Hl; auto. }
        specialize (IH _ _ _ _ _ Hinv' H2').
        destruct Hext as (E1 & E2 & E3 & E4 & E5).
        destruct (d_err r) as [x|].
        - destruct IH; split; auto. apply in_app_iff; auto.
        - destruct IH as (I1 & I2 & I3 & I4 & I5 & I6 & I7).
          rewrite <- app_assoc in I1. splits; auto; try lia; try (destruct fwd; lia).
          intros x Hx; destruct (I7 x Hx) as (? & ? & ? & ?); splits; auto.
          apply in_app_iff; auto. }
      destruct rx as [t'|t'|t' x|x].
      + destruct H1 as (Hn & Hin & (Hl & Hext & Hg)). eapply Step; eauto.
      + destruct H1 as (Hn & Hin & (Hc & Hg & [->|(Hl & Hext)] & _)).
        * assert (Hinv' : tinv a (l0 ++ l1) t) by (apply inv_weaken; auto).
          specialize (IH _ _ _ _ _ Hinv' H2).
          destruct (d_err r) as [x|].
          -- destruct IH; split; auto. apply in_app_iff; auto.
          -- destruct IH as (I1 & I2 & I3 & I4 & I5 & I6 & I7).
             rewrite <- app_assoc in I1. splits; auto; try lia.
        * eapply Step; eauto.
      + apply outcome_ret_inv in H2; destruct H2 as (-> & ->).
        assert (t' = t) by (destruct H1 as (_ & _ & (-> & _)); auto); subst t'.
        destruct (xdiv_post a l0 l1 t fwd x Hinv (or_introl H1)) as (X1 & X2).
        cbn [finish d_err]. splits; auto; cbn [finish d_depth d_lo d_hi d_maxdepth]; try lia.
      + apply outcome_ret_inv in H2; destruct H2 as (-> & ->). rewrite app_nil_r.
        destruct H1 as (Hn & Hin & (Hf & Hx & _)). cbn [failed d_err]. split; auto.
        apply Hin. rewrite Hx. apply blk_last_in; lia.
  Qed.

  (* ------------------------------------------------------------------------------------ *)
  (* 7. the draw loop                                                                       *)
  (* ------------------------------------------------------------------------------------ *)
  Variable o : nopts.
  Notation draw_loop := (draw_loop wt turn bad fatal o).
  Notation pdraw := (pdraw wt turn bad fatal o).

  (* l0: ticks before the loop was entered at a tree of depth d0; l: ticks of the loop *)
  Definition draw_post (a : Z) (l0 l : list Z) (d0 : nat) (r : dres) : Prop :=
    match d_err r with
    | Some x => fatal x = true /\ In x l
    | None =>
        rinv a (l0 ++ l) r /\
        (d0 <= d_depth r <= n_maxdepth o + n_extra o)%nat /\
        (d_maxdepth r = true ->
           d_depth r = n_maxdepth o /\ d_div r = None /\ zlen (l0 ++ l) = p2 (d_depth r) - 1) /\
        div_post l r /\
        (d_maxdepth r = false -> d_div r = None ->
           n_check o = true /\ (n_mindepth o <= d_depth r)%nat /\
           turn_in (d_lo r - p2 (d_depth r)) (d_hi r + p2 (d_depth r))) /\
        (n_extra o = 0%nat ->
           (d_depth r <= n_maxdepth o)%nat /\
           p2 (d_depth r) - 1 <= zlen (l0 ++ l) <= 2 * p2 (d_depth r) - 1)
    end.

  Lemma draw_post_shift a l0 l1 l2 d d' r :
    (d <= d')%nat -> draw_post a (l0 ++ l1) l2 d' r -> draw_post a l0 (l1 ++ l2) d r.
  Proof.
    unfold draw_post; intros Hd H. destruct (d_err r) as [x|].
    - destruct H; split; auto. apply in_app_iff; auto.
    - rewrite <- app_assoc in H. destruct H as (I1 & I2 & I3 & I4 & I5 & I6).
      splits; auto; try lia.
      intros x Hx; destruct (I4 x Hx) as (? & ? & ? & ?); splits; auto.
      apply in_app_iff; auto.
  Qed.

  Lemma draw_spec a fuel : forall t l0 l r,
    tinv a l0 t -> zlen l0 = p2 (t_depth t) - 1 ->
    (fuel + t_depth t = n_maxdepth o)%nat ->
    outcome (draw_loop fuel t) l r ->
    draw_post a l0 l (t_depth t) r.
  Proof.
    induction fuel as [|f IH]; intros t l0 l r Hinv Hcnt Hfuel H; cbn [Tree.draw_loop] in H.
    - apply outcome_ret_inv in H; destruct H as (-> & ->).
      unfold draw_post. cbn [finish d_err d_lo d_hi d_sel d_depth d_maxdepth d_div].
      rewrite app_nil_r. assert (P2p := p2_pos (t_depth t)).
      splits; auto; try lia; try discriminate.
    - apply outcome_dir_inv in H; destruct H as (fwd & H).
      apply outcome_bind_inv in H; destruct H as (rx & l1 & l2 & H1 & H2 & ->).
      apply extend_spec in H1; [|eapply tinv_shape; eauto].
      assert (P2 := p2_S (t_depth t)). assert (P2p := p2_pos (t_depth t)).
      set (chk := n_check o && (n_mindepth o <=? t_depth t)%nat) in *.
      destruct rx as [t'|t'|t' x|x].
      + (* XOk: continue the loop *)
        destruct H1 as (Hn & Hin & (Hl & Hext & Hg)).
        assert (Hinv' : tinv a (l0 ++ l1) t').
        { eapply tinv_ext; eauto. rewrite <- Hl; auto. }
        destruct Hext as (E1 & E2 & E3 & E4 & E5).
        apply (draw_post_shift a l0 l1 l2 (t_depth t) (t_depth t')); [lia|].
        apply IH; auto; [rewrite zlen_app, E2; lia | lia].
      + (* XTurn: extra doublings *)
        destruct H1 as (Hn & Hin & (Hc & Hg & Ht' & Hturn)).
        apply andb_true_iff in Hc; destruct Hc as (Hc1 & Hc2). apply Nat.leb_le in Hc2.
        assert (Hinv' : tinv a (l0 ++ l1) t' /\ (t_depth t <= t_depth t' <= S (t_depth t))%nat /\
                        t_lo t' <= t_lo t /\ t_hi t <= t_hi t' /\
                        p2 (t_depth t') - 1 <= zlen (l0 ++ l1) <= 2 * p2 (t_depth t') - 1 /\
                        turn_in (t_lo t' - p2 (t_depth t')) (t_hi t' + p2 (t_depth t'))).
        { destruct Hturn as (u & v & Hu).
          destruct Ht' as [->|(Hl & Hext)].
          - splits; try lia; [apply inv_weaken; auto | rewrite zlen_app; lia
                              | rewrite zlen_app; lia |].
            exists u, v; destruct fwd; intuition lia.
          - split; [eapply tinv_ext; eauto; rewrite <- Hl; auto|].
            destruct Hext as (E1 & E2 & E3 & E4 & E5). rewrite E2, zlen_app.
            splits; try lia; try (destruct fwd; lia).
            assert (P2' := p2_pos (S (t_depth t))).
            exists u, v; destruct fwd; intuition lia. }
        destruct Hinv' as (Hinv' & Hd' & Hlo' & Hhi' & Hcnt' & (u & v & Hu)).
        pose proof (extra_spec a _ _ _ _ _ _ Hinv' H2) as Hx.
        unfold draw_post. destruct (d_err r) as [x|].
        * destruct Hx; split; auto. apply in_app_iff; auto.
        * destruct Hx as (I1 & I2 & I3 & I4 & I5 & I6 & I7).
          rewrite <- app_assoc in I1.
          split; [exact I1|]. split; [lia|].
          split; [rewrite I2; discriminate|].
          split; [intros y Hy; destruct (I7 y Hy) as (? & ? & ? & ?); splits; auto;
                  apply in_app_iff; auto|].
          split.
          -- intros _ _. splits; auto; try lia.
             assert (p2 (t_depth t') <= p2 (d_depth r)) by (apply p2_mono; lia).
             exists u, v; intuition lia.
          -- intros He. rewrite He in *. specialize (I6 eq_refl). subst l2.
             rewrite app_nil_r. replace (d_depth r) with (t_depth t') by lia.
             split; lia.
      + (* XDiv *)
        apply outcome_ret_inv in H2; destruct H2 as (-> & ->).
        assert (t' = t) by (destruct H1 as (_ & _ & (-> & _)); auto); subst t'.
        assert (Hn : 1 <= zlen l1 <= p2 (t_depth t)) by (destruct H1; auto).
        assert (H1' : ext_post t fwd false l1 (XDiv t x) \/ ext_post t fwd true l1 (XDiv t x))
          by (destruct chk; auto).
        destruct (xdiv_post a l0 l1 t fwd x Hinv H1') as (X1 & X2).
        unfold draw_post. cbn [finish d_err]. split; [exact X1|].
        cbn [finish d_depth d_lo d_hi d_maxdepth d_div].
        splits; auto; try lia; try discriminate.
        intros _. rewrite app_nil_r, zlen_app; lia.
      + (* XErr *)
        apply outcome_ret_inv in H2; destruct H2 as (-> & ->). rewrite app_nil_r.
        destruct H1 as (Hn & Hin & (Hf & Hx & _)).
        unfold draw_post; cbn [failed d_err]. split; auto.
        apply Hin. rewrite Hx. apply blk_last_in; lia.
  Qed.

  (* at least one leapfrog step whenever the loop body runs *)
  Lemma draw_loop_ticks f t l r :
    shape t -> outcome (draw_loop (S f) t) l r -> 1 <= zlen l.
  Proof.
    intros Hs H; cbn [Tree.draw_loop] in H.
    apply outcome_dir_inv in H; destruct H as (fwd & H).
    apply outcome_bind_inv in H; destruct H as (rx & l1 & l2 & H1 & H2 & ->).
    apply extend_spec in H1; auto. destruct H1 as (Hn & _).
    rewrite zlen_app. pose proof (zlen_nonneg l2). lia.
  Qed.

  (* ------------------------------------------------------------------------------------ *)
  (* 8. pdraw: the theorems                                                                 *)
  (* ------------------------------------------------------------------------------------ *)
  Variable a : Z.

  Lemma pdraw_cases ticks r :
    outcome (pdraw a) ticks r ->
    (n_dim0 o = true /\ ticks = [] /\ r = finish (root a) false None) \/
    (n_dim0 o = false /\ draw_post a [] ticks 0 r).
  Proof.
    unfold Tree.pdraw. destruct (n_dim0 o); intros H.
    - left. apply outcome_ret_inv in H; destruct H; auto.
    - right. split; auto.
      apply (draw_spec a (n_maxdepth o) (root a) [] ticks r); auto;
        cbn [root Tree.root t_lo t_hi t_sel t_depth]; try (rewrite p2_0; reflexivity); try lia.
      unfold inv. rewrite p2_0. splits; try lia.
  Qed.

  (* everything at once, for the outcomes that are not errors *)
  Lemma pdraw_ok ticks r :
    outcome (pdraw a) ticks r -> d_err r = None ->
    rinv a ticks r /\
    (d_depth r <= n_maxdepth o + n_extra o)%nat /\
    (d_maxdepth r = true ->
       n_dim0 o = false /\ d_depth r = n_maxdepth o /\ d_div r = None /\
       zlen ticks = p2 (d_depth r) - 1) /\
    div_post ticks r /\
    (n_dim0 o = false -> d_maxdepth r = false -> d_div r = None ->
       n_check o = true /\ (n_mindepth o <= d_depth r)%nat /\
       turn_in (d_lo r - p2 (d_depth r)) (d_hi r + p2 (d_depth r))) /\
    (n_dim0 o = false -> n_extra o = 0%nat ->
       (d_depth r <= n_maxdepth o)%nat /\
       p2 (d_depth r) - 1 <= zlen ticks <= 2 * p2 (d_depth r) - 1) /\
    (n_dim0 o = true -> ticks = [] /\ d_sel r = a /\ d_depth r = 0%nat /\ d_div r = None).
  Proof.
    intros H He. apply pdraw_cases in H. destruct H as [(Hd & -> & ->)|(Hd & H)].
    - cbn [finish root Tree.root d_lo d_hi d_sel d_depth d_maxdepth d_div t_lo t_hi t_sel t_depth].
      unfold inv. rewrite p2_0. splits; auto; try lia; try discriminate; try congruence.
    - unfold draw_post in H. rewrite He in H. cbn [app] in H.
      destruct H as (I1 & I2 & I3 & I4 & I5 & I6).
      splits; auto; try lia; try congruence.
  Qed.

  (* T1 (interval shape) *)
  Theorem T1_interval ticks r :
    outcome (pdraw a) ticks r -> d_err r = None ->
    d_lo r <= a <= d_hi r /\ d_lo r <= d_sel r <= d_hi r /\
    d_hi r - d_lo r + 1 = 2 ^ Z.of_nat (d_depth r).
  Proof.
    intros H He. destruct (pdraw_ok _ _ H He) as ((I1 & I2 & I3 & _) & _).
    rewrite <- p2_eq. auto.
  Qed.

  Corollary T1_distance ticks r :
    outcome (pdraw a) ticks r -> d_err r = None ->
    Z.abs (d_sel r - a) <= 2 ^ Z.of_nat (d_depth r) - 1.
  Proof. intros H He. destruct (T1_interval _ _ H He) as (? & ? & ?). lia. Qed.

  (* T2 (depth bound) *)
  Theorem T2_depth_general ticks r :
    outcome (pdraw a) ticks r -> d_err r = None ->
    (d_depth r <= n_maxdepth o + n_extra o)%nat.
  Proof. intros H He. apply (pdraw_ok _ _ H He). Qed.

  Corollary T2_depth ticks r :
    n_extra o = 0%nat -> outcome (pdraw a) ticks r -> d_err r = None ->
    (d_depth r <= n_maxdepth o)%nat.
  Proof. intros Hx H He. pose proof (T2_depth_general _ _ H He). lia. Qed.

  (* T3 (maxdepth flag), forward direction: holds for all options *)
  Theorem T3_maxdepth_flag ticks r :
    outcome (pdraw a) ticks r -> d_err r = None -> d_maxdepth r = true ->
    d_depth r = n_maxdepth o /\ d_div r = None /\ n_dim0 o = false /\
    Z.of_nat (length ticks) = 2 ^ Z.of_nat (n_maxdepth o) - 1.
  Proof.
    intros H He Hm. destruct (pdraw_ok _ _ H He) as (_ & _ & I3 & _).
    destruct (I3 Hm) as (? & E & ? & Hc). rewrite <- p2_eq, <- E. auto.
  Qed.

  (* T3, the other direction: the flag is false only after a divergence or a U-turn (and a
     U-turn needs the check to be on, the depth to have reached mindepth, and a pair of indices
     within one tree-width of the returned tree on which the criterion fired) *)
  Theorem T3_flag_false ticks r :
    outcome (pdraw a) ticks r -> d_err r = None -> n_dim0 o = false ->
    d_maxdepth r = false ->
    d_div r <> None \/
    (n_check o = true /\ (n_mindepth o <= d_depth r)%nat /\
     exists u v, turn u v = true /\ u < v /\
       d_lo r - 2 ^ Z.of_nat (d_depth r) <= u /\ v <= d_hi r + 2 ^ Z.of_nat (d_depth r)).
  Proof.
    intros H He Hd Hm. destruct (pdraw_ok _ _ H He) as (_ & _ & _ & _ & I5 & _).
    destruct (d_div r) as [x|] eqn:Ed; [left; discriminate|right].
    destruct (I5 Hd Hm eq_refl) as (? & ? & (u & v & ? & ? & ? & ?)). rewrite <- p2_eq.
    splits; auto. exists u, v; auto.
  Qed.

  (* consequently: with the check off (or a criterion that never fires) every non-error,
     non-diverging draw reaches maxdepth and is flagged *)
  Corollary T3_nocheck ticks r :
    outcome (pdraw a) ticks r -> d_err r = None -> n_dim0 o = false ->
    n_check o = false \/ (forall u v, turn u v = false) ->
    d_div r = None -> d_maxdepth r = true /\ d_depth r = n_maxdepth o.
  Proof.
    intros H He Hd Hc Hv.
    destruct (d_maxdepth r) eqn:Hm.
    - split; auto. apply (T3_maxdepth_flag _ _ H He Hm).
    - destruct (T3_flag_false _ _ H He Hd Hm) as [C|(C1 & _ & (u & v & C2 & _))];
        [congruence|]. destruct Hc as [Hc|Hc]; [congruence|]. rewrite Hc in C2; discriminate.
  Qed.

  (* T4 (step count) *)
  Theorem T4_steps ticks r :
    n_extra o = 0%nat -> n_dim0 o = false ->
    outcome (pdraw a) ticks r -> d_err r = None ->
    2 ^ Z.of_nat (d_depth r) - 1 <= Z.of_nat (length ticks)
      <= 2 ^ (Z.of_nat (d_depth r) + 1) - 1.
  Proof.
    intros Hx Hd H He. destruct (pdraw_ok _ _ H He) as (_ & _ & _ & _ & _ & I6 & _).
    destruct (I6 Hd Hx) as (_ & I). rewrite Z.pow_add_r, Z.pow_1_r, <- p2_eq by lia.
    unfold zlen in I. lia.
  Qed.

  (* at least one leapfrog step (also for the outcomes that are errors) *)
  Theorem T4_at_least_one ticks r :
    (1 <= n_maxdepth o)%nat -> n_dim0 o = false ->
    outcome (pdraw a) ticks r -> (1 <= length ticks)%nat.
  Proof.
    intros Hm Hd H. unfold Tree.pdraw in H. rewrite Hd in H.
    destruct (n_maxdepth o) as [|f]; [lia|].
    apply draw_loop_ticks in H; [unfold zlen in H; lia|].
    split; cbn [root Tree.root t_lo t_hi t_sel t_depth]; [lia|rewrite p2_0; lia].
  Qed.

  (* T5 (the returned tree was visited and contains no diverged state) *)
  Theorem T5_visited ticks r :
    outcome (pdraw a) ticks r -> d_err r = None ->
    (d_sel r = a \/ In (d_sel r) ticks) /\
    (forall i, d_lo r <= i <= d_hi r -> i <> a ->
       In i ticks /\ bad i = false /\ fatal i = false).
  Proof.
    intros H He. destruct (pdraw_ok _ _ H He) as ((I1 & I2 & I3 & I4) & _).
    split; [|exact I4].
    destruct (Z.eq_dec (d_sel r) a) as [E|E]; auto. right. apply (I4 _ I2 E).
  Qed.

  (* T6 (divergence and error reporting) *)
  Theorem T6_divergence ticks r i :
    outcome (pdraw a) ticks r -> d_err r = None -> d_div r = Some i ->
    bad i = true /\ fatal i = false /\ In i ticks /\ n_dim0 o = false /\
    (d_hi r < i <= d_hi r + 2 ^ Z.of_nat (d_depth r) \/
     d_lo r - 2 ^ Z.of_nat (d_depth r) <= i < d_lo r).
  Proof.
    intros H He Hv. destruct (pdraw_ok _ _ H He) as (_ & _ & _ & I4 & _ & _ & I7).
    destruct (I4 _ Hv) as (? & ? & ? & ?). rewrite <- p2_eq. splits; auto.
    destruct (n_dim0 o); auto. destruct (I7 eq_refl) as (_ & _ & _ & C); congruence.
  Qed.

  Theorem T6_error ticks r i :
    outcome (pdraw a) ticks r -> d_err r = Some i -> fatal i = true /\ In i ticks.
  Proof.
    intros H He. apply pdraw_cases in H. destruct H as [(_ & _ & ->)|(_ & H)].
    - discriminate.
    - unfold draw_post in H. rewrite He in H. auto.
  Qed.

  (* T7 (dimension 0) *)
  Theorem T7_dim0 ticks r :
    n_dim0 o = true -> outcome (pdraw a) ticks r ->
    ticks = [] /\ d_sel r = a /\ d_depth r = 0%nat /\ d_err r = None /\ d_div r = None /\
    d_maxdepth r = false /\ d_lo r = a /\ d_hi r = a.
  Proof.
    intros Hd H. apply pdraw_cases in H. destruct H as [(_ & -> & ->)|(C & _)]; [|congruence].
    cbn; splits; auto.
  Qed.

  (* ------------------------------------------------------------------------------------ *)
  (* 9. the coins of pdraw are probabilities                                                *)
  (* ------------------------------------------------------------------------------------ *)
  Section Weights.
    Hypothesis wt_nonneg : forall i, (0 <= wt i)%Q.
    Local Open Scope Q_scope.

    Lemma merge_into_wf self other fwd :
      0 <= t_w self -> 0 <= t_w other -> wf_probs (merge_into self other fwd).
    Proof.
      intros Hs Ho. unfold Tree.merge_into.
      set (ss := if t_main self then t_w self else t_w self + t_w other).
      destruct (Qle_bool ss (t_w other)) eqn:E; [constructor|].
      constructor; [|intros; constructor].
      assert (Hlt : t_w other < ss).
      { apply Qnot_le_lt. intros C. apply Qle_bool_iff in C. congruence. }
      split.
      - apply Qle_shift_div_l; lra.
      - apply Qle_shift_div_r; lra.
    Qed.

    Lemma sibling_w j : forall i fwd check l t,
      outcome (sibling j i fwd check) l (SOk t) -> 0 <= t_w t.
    Proof.
      induction j as [|j IH]; intros i fwd check l t H; cbn [Tree.sibling] in H.
      - apply outcome_tick_inv in H; destruct H as (l' & -> & H).
        destruct (fatal i); [|destruct (bad i)];
          apply outcome_ret_inv in H; destruct H as (_ & H); inversion H.
        cbn [Tree.leaf t_w]. apply wt_nonneg.
      - apply outcome_bind_inv in H; destruct H as (ra & l1 & l2 & H1 & H2 & ->).
        destruct ra as [ta| |x|x];
          try (apply outcome_ret_inv in H2; destruct H2 as (_ & H2); discriminate).
        apply outcome_bind_inv in H2; destruct H2 as (rb & l3 & l4 & H3 & H4 & ->).
        destruct rb as [tb| |x|x];
          try (apply outcome_ret_inv in H4; destruct H4 as (_ & H4); discriminate).
        apply outcome_bind_inv in H4; destruct H4 as (m & l5 & l6 & H5 & H6 & ->).
        apply merge_into_outcome in H5; destruct H5 as (-> & c & ->).
        apply outcome_ret_inv in H6; destruct H6 as (_ & H6).
        destruct (check && turning turn ta tb fwd); [discriminate|]. inversion H6.
        cbn [merged t_w]. apply IH in H1. apply IH in H3. lra.
    Qed.

    Lemma sibling_wf j : forall i fwd check, wf_probs (sibling j i fwd check).
    Proof.
      induction j as [|j IH]; intros i fwd check; cbn [Tree.sibling].
      - constructor. destruct (fatal i); [|destruct (bad i)]; constructor.
      - apply wf_probs_bind; [apply IH|]. intros ra l H.
        destruct ra as [ta| |x|x]; try constructor.
        apply wf_probs_bind; [apply IH|]. intros rb l' H'.
        destruct rb as [tb| |x|x]; try constructor.
        apply wf_probs_bind; [|intros; constructor].
        apply merge_into_wf; eapply sibling_w; eauto.
    Qed.

    Lemma extend_wf t fwd check : 0 <= t_w t -> wf_probs (extend t fwd check).
    Proof.
      intros Ht. unfold Tree.extend. apply wf_probs_bind; [apply sibling_wf|].
      intros r l H. destruct r as [tb| |x|x]; try constructor.
      apply wf_probs_bind; [|intros; constructor].
      apply merge_into_wf; auto. eapply sibling_w; eauto.
    Qed.

    Definition xres_w (r : xres) : Prop :=
      match r with XOk t' | XTurn t' | XDiv t' _ => 0 <= t_w t' | XErr _ => True end.

    Lemma extend_w t fwd check l r :
      0 <= t_w t -> outcome (extend t fwd check) l r -> xres_w r.
    Proof.
      intros Ht H. unfold Tree.extend in H.
      apply outcome_bind_inv in H; destruct H as (rs & l1 & l2 & H1 & H2 & ->).
      destruct rs as [tb| |x|x];
        try (apply outcome_ret_inv in H2; destruct H2 as (_ & ->); cbn; auto).
      apply sibling_w in H1.
      apply outcome_bind_inv in H2; destruct H2 as (m & l5 & l6 & H5 & H6 & ->).
      apply merge_into_outcome in H5; destruct H5 as (-> & c & ->).
      apply outcome_ret_inv in H6; destruct H6 as (_ & ->).
      destruct (check && turning turn t tb fwd); cbn [xres_w merged t_w]; lra.
    Qed.

    Lemma extra_wf n : forall t fwd, 0 <= t_w t -> wf_probs (extra_loop n t fwd).
    Proof.
      induction n as [|n IH]; intros t fwd Ht; cbn [Tree.extra_loop]; [constructor|].
      apply wf_probs_bind; [apply extend_wf; auto|].
      intros r l H. apply extend_w in H; auto.
      destruct r; cbn [xres_w] in H; try constructor; apply IH; auto.
    Qed.

    Lemma draw_wf f : forall t, 0 <= t_w t -> wf_probs (draw_loop f t).
    Proof.
      induction f as [|f IH]; intros t Ht; cbn [Tree.draw_loop]; [constructor|].
      constructor; intros fwd.
      apply wf_probs_bind; [apply extend_wf; auto|].
      intros r l H. apply extend_w in H; auto.
      destruct r; cbn [xres_w] in H; try constructor; [apply IH | apply extra_wf]; auto.
    Qed.

    Theorem pdraw_wf_nonneg : wf_probs (pdraw a).
    Proof.
      unfold Tree.pdraw. destruct (n_dim0 o); [constructor|].
      apply draw_wf. cbn [Tree.root t_w]. apply wt_nonneg.
    Qed.
  End Weights.

  Theorem pdraw_wf : (forall i, (0 < wt i)%Q) -> wf_probs (pdraw a).
  Proof. intros H; apply pdraw_wf_nonneg. intros i; apply Qlt_le_weak, H. Qed.

  (* transition probabilities are probabilities *)
  Theorem trans_prob_range b :
    (forall i, (0 <= wt i)%Q) ->
    (0 <= trans_prob wt turn bad fatal o a b <= 1)%Q.
  Proof.
    intros H. unfold trans_prob. split.
    - apply expect_nonneg; [apply pdraw_wf_nonneg; auto|].
      intros x; destruct (d_sel x =? b); lra.
    - apply expect_le_1; [apply pdraw_wf_nonneg; auto|].
      intros x; destruct (d_sel x =? b); lra.
  Qed.
End TreeFacts.

(* ---------------------------------------------------------------------------------------- *)
(* 10. the exact converse of T3 is false                                                     *)
(* ---------------------------------------------------------------------------------------- *)
(* reached_maxdepth is NOT equivalent to "depth = maxdepth and no divergence": when the doubling
   that reaches maxdepth is itself stopped by the U-turn check of the merged tree, the tree has
   depth maxdepth, there is no divergence, the ticks are the same 2^maxdepth - 1, and the flag
   is false. *)
Theorem T3_converse_fails :
  exists wt turn bad fatal o a ticks r,
    outcome (pdraw wt turn bad fatal o a) ticks r /\
    n_extra o = 0%nat /\ n_dim0 o = false /\ d_err r = None /\ d_div r = None /\
    d_depth r = n_maxdepth o /\ d_maxdepth r = false /\
    Z.of_nat (length ticks) = 2 ^ Z.of_nat (n_maxdepth o) - 1.
Proof.
  exists (fun _ => 1%Q), (fun _ _ => true), (fun _ => false), (fun _ => false),
    {| n_maxdepth := 1; n_mindepth := 0; n_extra := 0; n_check := true; n_dim0 := false |},
    0, [1].
  eexists. split.
  - unfold pdraw; cbn [n_dim0 n_maxdepth draw_loop].
    apply O_dir with (b := true). cbv. constructor. constructor.
  - cbv. splits; reflexivity.
Qed.

(* ---------------------------------------------------------------------------------------- *)
(* 11. bonus: the exact sequence of leapfrog steps of a sibling / an extend                  *)
(* ---------------------------------------------------------------------------------------- *)
Fixpoint walk (i : Z) (fwd : bool) (n : nat) : list Z :=
  match n with
  | O => []
  | S n' => i :: walk (if fwd then i + 1 else i - 1) fwd n'
  end.

Lemma walk_length i fwd n : length (walk i fwd n) = n.
Proof. revert i; induction n; intros; cbn; auto. Qed.

Lemma walk_app fwd n m : forall i,
  walk i fwd (n + m) =
  walk i fwd n ++ walk (if fwd then i + Z.of_nat n else i - Z.of_nat n) fwd m.
Proof.
  induction n as [|n IH]; intros i.
  - cbn [walk app Nat.add]. f_equal. destruct fwd; cbn; lia.
  - cbn [walk app Nat.add]. f_equal. rewrite IH. f_equal. f_equal. destruct fwd; lia.
Qed.

Section TreeWalk.
  Variable wt : Z -> Q.
  Variable turn : Z -> Z -> bool.
  Variable bad : Z -> bool.
  Variable fatal : Z -> bool.

  Theorem sibling_walk j : forall i fwd check l r,
    outcome (sibling wt turn bad fatal j i fwd check) l r -> l = walk i fwd (length l).
  Proof.
    induction j as [|j IH]; intros i fwd check l r H.
    - cbn [sibling] in H. apply outcome_tick_inv in H; destruct H as (l' & -> & H).
      destruct (fatal i); [|destruct (bad i)];
        apply outcome_ret_inv in H; destruct H as (-> & _); reflexivity.
    - cbn [sibling] in H.
      apply outcome_bind_inv in H; destruct H as (ra & l1 & l2 & H1 & H2 & ->).
      pose proof (sibling_spec _ _ _ _ _ _ _ _ _ _ H1) as (Hn & _ & Hr).
      apply IH in H1.
      destruct ra as [ta| |x|x];
        try (apply outcome_ret_inv in H2; destruct H2 as (-> & _); rewrite app_nil_r; exact H1).
      apply outcome_bind_inv in H2; destruct H2 as (rb & l3 & l4 & H3 & H4 & ->).
      apply IH in H3.
      assert (l4 = []) as ->.
      { destruct rb as [tb| |x|x];
          try (apply outcome_ret_inv in H4; destruct H4 as (-> & _); reflexivity).
        apply outcome_bind_inv in H4; destruct H4 as (m & l5 & l6 & H5 & H6 & ->).
        apply merge_into_outcome in H5; destruct H5 as (-> & _).
        apply outcome_ret_inv in H6; destruct H6 as (-> & _); reflexivity. }
      rewrite app_nil_r, app_length, walk_app, <- H1. f_equal.
      destruct Hr as (Hl & _ & _ & Hlo & Hhi & _). unfold zlen in Hl.
      replace (if fwd then i + Z.of_nat (length l1) else i - Z.of_nat (length l1))
        with (next_index ta fwd); [exact H3|].
      unfold next_index; destruct fwd; lia.
  Qed.

  Theorem extend_walk t fwd check l r :
    outcome (extend wt turn bad fatal t fwd check) l r ->
    l = walk (next_index t fwd) fwd (length l).
  Proof.
    unfold extend; intros H.
    apply outcome_bind_inv in H; destruct H as (rs & l1 & l2 & H1 & H2 & ->).
    apply sibling_walk in H1.
    assert (l2 = []) as ->.
    { destruct rs as [tb| |x|x];
        try (apply outcome_ret_inv in H2; destruct H2 as (-> & _); reflexivity).
      apply outcome_bind_inv in H2; destruct H2 as (m & l5 & l6 & H5 & H6 & ->).
      apply merge_into_outcome in H5; destruct H5 as (-> & _).
      apply outcome_ret_inv in H6; destruct H6 as (-> & _); reflexivity. }
    rewrite app_nil_r; exact H1.
  Qed.
End TreeWalk.

(* ---------------------------------------------------------------------------------------- *)
(* 12. fault propagation: a divergent / fatal leapfrog ends the transition at once            *)
(* ---------------------------------------------------------------------------------------- *)
Section TreeFault.
  Variable wt : Z -> Q.
  Variable turn : Z -> Z -> bool.
  Variable bad : Z -> bool.
  Variable fatal : Z -> bool.

  (* no faulty evaluation among l *)
  Definition clean (l : list Z) : Prop :=
    forall x, In x l -> bad x = false /\ fatal x = false.
  (* l ends with the divergent (and not fatal) x, everything before is good *)
  Definition divs (l : list Z) (x : Z) : Prop :=
    exists l', l = l' ++ [x] /\ clean l' /\ bad x = true /\ fatal x = false.
  (* l ends with the fatal x, everything before is good *)
  Definition errs (l : list Z) (x : Z) : Prop :=
    exists l', l = l' ++ [x] /\ clean l' /\ fatal x = true.

  Lemma clean_nil : clean [].
  Proof. intros x []. Qed.
  Lemma clean_app l1 l2 : clean l1 -> clean l2 -> clean (l1 ++ l2).
  Proof. intros H1 H2 x Hx; apply in_app_iff in Hx; destruct Hx; auto. Qed.
  Lemma divs_app l0 l x : clean l0 -> divs l x -> divs (l0 ++ l) x.
  Proof.
    intros H0 (l' & -> & Hc & Hb). exists (l0 ++ l'). rewrite app_assoc.
    split; auto. split; auto. apply clean_app; auto.
  Qed.
  Lemma errs_app l0 l x : clean l0 -> errs l x -> errs (l0 ++ l) x.
  Proof.
    intros H0 (l' & -> & Hc & Hb). exists (l0 ++ l'). rewrite app_assoc.
    split; auto. split; auto. apply clean_app; auto.
  Qed.

  Definition sres_fault (l : list Z) (r : sres) : Prop :=
    match r with
    | SOk _ | STurn => clean l
    | SDiv x => divs l x
    | SErr x => errs l x
    end.
  Definition xres_fault (l : list Z) (r : xres) : Prop :=
    match r with
    | XOk _ | XTurn _ => clean l
    | XDiv _ x => divs l x
    | XErr x => errs l x
    end.
  (* the three ways a transition can end *)
  Definition dres_fault (l : list Z) (r : dres) : Prop :=
    match d_err r with
    | Some x => errs l x
    | None => match d_div r with
              | Some x => divs l x
              | None => clean l
              end
    end.

  Lemma sres_fault_app l0 l r : clean l0 -> sres_fault l r -> sres_fault (l0 ++ l) r.
  Proof.
    destruct r; cbn [sres_fault]; intros;
      auto using clean_app, divs_app, errs_app.
  Qed.
  Lemma dres_fault_app l0 l r : clean l0 -> dres_fault l r -> dres_fault (l0 ++ l) r.
  Proof.
    unfold dres_fault; destruct (d_err r); [|destruct (d_div r)]; intros;
      auto using clean_app, divs_app, errs_app.
  Qed.

  Lemma sibling_fault j : forall i fwd check l r,
    outcome (sibling wt turn bad fatal j i fwd check) l r -> sres_fault l r.
  Proof.
    induction j as [|j IH]; intros i fwd check l r H; cbn [sibling] in H.
    - apply outcome_tick_inv in H; destruct H as (l' & -> & H).
      destruct (fatal i) eqn:Ef; [|destruct (bad i) eqn:Eb];
        apply outcome_ret_inv in H; destruct H as (-> & ->); cbn [sres_fault].
      + exists []; split; auto. split; auto using clean_nil.
      + exists []; split; auto. split; auto using clean_nil.
      + intros x [<-|[]]; auto.
    - apply outcome_bind_inv in H; destruct H as (ra & l1 & l2 & H1 & H2 & ->).
      apply IH in H1.
      destruct ra as [ta| |x|x];
        try (apply outcome_ret_inv in H2; destruct H2 as (-> & ->); rewrite app_nil_r; exact H1).
      cbn [sres_fault] in H1.
      apply outcome_bind_inv in H2; destruct H2 as (rb & l3 & l4 & H3 & H4 & ->).
      apply IH in H3. apply sres_fault_app; auto.
      destruct rb as [tb| |x|x];
        try (apply outcome_ret_inv in H4; destruct H4 as (-> & ->); rewrite app_nil_r; exact H3).
      apply outcome_bind_inv in H4; destruct H4 as (m & l5 & l6 & H5 & H6 & ->).
      apply merge_into_outcome in H5; destruct H5 as (-> & _).
      apply outcome_ret_inv in H6; destruct H6 as (-> & ->). rewrite app_nil_r.
      cbn [sres_fault] in H3. destruct (check && _); exact H3.
  Qed.

  Lemma extend_fault t fwd check l r :
    outcome (extend wt turn bad fatal t fwd check) l r -> xres_fault l r.
  Proof.
    unfold extend; intros H.
    apply outcome_bind_inv in H; destruct H as (rs & l1 & l2 & H1 & H2 & ->).
    apply sibling_fault in H1.
    destruct rs as [tb| |x|x];
      try (apply outcome_ret_inv in H2; destruct H2 as (-> & ->); rewrite app_nil_r; exact H1).
    apply outcome_bind_inv in H2; destruct H2 as (m & l5 & l6 & H5 & H6 & ->).
    apply merge_into_outcome in H5; destruct H5 as (-> & _).
    apply outcome_ret_inv in H6; destruct H6 as (-> & ->). rewrite app_nil_r.
    cbn [sres_fault] in H1. destruct (check && _); exact H1.
  Qed.

  Lemma extra_fault n : forall t fwd l r,
    outcome (extra_loop wt turn bad fatal n t fwd) l r -> dres_fault l r.
  Proof.
    induction n as [|n IH]; intros t fwd l r H; cbn [extra_loop] in H.
    - apply outcome_ret_inv in H; destruct H as (-> & ->). exact clean_nil.
    - apply outcome_bind_inv in H; destruct H as (rx & l1 & l2 & H1 & H2 & ->).
      apply extend_fault in H1.
      destruct rx as [t'|t'|t' x|x]; cbn [xres_fault] in H1.
      + apply dres_fault_app; eauto.
      + apply dres_fault_app; eauto.
      + apply outcome_ret_inv in H2; destruct H2 as (-> & ->). rewrite app_nil_r. exact H1.
      + apply outcome_ret_inv in H2; destruct H2 as (-> & ->). rewrite app_nil_r. exact H1.
  Qed.

  Variable o : nopts.

  Lemma draw_fault f : forall t l r,
    outcome (draw_loop wt turn bad fatal o f t) l r -> dres_fault l r.
  Proof.
    induction f as [|f IH]; intros t l r H; cbn [draw_loop] in H.
    - apply outcome_ret_inv in H; destruct H as (-> & ->). exact clean_nil.
    - apply outcome_dir_inv in H; destruct H as (fwd & H).
      apply outcome_bind_inv in H; destruct H as (rx & l1 & l2 & H1 & H2 & ->).
      apply extend_fault in H1.
      destruct rx as [t'|t'|t' x|x]; cbn [xres_fault] in H1.
      + apply dres_fault_app; eauto.
      + apply dres_fault_app; auto. eapply extra_fault; eauto.
      + apply outcome_ret_inv in H2; destruct H2 as (-> & ->). rewrite app_nil_r. exact H1.
      + apply outcome_ret_inv in H2; destruct H2 as (-> & ->). rewrite app_nil_r. exact H1.
  Qed.

  Variable a : Z.
  Notation pdraw := (pdraw wt turn bad fatal o a).

  (* every transition ends in exactly one of three ways: Err at the last tick (fatal), a reported
     divergence at the last tick (bad, not fatal), or no faulty evaluation at all *)
  Theorem pdraw_fault ticks r : outcome pdraw ticks r -> dres_fault ticks r.
  Proof.
    unfold Tree.pdraw. destruct (n_dim0 o); intros H.
    - apply outcome_ret_inv in H; destruct H as (-> & ->). exact clean_nil.
    - eapply draw_fault; eauto.
  Qed.

  Theorem T9_bad_tick_diverges ticks r i :
    outcome pdraw ticks r -> d_err r = None ->
    In i ticks -> bad i = true -> fatal i = false ->
    d_div r = Some i /\ exists l, ticks = l ++ [i].
  Proof.
    intros H He Hi Hb Hf. apply pdraw_fault in H. unfold dres_fault in H. rewrite He in H.
    destruct (d_div r) as [x|].
    - destruct H as (l' & -> & Hc & _). apply in_app_iff in Hi. destruct Hi as [Hi|[<-|[]]].
      + destruct (Hc _ Hi); congruence.
      + split; eauto.
    - destruct (H _ Hi); congruence.
  Qed.

  Theorem T10_fatal_tick_errors ticks r i :
    outcome pdraw ticks r -> In i ticks -> fatal i = true ->
    d_err r = Some i /\ exists l, ticks = l ++ [i].
  Proof.
    intros H Hi Hf. apply pdraw_fault in H. unfold dres_fault in H.
    destruct (d_err r) as [x|]; [|destruct (d_div r) as [x|]].
    - destruct H as (l' & -> & Hc & _). apply in_app_iff in Hi. destruct Hi as [Hi|[<-|[]]].
      + destruct (Hc _ Hi); congruence.
      + split; eauto.
    - destruct H as (l' & -> & Hc & _ & Hx). apply in_app_iff in Hi.
      destruct Hi as [Hi|[<-|[]]]; [destruct (Hc _ Hi)|]; congruence.
    - destruct (H _ Hi); congruence.
  Qed.

  Theorem T11_no_fault_no_flags ticks r :
    outcome pdraw ticks r ->
    (forall i, In i ticks -> bad i = false /\ fatal i = false) ->
    d_div r = None /\ d_err r = None.
  Proof.
    intros H Hg. apply pdraw_fault in H. unfold dres_fault in H.
    destruct (d_err r) as [x|]; [|destruct (d_div r) as [x|]]; auto.
    - destruct H as (l' & -> & _ & Hx).
      destruct (Hg x); [apply in_app_iff; right; left; auto | congruence].
    - destruct H as (l' & -> & _ & Hx & _).
      destruct (Hg x); [apply in_app_iff; right; left; auto | congruence].
  Qed.

  Theorem T12_ticks_before_fault_good ticks r l x :
    outcome pdraw ticks r -> ticks = l ++ [x] ->
    forall i, In i l -> bad i = false /\ fatal i = false.
  Proof.
    intros H E. apply pdraw_fault in H. unfold dres_fault in H.
    assert (Hc : clean l).
    { destruct (d_err r) as [y|]; [|destruct (d_div r) as [y|]].
      - destruct H as (l' & E' & Hc & _). rewrite E in E'.
        apply app_inj_tail in E'; destruct E'; subst; auto.
      - destruct H as (l' & E' & Hc & _). rewrite E in E'.
        apply app_inj_tail in E'; destruct E'; subst; auto.
      - intros i Hi; apply H. rewrite E; apply in_app_iff; auto. }
    exact Hc.
  Qed.

  (* at most one faulty evaluation per transition, and it is the last one *)
  Corollary T12_at_most_one_fault ticks r l1 i l2 :
    outcome pdraw ticks r -> ticks = l1 ++ i :: l2 ->
    bad i = true \/ fatal i = true -> l2 = [].
  Proof.
    intros H E Hf. destruct l2 as [|y l2]; auto. exfalso.
    destruct (exists_last (l := y :: l2) ltac:(discriminate)) as (l' & z & E').
    rewrite E' in E.
    assert (E2 : ticks = (l1 ++ i :: l') ++ [z]) by (rewrite E, <- app_assoc; reflexivity).
    destruct (T12_ticks_before_fault_good _ _ _ _ H E2 i) as (Hb & Hf').
    - apply in_app_iff; right; left; auto.
    - destruct Hf; congruence.
  Qed.

  Theorem T13_draw_is_good_state ticks r :
    outcome pdraw ticks r -> d_err r = None ->
    d_sel r = a \/
    (bad (d_sel r) = false /\ fatal (d_sel r) = false /\ In (d_sel r) ticks).
  Proof.
    intros H He. destruct (T1_interval _ _ _ _ _ _ _ _ H He) as (_ & Hs & _).
    destruct (T5_visited _ _ _ _ _ _ _ _ H He) as (_ & Hv).
    destruct (Z.eq_dec (d_sel r) a) as [E|E]; auto. right.
    destruct (Hv _ Hs E) as (? & ? & ?); auto.
  Qed.
End TreeFault.

(* ---------------------------------------------------------------------------------------- *)
(* depth bounds derived from target_integration_time                                          *)
(* ---------------------------------------------------------------------------------------- *)
Lemma eff_maxdepth_le (M m : nat) (ms : option N) : (snd (eff_depths M m ms) <= M)%nat.
Proof. destruct ms as [n|]; cbn [eff_depths snd]; lia. Qed.

Lemma eff_none (M m : nat) : eff_depths M m None = (m, M).
Proof. reflexivity. Qed.

(* with room below maxdepth the tree may grow to ceil(log2 max_steps) and must reach floor(log2 max_steps) *)
Lemma eff_depths_window (M m : nat) (n : N) :
  (Nat.max (Nat.max (log2_ceil n) (Nat.max (log2_floor n) m)) 1 <= M)%nat ->
  eff_depths M m (Some n) =
  (Nat.max (log2_floor n) m, Nat.max (Nat.max (log2_ceil n) (Nat.max (log2_floor n) m)) 1).
Proof. intros H; cbn [eff_depths]; f_equal; lia. Qed.

Lemma eff_maxdepth_pos (M m : nat) (ms : option N) : (1 <= M -> 1 <= snd (eff_depths M m ms))%nat.
Proof. destruct ms as [n|]; cbn [eff_depths snd]; lia. Qed.

(* the old derivation could leave no room for a single step *)
Lemma eff_depths_old_stuck : exists (M m : nat) (n : N), (1 <= M)%nat /\ snd (eff_depths_old M m (Some n)) = 0%nat.
Proof. exists 3%nat, 0%nat, 1%N. split; [lia | reflexivity]. Qed.

Lemma T2_depth_target :
  forall (wt : Z -> Q) (turn : Z -> Z -> bool) (bad fatal : Z -> bool) (o : nopts) (ms : option N) (a : Z)
         (ticks : list Z) (r : dres),
    n_extra o = 0%nat ->
    outcome (pdraw wt turn bad fatal (eff_opts o ms) a) ticks r -> d_err r = None ->
    (d_depth r <= n_maxdepth o)%nat.
Proof.
  intros wt turn bad fatal o ms a ticks r He Ho Hr.
  pose proof (T2_depth wt turn bad fatal (eff_opts o ms) a ticks r He Ho Hr) as H.
  cbn [eff_opts n_maxdepth] in H. pose proof (eff_maxdepth_le (n_maxdepth o) (n_mindepth o) ms). lia.
Qed.

Lemma T4_at_least_one_target :
  forall (wt : Z -> Q) (turn : Z -> Z -> bool) (bad fatal : Z -> bool) (o : nopts) (ms : option N) (a : Z)
         (ticks : list Z) (r : dres),
    (1 <= n_maxdepth o)%nat -> n_dim0 o = false ->
    outcome (pdraw wt turn bad fatal (eff_opts o ms) a) ticks r -> (1 <= length ticks)%nat.
Proof.
  intros wt turn bad fatal o ms a ticks r Hm Hd Ho.
  apply (T4_at_least_one wt turn bad fatal (eff_opts o ms) a ticks r); [|exact Hd|exact Ho].
  cbn [eff_opts n_maxdepth]. apply eff_maxdepth_pos; exact Hm.
Qed.
