(* Machine-checked facts about the mass-matrix estimator model (model/Estimator.v):
     E1  running_mean_exact     the streaming mean is the arithmetic mean
     E2  var_scaling            the accumulator scales quadratically under affine maps
     E3  var_pos / var_zero_iff the accumulator is >= 0, and 0 iff all samples are equal
     E4  diag_gaussian_exact    draw/grad estimator recovers an axis-aligned Gaussian exactly
     F1  keep_when_invalid      (binary64) invalid estimates leave the previous value in place
     F2  scale_update_safe      (binary64) clamped updates give finite, strictly positive scales
   No Admitted / Axiom / Parameter.  The Q part is closed under the global context; the binary64
   part inherits the standard-library axioms of Flocq / Reals (see the audit at the end). *)
From Coq Require Import QArith Qminmax List Arith Lia Lqa Bool Setoid Morphisms.
From Coq Require Reals Lra.
From Flocq Require Core IEEE754.BinarySingleNaN IEEE754.Binary IEEE754.Bits.
From NutsV Require Import lib.Fp model.Estimator.
Import ListNotations.
Local Open Scope Q_scope.

(* ====================================================================================== *)
(* exact arithmetic                                                                        *)
(* ====================================================================================== *)
Fixpoint qsum (l : list Q) : Q := match l with [] => 0 | x :: r => x + qsum r end.
Definition Qn (n : nat) : Q := inject_Z (Z.of_nat n).

Lemma Qn_S n : Qn (S n) == Qn n + 1.
Proof. unfold Qn. rewrite Nat2Z.inj_succ, <- Z.add_1_r, inject_Z_plus. reflexivity. Qed.

Lemma Qn_pos n : 0 < Qn (S n).
Proof.
  unfold Qn. change 0 with (inject_Z 0). rewrite <- Zlt_Qlt. lia.
Qed.

Lemma Qn_nonneg n : 0 <= Qn n.
Proof. unfold Qn. change 0 with (inject_Z 0). rewrite <- Zle_Qle. lia. Qed.

Lemma inv_count n : (1 # Pos.of_nat (S n)) == / Qn (S n).
Proof.
  unfold Qn. rewrite Nat2Z.inj_succ, <- Zpos_P_of_succ_nat, <- Pos.of_nat_succ. reflexivity.
Qed.

Lemma rvq_run_cons x xs :
  rvq_run (x :: xs) = fold_left rvq_add xs {| rv_mean := x; rv_var := 0; rv_count := 1 |}.
Proof. reflexivity. Qed.

Lemma rvq_add_S s x : (1 <= rv_count s)%nat ->
  rvq_add s x = {| rv_mean := rv_mean s + (x - rv_mean s) * (1 # Pos.of_nat (S (rv_count s)));
                   rv_var := rv_var s + (x - rv_mean s) * (x - rv_mean s);
                   rv_count := S (rv_count s) |}.
Proof. unfold rvq_add. destruct (rv_count s); [lia|reflexivity]. Qed.

Lemma fold_count xs : forall s, rv_count (fold_left rvq_add xs s) = (rv_count s + length xs)%nat.
Proof.
  induction xs as [|x xs IH]; intros s; simpl; [lia|].
  rewrite IH. unfold rvq_add. destruct (rv_count s); simpl; lia.
Qed.

(* ---------------------------------------------------------------------------------------- *)
(* E1                                                                                        *)
(* ---------------------------------------------------------------------------------------- *)
Lemma fold_mean xs : forall s S0,
  (1 <= rv_count s)%nat -> rv_mean s * Qn (rv_count s) == S0 ->
  rv_mean (fold_left rvq_add xs s) * Qn (rv_count s + length xs) == S0 + qsum xs.
Proof.
  induction xs as [|x xs IH]; intros s S0 Hc Hm.
  - simpl. rewrite Nat.add_0_r, Hm. ring.
  - cbn [fold_left length qsum].
    replace (rv_count s + S (length xs))%nat with (rv_count (rvq_add s x) + length xs)%nat
      by (rewrite rvq_add_S by assumption; simpl; lia).
    rewrite (IH (rvq_add s x) (S0 + x)).
    + ring.
    + rewrite rvq_add_S by assumption; simpl; lia.
    + rewrite rvq_add_S by assumption. cbn [rv_mean rv_count].
      rewrite inv_count. rewrite Qn_S.
      pose proof (Qn_nonneg (rv_count s)).
      rewrite <- Hm. field. lra.
Qed.

Theorem running_mean_exact xs : xs <> [] ->
  rv_mean (rvq_run xs) == qsum xs / Qn (length xs) /\ rv_count (rvq_run xs) = length xs.
Proof.
  destruct xs as [|x xs]; [congruence|]. intros _. split.
  - rewrite rvq_run_cons.
    pose proof (fold_mean xs {| rv_mean := x; rv_var := 0; rv_count := 1 |} x) as H.
    cbn [rv_count rv_mean] in H. cbn [length qsum].
    change (1 + length xs)%nat with (S (length xs)) in H.
    pose proof (Qn_pos (length xs)).
    rewrite <- H; [field; lra|lia|]. unfold Qn; simpl. ring.
  - rewrite rvq_run_cons, fold_count. reflexivity.
Qed.

(* ---------------------------------------------------------------------------------------- *)
(* E2                                                                                        *)
(* ---------------------------------------------------------------------------------------- *)
(* two accumulator states related by the affine map x |-> a*x + b *)
Definition rv_affine (a b : Q) (s t : rvq) : Prop :=
  rv_count t = rv_count s /\ rv_var t == a * a * rv_var s /\
  ((1 <= rv_count s)%nat -> rv_mean t == a * rv_mean s + b).

Lemma rvq_add_affine a b s t x y :
  rv_affine a b s t -> y == a * x + b -> rv_affine a b (rvq_add s x) (rvq_add t y) /\
  (1 <= rv_count (rvq_add s x))%nat.
Proof.
  intros (Hc & Hv & Hm) Hy. unfold rv_affine, rvq_add. rewrite Hc.
  destruct (rv_count s) as [|n]; cbn [rv_count rv_var rv_mean].
  - repeat split; auto; try lia.
  - specialize (Hm ltac:(lia)).
    split; [|lia]. split; [reflexivity|]. split.
    + rewrite Hv, Hy, Hm. ring.
    + intros _. rewrite Hy, Hm. ring.
Qed.

Lemma fold_affine a b : forall xs ys s t,
  Forall2 (fun x y => y == a * x + b) xs ys -> rv_affine a b s t ->
  rv_affine a b (fold_left rvq_add xs s) (fold_left rvq_add ys t).
Proof.
  intros xs ys s t H. revert s t.
  induction H as [|x y xs ys Hxy Hl IH]; intros s t Hst; simpl; auto.
  apply IH. apply rvq_add_affine; auto.
Qed.

Lemma rv_affine_0 a b : rv_affine a b rvq0 rvq0.
Proof. unfold rv_affine; simpl. repeat split; try ring. lia. Qed.

(* E2, for lists related pointwise up to Qeq *)
Theorem var_scaling_rel a b xs ys :
  xs <> [] -> Forall2 (fun x y => y == a * x + b) xs ys ->
  rv_var (rvq_run ys) == a * a * rv_var (rvq_run xs) /\
  rv_mean (rvq_run ys) == a * rv_mean (rvq_run xs) + b.
Proof.
  intros Hne H.
  destruct (fold_affine a b xs ys rvq0 rvq0 H (rv_affine_0 a b)) as (Hc & Hv & Hm).
  split; [exact Hv|]. apply Hm. fold (rvq_run xs).
  destruct (running_mean_exact xs Hne) as [_ ->]. destruct xs; [congruence|simpl; lia].
Qed.

Lemma Forall2_map_r {A B} (R : A -> B -> Prop) (f : A -> B) l :
  (forall x, R x (f x)) -> Forall2 R l (map f l).
Proof. intros H; induction l; simpl; constructor; auto. Qed.

(* E2 *)
Theorem var_scaling a b xs :
  xs <> [] ->
  let ys := map (fun x => a * x + b) xs in
  rv_var (rvq_run ys) == a * a * rv_var (rvq_run xs) /\
  rv_mean (rvq_run ys) == a * rv_mean (rvq_run xs) + b.
Proof.
  intros Hne ys. apply var_scaling_rel; auto.
  apply Forall2_map_r. intros; reflexivity.
Qed.

(* even without the non-emptiness assumption the accumulator scales *)
Theorem var_scaling_any a b xs :
  rv_var (rvq_run (map (fun x => a * x + b) xs)) == a * a * rv_var (rvq_run xs).
Proof.
  destruct (fold_affine a b xs (map (fun x => a * x + b) xs) rvq0 rvq0) as (_ & Hv & _); auto.
  - apply Forall2_map_r. intros; reflexivity.
  - apply rv_affine_0.
Qed.

(* ---------------------------------------------------------------------------------------- *)
(* E3                                                                                        *)
(* ---------------------------------------------------------------------------------------- *)
Lemma sq_nonneg (x : Q) : 0 <= x * x.
Proof. nra. Qed.

Lemma sq_pos (x : Q) : ~ x == 0 -> 0 < x * x.
Proof. intros H. destruct (Q_dec x 0) as [[?|?]|?]; [nra|nra|contradiction]. Qed.

Lemma rvq_add_var_le s x : rv_var s <= rv_var (rvq_add s x).
Proof.
  unfold rvq_add. destruct (rv_count s); cbn [rv_var]; [lra|].
  pose proof (sq_nonneg (x - rv_mean s)). lra.
Qed.

Lemma fold_var_le xs : forall s, rv_var s <= rv_var (fold_left rvq_add xs s).
Proof.
  induction xs as [|x xs IH]; intros s; simpl; [lra|].
  eapply Qle_trans; [apply rvq_add_var_le|apply IH].
Qed.

(* E3, first part *)
Theorem var_pos xs : 0 <= rv_var (rvq_run xs).
Proof. apply (fold_var_le xs rvq0). Qed.

Lemma fold_all_equal x0 xs : forall s,
  (1 <= rv_count s)%nat -> rv_mean s == x0 -> Forall (fun x => x == x0) xs ->
  rv_mean (fold_left rvq_add xs s) == x0 /\ rv_var (fold_left rvq_add xs s) == rv_var s.
Proof.
  induction xs as [|x xs IH]; intros s Hc Hm Hall; simpl; [split; [assumption|reflexivity]|].
  inversion Hall as [|? ? Hx Hxs]; subst.
  destruct (IH (rvq_add s x)) as [I1 I2]; auto.
  - rewrite rvq_add_S by assumption; simpl; lia.
  - rewrite rvq_add_S by assumption; cbn [rv_mean]. rewrite Hx, Hm. ring.
  - split; [assumption|]. rewrite I2. rewrite rvq_add_S by assumption; cbn [rv_var].
    rewrite Hx, Hm. ring.
Qed.

Lemma fold_not_all_equal x0 xs : forall s,
  (1 <= rv_count s)%nat -> rv_mean s == x0 -> ~ Forall (fun x => x == x0) xs ->
  rv_var s < rv_var (fold_left rvq_add xs s).
Proof.
  induction xs as [|x xs IH]; intros s Hc Hm Hn; [exfalso; apply Hn; constructor|].
  simpl. destruct (Qeq_dec x x0) as [E|NE].
  - assert (Hv : rv_var (rvq_add s x) == rv_var s).
    { rewrite rvq_add_S by assumption; cbn [rv_var]. rewrite E, Hm. ring. }
    rewrite <- Hv. apply IH.
    + rewrite rvq_add_S by assumption; simpl; lia.
    + rewrite rvq_add_S by assumption; cbn [rv_mean]. rewrite E, Hm. ring.
    + intros H. apply Hn. constructor; assumption.
  - eapply Qlt_le_trans; [|apply fold_var_le].
    rewrite rvq_add_S by assumption; cbn [rv_var].
    assert (~ x - rv_mean s == 0) by (rewrite Hm; intros H; apply NE; lra).
    pose proof (sq_pos _ H). lra.
Qed.

(* E3 *)
Theorem var_zero_iff x0 xs :
  rv_var (rvq_run (x0 :: xs)) == 0 <-> Forall (fun x => x == x0) xs.
Proof.
  rewrite rvq_run_cons. split.
  - intros H.
    destruct (Forall_dec (fun x => x == x0) (fun x => Qeq_dec x x0) xs) as [F|NF]; [assumption|].
    pose proof (fold_not_all_equal x0 xs {| rv_mean := x0; rv_var := 0; rv_count := 1 |}
                  (le_n 1) (Qeq_refl x0) NF) as L.
    cbn [rv_var] in L. lra.
  - intros F.
    destruct (fold_all_equal x0 xs {| rv_mean := x0; rv_var := 0; rv_count := 1 |}
                (le_n 1) (Qeq_refl x0) F) as [_ V].
    exact V.
Qed.

Theorem var_pos_strict x0 xs :
  ~ Forall (fun x => x == x0) xs -> 0 < rv_var (rvq_run (x0 :: xs)).
Proof.
  intros NF. pose proof (var_pos (x0 :: xs)).
  destruct (Qeq_dec (rv_var (rvq_run (x0 :: xs))) 0) as [E|NE].
  - apply var_zero_iff in E. contradiction.
  - destruct (Q_dec 0 (rv_var (rvq_run (x0 :: xs)))) as [[?|?]|E]; [assumption|lra|].
    exfalso; apply NE; symmetry; assumption.
Qed.

(* ---------------------------------------------------------------------------------------- *)
(* E4                                                                                        *)
(* ---------------------------------------------------------------------------------------- *)
Section Gaussian.
  Variables (mm s2 : Q).
  Hypothesis Hs2 : 0 < s2.
  Definition score (x : Q) : Q := - (x - mm) / s2.

  Variable sq : Q -> Q.
  (* sq is a square root on the non-negative rationals where one exists *)
  Hypothesis sq_nonneg_ax : forall z, 0 <= z -> 0 <= sq z.
  Hypothesis sq_sq : forall z y, 0 <= y -> z == y * y -> sq z * sq z == z.

  Lemma sq_unique z y : 0 <= y -> z == y * y -> sq z == y.
  Proof.
    intros Hy Hz.
    assert (H0 : 0 <= z) by (rewrite Hz; apply sq_nonneg).
    pose proof (sq_nonneg_ax z H0) as Hs. pose proof (sq_sq z y Hy Hz) as Hq.
    assert (E : (sq z - y) * (sq z + y) == 0) by (rewrite Hz in Hq at 3; nra).
    apply Qmult_integral in E. destruct E as [E|E]; [lra|].
    assert (sq z == 0) by lra. assert (y == 0) by lra. lra.
  Qed.

  (* the other common form of the hypothesis follows *)
  Lemma sq_of_square z : 0 <= z -> sq (z * z) == z.
  Proof. intros; apply sq_unique; auto; reflexivity. Qed.

  Lemma score_affine x : score x == (- / s2) * x + mm / s2.
  Proof. unfold score. field. lra. Qed.

  (* E4 *)
  Theorem diag_gaussian_exact x0 xs :
    ~ Forall (fun x => x == x0) xs ->
    let draws := x0 :: xs in
    let gs := map score draws in
    diag_sigma2 sq (rv_var (rvq_run draws)) (rv_var (rvq_run gs)) == s2 /\
    diag_mu (rv_mean (rvq_run draws)) (rv_mean (rvq_run gs)) s2 == mm /\
    diag_mu (rv_mean (rvq_run draws)) (rv_mean (rvq_run gs))
            (diag_sigma2 sq (rv_var (rvq_run draws)) (rv_var (rvq_run gs))) == mm.
  Proof.
    intros NF draws gs.
    assert (Hne : draws <> []) by (unfold draws; congruence).
    destruct (var_scaling_rel (- / s2) (mm / s2) draws gs Hne) as [Hv Hm].
    { unfold gs. apply Forall2_map_r. intros; apply score_affine. }
    pose proof (var_pos_strict x0 xs NF) as Vp. fold draws in Vp.
    assert (S2 : diag_sigma2 sq (rv_var (rvq_run draws)) (rv_var (rvq_run gs)) == s2).
    { unfold diag_sigma2. apply sq_unique; [lra|]. rewrite Hv. field. split; lra. }
    assert (MU : diag_mu (rv_mean (rvq_run draws)) (rv_mean (rvq_run gs)) s2 == mm).
    { unfold diag_mu. rewrite Hm. field. lra. }
    split; [exact S2|]. split; [exact MU|].
    unfold diag_mu in *. rewrite S2. exact MU.
  Qed.

  (* whitening: with scale sd = sqrt(s2) the whitened gradient is minus the whitened position *)
  Corollary whitening sd x : 0 < sd -> sd * sd == s2 -> sd * score x == - ((x - mm) / sd).
  Proof.
    intros Hsd E. unfold score. rewrite <- E. field. lra.
  Qed.
End Gaussian.

(* ====================================================================================== *)
(* binary64                                                                                *)
(* ====================================================================================== *)
Local Close Scope Q_scope.
Import Coq.ZArith.ZArith Coq.Reals.Reals Coq.micromega.Lra.
Import Flocq.Core.Core Flocq.IEEE754.Binary Flocq.IEEE754.Bits.
Local Open Scope R_scope.

(* Flocq's Binary.is_finite / is_nan take the format explicitly; keep the names of lib/Fp.v *)
Notation is_finite := Fp.is_finite.
Notation is_nan := Fp.is_nan.
Notation R64 := (B2R 53 1024).
Notation rnd64 :=
  (round radix2 (SpecFloat.fexp 53 1024) (BinarySingleNaN.round_mode BinarySingleNaN.mode_NE)).

Local Instance vexp64 : Valid_exp (SpecFloat.fexp 53 1024) :=
  BinarySingleNaN.fexp_correct 53 1024 (eq_refl : Prec_gt_0 53).

(* finite and strictly positive, as the code observes it *)
Definition finpos (x : f64) : Prop := is_finite x = true /\ flt fzero x = true.
(* finite, in the normal range with room for a reciprocal: 2^-1022 <= x <= 2^1022 *)
Definition good (x : f64) : Prop :=
  is_finite x = true /\ bpow radix2 (-1022) <= R64 x <= bpow radix2 1022.

Lemma R64_finite_sign (s : bool) m e He :
  if s then R64 (B754_finite 53 1024 s m e He) < 0 else 0 < R64 (B754_finite 53 1024 s m e He).
Proof.
  destruct s; simpl.
  - apply F2R_lt_0. simpl. lia.
  - apply F2R_gt_0. simpl. lia.
Qed.

(* ---------------------------------------------------------------------------------------- *)
(* F1                                                                                        *)
(* ---------------------------------------------------------------------------------------- *)
Theorem keep_when_invalid_draw std inv dv scale lo hi :
  f_invalid (fmul dv scale) = true ->
  f_var_inv_std_draw std inv dv scale None lo hi = (std, inv).
Proof. intros H. unfold f_var_inv_std_draw. rewrite H. reflexivity. Qed.

Theorem keep_when_invalid_draw_grad std inv dv gv lo hi :
  f_invalid (fsqrt (fdiv dv gv)) = true ->
  f_var_inv_std_draw_grad std inv dv gv None lo hi = (std, inv).
Proof. intros H. unfold f_var_inv_std_draw_grad. rewrite H. reflexivity. Qed.

(* with a fill value the previous scale is replaced by f_set fill *)
Theorem fill_when_invalid_draw std inv dv scale f lo hi :
  f_invalid (fmul dv scale) = true ->
  f_var_inv_std_draw std inv dv scale (Some f) lo hi = f_set f.
Proof. intros H. unfold f_var_inv_std_draw. rewrite H. reflexivity. Qed.

Theorem fill_when_invalid_draw_grad std inv dv gv f lo hi :
  f_invalid (fsqrt (fdiv dv gv)) = true ->
  f_var_inv_std_draw_grad std inv dv gv (Some f) lo hi = f_set f.
Proof. intros H. unfold f_var_inv_std_draw_grad. rewrite H. reflexivity. Qed.

(* what "invalid" means: NaN, an infinity, or a zero of either sign *)
Theorem f_invalid_false_iff v :
  f_invalid v = false <-> is_finite v = true /\ R64 v <> 0.
Proof.
  unfold f_invalid, feq, fcmp, Fp.is_finite, fzero, b64_compare.
  destruct v as [s|s|s pl Hpl|s m e He].
  - simpl. split; [discriminate|]. intros [_ H]; congruence.
  - simpl. split; [discriminate|]. intros [H _]; discriminate.
  - simpl. split; [discriminate|]. intros [H _]; discriminate.
  - pose proof (R64_finite_sign s m e He) as Hs.
    split; [intros _; split; [reflexivity|destruct s; lra]|intros _; destruct s; reflexivity].
Qed.

(* ---------------------------------------------------------------------------------------- *)
(* comparison and the predicates                                                             *)
(* ---------------------------------------------------------------------------------------- *)
Lemma flt_R x y : is_finite x = true -> is_finite y = true ->
  (flt x y = true <-> R64 x < R64 y).
Proof.
  intros Hx Hy. unfold flt, fcmp, b64_compare. rewrite Bcompare_correct by assumption.
  destruct (Rcompare_spec (R64 x) (R64 y)); split; intros; try discriminate; try reflexivity; lra.
Qed.

Lemma flt_false_R x y : is_finite x = true -> is_finite y = true ->
  (flt x y = false <-> R64 y <= R64 x).
Proof.
  intros Hx Hy. pose proof (flt_R x y Hx Hy) as H. destruct (flt x y).
  - split; [discriminate|]. intros. assert (R64 x < R64 y) by (apply H; reflexivity). lra.
  - split; [|reflexivity]. intros _. apply Rnot_lt_le. intros L. apply H in L. discriminate.
Qed.

Lemma fle_R x y : is_finite x = true -> is_finite y = true ->
  fle x y = true -> R64 x <= R64 y.
Proof.
  intros Hx Hy. unfold fle, fcmp, b64_compare. rewrite Bcompare_correct by assumption.
  destruct (Rcompare_spec (R64 x) (R64 y)); intros; try discriminate; lra.
Qed.

Lemma R64_fzero : R64 fzero = 0.
Proof. reflexivity. Qed.

Lemma finpos_iff x : finpos x <-> is_finite x = true /\ 0 < R64 x.
Proof.
  unfold finpos. split; intros [Hf H]; split; auto.
  - apply (flt_R fzero x eq_refl Hf) in H. rewrite R64_fzero in H. exact H.
  - apply (flt_R fzero x eq_refl Hf). rewrite R64_fzero. exact H.
Qed.

Lemma good_finpos x : good x -> finpos x.
Proof.
  intros [Hf [Hl _]]. apply finpos_iff. split; auto.
  pose proof (bpow_gt_0 radix2 (-1022)). lra.
Qed.

(* rounding keeps a number inside a dyadic interval *)
Lemma rnd_bounds e1 e2 y :
  (-1074 <= e1)%Z -> (-1074 <= e2)%Z ->
  bpow radix2 e1 <= y <= bpow radix2 e2 ->
  bpow radix2 e1 <= rnd64 y <= bpow radix2 e2.
Proof.
  intros H1 H2 [Hl Hu]. split.
  - apply round_ge_generic; auto with typeclass_instances.
    apply generic_format_bpow. unfold SpecFloat.fexp, SpecFloat.emin. lia.
  - apply round_le_generic; auto with typeclass_instances.
    apply generic_format_bpow. unfold SpecFloat.fexp, SpecFloat.emin. lia.
Qed.

(* ---------------------------------------------------------------------------------------- *)
(* fsqrt                                                                                     *)
(* ---------------------------------------------------------------------------------------- *)
Lemma fsqrt_finite_pos x : is_finite x = true -> 0 < R64 x ->
  is_finite (fsqrt x) = true /\ R64 (fsqrt x) = rnd64 (sqrt (R64 x)).
Proof.
  intros Hf Hp. unfold fsqrt, b64_sqrt.
  destruct (Bsqrt_correct 53 1024 eq_refl eq_refl unop_nan_pl64 BinarySingleNaN.mode_NE x)
    as (HR & HF & _).
  split; [|exact HR]. unfold is_finite. rewrite HF.
  destruct x as [s|s|s pl Hpl|s m e He]; try discriminate; auto.
  destruct s; auto. exfalso. pose proof (R64_finite_sign true m e He) as Hs. simpl in Hs, Hp. lra.
Qed.

Lemma sqrt_between (x : R) : 0 < x -> Rmin x 1 <= sqrt x <= Rmax x 1.
Proof.
  intros Hx. pose proof (sqrt_lt_R0 x Hx) as Hs. pose proof (sqrt_sqrt x (Rlt_le _ _ Hx)) as Hq.
  destruct (Rle_dec x 1) as [L|G].
  - rewrite Rmin_left, Rmax_right by lra.
    assert (sqrt x <= 1) by (rewrite <- sqrt_1; apply sqrt_le_1_alt; lra).
    split; [nra|lra].
  - rewrite Rmin_right, Rmax_left by lra.
    assert (1 <= sqrt x) by (rewrite <- sqrt_1; apply sqrt_le_1_alt; lra).
    split; [lra|nra].
Qed.

(* the square root of a positive finite number is positive and finite (no side condition) *)
Theorem fsqrt_finpos x : finpos x -> finpos (fsqrt x).
Proof.
  intros H. apply finpos_iff in H. destruct H as [Hf Hp].
  destruct (fsqrt_finite_pos x Hf Hp) as [Hf' HR]. apply finpos_iff. split; auto.
  rewrite HR. pose proof (sqrt_between (R64 x) Hp) as [Hl _].
  destruct (Rle_dec (R64 x) 1) as [L|G].
  - rewrite Rmin_left in Hl by lra.
    assert (R64 x <= rnd64 (sqrt (R64 x))).
    { apply round_ge_generic; auto with typeclass_instances. apply generic_format_B2R. }
    lra.
  - rewrite Rmin_right in Hl by lra.
    assert (bpow radix2 0 <= rnd64 (sqrt (R64 x))).
    { apply round_ge_generic; auto with typeclass_instances.
      apply generic_format_bpow. unfold SpecFloat.fexp, SpecFloat.emin. lia. }
    change (bpow radix2 0) with 1 in H. lra.
Qed.

Theorem fsqrt_good x : good x -> good (fsqrt x).
Proof.
  intros [Hf [Hl Hu]].
  assert (Hp : 0 < R64 x) by (pose proof (bpow_gt_0 radix2 (-1022)); lra).
  destruct (fsqrt_finite_pos x Hf Hp) as [Hf' HR]. split; auto. rewrite HR.
  apply rnd_bounds; try lia.
  pose proof (sqrt_between (R64 x) Hp) as [S1 S2].
  assert (B1 : bpow radix2 (-1022) <= 1) by (change 1 with (bpow radix2 0); apply bpow_le; lia).
  assert (B2 : 1 <= bpow radix2 1022) by (change 1 with (bpow radix2 0); apply bpow_le; lia).
  split.
  - eapply Rle_trans; [|exact S1]. apply Rmin_glb; lra.
  - eapply Rle_trans; [exact S2|]. apply Rmax_lub; lra.
Qed.

(* ---------------------------------------------------------------------------------------- *)
(* frecip                                                                                    *)
(* ---------------------------------------------------------------------------------------- *)
Lemma fone_repr : exists pf, fone = B754_finite 53 1024 false 4503599627370496 (-52) pf.
Proof. vm_compute. eexists. reflexivity. Qed.

Lemma R64_fone : R64 fone = 1.
Proof.
  destruct fone_repr as [pf ->]. unfold B2R, F2R; simpl. lra.
Qed.

Lemma is_finite_fone : is_finite fone = true.
Proof. destruct fone_repr as [pf ->]. reflexivity. Qed.

Theorem frecip_good x : good x -> good (frecip x).
Proof.
  intros [Hf [Hl Hu]].
  assert (Hp : 0 < R64 x) by (pose proof (bpow_gt_0 radix2 (-1022)); lra).
  assert (Hinv : bpow radix2 (-1022) <= 1 / R64 x <= bpow radix2 1022).
  { unfold Rdiv. rewrite Rmult_1_l. split.
    - rewrite (bpow_opp radix2 1022 : bpow radix2 (-1022) = / bpow radix2 1022).
      apply Rinv_le_contravar; auto.
    - rewrite (bpow_opp radix2 (-1022) : bpow radix2 1022 = / bpow radix2 (-1022)).
      apply Rinv_le_contravar; auto. apply bpow_gt_0. }
  pose proof (rnd_bounds (-1022) 1022 (1 / R64 x) ltac:(lia) ltac:(lia) Hinv) as [Rl Ru].
  assert (Hnz : R64 x <> 0) by lra.
  pose proof (Bdiv_correct 53 1024 eq_refl eq_refl binop_nan_pl64 BinarySingleNaN.mode_NE
                fone x Hnz) as H.
  rewrite R64_fone in H.
  rewrite Rlt_bool_true in H.
  - destruct H as (HR & HF & _). unfold good, frecip, fdiv, b64_div, is_finite.
    rewrite HR, HF. split; [apply is_finite_fone|]. split; assumption.
  - rewrite Rabs_pos_eq by (pose proof (bpow_gt_0 radix2 (-1022)); lra).
    eapply Rle_lt_trans; [exact Ru|]. apply bpow_lt. lia.
Qed.

(* the pair stored by the update *)
Theorem f_set_good v : good v ->
  finpos (fst (f_set v)) /\ finpos (snd (f_set v)) /\
  good (fst (f_set v)) /\ good (snd (f_set v)).
Proof.
  intros H. unfold f_set; simpl.
  assert (G1 : good (fsqrt v)) by (apply fsqrt_good; assumption).
  assert (G2 : good (fsqrt (frecip v))) by (apply fsqrt_good, frecip_good; assumption).
  repeat split; try apply good_finpos; try apply G1; try apply G2; assumption.
Qed.

(* ---------------------------------------------------------------------------------------- *)
(* fclamp                                                                                    *)
(* ---------------------------------------------------------------------------------------- *)
Lemma fclamp_cases v lo hi :
  fclamp v lo hi = lo \/ fclamp v lo hi = hi \/
  (fclamp v lo hi = v /\ flt v lo = false /\ flt hi v = false).
Proof.
  unfold fclamp. destruct (flt v lo); auto. destruct (flt hi v); auto.
Qed.

(* range of the clamp for finite inputs (no assumption lo <= hi needed) *)
Theorem fclamp_range v lo hi :
  is_finite v = true -> is_finite lo = true -> is_finite hi = true ->
  is_finite (fclamp v lo hi) = true /\
  Rmin (R64 lo) (R64 hi) <= R64 (fclamp v lo hi) <= Rmax (R64 lo) (R64 hi).
Proof.
  intros Hv Hlo Hhi.
  pose proof (Rmin_l (R64 lo) (R64 hi)). pose proof (Rmin_r (R64 lo) (R64 hi)).
  pose proof (Rmax_l (R64 lo) (R64 hi)). pose proof (Rmax_r (R64 lo) (R64 hi)).
  destruct (fclamp_cases v lo hi) as [E|[E|(E & L & U)]]; rewrite E.
  - split; auto; lra.
  - split; auto; lra.
  - apply flt_false_R in L; auto. apply flt_false_R in U; auto. split; auto; lra.
Qed.

Theorem fclamp_good v lo hi :
  is_finite v = true -> good lo -> good hi -> good (fclamp v lo hi).
Proof.
  intros Hv [Hlo [L1 L2]] [Hhi [H1 H2]].
  destruct (fclamp_range v lo hi Hv Hlo Hhi) as [Hf [Hl Hu]]. split; auto.
  split.
  - eapply Rle_trans; [|exact Hl]. apply Rmin_glb; assumption.
  - eapply Rle_trans; [exact Hu|]. apply Rmax_lub; assumption.
Qed.

(* for arbitrary (possibly infinite / NaN) input: NaN stays NaN, everything else lands in range *)
Theorem fclamp_good_or_nan v lo hi :
  good lo -> good hi -> is_nan v = true \/ good (fclamp v lo hi).
Proof.
  intros Glo Ghi.
  destruct (is_finite v) eqn:Hv; [right; apply fclamp_good; assumption|].
  destruct v as [s|s|s pl Hpl|s m e He]; try discriminate; [|left; reflexivity].
  right. destruct Glo as [Flo Rlo]. destruct Ghi as [Fhi Rhi].
  assert (P : forall z, good z -> exists m e pf, z = B754_finite 53 1024 false m e pf).
  { intros z [Fz [Rz _]]. destruct z as [sz|sz|sz plz Hplz|sz mz ez Hez]; try discriminate.
    - simpl in Rz. pose proof (bpow_gt_0 radix2 (-1022)). lra.
    - destruct sz; [|eauto]. exfalso. pose proof (R64_finite_sign true mz ez Hez) as Hs.
      pose proof (bpow_gt_0 radix2 (-1022)). simpl in Hs, Rz. lra. }
  destruct (P lo (conj Flo Rlo)) as (ml & el & pl & El).
  destruct (P hi (conj Fhi Rhi)) as (mh & eh & ph & Eh).
  destruct s.
  - replace (fclamp (B754_infinity 53 1024 true) lo hi) with lo; [split; assumption|].
    rewrite El. reflexivity.
  - replace (fclamp (B754_infinity 53 1024 false) lo hi) with hi; [split; assumption|].
    rewrite El, Eh. reflexivity.
Qed.

(* ---------------------------------------------------------------------------------------- *)
(* F2                                                                                        *)
(* ---------------------------------------------------------------------------------------- *)
Theorem scale_update_safe lo hi v :
  good lo -> good hi -> f_invalid v = false ->
  finpos (fst (f_set (fclamp v lo hi))) /\ finpos (snd (f_set (fclamp v lo hi))).
Proof.
  intros Glo Ghi Hv. apply f_invalid_false_iff in Hv. destruct Hv as [Hf _].
  destruct (f_set_good (fclamp v lo hi)) as (A & B & _); [apply fclamp_good; assumption|].
  split; assumption.
Qed.

(* the three kernels keep (std, inv_std) finite and strictly positive *)
Theorem draw_preserves_finpos std inv dv scale lo hi :
  good lo -> good hi -> finpos std -> finpos inv ->
  let r := f_var_inv_std_draw std inv dv scale None lo hi in finpos (fst r) /\ finpos (snd r).
Proof.
  intros Glo Ghi Hs Hi r. unfold r, f_var_inv_std_draw.
  destruct (f_invalid (fmul dv scale)) eqn:E; [split; assumption|].
  apply scale_update_safe; assumption.
Qed.

Theorem draw_grad_preserves_finpos std inv dv gv lo hi :
  good lo -> good hi -> finpos std -> finpos inv ->
  let r := f_var_inv_std_draw_grad std inv dv gv None lo hi in finpos (fst r) /\ finpos (snd r).
Proof.
  intros Glo Ghi Hs Hi r. unfold r, f_var_inv_std_draw_grad.
  destruct (f_invalid (fsqrt (fdiv dv gv))) eqn:E; [split; assumption|].
  apply scale_update_safe; assumption.
Qed.

(* with a fill value the result is safe whenever the fill itself is in range *)
Theorem draw_fill_finpos std inv dv scale f lo hi :
  good lo -> good hi -> good f ->
  let r := f_var_inv_std_draw std inv dv scale (Some f) lo hi in finpos (fst r) /\ finpos (snd r).
Proof.
  intros Glo Ghi Gf r. unfold r, f_var_inv_std_draw.
  destruct (f_invalid (fmul dv scale)) eqn:E.
  - destruct (f_set_good f Gf) as (A & B & _). split; assumption.
  - apply scale_update_safe; assumption.
Qed.

Theorem draw_grad_fill_finpos std inv dv gv f lo hi :
  good lo -> good hi -> good f ->
  let r := f_var_inv_std_draw_grad std inv dv gv (Some f) lo hi in
  finpos (fst r) /\ finpos (snd r).
Proof.
  intros Glo Ghi Gf r. unfold r, f_var_inv_std_draw_grad.
  destruct (f_invalid (fsqrt (fdiv dv gv))) eqn:E.
  - destruct (f_set_good f Gf) as (A & B & _). split; assumption.
  - apply scale_update_safe; assumption.
Qed.

Lemma fclamp_nan v lo hi : is_nan v = true -> fclamp v lo hi = v.
Proof.
  destruct v as [s|s|s pl Hpl|s m e He]; try discriminate. intros _.
  unfold fclamp, flt, fcmp, b64_compare. destruct lo, hi; reflexivity.
Qed.

Lemma frecip_nan_not_finite x : is_nan x = true -> is_finite (frecip x) = false.
Proof.
  destruct x as [s|s|s pl Hpl|s m e He]; try discriminate. intros _.
  unfold frecip. destruct fone_repr as [pf ->]. reflexivity.
Qed.

Theorem grad_finpos g fill lo hi :
  good lo -> good hi -> good fill ->
  let r := f_var_inv_std_grad g fill lo hi in finpos (fst r) /\ finpos (snd r).
Proof.
  intros Glo Ghi Gf r. unfold r, f_var_inv_std_grad.
  set (c := fclamp (fabs g) lo hi).
  destruct (is_finite (frecip c)) eqn:E.
  - assert (Gc : good c).
    { destruct (fclamp_good_or_nan (fabs g) lo hi Glo Ghi) as [N|G]; [|exact G].
      exfalso. assert (Hc : c = fabs g) by (apply fclamp_nan; assumption).
      rewrite Hc in E. rewrite frecip_nan_not_finite in E by assumption. discriminate. }
    destruct (f_set_good (frecip c) (frecip_good c Gc)) as (A & B & _). split; assumption.
  - destruct (f_set_good fill Gf) as (A & B & _). split; assumption.
Qed.

(* ---------------------------------------------------------------------------------------- *)
(* the concrete clamp bounds of the code: lo = 1e-20, hi = 1e20                              *)
(* ---------------------------------------------------------------------------------------- *)
Definition f_1em20 : f64 := of_bits 4307583784117748259.
Definition f_1e20 : f64 := of_bits 4906019910204099648.
Definition f_2m1022 : f64 := of_bits 4503599627370496.       (* 2^-1022, smallest normal *)
Definition f_2p1022 : f64 := of_bits 9209861237972664320.    (* 2^1022 *)

Lemma R64_pow2 e pf :
  R64 (B754_finite 53 1024 false 4503599627370496 e pf) = bpow radix2 (52 + e).
Proof.
  unfold B2R, F2R. cbn [cond_Zopp Fnum Fexp].
  change (IZR 4503599627370496) with (bpow radix2 52). rewrite <- bpow_plus. reflexivity.
Qed.

Lemma R64_2m1022 : R64 f_2m1022 = bpow radix2 (-1022).
Proof.
  assert (H : exists pf, f_2m1022 = B754_finite 53 1024 false 4503599627370496 (-1074) pf)
    by (vm_compute; eexists; reflexivity).
  destruct H as [pf ->]. apply R64_pow2.
Qed.

Lemma R64_2p1022 : R64 f_2p1022 = bpow radix2 1022.
Proof.
  assert (H : exists pf, f_2p1022 = B754_finite 53 1024 false 4503599627370496 970 pf)
    by (vm_compute; eexists; reflexivity).
  destruct H as [pf ->]. apply R64_pow2.
Qed.

(* a decidable (vm_compute-able) criterion for `good` *)
Lemma good_by_compare x :
  is_finite x = true -> fle f_2m1022 x = true -> fle x f_2p1022 = true -> good x.
Proof.
  intros Hf H1 H2. split; auto.
  assert (F1 : is_finite f_2m1022 = true) by (vm_compute; reflexivity).
  assert (F2 : is_finite f_2p1022 = true) by (vm_compute; reflexivity).
  apply (fle_R _ _ F1 Hf) in H1. apply (fle_R _ _ Hf F2) in H2.
  rewrite R64_2m1022 in H1. rewrite R64_2p1022 in H2. split; assumption.
Qed.

Lemma good_1em20 : good f_1em20.
Proof. apply good_by_compare; vm_compute; reflexivity. Qed.
Lemma good_1e20 : good f_1e20.
Proof. apply good_by_compare; vm_compute; reflexivity. Qed.
Lemma good_fone : good fone.
Proof. apply good_by_compare; vm_compute; reflexivity. Qed.

Theorem scale_update_safe_1e20 v :
  f_invalid v = false ->
  let r := f_set (fclamp v f_1em20 f_1e20) in
  (is_finite (fst r) = true /\ flt fzero (fst r) = true) /\
  (is_finite (snd r) = true /\ flt fzero (snd r) = true).
Proof. intros H r. apply (scale_update_safe _ _ v good_1em20 good_1e20 H). Qed.

Corollary draw_preserves_finpos_1e20 std inv dv scale :
  finpos std -> finpos inv ->
  let r := f_var_inv_std_draw std inv dv scale None f_1em20 f_1e20 in
  finpos (fst r) /\ finpos (snd r).
Proof. apply draw_preserves_finpos; [apply good_1em20|apply good_1e20]. Qed.

Corollary draw_grad_preserves_finpos_1e20 std inv dv gv :
  finpos std -> finpos inv ->
  let r := f_var_inv_std_draw_grad std inv dv gv None f_1em20 f_1e20 in
  finpos (fst r) /\ finpos (snd r).
Proof. apply draw_grad_preserves_finpos; [apply good_1em20|apply good_1e20]. Qed.

Corollary grad_finpos_1e20 g fill :
  good fill ->
  let r := f_var_inv_std_grad g fill f_1em20 f_1e20 in finpos (fst r) /\ finpos (snd r).
Proof. apply grad_finpos; [apply good_1em20|apply good_1e20]. Qed.

(* The magnitude side condition in `good` cannot be dropped: "lo, hi finite with 0 < lo <= hi"
   is not enough.  With lo = hi = v = 2^-1074 (bit pattern 1) the reciprocal overflows and
   inv_std becomes +inf. *)
Theorem scale_update_unsafe_for_subnormal_lo :
  let d := of_bits 1 in
  is_finite d = true /\ flt fzero d = true /\ f_invalid d = false /\
  is_finite (snd (f_set (fclamp d d d))) = false.
Proof. vm_compute. repeat split. Qed.

(* likewise "finite positive fill" is not enough for the grad kernel *)
Theorem grad_unsafe_for_subnormal_fill :
  let d := of_bits 1 in
  is_finite (snd (f_var_inv_std_grad fnan d f_1em20 f_1e20)) = false.
Proof. vm_compute. reflexivity. Qed.

(* ====================================================================================== *)
(* axiom audit                                                                             *)
(* ====================================================================================== *)
(* Q part: closed under the global context *)
Print Assumptions running_mean_exact.
Print Assumptions var_scaling_rel.
Print Assumptions var_scaling.
Print Assumptions var_scaling_any.
Print Assumptions var_pos.
Print Assumptions var_zero_iff.
Print Assumptions var_pos_strict.
Print Assumptions sq_unique.
Print Assumptions sq_of_square.
Print Assumptions diag_gaussian_exact.
Print Assumptions whitening.
(* binary64 part *)
Print Assumptions keep_when_invalid_draw.
Print Assumptions keep_when_invalid_draw_grad.
Print Assumptions f_invalid_false_iff.
Print Assumptions fsqrt_finpos.
Print Assumptions fsqrt_good.
Print Assumptions frecip_good.
Print Assumptions f_set_good.
Print Assumptions fclamp_range.
Print Assumptions fclamp_good.
Print Assumptions fclamp_good_or_nan.
Print Assumptions scale_update_safe.
Print Assumptions draw_preserves_finpos.
Print Assumptions draw_grad_preserves_finpos.
Print Assumptions draw_fill_finpos.
Print Assumptions draw_grad_fill_finpos.
Print Assumptions grad_finpos.
Print Assumptions scale_update_safe_1e20.
Print Assumptions grad_finpos_1e20.
Print Assumptions scale_update_unsafe_for_subnormal_lo.
Print Assumptions grad_unsafe_for_subnormal_fill.
