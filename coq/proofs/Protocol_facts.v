(* Invariants of the labelled transition system of the parallel sampler (model/Protocol.v).
   Everything is proved for ALL histories accepted by `step` (hence by `replay`), for every number
   of chains and every total number of draws.  No axioms. *)
From Coq Require Import ZArith NArith Bool List Lia Arith.
From NutsV Require Import model.Protocol.
Import ListNotations.

(* ---------------------------------------------------------------------------------------- *)
(* 0. histories                                                                              *)
(* ---------------------------------------------------------------------------------------- *)
Fixpoint run (s : st) (evs : list ev) : option st :=
  match evs with
  | [] => Some s
  | e :: rest => match step s e with Some s' => run s' rest | None => None end
  end.

Lemma replay_run s evs k s' : replay s evs k = inl s' <-> run s evs = Some s'.
Proof.
  revert s k; induction evs as [|e evs IH]; intros s k; simpl.
  - split; intros H; inversion H; reflexivity.
  - destruct (step s e) as [s1|]; [apply IH|]. split; discriminate.
Qed.

Lemma run_app s evs1 evs2 :
  run s (evs1 ++ evs2) = match run s evs1 with Some s1 => run s1 evs2 | None => None end.
Proof.
  revert s; induction evs1 as [|e evs1 IH]; intros s; simpl; [reflexivity|].
  destruct (step s e); [apply IH|reflexivity].
Qed.

Definition reach (n total : nat) (s : st) : Prop := exists evs, run (init n total) evs = Some s.

Lemma reach_init n total : reach n total (init n total).
Proof. exists []; reflexivity. Qed.

Lemma reach_step n total s e s' : reach n total s -> step s e = Some s' -> reach n total s'.
Proof.
  intros [evs H] Hs. exists (evs ++ [e]). rewrite run_app, H. simpl. rewrite Hs. reflexivity.
Qed.

Lemma reach_run n total s evs s' : reach n total s -> run s evs = Some s' -> reach n total s'.
Proof.
  revert s; induction evs as [|e evs IH]; intros s Hr H; simpl in H.
  - inversion H; subst; assumption.
  - destruct (step s e) as [s1|] eqn:E; [|discriminate]. eapply IH; [|eassumption].
    eapply reach_step; eassumption.
Qed.

(* the induction principle used throughout: a property of the initial state preserved by every
   accepted event holds in every reachable state *)
Lemma reach_ind' n total (P : st -> Prop) :
  P (init n total) ->
  (forall s e s', reach n total s -> P s -> step s e = Some s' -> P s') ->
  forall s, reach n total s -> P s.
Proof.
  intros H0 Hstep s [evs H].
  assert (G : forall evs s0, reach n total s0 -> P s0 -> run s0 evs = Some s -> P s).
  { clear evs H. induction evs as [|e evs IH]; intros s0 Hr HP H; simpl in H.
    - inversion H; subst; assumption.
    - destruct (step s0 e) as [s1|] eqn:E; [|discriminate].
      eapply IH; [| |eassumption]; [eapply reach_step|eapply Hstep]; eassumption. }
  eapply G; [apply reach_init|exact H0|exact H].
Qed.

(* ---------------------------------------------------------------------------------------- *)
(* 1. lists: upd, nth_error, counting                                                        *)
(* ---------------------------------------------------------------------------------------- *)
Lemma upd_length {A} (l : list A) i x : length (upd l i x) = length l.
Proof. revert i; induction l; intros [|i]; simpl; auto. Qed.

Lemma nth_upd_eq {A} (l : list A) i x : i < length l -> nth_error (upd l i x) i = Some x.
Proof.
  revert i; induction l; intros [|i] H; simpl in *; try lia; auto. apply IHl; lia.
Qed.

Lemma nth_upd_neq {A} (l : list A) i j x : j <> i -> nth_error (upd l i x) j = nth_error l j.
Proof.
  revert i j; induction l; intros [|i] [|j] H; simpl; auto; try congruence.
Qed.

Lemma nth_some_lt {A} (l : list A) i x : nth_error l i = Some x -> i < length l.
Proof. intros H. apply nth_error_Some. congruence. Qed.

Lemma nth_upd {A} (l : list A) i j x c :
  nth_error (upd l i x) j = Some c ->
  (j = i /\ c = x /\ j < length l) \/ (j <> i /\ nth_error l j = Some c).
Proof.
  intros H. destruct (Nat.eq_dec j i) as [->|N].
  - left. assert (L : i < length l) by (apply nth_some_lt in H; rewrite upd_length in H; exact H).
    rewrite nth_upd_eq in H by exact L. inversion H; auto.
  - right. rewrite nth_upd_neq in H by exact N. auto.
Qed.

Lemma Forall_upd {A} (P : A -> Prop) l i x : Forall P l -> P x -> Forall P (upd l i x).
Proof.
  intros H Hx; revert i; induction H; intros [|i]; simpl; constructor; auto.
Qed.

Lemma Forall_nth {A} (P : A -> Prop) l i x : Forall P l -> nth_error l i = Some x -> P x.
Proof. intros H E. rewrite Forall_forall in H. apply H. eapply nth_error_In; eauto. Qed.

Lemma Forall_of_nth {A} (P : A -> Prop) l :
  (forall i x, nth_error l i = Some x -> P x) -> Forall P l.
Proof.
  intros H. apply Forall_forall. intros x Hin. apply In_nth_error in Hin. destruct Hin as [i Hi].
  eauto.
Qed.

Definition cnt {A} (f : A -> bool) (l : list A) : nat := length (filter f l).

Definition b2n (b : bool) : nat := if b then 1 else 0.

Lemma cnt_cons {A} (f : A -> bool) a l : cnt f (a :: l) = b2n (f a) + cnt f l.
Proof. unfold cnt; simpl. destruct (f a); reflexivity. Qed.

Lemma cnt_app {A} (f : A -> bool) l1 l2 : cnt f (l1 ++ l2) = cnt f l1 + cnt f l2.
Proof. unfold cnt. rewrite filter_app, app_length. reflexivity. Qed.

Lemma cnt_upd {A} (f : A -> bool) l i c x :
  nth_error l i = Some c -> cnt f (upd l i x) + b2n (f c) = cnt f l + b2n (f x).
Proof.
  revert i; induction l as [|a l IH]; intros [|i] H; simpl in H; try discriminate.
  - inversion H; subst. simpl. rewrite !cnt_cons. lia.
  - simpl. rewrite !cnt_cons. specialize (IH _ H). lia.
Qed.

Lemma cnt_map {A} (f : A -> bool) (g : A -> A) l :
  (forall a, f (g a) = f a) -> cnt f (map g l) = cnt f l.
Proof.
  intros H; induction l as [|a l IH]; [reflexivity|]. simpl. rewrite !cnt_cons, H, IH. reflexivity.
Qed.

Lemma cnt_pos_iff {A} (f : A -> bool) l : 0 < cnt f l <-> exists a, In a l /\ f a = true.
Proof.
  induction l as [|a l IH]; simpl.
  - unfold cnt; simpl. split; [lia|intros [a [[] _]]].
  - rewrite cnt_cons. split.
    + intros H. destruct (f a) eqn:E; [exists a; auto|]. simpl in H. apply IH in H.
      destruct H as [b [Hb Fb]]. exists b; auto.
    + intros [b [[->|Hb] Fb]]; [rewrite Fb; simpl; lia|].
      assert (0 < cnt f l) by (apply IH; eauto). lia.
Qed.

Lemma cnt_existsb {A} (f : A -> bool) l : existsb f l = true <-> 0 < cnt f l.
Proof. rewrite cnt_pos_iff, existsb_exists. reflexivity. Qed.

Lemma cnt_forallb {A} (f : A -> bool) l : forallb f l = true <-> cnt (fun a => negb (f a)) l = 0.
Proof.
  induction l as [|a l IH]; simpl; [unfold cnt; simpl; tauto|].
  rewrite cnt_cons, andb_true_iff, IH. destruct (f a); simpl; intuition (try discriminate; try lia).
Qed.

Lemma cnt_repeat_false {A} (f : A -> bool) a n : f a = false -> cnt f (repeat a n) = 0.
Proof. intros H; induction n; simpl; [reflexivity|]. rewrite cnt_cons, H, IHn. reflexivity. Qed.

(* ---------------------------------------------------------------------------------------- *)
(* 2. the chain transition factored through a function of the chain alone                    *)
(* ---------------------------------------------------------------------------------------- *)
Definition taken (c : chain) : chain :=
  {| c_pc := c_pc c; c_mail := c_mail c; c_tx := false; c_draw := c_draw c; c_rec := c_rec c;
     c_slot := false; c_since_pause := c_since_pause c |}.

Definition infer_taken (tk : bool) (r : rcv) (c : chain) : chain :=
  if tk && rcv_eqb r RDisc && negb (match c_mail c with [] => false | _ => true end)
  then taken c else c.

(* next chain state and the result sent on the results channel, if any.  T = s_total,
   tk = taking s *)
Definition chain_local (T : nat) (tk : bool) (c : chain) (e : cev) : option (chain * option bool) :=
  match e, c_pc c with
  | EStarted, PQueued => Some (set_pc c PStarted, None)
  | ETryRecv r, (PStarted | PAfter) =>
      let c1 := infer_taken tk r c in
      if rcv_eqb r (fst (recv_now c1))
      then Some ({| c_pc := PTop r; c_mail := snd (recv_now c1); c_tx := c_tx c1; c_draw := c_draw c1;
                    c_rec := c_rec c1; c_slot := c_slot c1; c_since_pause := c_since_pause c1 |}, None)
      else None
  | EBlock, PTop (RMsg MPause) => if c_draw c <? T then Some (set_pc c PBlocked, None) else None
  | ERecv r, PBlocked =>
      let c1 := infer_taken tk r c in
      if rcv_eqb r (fst (recv_now c1)) && negb (rcv_eqb r REmpty)
      then Some ({| c_pc := PTop r; c_mail := snd (recv_now c1); c_tx := c_tx c1; c_draw := c_draw c1;
                    c_rec := c_rec c1; c_slot := c_slot c1; c_since_pause := c_since_pause c1 |}, None)
      else None
  | EBeforeDraw d, PTop (REmpty | RMsg MResume) =>
      if (c_draw c <? T) && (d =? c_draw c) then Some (set_pc c PDrawing, None) else None
  | EDrawn d, PDrawing => if d =? c_draw c then Some (set_pc c PDrawn, None) else None
  | ETraceGone d, PDrawn =>
      if (d =? c_draw c) && (negb (c_slot c) || tk)
      then Some ({| c_pc := PFinishing; c_mail := c_mail c; c_tx := false; c_draw := c_draw c;
                    c_rec := c_rec c; c_slot := false; c_since_pause := c_since_pause c |}, None)
      else None
  | ERecorded d, PDrawn =>
      if (d =? c_draw c) && c_slot c
      then Some ({| c_pc := if S (c_draw c) =? T then PFinishing else PAfter;
                    c_mail := c_mail c; c_tx := c_tx c; c_draw := S (c_draw c);
                    c_rec := c_rec c ++ [d]; c_slot := c_slot c;
                    c_since_pause := S (c_since_pause c) |}, None)
      else None
  | EResult true, PFinishing => Some (set_pc c (PDone true), Some true)
  | EResult true, PTop r =>
      if (T <=? c_draw c) || rcv_eqb r RDisc then Some (set_pc c (PDone true), Some true) else None
  | EResult false, (PQueued | PStarted | PDrawing | PDrawn) => Some (set_pc c (PDone false), Some false)
  | _, _ => None
  end.

Definition apply_local (s : st) (i : nat) (r : chain * option bool) : st :=
  {| s_chains := upd (s_chains s) i (fst r); s_ctl := s_ctl s; s_user := s_user s;
     s_cmd_open := s_cmd_open s;
     s_results := match snd r with Some ok => s_results s ++ [ok] | None => s_results s end;
     s_total := s_total s; s_paused := s_paused s; s_ctl_ok := s_ctl_ok s |}.

Lemma chain_step_local s i e :
  chain_step s i e =
  match nth_error (s_chains s) i with
  | None => None
  | Some c => option_map (apply_local s i) (chain_local (s_total s) (taking s) c e)
  end.
Proof.
  unfold chain_step. destruct (nth_error (s_chains s) i) as [c|]; [|reflexivity].
  unfold chain_local, infer_taken, taken.
  destruct e as [|r|  |r|d|d|d|d|ok]; destruct (c_pc c) as [| |r0| | | | | |ok0];
    try reflexivity;
    try (destruct (recv_now _) as [r' rest]; simpl);
    try destruct ok; try destruct r0 as [|[|]|]; try reflexivity;
    match goal with |- context [if ?b then _ else _] => destruct b end; reflexivity.
Qed.

Lemma chain_step_inv s i e s' :
  chain_step s i e = Some s' ->
  exists c r, nth_error (s_chains s) i = Some c /\
              chain_local (s_total s) (taking s) c e = Some r /\ s' = apply_local s i r.
Proof.
  rewrite chain_step_local. destruct (nth_error (s_chains s) i) as [c|]; [|discriminate].
  destruct (chain_local _ _ c e) as [r|] eqn:E; [|discriminate]. simpl. intros H; inversion H.
  exists c, r; repeat split; auto.
Qed.

(* ---------------------------------------------------------------------------------------- *)
(* 3. case analyses of the controller and user transitions                                   *)
(* ---------------------------------------------------------------------------------------- *)
Definition msg_of (c : cmd) : option msg :=
  match c with KPause => Some MPause | KResume => Some MResume | _ => None end.

Definition cmd_target (s : st) (c : cmd) : kpc :=
  match c with
  | KPause | KResume => if 0 <? length (s_chains s) then KHandling c 0 else KResponding c
  | _ => KResponding c
  end.

Definition fail_finalize (s : st) : st :=
  {| s_chains := s_chains s; s_ctl := KFinalizing; s_user := s_user s;
     s_cmd_open := s_cmd_open s; s_results := s_results s; s_total := s_total s;
     s_paused := s_paused s; s_ctl_ok := false |}.

Definition drop_cmd (s : st) (u : upc) : st :=
  {| s_chains := s_chains s; s_ctl := s_ctl s; s_user := u; s_cmd_open := false;
     s_results := s_results s; s_total := s_total s; s_paused := s_paused s;
     s_ctl_ok := s_ctl_ok s |}.

Inductive ctl_case (s : st) : kev -> st -> Prop :=
| CC_cmd c : s_ctl s = KLoop -> s_user s = UCalling c ->
    ctl_case s (ECmd c) (set_ctl s (cmd_target s c))
| CC_send_ok m i c ch : s_ctl s = KHandling c i -> msg_of c = Some m ->
    nth_error (s_chains s) i = Some ch ->
    ctl_case s (ESend m i true)
      (set_ctl (set_chains s (upd (s_chains s) i (push_mail ch m))) (after_send s c i))
| CC_send_fail m i c ch : s_ctl s = KHandling c i -> msg_of c = Some m ->
    nth_error (s_chains s) i = Some ch -> is_done ch = true ->
    ctl_case s (ESend m i false) (set_ctl s (after_send s c i))
| CC_disc : s_ctl s = KLoop -> s_cmd_open s = false ->
    ctl_case s EDisconnected (set_ctl s KDisconnected)
| CC_fin_ok : s_ctl s = KDisconnected -> ctl_case s (EFinalizeStart true) (set_ctl s KFinalizing)
| CC_fin_fail : (s_ctl s = KLoop \/ exists c, s_ctl s = KResponding c) ->
    ctl_case s (EFinalizeStart false) (fail_finalize s)
| CC_fin_done : s_ctl s = KFinalizing ->
    ctl_case s EFinalizeDone (set_ctl (set_chains s (map taken (s_chains s))) KFinished).

Lemma ctl_step_cases s e s' : ctl_step s e = Some s' <-> ctl_case s e s'.
Proof.
  split.
  - unfold ctl_step. intros H.
    destruct e as [c|m i ok| |ok|].
    + destruct (s_ctl s) as [|c0 nx|c0| | |] eqn:K; try discriminate.
      destruct (s_user s) as [|c'| | |] eqn:U; try discriminate.
      destruct c, c'; try discriminate; inversion H; subst; apply (CC_cmd s _ K U).
    + destruct (s_ctl s) as [|c0 nx|c0| | |] eqn:K; try discriminate.
      destruct (Nat.eqb_spec i nx) as [->|]; [|discriminate]. simpl in H.
      destruct m, c0; try discriminate;
        (destruct (nth_error (s_chains s) nx) as [ch|] eqn:N; [|discriminate]);
        (destruct ok; [inversion H; subst; eapply CC_send_ok; eauto|]);
        (destruct (is_done ch) eqn:D; [|discriminate]); inversion H; subst;
        eapply CC_send_fail; eauto.
    + destruct (s_ctl s) as [|c0 nx|c0| | |] eqn:K; try discriminate.
      destruct (s_cmd_open s) eqn:O; [discriminate|]. inversion H; subst. apply CC_disc; auto.
    + destruct (s_ctl s) as [|c0 nx|c0| | |] eqn:K; destruct ok; try discriminate;
        inversion H; subst; first [apply CC_fin_ok; assumption | apply CC_fin_fail; eauto].
    + destruct (s_ctl s) as [|c0 nx|c0| | |] eqn:K; try discriminate.
      inversion H; subst. apply (CC_fin_done s K).
  - intros H. destruct H; unfold ctl_step;
      repeat match goal with H : _ = _ |- _ => rewrite H end; try reflexivity.
    + destruct c; reflexivity.
    + rewrite Nat.eqb_refl. destruct c, m; simpl in *; try discriminate; reflexivity.
    + rewrite Nat.eqb_refl. destruct c, m; simpl in *; try discriminate; reflexivity.
    + destruct H as [->|[c ->]]; reflexivity.
Qed.

Lemma cmd_eqb_eq a b : cmd_eqb a b = true -> a = b.
Proof. destruct a, b; simpl; congruence. Qed.

Lemma cmd_eqb_refl a : cmd_eqb a a = true.
Proof. destruct a; reflexivity. Qed.

Definition ret_state (s : st) (c : cmd) : st :=
  let s1 := set_ctl (set_user s UIdle) KLoop in
  match c with KPause => reset_since s1 true | KResume => reset_since s1 false | _ => s1 end.

Definition ctl_gone (k : kpc) : Prop := k = KFinalizing \/ k = KFinished \/ k = KDisconnected.

Inductive user_case (s : st) : uev -> st -> Prop :=
| UC_call c : s_user s = UIdle -> user_case s (ECall c) (set_user s (UCalling c))
| UC_ret c : s_user s = UCalling c -> s_ctl s = KResponding c ->
    user_case s (ERet c 1%Z) (ret_state s c)
| UC_ret_err c : s_user s = UCalling c -> ctl_gone (s_ctl s) ->
    user_case s (ERet c 0%Z) (set_user s UIdle)
| UC_callwait : s_user s = UIdle -> user_case s ECallWait (set_user s UWaiting)
| UC_wait_timeout : s_user s = UWaiting -> user_case s (ERetWait 0%Z) (set_user s UIdle)
| UC_wait_trace : s_user s = UWaiting -> all_done s = true ->
    forallb (fun b => b) (s_results s) = true -> s_ctl_ok s = true -> s_ctl s = KFinished ->
    user_case s (ERetWait 1%Z) (set_user s UGone)
| UC_wait_err : s_user s = UWaiting -> existsb negb (s_results s) || negb (s_ctl_ok s) = true ->
    user_case s (ERetWait 2%Z) (drop_cmd s UGone)
| UC_callabort : s_user s = UIdle -> user_case s ECallAbort (drop_cmd s UAborting)
| UC_abort_ok : s_user s = UAborting -> s_ctl s = KFinished -> s_ctl_ok s = true ->
    forallb (fun b => b) (s_results s) = true -> user_case s (ERetAbort 1%Z) (set_user s UGone)
| UC_abort_chain_err : s_user s = UAborting -> s_ctl s = KFinished -> s_ctl_ok s = true ->
    existsb negb (s_results s) = true -> user_case s (ERetAbort 3%Z) (set_user s UGone)
| UC_abort_ctl_err : s_user s = UAborting -> s_ctl s = KFinished -> s_ctl_ok s = false ->
    user_case s (ERetAbort 2%Z) (set_user s UGone).

Lemma user_step_cases s e s' : user_step s e = Some s' <-> user_case s e s'.
Proof.
  split.
  - unfold user_step. intros H.
    destruct e as [c|c code| |code| |code]; destruct (s_user s) as [|c'| | |] eqn:U; try discriminate.
    + inversion H; subst. apply UC_call; auto.
    + destruct code as [|[p|p|]|]; try discriminate.
      * destruct (s_ctl s) eqn:K; try discriminate;
          (destruct (cmd_eqb c c') eqn:E1; [|discriminate]); apply cmd_eqb_eq in E1; subst c';
          inversion H; subst; eapply UC_ret_err; eauto; unfold ctl_gone; rewrite K; auto.
      * destruct (s_ctl s) as [| |c''| | |] eqn:K; try discriminate.
        destruct (cmd_eqb c c') eqn:E1; [|discriminate]. apply cmd_eqb_eq in E1; subst c'.
        destruct (cmd_eqb c c'') eqn:E2; [|discriminate]. apply cmd_eqb_eq in E2; subst c''.
        inversion H; subst. eapply (UC_ret s c); eauto.
    + inversion H; subst. apply UC_callwait; auto.
    + destruct code as [|[[p|p|]|[p|p|]|]|]; try discriminate.
      * inversion H; subst. apply UC_wait_timeout; auto.
      * destruct (existsb negb (s_results s) || negb (s_ctl_ok s)) eqn:E; [|discriminate].
        inversion H; subst. apply UC_wait_err; auto.
      * destruct (all_done s) eqn:A; [|discriminate].
        destruct (forallb (fun b => b) (s_results s)) eqn:F; [|discriminate].
        destruct (s_ctl_ok s) eqn:O; [|discriminate]. simpl in H.
        destruct (s_ctl s) eqn:K; try discriminate. inversion H; subst.
        apply UC_wait_trace; auto.
    + inversion H; subst. apply UC_callabort; auto.
    + destruct (s_ctl s) eqn:K; try discriminate.
      destruct code as [|[[p|p|]|[p|p|]|]|]; try discriminate.
      * destruct (s_ctl_ok s) eqn:O; [|discriminate]. simpl in H.
        destruct (existsb negb (s_results s)) eqn:E; [|discriminate]. inversion H; subst.
        apply UC_abort_chain_err; auto.
      * destruct (s_ctl_ok s) eqn:O; [discriminate|]. inversion H; subst.
        apply UC_abort_ctl_err; auto.
      * destruct (s_ctl_ok s) eqn:O; [|discriminate]. simpl in H.
        destruct (forallb (fun b => b) (s_results s)) eqn:F; [|discriminate]. inversion H; subst.
        apply UC_abort_ok; auto.
  - intros H. destruct H; unfold user_step;
      repeat match goal with H : _ = _ |- _ => rewrite H end; rewrite ?cmd_eqb_refl; try reflexivity.
    + destruct H0 as [-> | [-> | ->]]; rewrite ?cmd_eqb_refl; reflexivity.
Qed.

(* the whole transition relation; the inferred drop of the command sender is folded into the
   `disconnected` case *)
Inductive step_case (s : st) : ev -> st -> Prop :=
| SC_chain i e c r : nth_error (s_chains s) i = Some c ->
    chain_local (s_total s) (taking s) c e = Some r -> step_case s (EvChain i e) (apply_local s i r)
| SC_disc : s_ctl s = KLoop ->
    (s_cmd_open s = false \/
     (s_user s = UWaiting /\ all_done s || existsb negb (s_results s) = true)) ->
    step_case s (EvCtl EDisconnected) (set_ctl (drop_cmd s (s_user s)) KDisconnected)
| SC_ctl k s' : k <> EDisconnected -> ctl_case s k s' -> step_case s (EvCtl k) s'
| SC_user u s' : user_case s u s' -> step_case s (EvUser u) s'.

Lemma drop_cmd_id s : s_cmd_open s = false -> drop_cmd s (s_user s) = s.
Proof. destruct s; simpl; intros ->; reflexivity. Qed.

Lemma infer_drop_shape s :
  s_cmd_open (infer_drop s) = false ->
  infer_drop s = drop_cmd s (s_user s) /\
  (s_cmd_open s = false \/
   (s_user s = UWaiting /\ all_done s || existsb negb (s_results s) = true)).
Proof.
  unfold infer_drop.
  assert (D : s_cmd_open s = false -> s = drop_cmd s (s_user s) /\
    (s_cmd_open s = false \/
     (s_user s = UWaiting /\ all_done s || existsb negb (s_results s) = true))).
  { intros O. split; [symmetry; apply drop_cmd_id; exact O|left; exact O]. }
  destruct (s_user s) eqn:U; try exact D.
  destruct (all_done s || existsb negb (s_results s)) eqn:A; [|exact D].
  intros _. split; [reflexivity|right; auto].
Qed.

Lemma step_cases s e s' : step s e = Some s' -> step_case s e s'.
Proof.
  destruct e as [i e|k|u]; intros H.
  - apply chain_step_inv in H. destruct H as (c & r & Hn & Hl & ->). eapply SC_chain; eauto.
  - destruct k; try (apply SC_ctl; [discriminate|apply ctl_step_cases; exact H]).
    change (ctl_step (infer_drop s) EDisconnected = Some s') in H.
    apply ctl_step_cases in H. inversion H as [ | | |K O E0| | |]; subst.
    destruct (infer_drop_shape s O) as [E D]. rewrite E.
    apply SC_disc; [|exact D]. rewrite <- K. unfold infer_drop.
    destruct (s_user s); try reflexivity. destruct (_ || _); reflexivity.
  - apply SC_user. apply user_step_cases. exact H.
Qed.

Ltac step_inv H :=
  apply step_cases in H;
  destruct H as [?i ?e ?c ?r ?Hn ?Hl | ?Hk ?Hd | ?k ?s' ?Hne ?Hc | ?u ?s' ?Hu];
  [ | | match goal with Hc : ctl_case _ _ _ |- _ => destruct Hc; try congruence end
      | match goal with Hu : user_case _ _ _ |- _ => destruct Hu end ].

(* same, by inversion: usable when the event is (partly) known *)
Ltac step_inv' H :=
  apply step_cases in H; inversion H; subst; clear H;
  try match goal with Hc : ctl_case _ _ _ |- _ => inversion Hc; subst; clear Hc; try congruence end;
  try match goal with Hu : user_case _ _ _ |- _ => inversion Hu; subst; clear Hu end.

(* inversion of chain_local: one goal per enabled (event, pc) pair, guards as hypotheses *)
Ltac local_inv H :=
  match type of H with
  | chain_local _ _ ?c ?e = Some _ =>
      unfold chain_local in H;
      destruct e; destruct (c_pc c) eqn:?PC; try discriminate H;
      repeat match type of H with
             | context [match ?x with _ => _ end] =>
                 match x with
                 | recv_now _ => fail 1
                 | _ => destruct x eqn:?G; try discriminate H
                 end
             end;
      inversion H; subst; clear H
  end.

(* ---------------------------------------------------------------------------------------- *)
(* 4. I3: the number of chains and the total are constant                                    *)
(* ---------------------------------------------------------------------------------------- *)
Lemma step_length_total s e s' :
  step s e = Some s' -> length (s_chains s') = length (s_chains s) /\ s_total s' = s_total s.
Proof.
  intros H. step_inv H; simpl; try rewrite upd_length; try rewrite map_length; auto.
  all: unfold ret_state; destruct c; simpl; try rewrite map_length; auto.
Qed.

Theorem I3_chains_total n total s :
  reach n total s -> length (s_chains s) = n /\ s_total s = total.
Proof.
  revert s. apply (reach_ind' n total).
  - simpl. rewrite repeat_length. auto.
  - intros s e s' _ IH H. apply step_length_total in H. destruct H as [-> ->]. assumption.
Qed.

(* ---------------------------------------------------------------------------------------- *)
(* 5. I1 / I8: the recorded draws are exactly 0, 1, ..., c_draw - 1, in order                *)
(* ---------------------------------------------------------------------------------------- *)
Lemma rcv_eqb_eq a b : rcv_eqb a b = true -> a = b.
Proof. destruct a as [|[|]|], b as [|[|]|]; simpl; congruence. Qed.

Lemma rcv_eqb_refl a : rcv_eqb a a = true.
Proof. destruct a as [|[|]|]; reflexivity. Qed.

Lemma recv_disc c : fst (recv_now c) = RDisc -> c_tx c = false /\ c_mail c = [].
Proof. unfold recv_now. destruct (c_mail c); destruct (c_tx c); simpl; try discriminate; auto. Qed.

Lemma infer_taken_cases tk r c :
  infer_taken tk r c = c \/
  (tk = true /\ r = RDisc /\ c_mail c = [] /\ infer_taken tk r c = taken c).
Proof.
  unfold infer_taken. destruct tk; simpl; auto.
  destruct (rcv_eqb r RDisc) eqn:E; simpl; auto. apply rcv_eqb_eq in E.
  destruct (c_mail c); simpl; auto.
Qed.

Ltac bools :=
  repeat match goal with
  | H : _ && _ = true |- _ => apply andb_true_iff in H; destruct H
  | H : _ || _ = false |- _ => apply orb_false_iff in H; destruct H
  | H : _ || _ = true |- _ => apply orb_true_iff in H
  | H : (_ <? _) = true |- _ => apply Nat.ltb_lt in H
  | H : (_ <? _) = false |- _ => apply Nat.ltb_ge in H
  | H : (_ <=? _) = true |- _ => apply Nat.leb_le in H
  | H : (_ <=? _) = false |- _ => apply Nat.leb_gt in H
  | H : (_ =? _) = true |- _ => apply Nat.eqb_eq in H
  | H : (_ =? _) = false |- _ => apply Nat.eqb_neq in H
  | H : rcv_eqb _ _ = true |- _ => apply rcv_eqb_eq in H
  | H : negb _ = true |- _ => apply negb_true_iff in H
  | H : negb _ = false |- _ => apply negb_false_iff in H
  end.

Definition cinv (T : nat) (c : chain) : Prop :=
  c_rec c = seq 0 (c_draw c) /\ c_draw c <= T /\
  match c_pc c with
  | PDrawing | PDrawn | PAfter | PBlocked => c_draw c < T
  | PFinishing | PDone true => c_draw c = T \/ c_tx c = false
  | PTop RDisc => c_tx c = false
  | _ => True
  end.

Lemma chain_local_cinv T tk c e c' o :
  cinv T c -> chain_local T tk c e = Some (c', o) -> cinv T c'.
Proof.
  intros (R & L & P) H. local_inv H; simpl in P; unfold cinv; simpl.
  all: try (destruct (infer_taken_cases tk r c) as [E|(_ & _ & _ & E)]; rewrite E in *; simpl).
  all: bools; subst; try change (0 :: seq 1 (c_draw c)) with (seq 0 (S (c_draw c)));
    try rewrite seq_S; simpl; try rewrite R; repeat split; auto; try lia.
  all: try match goal with
           | |- match ?r with _ => _ end => destruct r as [|[|]|] eqn:?E; auto
           end.
  all: try match goal with
           | H : fst (recv_now _) = RDisc |- _ => apply recv_disc in H; tauto
           end.
  destruct G0; bools; subst; auto. left; lia.
Qed.

(* ---------------------------------------------------------------------------------------- *)
(* 6. I2 (frame): how one event changes each chain                                           *)
(* ---------------------------------------------------------------------------------------- *)
Definition reset (c : chain) : chain :=
  {| c_pc := c_pc c; c_mail := c_mail c; c_tx := c_tx c; c_draw := c_draw c; c_rec := c_rec c;
     c_slot := c_slot c; c_since_pause := 0 |}.

(* chain j goes from c to c' when event e is accepted in state s: the only possibilities *)
Inductive chain_change (s : st) (e : ev) (j : nat) (c : chain) : chain -> Prop :=
| CH_same : chain_change s e j c c
| CH_local e' c' o : e = EvChain j e' ->
    chain_local (s_total s) (taking s) c e' = Some (c', o) -> chain_change s e j c c'
| CH_push m k : e = EvCtl (ESend m j true) -> s_ctl s = KHandling k j -> msg_of k = Some m ->
    chain_change s e j c (push_mail c m)
| CH_taken : e = EvCtl EFinalizeDone -> s_ctl s = KFinalizing -> chain_change s e j c (taken c)
| CH_reset k : e = EvUser (ERet k 1%Z) -> (k = KPause \/ k = KResume) ->
    chain_change s e j c (reset c).

Lemma nth_map_some {A B} (f : A -> B) l j c : nth_error l j = Some c -> nth_error (map f l) j = Some (f c).
Proof. intros H. rewrite nth_error_map, H. reflexivity. Qed.

Lemma step_chain_change s e s' :
  step s e = Some s' ->
  forall j c, nth_error (s_chains s) j = Some c ->
  exists c', nth_error (s_chains s') j = Some c' /\ chain_change s e j c c'.
Proof.
  intros H j c0 Hj. step_inv H; simpl; try (exists c0; split; [assumption|apply CH_same]).
  - destruct (Nat.eq_dec j i) as [->|N].
    + exists (fst r). split; [apply nth_upd_eq; eapply nth_some_lt; eauto|].
      destruct r as [c' o]. rewrite Hn in Hj; inversion Hj; subst. eapply CH_local; eauto.
    + exists c0. rewrite nth_upd_neq by exact N. split; [assumption|apply CH_same].
  - destruct (Nat.eq_dec j i) as [->|N].
    + exists (push_mail ch m). split; [apply nth_upd_eq; eapply nth_some_lt; eauto|].
      rewrite H1 in Hj; inversion Hj; subst. eapply CH_push; eauto.
    + exists c0. rewrite nth_upd_neq by exact N. split; [assumption|apply CH_same].
  - exists (taken c0). split; [apply nth_map_some; assumption|apply CH_taken; auto].
  - unfold ret_state. destruct c; simpl;
      try (exists c0; split; [assumption|apply CH_same]);
      (exists (reset c0); split; [apply (nth_map_some reset); assumption|eapply CH_reset; eauto]).
Qed.

Lemma step_chain_change_back s e s' :
  step s e = Some s' ->
  forall j c', nth_error (s_chains s') j = Some c' ->
  exists c, nth_error (s_chains s) j = Some c /\ chain_change s e j c c'.
Proof.
  intros H j c' Hj. pose proof (step_length_total _ _ _ H) as [L _].
  destruct (nth_error (s_chains s) j) as [c|] eqn:E.
  - destruct (step_chain_change _ _ _ H _ _ E) as (c'' & E' & Hc). rewrite Hj in E'.
    inversion E'; subst. eauto.
  - apply nth_error_None in E. apply nth_some_lt in Hj. lia.
Qed.

(* preservation of a per-chain property that may depend on the state *)
Lemma Forall_chains_step (P : st -> chain -> Prop) s e s' :
  step s e = Some s' ->
  (forall j c c', nth_error (s_chains s) j = Some c -> P s c -> chain_change s e j c c' -> P s' c') ->
  Forall (P s) (s_chains s) -> Forall (P s') (s_chains s').
Proof.
  intros H Hp F. apply Forall_of_nth. intros j c' Hj.
  destruct (step_chain_change_back _ _ _ H _ _ Hj) as (c & Hc & Ch).
  eapply Hp; eauto. eapply Forall_nth; eauto.
Qed.

(* what one event does to the other components of the state *)
Lemma chain_step_frame s i e s' :
  chain_step s i e = Some s' ->
  (forall j, j <> i -> nth_error (s_chains s') j = nth_error (s_chains s) j) /\
  length (s_chains s') = length (s_chains s) /\
  s_ctl s' = s_ctl s /\ s_user s' = s_user s /\ s_cmd_open s' = s_cmd_open s /\
  s_total s' = s_total s /\ s_paused s' = s_paused s /\ s_ctl_ok s' = s_ctl_ok s /\
  (s_results s' = s_results s \/ exists ok, s_results s' = s_results s ++ [ok]).
Proof.
  intros H. apply chain_step_inv in H. destruct H as (c & [c' o] & Hn & Hl & ->). simpl.
  repeat split; auto using upd_length.
  - intros j N. apply nth_upd_neq; exact N.
  - destruct o; eauto.
Qed.

Lemma ctl_step_frame s e s' :
  ctl_step s e = Some s' ->
  s_user s' = s_user s /\ s_cmd_open s' = s_cmd_open s /\ s_results s' = s_results s /\
  s_total s' = s_total s /\ s_paused s' = s_paused s /\
  length (s_chains s') = length (s_chains s) /\
  forall j c, nth_error (s_chains s) j = Some c ->
    exists c', nth_error (s_chains s') j = Some c' /\
      c_pc c' = c_pc c /\ c_draw c' = c_draw c /\ c_rec c' = c_rec c /\
      c_since_pause c' = c_since_pause c /\
      (c' = c \/ (exists m, e = ESend m j true /\ c' = push_mail c m) \/
       (e = EFinalizeDone /\ c' = taken c)).
Proof.
  intros H. apply ctl_step_cases in H. destruct H; simpl;
    repeat (split; [solve [auto using upd_length, map_length]|]);
    intros j c0 Hj; try (exists c0; repeat split; auto; fail).
  - destruct (Nat.eq_dec j i) as [->|N].
    + exists (push_mail ch m). rewrite H1 in Hj; inversion Hj; subst.
      split; [apply nth_upd_eq; eapply nth_some_lt; eauto|]. simpl. repeat split; eauto.
    + exists c0. rewrite nth_upd_neq by exact N. repeat split; auto.
  - exists (taken c0). split; [apply nth_map_some; assumption|]. simpl. repeat split; auto.
Qed.

Lemma user_step_frame s e s' :
  user_step s e = Some s' ->
  s_results s' = s_results s /\ s_total s' = s_total s /\ s_ctl_ok s' = s_ctl_ok s /\
  length (s_chains s') = length (s_chains s) /\
  forall j c, nth_error (s_chains s) j = Some c ->
    exists c', nth_error (s_chains s') j = Some c' /\
      (c' = c \/ (c' = reset c /\ exists k, e = ERet k 1%Z /\ (k = KPause \/ k = KResume))).
Proof.
  intros H. apply user_step_cases in H. destruct H; simpl;
    try (repeat (split; [reflexivity|]); intros j c0 Hj; exists c0; auto; fail).
  unfold ret_state. destruct c; simpl; try rewrite map_length;
    repeat (split; [reflexivity|]); intros j c0 Hj;
    try (exists c0; auto; fail);
    (exists (reset c0); split; [apply (nth_map_some reset); assumption|right; split; eauto]).
Qed.

(* controller events, including the inferred drop of the command sender *)
Lemma step_ctl_frame s k s' :
  step s (EvCtl k) = Some s' ->
  s_user s' = s_user s /\ s_results s' = s_results s /\ s_total s' = s_total s /\
  s_paused s' = s_paused s /\
  (s_cmd_open s' = s_cmd_open s \/ (k = EDisconnected /\ s_cmd_open s' = false)).
Proof.
  intros H. step_inv' H; simpl; auto 10.
Qed.

Lemma step_ctl_pc s e s' :
  step s e = Some s' ->
  match e with
  | EvChain _ _ => s_ctl s' = s_ctl s
  | EvCtl EFinalizeDone => s_ctl s = KFinalizing /\ s_ctl s' = KFinished
  | EvCtl (ECmd c) => s_ctl s = KLoop /\ s_user s = UCalling c /\ s_ctl s' = cmd_target s c
  | EvCtl (ESend _ i _) => exists c, s_ctl s = KHandling c i /\ s_ctl s' = after_send s c i
  | EvCtl EDisconnected => s_ctl s = KLoop /\ s_ctl s' = KDisconnected
  | EvCtl (EFinalizeStart true) => s_ctl s = KDisconnected /\ s_ctl s' = KFinalizing
  | EvCtl (EFinalizeStart false) =>
      (s_ctl s = KLoop \/ exists c, s_ctl s = KResponding c) /\ s_ctl s' = KFinalizing
  | EvUser (ERet _ 1%Z) => (exists c, s_ctl s = KResponding c) /\ s_ctl s' = KLoop
  | EvUser _ => s_ctl s' = s_ctl s
  end.
Proof.
  intros H. step_inv H; simpl; eauto.
  unfold ret_state; destruct c; simpl; eauto.
Qed.

Definition fin (k : kpc) : Prop := k = KFinalizing \/ k = KFinished.

Lemma step_fin s e s' : step s e = Some s' -> fin (s_ctl s) -> fin (s_ctl s').
Proof.
  intros H F. apply step_ctl_pc in H. unfold fin in *.
  destruct e as [i e|[c|m i ok| |[|]|]|[c|c code| |code| |code]];
    try (destruct code as [|[p|p|]|]);
    repeat match goal with
           | H : _ /\ _ |- _ => destruct H
           | H : exists _, _ |- _ => destruct H
           | H : _ \/ _ |- _ => destruct H
           end;
    solve [congruence | left; congruence | right; congruence].
Qed.

(* ---------------------------------------------------------------------------------------- *)
(* 7. I1, I8 for reachable states                                                            *)
(* ---------------------------------------------------------------------------------------- *)
Lemma cinv_push T c m : cinv T c -> cinv T (push_mail c m).
Proof. unfold cinv; simpl; auto. Qed.

Lemma cinv_taken T c : cinv T c -> cinv T (taken c).
Proof.
  unfold cinv; simpl. intros (R & L & P). repeat split; auto.
  destruct (c_pc c) as [| |[| |]| | | | | |[|]]; auto.
Qed.

Lemma cinv_reset T c : cinv T c -> cinv T (reset c).
Proof. unfold cinv; simpl; auto. Qed.

Lemma cinv_change s e j c c' : cinv (s_total s) c -> chain_change s e j c c' -> cinv (s_total s) c'.
Proof.
  intros I H. destruct H; auto using cinv_push, cinv_taken, cinv_reset.
  eapply chain_local_cinv; eauto.
Qed.

Theorem chains_cinv n total s : reach n total s -> Forall (cinv total) (s_chains s).
Proof.
  intros Hr. assert (G : Forall (cinv (s_total s)) (s_chains s)).
  { revert s Hr. apply (reach_ind' n total).
    - simpl. apply Forall_forall. intros c Hc. apply repeat_spec in Hc. subst.
      unfold cinv; simpl. repeat split; auto. lia.
    - intros s e s' _ IH H.
      apply (Forall_chains_step (fun s c => cinv (s_total s) c) s e s' H); [|exact IH].
      intros j c c' _ I Ch. destruct (step_length_total _ _ _ H) as [_ ->].
      eapply cinv_change; eauto. }
  destruct (I3_chains_total _ _ _ Hr) as [_ <-]. exact G.
Qed.

(* I1: no draw is lost, duplicated or reordered; never more than `total` draws *)
Theorem I1_records n total s c :
  reach n total s -> In c (s_chains s) -> c_rec c = seq 0 (c_draw c) /\ c_draw c <= total.
Proof.
  intros Hr Hin. pose proof (chains_cinv _ _ _ Hr) as F. rewrite Forall_forall in F.
  destruct (F c Hin) as (R & L & _). auto.
Qed.

Corollary I1_no_draws n s c : reach n 0 s -> In c (s_chains s) -> c_rec c = [] /\ c_draw c = 0.
Proof.
  intros Hr Hin. destruct (I1_records _ _ _ _ Hr Hin) as [R L].
  assert (c_draw c = 0) by lia. rewrite R, H. auto.
Qed.

Lemma firstn_seq k a m : firstn k (seq a m) = seq a (min k m).
Proof.
  revert a m; induction k; intros a [|m]; simpl; auto. rewrite IHk. reflexivity.
Qed.

(* I8: whatever happened (abort, failure, finalisation), the recorded draws are a prefix of
   0 .. total-1 *)
Theorem I8_prefix n total s c :
  reach n total s -> In c (s_chains s) -> c_rec c = firstn (c_draw c) (seq 0 total).
Proof.
  intros Hr Hin. destruct (I1_records _ _ _ _ Hr Hin) as [R L].
  rewrite firstn_seq, Nat.min_l by exact L. exact R.
Qed.

Corollary I8_prefix_length n total s c :
  reach n total s -> In c (s_chains s) ->
  c_rec c = firstn (length (c_rec c)) (seq 0 total) /\ length (c_rec c) <= total.
Proof.
  intros Hr Hin. destruct (I1_records _ _ _ _ Hr Hin) as [R L].
  assert (E : length (c_rec c) = c_draw c) by (rewrite R; apply seq_length).
  rewrite E. split; [eapply I8_prefix; eauto|exact L].
Qed.

(* ---------------------------------------------------------------------------------------- *)
(* 8. I4: completion                                                                         *)
(* ---------------------------------------------------------------------------------------- *)
(* the chain lost its sender or its trace slot *)
Definition gone (c : chain) : Prop := c_tx c = false \/ c_slot c = false.

Lemma chain_local_gone T tk c e c' o :
  chain_local T tk c e = Some (c', o) -> gone c' -> gone c \/ tk = true.
Proof.
  intros H. unfold gone. local_inv H; simpl; auto.
  all: try (destruct (infer_taken_cases tk r c) as [E|(-> & _)]; [rewrite E|]; auto).
  intros _. bools. match goal with H : _ \/ _ |- _ => destruct H end; bools; auto.
Qed.

Lemma taking_fin s : taking s = true -> s_ctl s = KFinalizing.
Proof. unfold taking. destruct (s_ctl s); congruence. Qed.

(* only finalisation takes senders / trace slots *)
Theorem gone_fin n total s c :
  reach n total s -> In c (s_chains s) -> gone c -> fin (s_ctl s).
Proof.
  intros Hr. revert c. rewrite <- Forall_forall. revert s Hr. apply (reach_ind' n total).
  - simpl. apply Forall_forall. intros c Hc. apply repeat_spec in Hc. subst.
    unfold gone; simpl. intros [|]; discriminate.
  - intros s e s' _ IH H.
    apply (Forall_chains_step (fun s c => gone c -> fin (s_ctl s)) s e s' H); [|exact IH].
    intros j c c' _ I Ch G. pose proof (step_fin _ _ _ H) as F.
    destruct Ch as [|e' c' o -> Hl|m k -> K M| -> K|k -> _]; auto.
    + apply F. destruct (chain_local_gone _ _ _ _ _ _ Hl G) as [G'|T]; auto.
      apply taking_fin in T. left; exact T.
    + apply step_ctl_pc in H. destruct H as [_ ->]. right; reflexivity.
Qed.

(* who can be where: the controller handles a command only while the user is blocked in that
   call; it leaves its main loop only after the command sender was dropped or with an error *)
Definition cu_inv (s : st) : Prop :=
  match s_ctl s with
  | KLoop => True
  | KHandling c _ | KResponding c => s_user s = UCalling c
  | KDisconnected => s_cmd_open s = false
  | KFinalizing | KFinished => s_cmd_open s = false \/ s_ctl_ok s = false
  end.

Theorem reach_cu_inv n total s : reach n total s -> cu_inv s.
Proof.
  revert s. apply (reach_ind' n total); [exact I|].
  intros s e s' _ IH H. unfold cu_inv in *. step_inv H; simpl in *;
    repeat match goal with
           | H : s_ctl _ = _ |- _ => rewrite H in *; clear H
           | H : s_user _ = _ |- _ => rewrite H in *; clear H
           end; auto; try discriminate.
  - unfold cmd_target. destruct c; try destruct (0 <? _); simpl; auto.
  - unfold after_send. destruct (S i <? _); simpl; auto.
  - unfold after_send. destruct (S i <? _); simpl; auto.
  - destruct (s_ctl s); auto; discriminate.
  - unfold ret_state. destruct c; simpl; auto.
  - unfold ctl_gone in *. destruct (s_ctl s); auto; intuition discriminate.
  - destruct (s_ctl s); auto; discriminate.
  - destruct (s_ctl s); auto; discriminate.
  - destruct (s_ctl s); auto; discriminate.
  - destruct (s_ctl s); auto; discriminate.
Qed.

Corollary finalizing_dropped_or_failed n total s :
  reach n total s -> fin (s_ctl s) -> s_cmd_open s = false \/ s_ctl_ok s = false.
Proof.
  intros Hr F. apply reach_cu_inv in Hr. unfold cu_inv in Hr.
  destruct F as [F|F]; rewrite F in Hr; exact Hr.
Qed.

(* a chain that ended normally recorded every draw, or was cut off by finalisation *)
Theorem I4_done_all_or_cut n total s c :
  reach n total s -> In c (s_chains s) -> c_pc c = PDone true ->
  c_draw c = total \/ (c_tx c = false /\ fin (s_ctl s)).
Proof.
  intros Hr Hin P. pose proof (chains_cinv _ _ _ Hr) as F. rewrite Forall_forall in F.
  destruct (F c Hin) as (_ & _ & Q). rewrite P in Q. destruct Q as [Q|Q]; auto.
  right. split; auto. eapply gone_fin; eauto. left; exact Q.
Qed.

(* I4: as long as the user holds the sampler and the controller's main loop did not fail, every
   chain that ended normally recorded exactly the draws 0 .. total-1 *)
Theorem I4_complete n total s c :
  reach n total s -> s_cmd_open s = true -> s_ctl_ok s = true ->
  In c (s_chains s) -> c_pc c = PDone true ->
  c_draw c = total /\ c_rec c = seq 0 total.
Proof.
  intros Hr O K Hin P.
  destruct (I4_done_all_or_cut _ _ _ _ Hr Hin P) as [D|[_ F]].
  - split; auto. destruct (I1_records _ _ _ _ Hr Hin) as [R _]. rewrite R, D. reflexivity.
  - destruct (finalizing_dropped_or_failed _ _ _ Hr F); congruence.
Qed.

(* ---------------------------------------------------------------------------------------- *)
(* 9. I5: the results channel                                                                *)
(* ---------------------------------------------------------------------------------------- *)
Definition donep (b : bool) (c : chain) : bool :=
  match c_pc c with PDone b' => Bool.eqb b b' | _ => false end.

Lemma is_done_donep c : is_done c = donep true c || donep false c.
Proof. unfold is_done, donep. destruct (c_pc c) as [| | | | | | | |[|]]; reflexivity. Qed.

Lemma chain_local_donep T tk c e c' o b :
  chain_local T tk c e = Some (c', o) ->
  donep b c = false /\
  b2n (donep b c') = match o with Some ok => b2n (Bool.eqb b ok) | None => 0 end.
Proof.
  intros H. unfold donep. local_inv H; simpl; auto.
Qed.

Lemma chain_change_donep s e j c c' b :
  chain_change s e j c c' -> (forall e', e <> EvChain j e') -> donep b c' = donep b c.
Proof. intros H N. destruct H; auto. subst. destruct (N e'). reflexivity. Qed.

Definition results_inv (s : st) : Prop :=
  forall b, cnt (Bool.eqb b) (s_results s) = cnt (donep b) (s_chains s).

Lemma step_results_inv s e s' : step s e = Some s' -> results_inv s -> results_inv s'.
Proof.
  intros H I b. specialize (I b). step_inv H; simpl; auto.
  - destruct r as [c' o]. simpl.
    destruct (chain_local_donep _ _ _ _ _ _ b Hl) as [D0 D1].
    pose proof (cnt_upd (donep b) _ _ _ c' Hn) as U. rewrite D0 in U. simpl in U.
    destruct o as [ok|]; [rewrite cnt_app; unfold cnt at 2; simpl; destruct (Bool.eqb b ok)|];
      simpl in *; lia.
  - pose proof (cnt_upd (donep b) _ _ _ (push_mail ch m) H1) as U.
    change (donep b (push_mail ch m)) with (donep b ch) in U. lia.
  - rewrite cnt_map; auto.
  - unfold ret_state. destruct c; simpl; auto; rewrite cnt_map; auto.
Qed.

Theorem reach_results_inv n total s : reach n total s -> results_inv s.
Proof.
  revert s. apply (reach_ind' n total).
  - intros b. simpl. rewrite cnt_repeat_false; reflexivity.
  - intros s e s' _ IH H. eapply step_results_inv; eauto.
Qed.

Lemma cnt_bool_split (l : list bool) : length l = cnt (Bool.eqb true) l + cnt (Bool.eqb false) l.
Proof.
  induction l as [|[|] l IH]; [reflexivity| |]; rewrite !cnt_cons; simpl; lia.
Qed.

Lemma cnt_done_split l : cnt is_done l = cnt (donep true) l + cnt (donep false) l.
Proof.
  induction l as [|c l IH]; [reflexivity|]. rewrite !cnt_cons, is_done_donep, IH.
  unfold donep. destruct (c_pc c) as [| | | | | | | |[|]]; simpl; lia.
Qed.

(* exactly one result per terminated chain *)
Theorem I5_results_count n total s :
  reach n total s -> length (s_results s) = cnt is_done (s_chains s).
Proof.
  intros Hr. apply reach_results_inv in Hr.
  rewrite cnt_bool_split, cnt_done_split, (Hr true), (Hr false). reflexivity.
Qed.

Lemma existsb_negb_cnt l : existsb negb l = true <-> 0 < cnt (Bool.eqb false) l.
Proof.
  rewrite cnt_existsb. induction l as [|[|] l IH]; [reflexivity| |]; rewrite !cnt_cons; simpl; lia.
Qed.

(* an error result is in the channel iff some chain failed *)
Theorem I5_false_iff_failed n total s :
  reach n total s ->
  (existsb negb (s_results s) = true <-> exists c, In c (s_chains s) /\ c_pc c = PDone false).
Proof.
  intros Hr. apply reach_results_inv in Hr. rewrite existsb_negb_cnt, (Hr false), cnt_pos_iff.
  split; intros [c [Hin Hc]]; exists c; split; auto; unfold donep in *;
    destruct (c_pc c) as [| | | | | | | |[|]]; try discriminate; auto.
Qed.

Lemma forallb_id_no_false l : forallb (fun b : bool => b) l = true -> existsb negb l = false.
Proof. induction l as [|[|] l IH]; simpl; auto. Qed.

Lemma all_done_spec s : all_done s = true <-> forall c, In c (s_chains s) -> exists b, c_pc c = PDone b.
Proof.
  unfold all_done. rewrite forallb_forall. split; intros H c Hin.
  - specialize (H c Hin). unfold is_done in H. destruct (c_pc c); try discriminate; eauto.
  - destruct (H c Hin) as [b P]. unfold is_done. rewrite P. reflexivity.
Qed.

(* wait() returns the trace only if every chain ended with Ok *)
Theorem I5_wait_trace_all_ok n total s s' :
  reach n total s -> step s (EvUser (ERetWait 1%Z)) = Some s' ->
  forall c, In c (s_chains s) -> c_pc c = PDone true.
Proof.
  intros Hr H c Hin. step_inv' H.
  match goal with H : all_done s = true |- _ => rewrite all_done_spec in H; destruct (H c Hin) as [[|] P] end;
    [exact P|].
  match goal with H : forallb _ _ = true |- _ => apply forallb_id_no_false in H; rename H into F end.
  assert (E : existsb negb (s_results s) = true) by (apply (I5_false_iff_failed _ _ _ Hr); eauto).
  congruence.
Qed.

(* a terminated chain stays terminated, with the same result and the same records *)
Lemma done_stable_step s e s' j c b :
  step s e = Some s' -> nth_error (s_chains s) j = Some c -> c_pc c = PDone b ->
  exists c', nth_error (s_chains s') j = Some c' /\ c_pc c' = PDone b /\
             c_draw c' = c_draw c /\ c_rec c' = c_rec c.
Proof.
  intros H Hj P. destruct (step_chain_change _ _ _ H _ _ Hj) as (c' & Hj' & Ch).
  exists c'. split; auto. destruct Ch; auto.
  unfold chain_local in *. rewrite P in *. destruct e'; try discriminate.
  match goal with H : match ?ok with true => None | false => None end = _ |- _ => destruct ok; discriminate end.
Qed.

Lemma done_stable_run s evs s' j c b :
  run s evs = Some s' -> nth_error (s_chains s) j = Some c -> c_pc c = PDone b ->
  exists c', nth_error (s_chains s') j = Some c' /\ c_pc c' = PDone b /\
             c_draw c' = c_draw c /\ c_rec c' = c_rec c.
Proof.
  revert s c; induction evs as [|e evs IH]; intros s c H Hj P; simpl in H.
  - inversion H; subst. eauto.
  - destruct (step s e) as [s1|] eqn:E; [|discriminate].
    destruct (done_stable_step _ _ _ _ _ _ E Hj P) as (c1 & Hj1 & P1 & D1 & R1).
    destruct (IH _ _ H Hj1 P1) as (c' & ? & ? & ? & ?). exists c'. repeat split; auto; congruence.
Qed.

(* once a chain failed, wait() can never return the trace *)
Theorem I5_failed_never_trace n total s evs s' c :
  reach n total s -> In c (s_chains s) -> c_pc c = PDone false ->
  run s evs = Some s' -> step s' (EvUser (ERetWait 1%Z)) = None.
Proof.
  intros Hr Hin P Hrun. apply In_nth_error in Hin. destruct Hin as [j Hj].
  destruct (done_stable_run _ _ _ _ _ _ Hrun Hj P) as (c' & Hj' & P' & _).
  destruct (step s' (EvUser (ERetWait 1%Z))) as [s2|] eqn:E; [|reflexivity].
  pose proof (I5_wait_trace_all_ok _ _ _ _ (reach_run _ _ _ _ _ Hr Hrun) E c'
                (nth_error_In _ _ Hj')) as Q. congruence.
Qed.

(* abort() returns Ok((None, trace)) only if every result in the channel is Ok, i.e. no chain
   failed *)
Theorem I5_abort_ok_all_true s s' :
  step s (EvUser (ERetAbort 1%Z)) = Some s' ->
  forallb (fun b => b) (s_results s) = true /\ s_ctl s = KFinished /\ s_ctl_ok s = true.
Proof. intros H. step_inv' H. auto. Qed.

Theorem I5_abort_ok_no_failed n total s s' :
  reach n total s -> step s (EvUser (ERetAbort 1%Z)) = Some s' ->
  forall c, In c (s_chains s) -> c_pc c <> PDone false.
Proof.
  intros Hr H c Hin P. apply I5_abort_ok_all_true in H. destruct H as [F _].
  apply forallb_id_no_false in F.
  assert (E : existsb negb (s_results s) = true) by (apply (I5_false_iff_failed _ _ _ Hr); eauto).
  congruence.
Qed.

(* ---------------------------------------------------------------------------------------- *)
(* 10. I4 continued: a run that ends with wait() returning the trace recorded everything     *)
(* ---------------------------------------------------------------------------------------- *)
Definition complete (T : nat) (c : chain) : Prop :=
  exists b, c_pc c = PDone b /\ (b = true -> c_draw c = T).

Definition user_alive (s : st) : Prop := s_user s <> UAborting /\ s_user s <> UGone.

Lemma step_results_mono s e s' : step s e = Some s' -> exists l, s_results s' = s_results s ++ l.
Proof.
  intros H. step_inv H; simpl; try (exists []; rewrite app_nil_r; reflexivity).
  - destruct (snd r); [eauto|exists []; rewrite app_nil_r; reflexivity].
  - unfold ret_state; destruct c; simpl; exists []; rewrite app_nil_r; reflexivity.
Qed.

Lemma complete_change s e j c c' :
  complete (s_total s) c -> chain_change s e j c c' -> complete (s_total s) c'.
Proof.
  intros (b & P & D) Ch. destruct Ch; try (exists b; simpl; auto; fail).
  unfold chain_local in *. rewrite P in *. destruct e'; try discriminate.
  match goal with H : match ?ok with true => None | false => None end = _ |- _ => destruct ok; discriminate end.
Qed.

Lemma wait_concl_step s e s' :
  step s e = Some s' ->
  Forall (complete (s_total s)) (s_chains s) \/ existsb negb (s_results s) = true ->
  Forall (complete (s_total s')) (s_chains s') \/ existsb negb (s_results s') = true.
Proof.
  intros H [F|E].
  - left. apply (Forall_chains_step (fun s c => complete (s_total s) c) s e s' H); [|exact F].
    intros j c c' _ I Ch. destruct (step_length_total _ _ _ H) as [_ ->].
    eapply complete_change; eauto.
  - right. destruct (step_results_mono _ _ _ H) as [l ->]. rewrite existsb_app, E. reflexivity.
Qed.

Lemma user_dead_stable s e s' : step s e = Some s' -> ~ user_alive s -> ~ user_alive s'.
Proof.
  intros H N A. apply N. clear N. unfold user_alive in *.
  step_inv H; simpl in *; auto; try (split; congruence); try tauto.
Qed.

Definition wait_inv (s : st) : Prop :=
  user_alive s -> s_cmd_open s = false ->
  Forall (complete (s_total s)) (s_chains s) \/ existsb negb (s_results s) = true.

Theorem reach_wait_inv n total s : reach n total s -> wait_inv s.
Proof.
  revert s. apply (reach_ind' n total).
  - intros _ O; discriminate.
  - intros s e s' Hr IH H A' O'.
    destruct (s_cmd_open s) eqn:O.
    + (* the command sender is dropped by this very event *)
      pose proof H as H0. step_inv H0; simpl in *; try congruence.
      * destruct Hd as [Hd|[U D]]; [congruence|].
        apply orb_true_iff in D. destruct D as [D|D]; [left|right; exact D].
        rewrite all_done_spec in D. apply Forall_forall. intros c Hin.
        destruct (D c Hin) as [b P]. exists b. split; auto. intros ->.
        destruct (I4_done_all_or_cut _ _ _ _ Hr Hin P) as [E|[_ [F|F]]];
          [|rewrite Hk in F; discriminate..].
        destruct (I3_chains_total _ _ _ Hr) as [_ T]. congruence.
      * unfold ret_state in O'; destruct c; simpl in O'; congruence.
      * destruct A' as [_ A']. simpl in A'. congruence.
      * destruct A' as [A' _]. simpl in A'. congruence.
    + eapply wait_concl_step; eauto. apply IH; auto.
      destruct (s_user s) eqn:U; unfold user_alive; rewrite ?U; try (split; discriminate);
        exfalso; apply (user_dead_stable _ _ _ H); auto; unfold user_alive; rewrite U;
        intros [? ?]; congruence.
Qed.

(* C11: if wait() returns the trace, every chain recorded exactly the draws 0 .. total-1 *)
Theorem I4_wait_trace_complete n total s s' c :
  reach n total s -> step s (EvUser (ERetWait 1%Z)) = Some s' -> In c (s_chains s) ->
  c_pc c = PDone true /\ c_draw c = total /\ c_rec c = seq 0 total.
Proof.
  intros Hr H Hin. pose proof (I5_wait_trace_all_ok _ _ _ _ Hr H c Hin) as P.
  split; auto. pose proof (reach_wait_inv _ _ _ Hr) as W.
  pose proof (reach_cu_inv _ _ _ Hr) as CU. destruct (I3_chains_total _ _ _ Hr) as [_ T].
  step_inv' H.
  repeat match goal with
         | H : s_ctl s = _ |- _ => unfold cu_inv in CU; rewrite H in CU
         | H : forallb _ _ = true |- _ => apply forallb_id_no_false in H
         end.
  assert (O : s_cmd_open s = false) by (destruct CU; congruence).
  destruct W as [F|E]; auto; [unfold user_alive; split; congruence| |congruence].
  rewrite Forall_forall in F. destruct (F c Hin) as (b & Pb & D).
  assert (b = true) by congruence. subst b. specialize (D eq_refl).
  destruct (I1_records _ _ _ _ Hr Hin) as [R _]. rewrite R, D. auto.
Qed.

(* ---------------------------------------------------------------------------------------- *)
(* 11. I7: a chain that finds Pause first does not start drawing                             *)
(* ---------------------------------------------------------------------------------------- *)
Lemma recv_now_cases c :
  (exists m rest, c_mail c = m :: rest /\ recv_now c = (RMsg m, rest)) \/
  (c_mail c = [] /\ recv_now c = (if c_tx c then REmpty else RDisc, [])).
Proof. unfold recv_now. destruct (c_mail c); eauto. Qed.

Lemma infer_taken_nonempty tk r c : c_mail c <> [] -> infer_taken tk r c = c.
Proof. intros N. destruct (infer_taken_cases tk r c) as [E|(_ & _ & E & _)]; congruence. Qed.

Lemma local_queued T tk c e r :
  c_pc c = PQueued -> chain_local T tk c e = Some r -> e = EStarted \/ e = EResult false.
Proof. intros P H. unfold chain_local in H. rewrite P in H. destruct e as [| | | | | | | |[|]]; auto; discriminate. Qed.

Lemma local_started_pause T tk c e c' o rest :
  (c_pc c = PStarted \/ c_pc c = PAfter) -> c_mail c = MPause :: rest ->
  chain_local T tk c e = Some (c', o) ->
  (e = ETryRecv (RMsg MPause) /\ c_pc c' = PTop (RMsg MPause) /\ c_mail c' = rest /\
   c_rec c' = c_rec c /\ c_draw c' = c_draw c /\ c_since_pause c' = c_since_pause c) \/
  (e = EResult false /\ c_pc c = PStarted /\ c_pc c' = PDone false /\ c_rec c' = c_rec c).
Proof.
  intros P M H. unfold chain_local in H.
  assert (N : c_mail c <> []) by (rewrite M; discriminate).
  destruct P as [P|P]; rewrite P in H; destruct e as [|r| | | | | | |[|]]; try discriminate.
  1,3: rewrite (infer_taken_nonempty tk r c N) in H; unfold recv_now in H; rewrite M in H; simpl in H;
    destruct (rcv_eqb r (RMsg MPause)) eqn:E; [|discriminate]; apply rcv_eqb_eq in E; subst;
    inversion H; subst; simpl; left; repeat split; auto.
  inversion H; subst; simpl. right; auto.
Qed.

Lemma local_top_pause T tk c e c' o :
  c_pc c = PTop (RMsg MPause) -> chain_local T tk c e = Some (c', o) ->
  c_rec c' = c_rec c /\ c_draw c' = c_draw c /\ c_mail c' = c_mail c /\
  ((e = EBlock /\ c_draw c < T /\ c_pc c' = PBlocked) \/
   (e = EResult true /\ T <= c_draw c /\ c_pc c' = PDone true)).
Proof.
  intros P H. unfold chain_local in H. rewrite P in H.
  destruct e as [| | | | | | | |[|]]; try discriminate.
  - destruct (c_draw c <? T) eqn:E; [|discriminate]. inversion H; subst; simpl.
    apply Nat.ltb_lt in E. auto 10.
  - simpl in H. rewrite orb_false_r in H. destruct (T <=? c_draw c) eqn:E; [|discriminate].
    inversion H; subst; simpl. apply Nat.leb_le in E. auto 10.
Qed.

(* I7, on the model's step function *)
Theorem I7_queued_forced s i e s' c :
  nth_error (s_chains s) i = Some c -> c_pc c = PQueued -> chain_step s i e = Some s' ->
  e = EStarted \/ e = EResult false.
Proof.
  intros Hn P H. apply chain_step_inv in H. destruct H as (c0 & r & Hn' & Hl & _).
  rewrite Hn in Hn'; inversion Hn'; subst. eapply local_queued; eauto.
Qed.

Theorem I7_started_pause_forced s i e s' c rest :
  nth_error (s_chains s) i = Some c -> c_pc c = PStarted -> c_mail c = MPause :: rest ->
  chain_step s i e = Some s' ->
  (e = ETryRecv (RMsg MPause) \/ e = EResult false) /\
  exists c', nth_error (s_chains s') i = Some c' /\ c_rec c' = c_rec c /\
             (c_pc c' = PTop (RMsg MPause) \/ c_pc c' = PDone false).
Proof.
  intros Hn P M H. apply chain_step_inv in H. destruct H as (c0 & [c' o] & Hn' & Hl & ->).
  rewrite Hn in Hn'; inversion Hn'; subst c0.
  assert (Hc' : nth_error (s_chains (apply_local s i (c', o))) i = Some c')
    by (simpl; apply nth_upd_eq; eapply nth_some_lt; eauto).
  destruct (local_started_pause _ _ _ _ _ _ _ (or_introl P) M Hl)
    as [(-> & P' & _ & R & _)|(-> & _ & P' & R)]; (split; [auto|exists c'; auto]).
Qed.

Theorem I7_top_pause_forced s i e s' c :
  nth_error (s_chains s) i = Some c -> c_pc c = PTop (RMsg MPause) ->
  chain_step s i e = Some s' ->
  ((e = EBlock /\ c_draw c < s_total s) \/ (e = EResult true /\ s_total s <= c_draw c)) /\
  exists c', nth_error (s_chains s') i = Some c' /\ c_rec c' = c_rec c /\
             (c_pc c' = PBlocked \/ c_pc c' = PDone true).
Proof.
  intros Hn P H. apply chain_step_inv in H. destruct H as (c0 & [c' o] & Hn' & Hl & ->).
  rewrite Hn in Hn'; inversion Hn'; subst c0.
  assert (Hc' : nth_error (s_chains (apply_local s i (c', o))) i = Some c')
    by (simpl; apply nth_upd_eq; eapply nth_some_lt; eauto).
  destruct (local_top_pause _ _ _ _ _ _ P Hl) as (R & _ & _ & [(-> & L & P')|(-> & L & P')]);
    (split; [auto|exists c'; auto]).
Qed.

(* ---------------------------------------------------------------------------------------- *)
(* 12. I9: chains only ever wait in the blocking receive                                     *)
(* ---------------------------------------------------------------------------------------- *)
Definition next_ev (T : nat) (c : chain) : cev :=
  match c_pc c with
  | PQueued => EStarted
  | PStarted | PAfter => ETryRecv (fst (recv_now c))
  | PTop r =>
      if T <=? c_draw c then EResult true
      else match r with
           | REmpty | RMsg MResume => EBeforeDraw (c_draw c)
           | RMsg MPause => EBlock
           | RDisc => EResult true
           end
  | PBlocked => ERecv (fst (recv_now c))
  | PDrawing => EDrawn (c_draw c)
  | PDrawn => if c_slot c then ERecorded (c_draw c) else ETraceGone (c_draw c)
  | PFinishing => EResult true
  | PDone _ => EStarted
  end.

Lemma recv_infer_same tk c :
  fst (recv_now (infer_taken tk (fst (recv_now c)) c)) = fst (recv_now c).
Proof.
  destruct (infer_taken_cases tk (fst (recv_now c)) c) as [E|(_ & R & M & E)]; rewrite E; auto.
  rewrite R. unfold recv_now, taken. simpl. rewrite M. reflexivity.
Qed.

(* a chain can be waiting only in the blocking receive, with an empty mailbox and a live sender *)
Definition waiting (c : chain) : Prop := c_pc c = PBlocked /\ c_mail c = [] /\ c_tx c = true.

Lemma local_enabled T tk c :
  is_done c = false -> ~ waiting c -> exists r, chain_local T tk c (next_ev T c) = Some r.
Proof.
  intros D W. unfold next_ev, chain_local, is_done, waiting in *.
  destruct (c_pc c) as [| |r| | | | | |b] eqn:P; try discriminate; eauto.
  - rewrite recv_infer_same, rcv_eqb_refl. eauto.
  - destruct (T <=? c_draw c) eqn:E; [simpl; eauto|].
    apply Nat.leb_gt in E. apply Nat.ltb_lt in E.
    destruct r as [|[|]|]; rewrite ?E, ?Nat.eqb_refl; simpl; eauto.
  - rewrite recv_infer_same, rcv_eqb_refl. simpl.
    destruct (rcv_eqb (fst (recv_now c)) REmpty) eqn:E; simpl; eauto.
    exfalso. apply W. apply rcv_eqb_eq in E. unfold recv_now in E.
    destruct (c_mail c); [|discriminate]. destruct (c_tx c); [auto|discriminate].
  - rewrite Nat.eqb_refl. eauto.
  - destruct (c_slot c) eqn:S; rewrite Nat.eqb_refl, ?S; simpl; eauto.
  - rewrite recv_infer_same, rcv_eqb_refl. eauto.
Qed.

(* I9: every chain that has not terminated and is not waiting for a message has an enabled event;
   the event is exhibited *)
Theorem I9_chain_enabled s i c :
  nth_error (s_chains s) i = Some c -> is_done c = false -> ~ waiting c ->
  exists s', chain_step s i (next_ev (s_total s) c) = Some s'.
Proof.
  intros Hn D W. rewrite chain_step_local, Hn.
  destruct (local_enabled (s_total s) (taking s) c D W) as [r ->]. simpl. eauto.
Qed.

(* in particular a blocked chain leaves the blocking receive as soon as a message is there or the
   sender is gone *)
Corollary I9_blocked_recv_enabled s i c :
  nth_error (s_chains s) i = Some c -> c_pc c = PBlocked -> c_mail c <> [] \/ c_tx c = false ->
  exists s', chain_step s i (ERecv (fst (recv_now c))) = Some s'.
Proof.
  intros Hn P H.
  replace (ERecv (fst (recv_now c))) with (next_ev (s_total s) c) by (unfold next_ev; rewrite P; auto).
  apply I9_chain_enabled; auto.
  - unfold is_done; rewrite P; reflexivity.
  - intros (_ & M & X). destruct H; congruence.
Qed.

Definition quiescent (s : st) : Prop :=
  all_done s = true /\ s_ctl s = KFinished /\ s_user s = UGone.

(* nothing happens after the end *)
Theorem I9_quiescent_final s e : quiescent s -> step s e = None.
Proof.
  intros (A & K & U). destruct (step s e) as [s'|] eqn:H; [|reflexivity]. exfalso.
  rewrite all_done_spec in A.
  step_inv H; try congruence.
  - destruct (A c (nth_error_In _ _ Hn)) as [b P]. unfold chain_local in Hl. rewrite P in Hl.
    match type of Hl with context [match ?x with EStarted => _ | _ => _ end] =>
      destruct x as [| | | | | | | |[|]]; discriminate end.
  - match goal with H : _ \/ _ |- _ => destruct H as [H|[? H]]; congruence end.
Qed.

(* ---------------------------------------------------------------------------------------- *)
(* 13. I6: the pause bound                                                                   *)
(* ---------------------------------------------------------------------------------------- *)
Fixpoint nres (l : list msg) : nat :=
  match l with [] => 0 | MResume :: t => S (nres t) | MPause :: t => nres t end.

(* the chain holds a permission to draw once more: it consumed Empty / Resume, or is drawing *)
Definition holding (c : chain) : nat :=
  match c_pc c with
  | PTop REmpty | PTop (RMsg MResume) | PDrawing | PDrawn => 1
  | _ => 0
  end.

(* number of draws the chain can still record if nothing more is sent to it *)
Definition pot (c : chain) : nat := nres (c_mail c) + holding c.

(* the last command delivered to the chain (consumed or not) is Pause *)
Definition lastp (c : chain) : Prop :=
  match c_pc c with
  | PDone _ | PFinishing | PTop RDisc => True
  | PBlocked | PTop (RMsg MPause) => last (c_mail c) MPause = MPause
  | _ => last (c_mail c) MResume = MPause
  end.

Lemma last_cons_ne {A} (a : A) l d : l <> [] -> last (a :: l) d = last l d.
Proof. destruct l; [congruence|reflexivity]. Qed.

Lemma last_default {A} (l : list A) d d' : l <> [] -> last l d = last l d'.
Proof.
  induction l as [|a l IH]; [congruence|]. intros _. destruct l as [|b l]; [reflexivity|].
  rewrite !(last_cons_ne a) by discriminate. apply IH. discriminate.
Qed.

Lemma last_head_pause rest : last (MPause :: rest) MResume = MPause -> last rest MPause = MPause.
Proof.
  destruct rest as [|m rest]; [reflexivity|]. rewrite last_cons_ne by discriminate.
  intros <-. apply last_default. discriminate.
Qed.

Lemma last_head_pause' rest : last (MPause :: rest) MPause = MPause -> last rest MPause = MPause.
Proof.
  destruct rest as [|m rest]; [reflexivity|]. rewrite last_cons_ne by discriminate. auto.
Qed.

Lemma last_head_resume rest d : last (MResume :: rest) d = MPause -> last rest MResume = MPause.
Proof.
  destruct rest as [|m rest]; [simpl; auto; congruence|]. rewrite last_cons_ne by discriminate.
  intros <-. apply last_default. discriminate.
Qed.

Lemma last_nil_resume : last (@nil msg) MResume <> MPause.
Proof. simpl. discriminate. Qed.

Definition measure_le (c c' : chain) : Prop :=
  c_since_pause c' + pot c' <= c_since_pause c + pot c /\
  length (c_rec c') + pot c' <= length (c_rec c) + pot c.

Lemma chain_local_pot T tk c e c' o :
  lastp c -> chain_local T tk c e = Some (c', o) -> lastp c' /\ measure_le c c'.
Proof.
  intros L H. unfold lastp, measure_le, pot, holding in *.
  local_inv H; simpl in *; try rewrite app_length; simpl; try (split; [auto|lia]; fail).
  (* what remains: ETryRecv from PStarted / PAfter, ERecv from PBlocked *)
  all: destruct (infer_taken_cases tk r c) as [E|(_ & -> & M & E)]; rewrite E in *; clear E;
    try (rewrite M in L; simpl in L; discriminate L).
  all: try (destruct (recv_now_cases c) as [(m & rest & M & R)|(M & R)]; rewrite R in *; simpl in *;
            rewrite M in *; simpl in *;
            [ bools; subst r; destruct m;
              [ split; [first [apply last_head_pause; assumption|apply last_head_pause'; assumption]|lia]
              | split; [eapply last_head_resume; eassumption|simpl; lia] ]
            | try discriminate L ]).
  all: try (bools; subst r; destruct (c_tx c); simpl in *; try discriminate; split; [auto|lia]).
  all: unfold recv_now, taken in *; simpl in *; rewrite M in *; simpl in *; split; [auto|lia].
Qed.

Lemma measure_le_refl c : measure_le c c.
Proof. unfold measure_le; lia. Qed.

Lemma measure_le_trans a b c : measure_le a b -> measure_le b c -> measure_le a c.
Proof. unfold measure_le; lia. Qed.

(* the controller is not handling a command: no message is being forwarded and no pause() /
   resume() call is about to return *)
Definition ctl_quiet (s : st) : Prop :=
  match s_ctl s with KHandling _ _ | KResponding _ => False | _ => True end.

Definition not_cmd (e : ev) : Prop := forall c, e <> EvCtl (ECmd c).

Definition phase_inv (s : st) : Prop := ctl_quiet s /\ Forall lastp (s_chains s).

Lemma quiet_step s e s' : step s e = Some s' -> not_cmd e -> ctl_quiet s -> ctl_quiet s'.
Proof.
  intros H N Q. apply step_ctl_pc in H. unfold ctl_quiet in *.
  destruct e as [i e|[c|m i ok| |[|]|]|[c|c code| |code| |code]];
    try (destruct code as [|[p|p|]|]);
    try (destruct (N c eq_refl));
    repeat match goal with
           | H : _ /\ _ |- _ => destruct H
           | H : exists _, _ |- _ => destruct H
           | H : _ \/ _ |- _ => destruct H
           end;
    repeat match goal with H : s_ctl _ = _ |- _ => rewrite H in * end; auto; contradiction.
Qed.


Lemma quiet_change s e s' j c c' :
  ctl_quiet s -> step s e = Some s' -> lastp c -> chain_change s e j c c' ->
  lastp c' /\ measure_le c c'.
Proof.
  intros Q H L Ch. destruct Ch as [|e' c' o -> Hl|m k -> K M| -> K|k -> _].
  - split; [exact L|apply measure_le_refl].
  - eapply chain_local_pot; eauto.
  - unfold ctl_quiet in Q. rewrite K in Q. contradiction.
  - split; [exact L|unfold measure_le, pot, holding; simpl; lia].
  - apply step_ctl_pc in H. destruct H as [[c0 H] _]. unfold ctl_quiet in Q. rewrite H in Q.
    contradiction.
Qed.

Lemma phase_step s e s' :
  phase_inv s -> step s e = Some s' -> not_cmd e ->
  phase_inv s' /\
  forall j c, nth_error (s_chains s) j = Some c ->
    exists c', nth_error (s_chains s') j = Some c' /\ measure_le c c'.
Proof.
  intros [Q F] H N. split; [split|].
  - eapply quiet_step; eauto.
  - apply (Forall_chains_step (fun _ c => lastp c) s e s' H); [|exact F].
    intros j c c' _ L Ch. eapply quiet_change; eauto.
  - intros j c Hj. destruct (step_chain_change _ _ _ H _ _ Hj) as (c' & Hj' & Ch).
    exists c'. split; auto. eapply quiet_change; eauto. eapply Forall_nth; eauto.
Qed.

Definition no_cmd (evs : list ev) : Prop := forall e, In e evs -> not_cmd e.

Lemma phase_run s evs s' :
  phase_inv s -> run s evs = Some s' -> no_cmd evs ->
  phase_inv s' /\
  forall j c, nth_error (s_chains s) j = Some c ->
    exists c', nth_error (s_chains s') j = Some c' /\ measure_le c c'.
Proof.
  revert s; induction evs as [|e evs IH]; intros s P H N; simpl in H.
  - inversion H; subst. split; auto. intros j c Hj. exists c. split; auto using measure_le_refl.
  - destruct (step s e) as [s1|] eqn:E; [|discriminate].
    destruct (phase_step _ _ _ P E (N e (or_introl eq_refl))) as [P1 M1].
    destruct (IH _ P1 H (fun e' Hin => N e' (or_intror Hin))) as [P' M']. split; auto.
    intros j c Hj. destruct (M1 _ _ Hj) as (c1 & Hj1 & L1). destruct (M' _ _ Hj1) as (c' & Hj' & L').
    exists c'. split; auto. eapply measure_le_trans; eauto.
Qed.

(* while the controller forwards Pause, the chains already served have Pause as their last
   command; when it is about to answer, all have *)
Definition pause_inv (s : st) : Prop :=
  match s_ctl s with
  | KHandling KPause nx => forall j c, j < nx -> nth_error (s_chains s) j = Some c -> lastp c
  | KResponding KPause => Forall lastp (s_chains s)
  | _ => True
  end.

Lemma lastp_push_pause c : lastp (push_mail c MPause).
Proof.
  unfold lastp, push_mail; simpl. destruct (c_pc c) as [| |[|[|]|]| | | | | |]; auto using last_last.
Qed.

Lemma lastp_done c : is_done c = true -> lastp c.
Proof. unfold is_done, lastp. destruct (c_pc c); try discriminate. auto. Qed.

Lemma lastp_change_nosend s e j c c' :
  lastp c -> chain_change s e j c c' -> (forall m, e <> EvCtl (ESend m j true)) -> lastp c'.
Proof.
  intros L Ch N. destruct Ch as [|e' c' o -> Hl|m k -> K M| -> K|k -> _]; auto.
  - eapply chain_local_pot; eauto.
  - destruct (N m eq_refl).
Qed.

Lemma pause_inv_same_ctl s e s' :
  step s e = Some s' -> s_ctl s' = s_ctl s -> (forall m j, e <> EvCtl (ESend m j true)) ->
  pause_inv s -> pause_inv s'.
Proof.
  intros H K N. unfold pause_inv. rewrite K.
  pose proof (step_chain_change_back _ _ _ H) as Back.
  destruct (s_ctl s) as [|[| | | |] nx|[| | | |]| | |]; auto.
  - intros IH j c' Hlt Hj. destruct (Back _ _ Hj) as (c & Hc & Ch).
    eapply lastp_change_nosend; eauto.
  - intros IH. apply Forall_of_nth. intros j c' Hj. destruct (Back _ _ Hj) as (c & Hc & Ch).
    eapply lastp_change_nosend; eauto. eapply Forall_nth; eauto.
Qed.

Lemma pause_inv_send s m i ok s' :
  step s (EvCtl (ESend m i ok)) = Some s' -> pause_inv s -> pause_inv s'.
Proof.
  intros H IH.
  assert (G : s_ctl s = KHandling KPause i ->
              forall j c', j <= i -> nth_error (s_chains s') j = Some c' -> lastp c').
  { intros K j c' Hle Hj. unfold pause_inv in IH. rewrite K in IH.
    step_inv' H;
      match goal with H1 : s_ctl s = KHandling ?c _ |- _ =>
        rewrite K in H1; inversion H1; subst c end; simpl in *.
    - match goal with H1 : Some MPause = Some _ |- _ => inversion H1; subst end.
      apply nth_upd in Hj. destruct Hj as [(-> & -> & _)|(N & Hj)].
      + apply lastp_push_pause.
      + apply (IH j); auto. lia.
    - destruct (Nat.eq_dec j i) as [->|N].
      + apply lastp_done. congruence.
      + apply (IH j); auto. lia. }
  pose proof (step_length_total _ _ _ H) as [L _].
  pose proof (step_ctl_pc _ _ _ H) as (x & K & K'). simpl in K'.
  unfold pause_inv. rewrite K'. unfold after_send.
  destruct x; try (destruct (S i <? _); exact I).
  destruct (S i <? length (s_chains s)) eqn:E.
  - intros j c' Hlt Hj. apply (G K j); auto. lia.
  - apply Nat.ltb_ge in E. apply Forall_of_nth. intros j c' Hj. apply (G K j); auto.
    apply nth_some_lt in Hj. lia.
Qed.

Theorem reach_pause_inv n total s : reach n total s -> pause_inv s.
Proof.
  revert s. apply (reach_ind' n total); [exact I|].
  intros s e s' _ IH H.
  pose proof (step_ctl_pc _ _ _ H) as K.
  destruct e as [i e|[c|m i ok| |[|]|]|[c|c code| |code| |code]];
    try (destruct code as [|[p|p|]|]);
    try (eapply pause_inv_same_ctl; eauto; discriminate);
    try (eapply pause_inv_send; eauto; fail);
    repeat match goal with
           | H : _ /\ _ |- _ => destruct H
           | H : exists _, _ |- _ => destruct H
           end;
    try (unfold pause_inv; match goal with H : s_ctl s' = _ |- _ => rewrite H end; exact I).
  (* ECmd *)
  unfold pause_inv. match goal with H : s_ctl s' = _ |- _ => rewrite H end.
  unfold cmd_target. destruct c; try exact I; try (destruct (0 <? _); exact I).
  destruct (0 <? length (s_chains s)) eqn:E.
  - intros j c' Hlt. lia.
  - apply Nat.ltb_ge in E. pose proof (step_length_total _ _ _ H) as [L _].
    destruct (s_chains s'); [constructor|simpl in *; lia].
Qed.

Lemma quiet_paused s e s' : ctl_quiet s -> step s e = Some s' -> s_paused s' = s_paused s.
Proof.
  intros Q H. unfold ctl_quiet in Q. step_inv H; simpl; auto.
  match goal with H : s_ctl s = KResponding _ |- _ => rewrite H in Q; contradiction end.
Qed.

Lemma phase_run_paused s evs s' :
  phase_inv s -> run s evs = Some s' -> no_cmd evs -> s_paused s' = s_paused s.
Proof.
  revert s; induction evs as [|e evs IH]; intros s P H N; simpl in H.
  - inversion H; subst. reflexivity.
  - destruct (step s e) as [s1|] eqn:E; [|discriminate].
    destruct (phase_step _ _ _ P E (N e (or_introl eq_refl))) as [P1 _].
    rewrite (IH _ P1 H (fun e' Hin => N e' (or_intror Hin))).
    destruct P as [Q _]. eapply quiet_paused; eauto.
Qed.

(* the state in which pause() returns *)
Lemma pause_return_phase n total s s0 :
  reach n total s -> step s (EvUser (ERet KPause 1%Z)) = Some s0 ->
  phase_inv s0 /\ s_paused s0 = true /\
  forall j c0, nth_error (s_chains s0) j = Some c0 -> c_since_pause c0 = 0.
Proof.
  intros Hr H. pose proof (reach_pause_inv _ _ _ Hr) as PI.
  step_inv' H. unfold pause_inv in *.
  match goal with H : s_ctl s = KResponding _ |- _ => rewrite H in * end.
  unfold ret_state, phase_inv, ctl_quiet. simpl. repeat split; auto.
  - apply Forall_of_nth. intros j cc Hj. rewrite nth_error_map in Hj.
    destruct (nth_error (s_chains s) j) as [c1|] eqn:E; [|discriminate]. inversion Hj; subst.
    change (lastp c1). eapply Forall_nth; eauto.
  - intros j cc Hj. rewrite nth_error_map in Hj.
    destruct (nth_error (s_chains s) j) as [c1|]; [|discriminate]. inversion Hj; subst. reflexivity.
Qed.

(* I6 (C12): after pause() returned and until the controller takes the next command, a chain
   records at most pot c0 more draws, c0 its state when pause() returned: one per Resume still
   in its mailbox, plus one if it had already passed its try_recv *)
Theorem I6_pause_bound n total s s0 evs s' j c0 c' :
  reach n total s -> step s (EvUser (ERet KPause 1%Z)) = Some s0 ->
  run s0 evs = Some s' -> no_cmd evs ->
  nth_error (s_chains s0) j = Some c0 -> nth_error (s_chains s') j = Some c' ->
  c_since_pause c' <= pot c0 /\ length (c_rec c') <= length (c_rec c0) + pot c0 /\
  pot c0 <= nres (c_mail c0) + 1 /\ s_paused s' = true.
Proof.
  intros Hr H Hrun N Hj Hj'.
  destruct (pause_return_phase _ _ _ _ Hr H) as (P & Pa & Z).
  destruct (phase_run _ _ _ P Hrun N) as [_ M]. destruct (M _ _ Hj) as (c'' & Hj'' & [M1 M2]).
  rewrite Hj' in Hj''; inversion Hj''; subst c''. rewrite (Z _ _ Hj) in M1.
  repeat split; try lia.
  - unfold pot, holding. destruct (c_pc c0) as [| |[|[|]|]| | | | | |]; lia.
  - rewrite (phase_run_paused _ _ _ P Hrun N). exact Pa.
Qed.

(* the usual case: no other command outstanding, the mailbox holds at most Pause messages *)
Corollary I6_pause_at_most_one n total s s0 evs s' j c0 c' :
  reach n total s -> step s (EvUser (ERet KPause 1%Z)) = Some s0 ->
  run s0 evs = Some s' -> no_cmd evs ->
  nth_error (s_chains s0) j = Some c0 -> nth_error (s_chains s') j = Some c' ->
  nres (c_mail c0) = 0 ->
  c_since_pause c' <= 1 /\ length (c_rec c') <= length (c_rec c0) + 1.
Proof.
  intros Hr H Hrun N Hj Hj' Z.
  destruct (I6_pause_bound _ _ _ _ _ _ _ _ _ Hr H Hrun N Hj Hj') as (A & B & C & _). lia.
Qed.

Corollary I6_pause_mailbox_only_pause n total s s0 evs s' j c0 c' :
  reach n total s -> step s (EvUser (ERet KPause 1%Z)) = Some s0 ->
  run s0 evs = Some s' -> no_cmd evs ->
  nth_error (s_chains s0) j = Some c0 -> nth_error (s_chains s') j = Some c' ->
  c_mail c0 = [MPause] -> c_since_pause c' <= 1.
Proof.
  intros Hr H Hrun N Hj Hj' M.
  eapply (I6_pause_at_most_one _ _ _ _ _ _ _ _ _ Hr H Hrun N Hj Hj'). rewrite M. reflexivity.
Qed.

(* a chain that already consumed the Pause records nothing at all *)
Corollary I6_pause_blocked_zero n total s s0 evs s' j c0 c' :
  reach n total s -> step s (EvUser (ERet KPause 1%Z)) = Some s0 ->
  run s0 evs = Some s' -> no_cmd evs ->
  nth_error (s_chains s0) j = Some c0 -> nth_error (s_chains s') j = Some c' ->
  nres (c_mail c0) = 0 -> holding c0 = 0 ->
  c_since_pause c' = 0 /\ length (c_rec c') <= length (c_rec c0).
Proof.
  intros Hr H Hrun N Hj Hj' Z Ho.
  destruct (I6_pause_bound _ _ _ _ _ _ _ _ _ Hr H Hrun N Hj Hj') as (A & B & _).
  unfold pot in *. lia.
Qed.

(* a paused chain stays paused, whatever else happens, until a Resume is sent to it *)
Definition parked (c : chain) : Prop :=
  match c_pc c with
  | PBlocked | PTop (RMsg MPause) | PTop RDisc | PDone _ => Forall (eq MPause) (c_mail c)
  | _ => False
  end.

Lemma chain_local_parked T tk c e c' o :
  parked c -> chain_local T tk c e = Some (c', o) ->
  parked c' /\ c_rec c' = c_rec c /\ c_draw c' = c_draw c.
Proof.
  intros P H. unfold parked in *. local_inv H; simpl in *; try contradiction; auto.
  destruct (infer_taken_cases tk r c) as [E|(_ & -> & M & E)]; rewrite E in *; clear E.
  - destruct (recv_now_cases c) as [(m & rest & M & R)|(M & R)]; rewrite R in *; simpl in *;
      rewrite M in *; bools; subst r.
    + inversion P; subst. auto.
    + destruct (c_tx c); simpl in *; [discriminate|auto].
  - unfold recv_now, taken; simpl. rewrite M. simpl. auto.
  - match goal with P : match ?r with _ => _ end |- _ =>
      destruct r as [|[|]|]; try contradiction; auto end.
Qed.

Lemma parked_change s e j c c' :
  parked c -> chain_change s e j c c' -> e <> EvCtl (ESend MResume j true) ->
  parked c' /\ c_rec c' = c_rec c /\ c_draw c' = c_draw c.
Proof.
  intros P Ch N. destruct Ch as [|e' c' o -> Hl|m k -> K M| -> K|k -> _]; auto.
  - eapply chain_local_parked; eauto.
  - destruct m; [|congruence]. unfold parked, push_mail in *; simpl.
    destruct (c_pc c) as [| |[|[|]|]| | | | | |]; try contradiction;
      (split; [apply Forall_app; auto|auto]).
Qed.

Theorem I6_parked_records_nothing s evs s' j c :
  nth_error (s_chains s) j = Some c -> parked c -> run s evs = Some s' ->
  ~ In (EvCtl (ESend MResume j true)) evs ->
  exists c', nth_error (s_chains s') j = Some c' /\ parked c' /\
             c_rec c' = c_rec c /\ c_draw c' = c_draw c.
Proof.
  revert s c; induction evs as [|e evs IH]; intros s c Hj P H N; simpl in H.
  - inversion H; subst. eauto.
  - destruct (step s e) as [s1|] eqn:E; [|discriminate].
    destruct (step_chain_change _ _ _ E _ _ Hj) as (c1 & Hj1 & Ch).
    destruct (parked_change _ _ _ _ _ P Ch) as (P1 & R1 & D1).
    { intros ->. apply N. left; reflexivity. }
    destruct (IH _ _ Hj1 P1 H) as (c' & Hj' & P' & R' & D').
    { intros Hin. apply N. right; exact Hin. }
    exists c'. repeat split; auto; congruence.
Qed.

(* the instance asked for: blocked, no Resume in the mailbox *)
Corollary I6_blocked_records_nothing s evs s' j c :
  nth_error (s_chains s) j = Some c -> c_pc c = PBlocked -> ~ In MResume (c_mail c) ->
  run s evs = Some s' -> ~ In (EvCtl (ESend MResume j true)) evs ->
  exists c', nth_error (s_chains s') j = Some c' /\ c_rec c' = c_rec c /\ c_draw c' = c_draw c.
Proof.
  intros Hj P M H N.
  destruct (I6_parked_records_nothing s evs s' j c Hj) as (c' & Hj' & _ & R & D); eauto.
  unfold parked. rewrite P. apply Forall_forall. intros [|] Hin; [reflexivity|contradiction].
Qed.

(* ---------------------------------------------------------------------------------------- *)
(* 14. checked examples: why the side conditions are needed                                  *)
(* ---------------------------------------------------------------------------------------- *)
Definition draw_once (i d : nat) : list ev :=
  [EvChain i (ETryRecv REmpty); EvChain i (EBeforeDraw d); EvChain i (EDrawn d);
   EvChain i (ERecorded d)].

(* (a) the bound 1 of I6 is attained: the chain passed its try_recv before Pause was sent *)
Example pause_one_more_draw :
  option_map (fun s => map (fun c => (c_since_pause c, c_pc c, s_paused s)) (s_chains s))
    (run (init 1 5)
       ([EvChain 0 EStarted; EvChain 0 (ETryRecv REmpty);
         EvUser (ECall KPause); EvCtl (ECmd KPause); EvCtl (ESend MPause 0 true);
         EvUser (ERet KPause 1%Z);
         EvChain 0 (EBeforeDraw 0); EvChain 0 (EDrawn 0); EvChain 0 (ERecorded 0);
         EvChain 0 (ETryRecv (RMsg MPause)); EvChain 0 EBlock]))
  = Some [(1, PBlocked, true)].
Proof. vm_compute. reflexivity. Qed.

(* (b) `s_paused s = true` alone bounds nothing: while resume() is being handled the ghost flag is
   still set and a resumed chain draws freely; hence "until the next command" in I6 *)
Example paused_flag_during_resume :
  option_map (fun s => map (fun c => (c_since_pause c, s_paused s)) (s_chains s))
    (run (init 1 5)
       ([EvChain 0 EStarted;
         EvUser (ECall KPause); EvCtl (ECmd KPause); EvCtl (ESend MPause 0 true);
         EvUser (ERet KPause 1%Z);
         EvChain 0 (ETryRecv (RMsg MPause)); EvChain 0 EBlock;
         EvUser (ECall KResume); EvCtl (ECmd KResume); EvCtl (ESend MResume 0 true);
         EvChain 0 (ERecv (RMsg MResume)); EvChain 0 (EBeforeDraw 0); EvChain 0 (EDrawn 0);
         EvChain 0 (ERecorded 0)] ++ draw_once 0 1 ++ draw_once 0 2))
  = Some [(3, true)].
Proof. vm_compute. reflexivity. Qed.

(* (c) a `ret_pause` is not accepted as the answer to `progress()`: `user_step` compares the
   returned command with the pending call and with the command the controller answers *)
Example ret_not_matched_with_call :
  run (init 1 5)
    [EvChain 0 EStarted;
     EvUser (ECall KProgress); EvCtl (ECmd KProgress); EvUser (ERet KPause 1%Z)]
  = None.
Proof. vm_compute. reflexivity. Qed.

(* every accepted return answers the pending call, which is the command being answered *)
Theorem ret_matches_call s c code s' :
  step s (EvUser (ERet c code)) = Some s' ->
  s_user s = UCalling c /\ (code = 1%Z -> s_ctl s = KResponding c).
Proof. intros H. step_inv' H; split; auto; discriminate. Qed.

(* (d) I4 needs `s_ctl_ok` / `s_cmd_open`: after abort() a chain ends with Ok but fewer draws *)
Example abort_gives_prefix :
  option_map (fun s => map (fun c => (c_rec c, c_pc c)) (s_chains s))
    (run (init 1 5)
       ([EvChain 0 EStarted] ++ draw_once 0 0 ++ draw_once 0 1 ++
        [EvUser ECallAbort; EvCtl EDisconnected; EvCtl (EFinalizeStart true);
         EvChain 0 (ETryRecv RDisc); EvChain 0 (EResult true); EvCtl EFinalizeDone;
         EvUser (ERetAbort 1%Z)]))
  = Some [([0; 1], PDone true)].
Proof. vm_compute. reflexivity. Qed.

(* ---------------------------------------------------------------------------------------- *)
(* 14b. I9 continued: the controller is never stuck while handling a command                 *)
(* ---------------------------------------------------------------------------------------- *)
(* only Pause / Resume are forwarded, and always to an existing chain *)
Definition handling_inv (s : st) : Prop :=
  match s_ctl s with
  | KHandling c nx => nx < length (s_chains s) /\ (c = KPause \/ c = KResume)
  | _ => True
  end.

Theorem reach_handling_inv n total s : reach n total s -> handling_inv s.
Proof.
  revert s. apply (reach_ind' n total); [exact I|].
  intros s e s' _ IH H. unfold handling_inv in *.
  pose proof (step_ctl_pc _ _ _ H) as K. pose proof (step_length_total _ _ _ H) as [L _].
  rewrite L.
  destruct e as [i e|[c|m i ok| |[|]|]|[c|c code| |code| |code]];
    try (destruct code as [|[p|p|]|]);
    repeat match goal with
           | H : _ /\ _ |- _ => destruct H
           | H : exists _, _ |- _ => destruct H
           end;
    try (match goal with H : s_ctl s' = _ |- _ => rewrite H end; try exact IH; try exact I).
  - unfold cmd_target. destruct c; try exact I; destruct (0 <? length (s_chains s)) eqn:E;
      try exact I; apply Nat.ltb_lt in E; auto.
  - match goal with H : s_ctl s = _ |- _ => rewrite H in IH end. destruct IH as [_ IH].
    unfold after_send. destruct (S i <? length (s_chains s)) eqn:E; [|exact I].
    apply Nat.ltb_lt in E. auto.
Qed.

Definition msg_for (c : cmd) : msg := match c with KResume => MResume | _ => MPause end.

(* while handling Pause / Resume the next send is enabled (a send into the unbounded mailbox
   never blocks) *)
Theorem I9_ctl_send_enabled n total s c nx :
  reach n total s -> s_ctl s = KHandling c nx ->
  exists s', step s (EvCtl (ESend (msg_for c) nx true)) = Some s'.
Proof.
  intros Hr K. pose proof (reach_handling_inv _ _ _ Hr) as HI. unfold handling_inv in HI.
  rewrite K in HI. destruct HI as [L C].
  destruct (nth_error (s_chains s) nx) as [ch|] eqn:E;
    [|apply nth_error_None in E; lia].
  eexists. unfold step. apply ctl_step_cases. eapply CC_send_ok; eauto.
  destruct C; subst; reflexivity.
Qed.

(* when the response is ready the user's call can return *)
Theorem I9_ret_enabled n total s c :
  reach n total s -> s_ctl s = KResponding c ->
  s_user s = UCalling c /\ exists s', step s (EvUser (ERet c 1%Z)) = Some s'.
Proof.
  intros Hr K. pose proof (reach_cu_inv _ _ _ Hr) as CU. unfold cu_inv in CU. rewrite K in CU.
  split; [exact CU|]. eexists. unfold step. apply user_step_cases. apply UC_ret; auto.
Qed.

(* ---------------------------------------------------------------------------------------- *)
(* 15. the same, phrased with the model's `replay`                                           *)
(* ---------------------------------------------------------------------------------------- *)
Lemma replay_reach n total evs s : replay (init n total) evs 0 = inl s -> reach n total s.
Proof. intros H. exists evs. apply (replay_run _ _ 0). exact H. Qed.

Theorem replay_records n total evs s c :
  replay (init n total) evs 0 = inl s -> In c (s_chains s) ->
  c_rec c = seq 0 (c_draw c) /\ c_draw c <= total /\ length (s_chains s) = n.
Proof.
  intros H Hin. apply replay_reach in H. destruct (I1_records _ _ _ _ H Hin).
  destruct (I3_chains_total _ _ _ H). auto.
Qed.

Print Assumptions replay_run.
Print Assumptions I1_records.
Print Assumptions I1_no_draws.
Print Assumptions chain_step_frame.
Print Assumptions ctl_step_frame.
Print Assumptions user_step_frame.
Print Assumptions step_ctl_frame.
Print Assumptions step_chain_change.
Print Assumptions I3_chains_total.
Print Assumptions gone_fin.
Print Assumptions reach_cu_inv.
Print Assumptions I4_done_all_or_cut.
Print Assumptions I4_complete.
Print Assumptions I4_wait_trace_complete.
Print Assumptions I5_results_count.
Print Assumptions reach_results_inv.
Print Assumptions I5_false_iff_failed.
Print Assumptions I5_wait_trace_all_ok.
Print Assumptions I5_failed_never_trace.
Print Assumptions I5_abort_ok_all_true.
Print Assumptions I5_abort_ok_no_failed.
Print Assumptions I6_pause_bound.
Print Assumptions I6_pause_at_most_one.
Print Assumptions I6_pause_mailbox_only_pause.
Print Assumptions I6_pause_blocked_zero.
Print Assumptions I6_parked_records_nothing.
Print Assumptions I6_blocked_records_nothing.
Print Assumptions I7_queued_forced.
Print Assumptions I7_started_pause_forced.
Print Assumptions I7_top_pause_forced.
Print Assumptions I8_prefix.
Print Assumptions I8_prefix_length.
Print Assumptions I9_chain_enabled.
Print Assumptions I9_blocked_recv_enabled.
Print Assumptions I9_quiescent_final.
Print Assumptions replay_records.
Print Assumptions ret_matches_call.
Print Assumptions reach_handling_inv.
Print Assumptions I9_ctl_send_enabled.
Print Assumptions I9_ret_enabled.
