(* Lemmas about the warmup schedule model (model/Schedule.v); used by Properties/C06.v, C09.v *)
From Coq Require Import ZArith NArith Bool List Lia QArith.
From NutsV Require Import lib.Fp model.Schedule.
Import ListNotations.
Local Open Scope N_scope.

Arguments N.add : simpl never.
Arguments N.sub : simpl never.
Arguments N.leb : simpl never.
Arguments N.ltb : simpl never.
Arguments N.eqb : simpl never.
Arguments N.max : simpl never.

Ltac inv_in :=
  repeat match goal with
  | H : _ /\ _ |- _ => destruct H
  | H : _ \/ _ |- _ => destruct H
  | H : False |- _ => contradiction
  | H : In _ [] |- _ => contradiction
  | H : _ = _ |- _ => discriminate H
  end.

Section Facts.
  Variable nextw : N -> N.
  Variable o : sopts.

  Notation adapt := (gs_adapt nextw o).

  (* ------------------------------------------------------------------------------------ *)
  (* constants                                                                              *)
  (* ------------------------------------------------------------------------------------ *)
  Lemma adapt_consts st k g :
    g_num_tune (fst (adapt st k g)) = g_num_tune st /\
    g_early_end (fst (adapt st k g)) = g_early_end st /\
    g_final (fst (adapt st k g)) = g_final st.
  Proof.
    unfold gs_adapt.
    destruct (g_num_tune st <=? k); [cbn; auto|].
    destruct (k <? g_final st); cbn; auto.
  Qed.

  Lemma adapt_tuning st k g :
    g_tuning (fst (adapt st k g)) = if g_num_tune st <=? k then false else g_tuning st.
  Proof.
    unfold gs_adapt.
    destruct (g_num_tune st <=? k); [reflexivity|].
    destruct (k <? g_final st); reflexivity.
  Qed.

  (* ------------------------------------------------------------------------------------ *)
  (* C06: tuning flag                                                                       *)
  (* ------------------------------------------------------------------------------------ *)
  Definition tun_inv (st : gstate) (k : N) : Prop := g_tuning st = false -> g_num_tune st <= k.

  Lemma tun_inv_step st k g : tun_inv st k -> tun_inv (fst (adapt st k g)) (k + 1).
  Proof.
    unfold tun_inv. intros H. rewrite adapt_tuning.
    destruct (adapt_consts st k g) as (-> & _ & _).
    destruct (N.leb_spec (g_num_tune st) k); intros; lia || (apply H in H1; lia).
  Qed.

  Lemma tuning_after_step st k g :
    tun_inv st k -> g_tuning (fst (adapt st k g)) = (k <? g_num_tune st).
  Proof.
    unfold tun_inv. intros H. rewrite adapt_tuning.
    destruct (N.leb_spec (g_num_tune st) k) as [Hle|Hlt].
    - symmetry. apply N.ltb_ge. exact Hle.
    - destruct (g_tuning st) eqn:E; [symmetry; apply N.ltb_lt; exact Hlt|].
      specialize (H eq_refl). lia.
  Qed.

  Lemma chain_run_draws st k goods :
    map r_draw (snd (chain_run nextw o st k goods)) = nseq k (length goods).
  Proof.
    revert st k. induction goods as [|g gs IH]; intros st k; cbn [chain_run]; [reflexivity|].
    unfold chain_step. destruct (adapt st k g) as [st1 evs] eqn:E.
    destruct (chain_run nextw o st1 (k + 1) gs) as [st2 rs] eqn:E2.
    cbn. f_equal. specialize (IH st1 (k + 1)). rewrite E2 in IH. exact IH.
  Qed.

  Lemma tuning_exact_gen goods : forall st k,
    tun_inv st k ->
    Forall (fun r => r_tuning r = (r_draw r <? g_num_tune st) /\ r_stat_tuning r = r_tuning r)
           (snd (chain_run nextw o st k goods)).
  Proof.
    induction goods as [|g gs IH]; intros st k Hinv; cbn [chain_run]; [constructor|].
    unfold chain_step. destruct (adapt st k g) as [st1 evs] eqn:E.
    destruct (chain_run nextw o st1 (k + 1) gs) as [st2 rs] eqn:E2.
    cbn. constructor.
    - cbn. split; [|reflexivity].
      pose proof (tuning_after_step st k g Hinv) as H. rewrite E in H. exact H.
    - pose proof (tun_inv_step st k g Hinv) as H1. rewrite E in H1. cbn in H1.
      specialize (IH st1 (k + 1) H1). rewrite E2 in IH. cbn in IH.
      pose proof (adapt_consts st k g) as (Hn & _ & _). rewrite E in Hn. cbn in Hn.
      rewrite Hn in IH. exact IH.
  Qed.

  (* ------------------------------------------------------------------------------------ *)
  (* C06: nothing about the transformation changes from the final window on                 *)
  (* ------------------------------------------------------------------------------------ *)
  Definition step_only (e : ev) : Prop :=
    match e with EAdvance _ | ESetStep _ => True | _ => False end.

  Lemma frozen_from_final st k g :
    g_final st <= k ->
    let st' := fst (adapt st k g) in
    g_id st' = g_id st /\ g_win st' = g_win st /\ g_cur_win st' = g_cur_win st /\
    g_last_update st' = g_last_update st /\ g_has_init st' = g_has_init st /\
    Forall step_only (snd (adapt st k g)).
  Proof.
    intros Hk. unfold gs_adapt.
    destruct (g_num_tune st <=? k).
    - cbn. repeat split; auto. repeat constructor.
    - destruct (N.ltb_spec k (g_final st)); [lia|].
      cbn. repeat split; auto. repeat constructor.
  Qed.

  Lemma id_frozen_run goods : forall st k,
    g_final st <= k ->
    Forall (fun r => r_id r = g_id st /\ Forall step_only (r_events r))
           (snd (chain_run nextw o st k goods)).
  Proof.
    induction goods as [|g gs IH]; intros st k Hk; cbn [chain_run]; [constructor|].
    unfold chain_step. destruct (adapt st k g) as [st1 evs] eqn:E.
    destruct (chain_run nextw o st1 (k + 1) gs) as [st2 rs] eqn:E2.
    pose proof (frozen_from_final st k g Hk) as H. rewrite E in H. cbn in H.
    destruct H as (Hid & _ & _ & _ & _ & Hev).
    cbn. constructor; [cbn; split; assumption|].
    pose proof (adapt_consts st k g) as (_ & _ & Hf). rewrite E in Hf. cbn in Hf.
    assert (Hk1 : g_final st1 <= k + 1) by lia.
    specialize (IH st1 (k + 1) Hk1). rewrite E2 in IH. cbn in IH. rewrite Hid in IH. exact IH.
  Qed.

  (* ------------------------------------------------------------------------------------ *)
  (* C06: after warmup the step-size state never advances                                   *)
  (* ------------------------------------------------------------------------------------ *)
  Lemma after_warmup_events st k g :
    g_num_tune st <= k -> snd (adapt st k g) = [ESetStep true].
  Proof.
    intros H. unfold gs_adapt. destruct (N.leb_spec (g_num_tune st) k); [reflexivity|lia].
  Qed.

  Lemma last_warmup_draw_events st k g :
    g_final st <= k -> k < g_num_tune st ->
    snd (adapt st k g) = [EAdvance true; ESetStep (k =? g_num_tune st - 1)].
  Proof.
    intros H1 H2. unfold gs_adapt.
    destruct (N.leb_spec (g_num_tune st) k); [lia|].
    destruct (N.ltb_spec k (g_final st)); [lia|]. reflexivity.
  Qed.

  Section Step.
    Variable SS : Type.
    Variable ss_advance : SS -> bool -> N -> SS.
    Variable ss_search : SS -> N -> SS * Q.
    Variables ss_cur ss_best : SS -> Q.
    Variable jit : N -> Q.
    Notation srun := (ss_run SS ss_advance ss_search ss_cur ss_best jit).

    Lemma step_after_warmup st k g ss eps :
      g_num_tune st <= k ->
      srun k (ss, eps) (snd (adapt st k g)) = (ss, (ss_best ss * jit k)%Q).
    Proof. intros H. rewrite after_warmup_events by exact H. reflexivity. Qed.

    (* run of the chain together with the step-size state *)
    Fixpoint ss_chain (st : gstate) (p : SS * Q) (k : N) (goods : list bool)
      : list (N * SS * Q) :=
      match goods with
      | [] => []
      | g :: gs =>
          let '(st1, evs) := adapt st k g in
          let p1 := srun k p evs in
          (k, fst p1, snd p1) :: ss_chain st1 p1 (k + 1) gs
      end.

    Lemma stepsize_frozen_run goods : forall st ss eps k,
      g_num_tune st <= k ->
      Forall (fun t => let '(d, s, e) := t in s = ss /\ e = (ss_best ss * jit d)%Q)
             (ss_chain st (ss, eps) k goods).
    Proof.
      induction goods as [|g gs IH]; intros st ss eps k Hk; cbn [ss_chain]; [constructor|].
      destruct (adapt st k g) as [st1 evs] eqn:E.
      pose proof (step_after_warmup st k g ss eps Hk) as H. rewrite E in H. cbn [snd] in H.
      rewrite H. cbn [fst snd]. constructor; [split; reflexivity|].
      pose proof (adapt_consts st k g) as (Hn & _ & _). rewrite E in Hn. cbn in Hn.
      apply IH. lia.
    Qed.

    Lemma jitter_band best j x :
      (0 < best)%Q -> (1 - j <= x)%Q -> (x < 1 + j)%Q ->
      (best * (1 - j) <= best * x)%Q /\ (best * x < best * (1 + j))%Q.
    Proof.
      intros Hb H1 H2. split.
      - apply Qmult_le_l; assumption.
      - apply Qmult_lt_l; assumption.
    Qed.
  End Step.

  (* ------------------------------------------------------------------------------------ *)
  (* C06/C09: draw - last_update never underflows                                           *)
  (* ------------------------------------------------------------------------------------ *)
  Lemma last_update_le st k g :
    g_last_update st <= k -> g_last_update (fst (adapt st k g)) <= k + 1.
  Proof.
    intros H. unfold gs_adapt.
    destruct (g_num_tune st <=? k); [cbn; lia|].
    destruct (k <? g_final st); [|cbn; lia].
    cbn [fst g_last_update].
    match goal with |- (if ?c then _ else _) <= _ => destruct c end; lia.
  Qed.

  (* ------------------------------------------------------------------------------------ *)
  (* C09: the schedule decisions, stated as the documented conditions                       *)
  (* ------------------------------------------------------------------------------------ *)
  (* the quantities the code computes at draw k < final *)
  Definition d_is_early st k := k <? g_early_end st.
  Definition d_cur_win st k :=
    if negb (d_is_early st k) && (k =? g_early_end st)
    then N.max (g_cur_win st) (len (w_bg (g_win st))) else g_cur_win st.
  Definition d_switch_freq st k := if d_is_early st k then o_early_sw o else d_cur_win st k.
  Definition d_w1 st k (g : bool) := if g then win_add (g_win st) (Z.of_N k) else g_win st.
  Definition d_next_w st k := if d_is_early st k then o_early_sw o else nextw (d_cur_win st k).
  Definition d_is_late st k := g_final st <? d_next_w st k + k.
  Definition d_switch st k g :=
    (d_switch_freq st k <=? len (w_bg (d_w1 st k g))) && negb (d_is_late st k).
  Definition d_attempt st k g := d_switch st k g || (o_upd o <=? k - g_last_update st).
  Definition d_w2 st k g := if d_switch st k g then win_switch (d_w1 st k g) else d_w1 st k g.
  Definition d_change st k g := d_attempt st k g && (3 <=? len (w_fg (d_w2 st k g))).

  Lemma adapt_main st k g :
    k < g_num_tune st -> k < g_final st ->
    adapt st k g =
    ({| g_num_tune := g_num_tune st; g_early_end := g_early_end st; g_final := g_final st;
        g_tuning := g_tuning st;
        g_has_init := if d_change st k g && g_has_init st then false else g_has_init st;
        g_last_update := if d_change st k g then k else g_last_update st;
        g_cur_win := if d_switch st k g && negb (d_is_early st k) then d_next_w st k
                     else d_cur_win st k;
        g_win := d_w2 st k g;
        g_id := if d_change st k g then (g_id st + 1)%Z else g_id st |},
     (if d_switch st k g then [ESwitch] else []) ++
     (if d_attempt st k g then [EMassAdapt (d_change st k g)] else []) ++
     [EAdvance (d_is_late st k)] ++
     (if d_change st k g && g_has_init st then [EStepInit] else [ESetStep false])).
  Proof.
    intros H1 H2. unfold gs_adapt.
    destruct (N.leb_spec (g_num_tune st) k); [lia|].
    destruct (N.ltb_spec k (g_final st)); [|lia].
    reflexivity.
  Qed.

  Lemma switch_condition st k g :
    k < g_num_tune st -> k < g_final st ->
    (In ESwitch (snd (adapt st k g)) <->
     d_switch_freq st k <= len (w_bg (d_w1 st k g)) /\ k + d_next_w st k <= g_final st).
  Proof.
    intros H1 H2. rewrite adapt_main by assumption. cbn [snd].
    unfold d_switch, d_is_late.
    destruct (N.leb_spec (d_switch_freq st k) (len (w_bg (d_w1 st k g)))) as [Ha|Ha];
    destruct (N.ltb_spec (g_final st) (d_next_w st k + k)) as [Hb|Hb]; cbn [andb negb].
    all: split; [intros Hin | intros [Hc Hd]].
    all: try lia.
    all: try (left; reflexivity).
    all: repeat (rewrite in_app_iff in Hin); cbn in Hin.
    all: destruct (d_attempt st k g); destruct (_ && g_has_init st); cbn in Hin;
         repeat match goal with H : _ \/ _ |- _ => destruct H end; try discriminate; try contradiction.
  Qed.

  Lemma no_switch_outside st k g :
    (g_num_tune st <= k \/ g_final st <= k) -> ~ In ESwitch (snd (adapt st k g)).
  Proof.
    intros H Hin. unfold gs_adapt in Hin.
    destruct (N.leb_spec (g_num_tune st) k).
    - cbn in Hin. destruct Hin as [Hx|[]]; discriminate.
    - destruct (N.ltb_spec k (g_final st)); [lia|].
      cbn in Hin. destruct Hin as [Hx|[Hx|[]]]; discriminate.
  Qed.

  Lemma update_freq st k g :
    k < g_num_tune st -> k < g_final st ->
    ((exists c, In (EMassAdapt c) (snd (adapt st k g))) <->
     (In ESwitch (snd (adapt st k g)) \/ o_upd o <= k - g_last_update st)).
  Proof.
    intros H1 H2. rewrite adapt_main by assumption. cbn [snd].
    unfold d_attempt.
    destruct (d_switch st k g) eqn:Es; cbn [orb app].
    - split; [intros _; left; left; reflexivity|intros _; eexists; right; left; reflexivity].
    - destruct (N.leb_spec (o_upd o) (k - g_last_update st)) as [Hu|Hu].
      + split; [intros _; right; exact Hu|intros _; eexists; left; reflexivity].
      + split.
        * intros [c Hin]. cbn in Hin. destruct (_ && g_has_init st); cbn in Hin;
          repeat match goal with H : _ \/ _ |- _ => destruct H end; try discriminate; contradiction.
        * intros [Hin|Hle]; [|lia]. cbn in Hin. destruct (_ && g_has_init st); cbn in Hin;
          repeat match goal with H : _ \/ _ |- _ => destruct H end; try discriminate; contradiction.
  Qed.

  Lemma late_uses_symmetric st k g b :
    k < g_num_tune st -> In (EAdvance b) (snd (adapt st k g)) ->
    b = (d_is_late st k || (g_final st <=? k)).
  Proof.
    intros H1 Hin.
    destruct (N.ltb_spec k (g_final st)) as [Hf|Hf].
    - rewrite adapt_main in Hin by assumption. cbn [snd] in Hin.
      replace (g_final st <=? k) with false by (symmetry; apply N.leb_gt; exact Hf).
      rewrite orb_false_r.
      repeat (rewrite in_app_iff in Hin).
      destruct (d_switch st k g); destruct (d_attempt st k g); destruct (_ && g_has_init st);
        cbn in Hin; repeat match goal with H : _ \/ _ |- _ => destruct H end;
        try discriminate; try contradiction; congruence.
    - rewrite last_warmup_draw_events in Hin by assumption.
      replace (g_final st <=? k) with true by (symmetry; apply N.leb_le; exact Hf).
      rewrite orb_true_r. cbn in Hin.
      destruct Hin as [Hx|[Hx|[]]]; congruence.
  Qed.

  Lemma reinit_on_first_change st k g :
    (In EStepInit (snd (adapt st k g)) <->
     In (EMassAdapt true) (snd (adapt st k g)) /\ g_has_init st = true) /\
    (In EStepInit (snd (adapt st k g)) -> g_has_init (fst (adapt st k g)) = false) /\
    (g_has_init st = false -> g_has_init (fst (adapt st k g)) = false).
  Proof.
    destruct (N.leb_spec (g_num_tune st) k) as [Ha|Ha].
    { rewrite after_warmup_events by exact Ha. unfold gs_adapt.
      destruct (N.leb_spec (g_num_tune st) k); [|lia]. cbn.
      repeat split; intros; inv_in; auto. }
    destruct (N.ltb_spec k (g_final st)) as [Hf|Hf].
    2:{ rewrite last_warmup_draw_events by assumption. unfold gs_adapt.
        destruct (N.leb_spec (g_num_tune st) k); [lia|].
        destruct (N.ltb_spec k (g_final st)); [lia|]. cbn.
        repeat split; intros; inv_in; auto. }
    rewrite adapt_main by assumption. cbn [fst snd g_has_init].
    unfold d_change.
    destruct (d_switch st k g); destruct (d_attempt st k g) eqn:Ea;
      destruct (3 <=? len (w_fg (d_w2 st k g))); destruct (g_has_init st); cbn.
    all: repeat split; intros; inv_in; auto.
  Qed.

  Lemma only_good_counted st k g :
    k < g_num_tune st -> k < g_final st ->
    g_win (fst (adapt st k g)) =
      (if existsb is_switch (snd (adapt st k g)) then win_switch (d_w1 st k g) else d_w1 st k g) /\
    d_w1 st k false = g_win st /\
    d_w1 st k true = win_add (g_win st) (Z.of_N k).
  Proof.
    intros H1 H2. rewrite adapt_main by assumption. cbn [fst snd g_win].
    split; [|split; reflexivity].
    unfold d_w2. destruct (d_switch st k g); [reflexivity|].
    destruct (d_attempt st k g); destruct (_ && g_has_init st); reflexivity.
  Qed.

  Hypothesis nextw_grows : forall c, c < nextw c.

  Lemma windows_grow st k g :
    g_cur_win st <= g_cur_win (fst (adapt st k g)) /\
    (In ESwitch (snd (adapt st k g)) -> g_early_end st <= k ->
     g_cur_win st < g_cur_win (fst (adapt st k g))) /\
    (k < g_early_end st -> g_cur_win (fst (adapt st k g)) = g_cur_win st).
  Proof.
    destruct (N.leb_spec (g_num_tune st) k) as [Ha|Ha].
    { pose proof (no_switch_outside st k g (or_introl Ha)) as Hns.
      unfold gs_adapt in *. destruct (N.leb_spec (g_num_tune st) k); [|lia]. cbn in *.
      repeat split; try lia. intros Hin. exfalso. apply Hns. exact Hin. }
    destruct (N.ltb_spec k (g_final st)) as [Hf|Hf].
    2:{ pose proof (no_switch_outside st k g (or_intror Hf)) as Hns.
        unfold gs_adapt in *. destruct (N.leb_spec (g_num_tune st) k); [lia|].
        destruct (N.ltb_spec k (g_final st)); [lia|]. cbn in *.
        repeat split; try lia. intros Hin. exfalso. apply Hns. exact Hin. }
    rewrite adapt_main by assumption. cbn [fst snd g_cur_win].
    assert (Hcw : g_cur_win st <= d_cur_win st k).
    { unfold d_cur_win. destruct (_ && _); lia. }
    unfold d_next_w, d_is_early.
    destruct (N.ltb_spec k (g_early_end st)) as [He|He]; cbn [negb andb].
    - rewrite andb_false_r. unfold d_cur_win, d_is_early.
      destruct (N.ltb_spec k (g_early_end st)); [|lia]. cbn [negb andb].
      repeat split; try lia.
    - rewrite andb_true_r.
      pose proof (nextw_grows (d_cur_win st k)) as Hg.
      destruct (d_switch st k g) eqn:Es.
      + repeat split; try lia.
      + repeat split; try lia.
        intros Hin. exfalso. cbn in Hin.
        destruct (d_attempt st k g); destruct (_ && g_has_init st); cbn in Hin;
          repeat match goal with H : _ \/ _ |- _ => destruct H end; try discriminate; contradiction.
  Qed.

  (* ------------------------------------------------------------------------------------ *)
  (* C09: the foreground estimator only holds draws of the last two windows                 *)
  (* ------------------------------------------------------------------------------------ *)
  Definition recent_inv (st : gstate) (hist : list Z) (k : N) : Prop :=
    let sw1 := nth 0 hist (-2)%Z in
    let sw2 := nth 1 hist (-2)%Z in
    (sw2 <= sw1)%Z /\ (sw1 < Z.of_N k)%Z /\
    exists pre, w_fg (g_win st) = pre ++ w_bg (g_win st) /\
      Forall (fun t => (sw1 < t < Z.of_N k)%Z) (w_bg (g_win st)) /\
      Forall (fun t => (sw2 < t <= sw1)%Z) pre.

  Lemma recent_step st hist k g :
    recent_inv st hist k ->
    let '(st', evs) := adapt st k g in
    recent_inv st' (if existsb is_switch evs then Z.of_N k :: hist else hist) (k + 1).
  Proof.
    intros (H21 & H1k & pre & Hfg & Hbg & Hpre).
    destruct (N.leb_spec (g_num_tune st) k) as [Ha|Ha];
      [|destruct (N.ltb_spec k (g_final st)) as [Hf|Hf]].
    - unfold gs_adapt. destruct (N.leb_spec (g_num_tune st) k); [|lia]. cbn.
      repeat split; try lia. exists pre. repeat split; auto.
      eapply Forall_impl; [|exact Hbg]. cbn. intros; lia.
    - rewrite adapt_main by assumption.
      set (sw := d_switch st k g).
      assert (Hex : existsb is_switch
        ((if sw then [ESwitch] else []) ++ (if d_attempt st k g then [EMassAdapt (d_change st k g)] else []) ++
         [EAdvance (d_is_late st k)] ++
         (if d_change st k g && g_has_init st then [EStepInit] else [ESetStep false])) = sw).
      { destruct sw; [reflexivity|]. destruct (d_attempt st k g); destruct (_ && g_has_init st); reflexivity. }
      rewrite Hex. unfold recent_inv. cbn [g_win]. unfold d_w2. fold sw.
      assert (Hw1 : exists pre1, w_fg (d_w1 st k g) = pre1 ++ w_bg (d_w1 st k g) /\
                 Forall (fun t => (nth 0 hist (-2) < t < Z.of_N (k + 1))%Z) (w_bg (d_w1 st k g)) /\
                 Forall (fun t => (nth 1 hist (-2) < t <= nth 0 hist (-2))%Z) pre1).
      { exists pre. unfold d_w1. destruct g; cbn.
        - rewrite Hfg, app_assoc. repeat split; auto.
          apply Forall_app. split.
          + eapply Forall_impl; [|exact Hbg]. cbn; intros; lia.
          + constructor; [lia|constructor].
        - repeat split; auto. eapply Forall_impl; [|exact Hbg]. cbn; intros; lia. }
      destruct Hw1 as (pre1 & Hfg1 & Hbg1 & Hpre1).
      destruct sw.
      + cbn [nth win_switch w_fg w_bg].
        repeat split; try lia.
        exists (w_bg (d_w1 st k g)). rewrite app_nil_r. repeat split; auto.
        eapply Forall_impl; [|exact Hbg1]. cbn; intros; lia.
      + repeat split; try lia. exists pre1. repeat split; auto.
    - unfold gs_adapt. destruct (N.leb_spec (g_num_tune st) k); [lia|].
      destruct (N.ltb_spec k (g_final st)); [lia|]. cbn.
      repeat split; try lia. exists pre. repeat split; auto.
      eapply Forall_impl; [|exact Hbg]. cbn; intros; lia.
  Qed.

  Lemma recent_run goods : forall st hist k,
    recent_inv st hist k ->
    let '(st', hist') := run_sw nextw o st k goods hist in
    recent_inv st' hist' (k + N.of_nat (length goods)).
  Proof.
    induction goods as [|g gs IH]; intros st hist k Hinv; cbn [run_sw length].
    - replace (k + N.of_nat 0) with k by lia. exact Hinv.
    - pose proof (recent_step st hist k g Hinv) as Hs.
      destruct (adapt st k g) as [st1 evs].
      specialize (IH st1 _ (k + 1) Hs).
      destruct (run_sw nextw o st1 (k + 1) gs _) as [st2 h2].
      replace (k + N.of_nat (S (length gs))) with (k + 1 + N.of_nat (length gs)) by lia.
      exact IH.
  Qed.

  Lemma recent_init st : recent_inv (gs_init st) [] 0.
  Proof.
    unfold recent_inv. cbn. repeat split; try lia.
    exists []. cbn. repeat split; auto. repeat constructor; cbn; lia.
  Qed.

  Lemma fg_is_recent st0 goods :
    let '(st, hist) := run_sw nextw o (gs_init st0) 0 goods [] in
    Forall (fun t => (nth 1 hist (-2) < t)%Z) (w_fg (g_win st)) /\
    Forall (fun t => (nth 0 hist (-2) < t)%Z) (w_bg (g_win st)).
  Proof.
    pose proof (recent_run goods (gs_init st0) [] 0 (recent_init st0)) as H.
    destruct (run_sw nextw o (gs_init st0) 0 goods []) as [st hist].
    destruct H as (H21 & H1k & pre & Hfg & Hbg & Hpre).
    split.
    - rewrite Hfg. apply Forall_app. split.
      + eapply Forall_impl; [|exact Hpre]. cbn; intros; lia.
      + eapply Forall_impl; [|exact Hbg]. cbn; intros; lia.
    - eapply Forall_impl; [|exact Hbg]. cbn; intros; lia.
  Qed.
End Facts.

(* ---------------------------------------------------------------------------------------- *)
(* both concrete estimators refine the abstract window pair                                   *)
(* ---------------------------------------------------------------------------------------- *)
Definition lr_wf (w : lrwin) : Prop := (lr_split w <= length (lr_q w))%nat.

Lemma lr_add_refines w t : lr_wf w -> lr_abs (lr_add w t) = win_add (lr_abs w) t /\ lr_wf (lr_add w t).
Proof.
  unfold lr_wf, lr_abs, lr_add, win_add. cbn. intros H. split.
  - f_equal. rewrite skipn_app. replace (lr_split w - length (lr_q w))%nat with 0%nat by lia.
    reflexivity.
  - rewrite app_length. cbn. lia.
Qed.

Lemma lr_switch_refines w : lr_wf w -> lr_abs (lr_switch w) = win_switch (lr_abs w) /\ lr_wf (lr_switch w).
Proof.
  unfold lr_wf, lr_abs, lr_switch, win_switch. cbn. intros H. split.
  - f_equal. apply skipn_all.
  - lia.
Qed.

(* ---------------------------------------------------------------------------------------- *)
(* flow strategy                                                                              *)
(* ---------------------------------------------------------------------------------------- *)
Lemma flow_tuning upd st k :
  f_tuning (fst (flow_adapt upd st k)) = if f_num_tune st <=? k then false else f_tuning st.
Proof.
  unfold flow_adapt. destruct (f_num_tune st <=? k); [reflexivity|].
  destruct (k <? f_final st); reflexivity.
Qed.

Lemma flow_consts upd st k :
  f_num_tune (fst (flow_adapt upd st k)) = f_num_tune st /\
  f_final (fst (flow_adapt upd st k)) = f_final st.
Proof.
  unfold flow_adapt. destruct (f_num_tune st <=? k); [cbn; auto|].
  destruct (k <? f_final st); cbn; auto.
Qed.

Lemma flow_frozen upd st k :
  f_final st <= k ->
  f_updates (fst (flow_adapt upd st k)) = f_updates st /\ ~ In FUpdate (snd (flow_adapt upd st k)).
Proof.
  intros H. unfold flow_adapt. destruct (f_num_tune st <=? k).
  - cbn. split; [reflexivity|]. intros [Hx|[]]; discriminate.
  - destruct (N.ltb_spec k (f_final st)); [lia|]. cbn. split; [reflexivity|].
    intros [Hx|[Hx|[]]]; discriminate.
Qed.

Lemma flow_tuning_exact upd n : forall st k,
  (f_tuning st = false -> f_num_tune st <= k) ->
  Forall2 (fun d p => fst p = (d <? f_num_tune st)) (nseq k n) (snd (flow_run upd st k n)).
Proof.
  induction n as [|n IH]; intros st k Hinv; cbn [flow_run nseq]; [constructor|].
  destruct (flow_adapt upd st k) as [st1 evs] eqn:E.
  destruct (flow_run upd st1 (k + 1) n) as [st2 rs] eqn:E2.
  cbn. pose proof (flow_tuning upd st k) as Ht. rewrite E in Ht. cbn in Ht.
  pose proof (flow_consts upd st k) as (Hn & _). rewrite E in Hn. cbn in Hn.
  constructor.
  - cbn. rewrite Ht. destruct (N.leb_spec (f_num_tune st) k) as [Hle|Hlt].
    + symmetry. apply N.ltb_ge. exact Hle.
    + destruct (f_tuning st) eqn:Et; [symmetry; apply N.ltb_lt; exact Hlt|].
      specialize (Hinv eq_refl). lia.
  - assert (Hinv1 : f_tuning st1 = false -> f_num_tune st1 <= k + 1).
    { rewrite Ht, Hn. destruct (N.leb_spec (f_num_tune st) k); intros; [lia|].
      specialize (Hinv H0). lia. }
    specialize (IH st1 (k + 1) Hinv1). rewrite E2 in IH. cbn in IH. rewrite Hn in IH. exact IH.
Qed.

(* ---------------------------------------------------------------------------------------- *)
(* statements in the argument order used by Properties/C06.v                                  *)
(* ---------------------------------------------------------------------------------------- *)
Lemma tuning_exact_chain :
  forall (nextw : N -> N) (o : sopts) (st : gstate) (goods : list bool),
    g_tuning st = true ->
    Forall (fun r => r_tuning r = (r_draw r <? g_num_tune st) /\ r_stat_tuning r = r_tuning r)
           (snd (chain_run nextw o (gs_init st) 0 goods)) /\
    map r_draw (snd (chain_run nextw o (gs_init st) 0 goods)) = nseq 0 (length goods).
Proof.
  intros nextw o st goods Ht. split.
  - apply (tuning_exact_gen nextw o goods (gs_init st) 0).
    unfold tun_inv. cbn. rewrite Ht. discriminate.
  - apply chain_run_draws.
Qed.

Lemma id_frozen_chain :
  forall (nextw : N -> N) (o : sopts) (st : gstate) (k : N) (goods : list bool),
    g_final st <= k ->
    Forall (fun r => r_id r = g_id st /\ Forall step_only (r_events r))
           (snd (chain_run nextw o st k goods)).
Proof. intros nextw o st k goods. apply id_frozen_run. Qed.

Lemma gs_new_total :
  forall (o : sopts) (ew ssw growth : f64) (n : N),
    (exists st, gs_new o ew ssw growth n = NewOk st) <->
    ((n = 0 \/ frac_of ew n < n) /\ fge growth fone = true).
Proof.
  intros o ew ssw growth n. unfold gs_new.
  destruct (N.eqb_spec n 0) as [E0|E0]; destruct (N.ltb_spec (frac_of ew n) n) as [El|El];
    destruct (fge growth fone) eqn:Eg; cbn [orb negb andb]; split.
  all: try (intros [st H]; discriminate H).
  all: try (intros _; split; [first [left; assumption | right; assumption] | reflexivity]).
  all: try (intros [Hd Hg]; try discriminate Hg; try (destruct Hd; lia)).
  all: try (eexists; reflexivity).
Qed.

Lemma flow_tuning_exact_new :
  forall (upd : N) (n : nat) (ssw : f64) (num_tune : N),
    Forall2 (fun d p => fst p = (d <? num_tune)) (nseq 0 n)
            (snd (flow_run upd (flow_new ssw num_tune) 0 n)).
Proof.
  intros. apply (flow_tuning_exact upd n (flow_new ssw num_tune) 0). cbn. discriminate.
Qed.

(* ---------------------------------------------------------------------------------------- *)
(* C09: the estimators hold EXACTLY the fed draws after the last / last-but-one switch        *)
(* ---------------------------------------------------------------------------------------- *)
Section Exact.
  Variable nextw : N -> N.
  Variable o : sopts.
  Notation adapt := (gs_adapt nextw o).

  Lemma newer_app h a b : newer_than h (a ++ b) = newer_than h a ++ newer_than h b.
  Proof. apply filter_app. Qed.

  Lemma newer_none h l : Forall (fun t => (t <= h)%Z) l -> newer_than h l = [].
  Proof.
    induction 1 as [|x l Hx Hl IH]; cbn; auto.
    destruct (Z.ltb_spec h x); [lia|exact IH].
  Qed.

  Lemma nth_hist_lt (hist : list Z) (i : nat) (b : Z) :
    Forall (fun h => (h < b)%Z) hist -> (-2 < b)%Z -> (nth i hist (-2) < b)%Z.
  Proof.
    intros H Hb. revert i. induction H as [|x l Hx Hl IH]; intros [|i]; cbn; auto.
  Qed.

  Definition exact_inv (nt fin : N) (st : gstate) (hist fed : list Z) (k : N) : Prop :=
    g_num_tune st = nt /\ g_final st = fin /\
    Forall (fun t => (t < Z.of_N k)%Z) fed /\ Forall (fun h => (h < Z.of_N k)%Z) hist /\
    w_fg (g_win st) = newer_than (nth 1 hist (-2)%Z) fed /\
    w_bg (g_win st) = newer_than (nth 0 hist (-2)%Z) fed.

  Lemma exact_step nt fin st hist fed k g :
    exact_inv nt fin st hist fed k ->
    exact_inv nt fin (fst (adapt st k g))
      (if existsb is_switch (snd (adapt st k g)) then Z.of_N k :: hist else hist)
      (fed ++ fed_step nt fin k g) (k + 1).
  Proof.
    intros (Hnt & Hfin & Hfed & Hhist & Hfg & Hbg). subst nt fin.
    assert (Hfed' : Forall (fun t => (t < Z.of_N (k + 1))%Z) fed)
      by (eapply Forall_impl; [|exact Hfed]; cbn; intros; lia).
    assert (Hhist' : Forall (fun h => (h < Z.of_N (k + 1))%Z) hist)
      by (eapply Forall_impl; [|exact Hhist]; cbn; intros; lia).
    unfold fed_step.
    destruct (N.leb_spec (g_num_tune st) k) as [Ha|Ha];
      [|destruct (N.ltb_spec k (g_final st)) as [Hf|Hf]].
    - replace (k <? g_num_tune st) with false by (symmetry; apply N.ltb_ge; exact Ha).
      rewrite andb_false_r, app_nil_r. cbn [andb].
      unfold gs_adapt. destruct (N.leb_spec (g_num_tune st) k); [|lia]. cbn.
      repeat split; auto.
    - replace (k <? g_num_tune st) with true by (symmetry; apply N.ltb_lt; exact Ha).
      replace (k <? g_final st) with true by (symmetry; apply N.ltb_lt; exact Hf).
      rewrite !andb_true_r.
      rewrite adapt_main by assumption. cbn [fst snd].
      set (sw := d_switch nextw o st k g).
      assert (Hex : existsb is_switch
        ((if sw then [ESwitch] else []) ++
         (if d_attempt nextw o st k g then [EMassAdapt (d_change nextw o st k g)] else []) ++
         [EAdvance (d_is_late nextw o st k)] ++
         (if d_change nextw o st k g && g_has_init st then [EStepInit] else [ESetStep false])) = sw).
      { destruct sw; [reflexivity|].
        destruct (d_attempt nextw o st k g); destruct (_ && g_has_init st); reflexivity. }
      rewrite Hex. unfold exact_inv. cbn [g_num_tune g_final g_win]. unfold d_w2. fold sw.
      pose proof (nth_hist_lt hist 0 (Z.of_N k) Hhist ltac:(lia)) as H0.
      pose proof (nth_hist_lt hist 1 (Z.of_N k) Hhist ltac:(lia)) as H1.
      assert (Hw1 : w_fg (d_w1 st k g) = newer_than (nth 1 hist (-2)%Z) (fed ++ (if g then [Z.of_N k] else [])) /\
                    w_bg (d_w1 st k g) = newer_than (nth 0 hist (-2)%Z) (fed ++ (if g then [Z.of_N k] else []))).
      { unfold d_w1. rewrite !newer_app. destruct g; cbn [win_add w_fg w_bg newer_than filter].
        - apply Z.ltb_lt in H0, H1. rewrite H0, H1, Hfg, Hbg. split; reflexivity.
        - rewrite !app_nil_r. split; assumption. }
      destruct Hw1 as (Hfg1 & Hbg1).
      assert (Hfedk : Forall (fun t => (t < Z.of_N (k + 1))%Z) (fed ++ (if g then [Z.of_N k] else []))).
      { apply Forall_app. split; [exact Hfed'|]. destruct g; repeat constructor. lia. }
      destruct sw.
      + cbn [win_switch w_fg w_bg nth].
        repeat split; auto.
        * constructor; [lia|exact Hhist'].
        * symmetry. apply newer_none. eapply Forall_impl; [|exact Hfedk]. cbn; intros; lia.
      + repeat split; auto.
    - replace (k <? g_final st) with false by (symmetry; apply N.ltb_ge; exact Hf).
      rewrite andb_false_r, app_nil_r.
      unfold gs_adapt. destruct (N.leb_spec (g_num_tune st) k); [lia|].
      destruct (N.ltb_spec k (g_final st)); [lia|]. cbn.
      repeat split; auto.
  Qed.

  Lemma exact_run nt fin goods : forall st hist fed k,
    exact_inv nt fin st hist fed k ->
    let '(st', hist') := run_sw nextw o st k goods hist in
    exact_inv nt fin st' hist' (fed ++ fed_from nt fin k goods) (k + N.of_nat (length goods)).
  Proof.
    induction goods as [|g gs IH]; intros st hist fed k Hinv; cbn [run_sw length fed_from].
    - rewrite app_nil_r. replace (k + N.of_nat 0) with k by lia. exact Hinv.
    - pose proof (exact_step nt fin st hist fed k g Hinv) as Hs.
      destruct (adapt st k g) as [st1 evs]. cbn [fst snd] in Hs.
      specialize (IH st1 _ _ (k + 1) Hs).
      destruct (run_sw nextw o st1 (k + 1) gs _) as [st2 h2].
      replace (k + N.of_nat (S (length gs))) with (k + 1 + N.of_nat (length gs)) by lia.
      rewrite app_assoc. exact IH.
  Qed.

  (* After any history of good / rejected draws the foreground estimator holds exactly the fed
     draws (initial point, then good draws before the final window, oldest first, each once)
     that are later than the switch before the last one; the background estimator exactly those
     later than the last switch. *)
  Lemma fg_is_exact st0 goods :
    let '(st, hist) := run_sw nextw o (gs_init st0) 0 goods [] in
    w_fg (g_win st) = newer_than (nth 1 hist (-2)%Z) (fed_tags st0 goods) /\
    w_bg (g_win st) = newer_than (nth 0 hist (-2)%Z) (fed_tags st0 goods).
  Proof.
    assert (Hinit : exact_inv (g_num_tune st0) (g_final st0) (gs_init st0) [] [init_tag] 0).
    { unfold exact_inv. cbn. repeat split; auto. repeat constructor. }
    pose proof (exact_run _ _ goods _ _ _ _ Hinit) as H.
    destruct (run_sw nextw o (gs_init st0) 0 goods []) as [st hist].
    destruct H as (_ & _ & _ & _ & Hfg & Hbg). split; assumption.
  Qed.

  (* the printed window of draw i is the foreground of the state reached after draws 0..i *)
  Lemma fg_windows_spec goods : forall st k hist i, (i < length goods)%nat ->
    nth i (fg_windows nextw o st k goods) [] =
    w_fg (g_win (fst (run_sw nextw o st k (firstn (S i) goods) hist))).
  Proof.
    induction goods as [|g gs IH]; intros st k hist i Hi; [cbn in Hi; lia|].
    cbn [fg_windows firstn run_sw].
    destruct (adapt st k g) as [st1 evs] eqn:E. cbn [fst].
    destruct i as [|i]; [reflexivity|].
    cbn [nth]. cbn in Hi. apply IH. lia.
  Qed.
End Exact.
