From Coq Require Import ZArith Bool List.
From Flocq Require Import IEEE754.BinarySingleNaN IEEE754.Binary IEEE754.Bits.
From NutsV Require Import lib.Fp model.Faults.

(* NaN and infinities always select the divergence branch, whatever the limit and the kind *)
Lemma div_pred_nonfinite micro e m : is_finite e = false -> div_pred micro e m = true.
Proof. intros H. unfold div_pred. rewrite H. apply orb_true_r. Qed.

Lemma div_pred_above e m : fgt e m = true -> div_pred false e m = true.
Proof. intros H. unfold div_pred. rewrite H. reflexivity. Qed.

Lemma div_pred_abs_above e m : fge (fabs e) m = true -> div_pred true e m = true.
Proof. intros H. unfold div_pred. rewrite H. reflexivity. Qed.

(* a finite error at or below the limit is not a divergence (Euclidean / ExactNormal) *)
Lemma div_pred_below e m : is_finite e = true -> fgt e m = false -> div_pred false e m = false.
Proof. intros H1 H2. unfold div_pred. rewrite H1, H2. reflexivity. Qed.

(* the coin of merge_into is flipped only with  other < self_size, never with a NaN operand
   ... i.e. when the comparison `other >= self_size` is false; if either is NaN the comparison is
   false too, so a NaN weight does reach random_bool: the tree builder must never produce one,
   which is what the divergence test guarantees (a state with non-finite energy is never merged) *)
Lemma flips_coin_spec other self_size :
  flips_coin other self_size = true <-> fge other self_size = false.
Proof. unfold flips_coin. destruct (fge other self_size); cbn; split; intros H; try discriminate H; reflexivity. Qed.

Lemma is_finite_nan_false : forall e : f64, is_nan e = true -> is_finite e = false.
Proof. intros e. destruct e; cbn; congruence. Qed.
