(* Consequences of detailed balance: stationarity of the target under the orbit-wise kernel,
   support of the transition, and the deterministic "mirror trajectory" property. *)
From Coq Require Import ZArith QArith List Bool Lia Lqa Setoid Morphisms.
From NutsV Require Import model.Tree proofs.Tree_facts proofs.Balance.
Import ListNotations.
Local Open Scope Z_scope.

(* ------------------------------------------------------------------------------------ *)
(* finite sums over a window of consecutive integers                                      *)
(* ------------------------------------------------------------------------------------ *)
(* zsum lo n g = g lo + g (lo+1) + ... + g (lo+n-1) *)
Fixpoint zsum (lo : Z) (n : nat) (g : Z -> Q) : Q :=
  match n with
  | O => 0%Q
  | S n' => (g lo + zsum (lo + 1) n' g)%Q
  end.

Lemma zsum_ext n : forall lo g h, (forall x, g x == h x)%Q -> (zsum lo n g == zsum lo n h)%Q.
Proof.
  induction n; intros lo g h E; cbn [zsum]; [reflexivity|].
  rewrite (E lo), (IHn (lo + 1) g h E). reflexivity.
Qed.

Lemma zsum_scale n : forall lo c g, (zsum lo n (fun x => c * g x) == c * zsum lo n g)%Q.
Proof.
  induction n; intros lo c g; cbn [zsum]; [ring|]. rewrite IHn. ring.
Qed.

Lemma zsum_ind_out n : forall lo s, (s < lo \/ lo + Z.of_nat n <= s) ->
  (zsum lo n (fun a => ind s a) == 0)%Q.
Proof.
  induction n; intros lo s Hs; cbn [zsum]; [reflexivity|].
  rewrite IHn by lia. unfold ind.
  destruct (s =? lo) eqn:E; [apply Z.eqb_eq in E; lia|ring].
Qed.

Lemma zsum_ind_in n : forall lo s, lo <= s < lo + Z.of_nat n ->
  (zsum lo n (fun a => ind s a) == 1)%Q.
Proof.
  induction n; intros lo s Hs; cbn [zsum]; [lia|].
  unfold ind at 1. destruct (s =? lo) eqn:E.
  - apply Z.eqb_eq in E. rewrite zsum_ind_out by lia. ring.
  - apply Z.eqb_neq in E. rewrite IHn by lia. ring.
Qed.

Lemma expect_zsum {A} (m : ptree A) n : forall lo (G : Z -> A -> Q),
  (zsum lo n (fun a => expect m (G a)) == expect m (fun r => zsum lo n (fun a => G a r)))%Q.
Proof.
  induction n; intros lo G; cbn [zsum].
  - rewrite Balance.expect_const. reflexivity.
  - rewrite IHn. rewrite <- Balance.expect_plus. reflexivity.
Qed.

(* extensionality restricted to the reachable outcomes *)
Lemma expect_ext_outcome {A} (m : ptree A) : forall (g h : A -> Q),
  (forall l x, outcome m l x -> g x == h x)%Q -> (expect m g == expect m h)%Q.
Proof.
  induction m as [a|i k IH|k IH|p k IH]; intros g h E; cbn [expect].
  - apply (E []). constructor.
  - apply IH. intros l x Hx. apply (E (i :: l)). constructor. exact Hx.
  - rewrite (IH true g h), (IH false g h); [reflexivity| |];
      intros l x Hx; apply (E l); econstructor; exact Hx.
  - rewrite (IH true g h), (IH false g h); [reflexivity| |];
      intros l x Hx; apply (E l); econstructor; exact Hx.
Qed.

(* ------------------------------------------------------------------------------------ *)
(* reachable selections                                                                   *)
(* ------------------------------------------------------------------------------------ *)
Lemma nofault_no_err wt turn o a ticks r :
  outcome (pdraw wt turn nofault nofault o a) ticks r -> d_div r = None /\ d_err r = None.
Proof.
  intros H. apply (T11_no_fault_no_flags _ _ _ _ _ _ _ _ H).
  intros i _. split; reflexivity.
Qed.

Lemma sel_distance wt turn md a ticks r :
  outcome (pdraw wt turn nofault nofault (std_opts md) a) ticks r ->
  Z.abs (d_sel r - a) <= 2 ^ Z.of_nat md - 1.
Proof.
  intros H. destruct (nofault_no_err _ _ _ _ _ _ H) as [_ He].
  pose proof (T1_distance _ _ _ _ _ _ _ _ H He) as Hd.
  pose proof (T2_depth wt turn nofault nofault (std_opts md) a ticks r eq_refl H He) as Hk.
  cbn [std_opts n_maxdepth] in Hk.
  assert (2 ^ Z.of_nat (d_depth r) <= 2 ^ Z.of_nat md)
    by (apply Z.pow_le_mono_r; lia).
  lia.
Qed.

(* ------------------------------------------------------------------------------------ *)
(* M3: support of the transition                                                          *)
(* ------------------------------------------------------------------------------------ *)
Theorem trans_prob_support :
  forall (wt : Z -> Q) (turn : Z -> Z -> bool) (maxdepth : nat) (a b : Z),
    2 ^ Z.of_nat maxdepth <= Z.abs (b - a) ->
    (trans_prob wt turn nofault nofault (std_opts maxdepth) a b == 0)%Q.
Proof.
  intros wt turn md a b Hab. unfold trans_prob.
  rewrite (expect_ext_outcome _ _ (fun _ => 0%Q)).
  - apply Balance.expect_const.
  - intros l r Hr. pose proof (sel_distance _ _ _ _ _ _ Hr) as Hd.
    destruct (d_sel r =? b) eqn:E; [|reflexivity].
    apply Z.eqb_eq in E. lia.
Qed.

(* ------------------------------------------------------------------------------------ *)
(* M2: stationarity                                                                       *)
(* ------------------------------------------------------------------------------------ *)
(* the transition out of b is a probability distribution on the window of radius 2^maxdepth - 1 *)
Theorem trans_prob_total :
  forall (wt : Z -> Q) (turn : Z -> Z -> bool) (maxdepth : nat) (b : Z),
    (zsum (b - 2 ^ Z.of_nat maxdepth + 1) (Z.to_nat (2 * 2 ^ Z.of_nat maxdepth - 1))
       (fun a => trans_prob wt turn nofault nofault (std_opts maxdepth) b a) == 1)%Q.
Proof.
  intros wt turn md b. unfold trans_prob.
  rewrite (expect_zsum _ _ _ (fun a r => if d_sel r =? a then 1%Q else 0%Q)).
  rewrite (expect_ext_outcome _ _ (fun _ => 1%Q)).
  - apply Balance.expect_const.
  - intros l r Hr. pose proof (sel_distance _ _ _ _ _ _ Hr) as Hd.
    assert (0 < 2 ^ Z.of_nat md) by (apply Z.pow_pos_nonneg; lia).
    apply (zsum_ind_in _ _ (d_sel r)). lia.
Qed.

Theorem stationary :
  forall (wt : Z -> Q) (turn : Z -> Z -> bool) (maxdepth : nat),
    (forall i, 0 < wt i)%Q ->
    forall b : Z,
      (zsum (b - 2 ^ Z.of_nat maxdepth + 1) (Z.to_nat (2 * 2 ^ Z.of_nat maxdepth - 1))
         (fun a => wt a * trans_prob wt turn nofault nofault (std_opts maxdepth) a b)
       == wt b)%Q.
Proof.
  intros wt turn md Hpos b.
  rewrite (zsum_ext _ _ _
             (fun a => wt b * trans_prob wt turn nofault nofault (std_opts md) b a)%Q)
    by (intros a; apply detailed_balance; exact Hpos).
  rewrite zsum_scale, trans_prob_total. ring.
Qed.

(* ------------------------------------------------------------------------------------ *)
(* M1: the tree shape is a function of the direction bits only                            *)
(* ------------------------------------------------------------------------------------ *)
(* outcomes together with the list of Dir choices made on the way; coins are arbitrary *)
Inductive douts {A} : ptree A -> list bool -> A -> Prop :=
| D_ret a : douts (Ret a) [] a
| D_tick i k l a : douts k l a -> douts (Tick i k) l a
| D_dir k b l a : douts (k b) l a -> douts (Dir k) (b :: l) a
| D_flip p k c l a : douts (k c) l a -> douts (Flip p k) l a.

Lemma douts_ret_inv A (a b : A) l : douts (Ret a) l b -> l = [] /\ b = a.
Proof. intros H; inversion H; subst; auto. Qed.
Lemma douts_tick_inv A i (k : ptree A) l b : douts (Tick i k) l b -> douts k l b.
Proof. intros H; inversion H; subst; auto. Qed.
Lemma douts_dir_inv A (k : bool -> ptree A) l b :
  douts (Dir k) l b -> exists c l', l = c :: l' /\ douts (k c) l' b.
Proof. intros H; inversion H; subst; eauto. Qed.
Lemma douts_flip_inv A p (k : bool -> ptree A) l b :
  douts (Flip p k) l b -> exists c, douts (k c) l b.
Proof. intros H; inversion H; subst; eauto. Qed.

Lemma douts_bind_inv A B (m : ptree A) (f : A -> ptree B) l b :
  douts (bind m f) l b ->
  exists a l1 l2, douts m l1 a /\ douts (f a) l2 b /\ l = l1 ++ l2.
Proof.
  revert l; induction m as [a|i k IH|k IH|p k IH]; intros l H; cbn [bind] in H.
  - exists a, [], l; repeat split; auto; constructor.
  - apply douts_tick_inv in H.
    destruct (IH _ H) as (a & l1 & l2 & H1 & H2 & ->).
    exists a, l1, l2; repeat split; auto; constructor; auto.
  - apply douts_dir_inv in H; destruct H as (c & l' & -> & H).
    destruct (IH c _ H) as (a & l1 & l2 & H1 & H2 & ->).
    exists a, (c :: l1), l2; repeat split; auto; econstructor; eauto.
  - apply douts_flip_inv in H; destruct H as (c & H).
    destruct (IH c _ H) as (a & l1 & l2 & H1 & H2 & ->).
    exists a, l1, l2; repeat split; auto; econstructor; eauto.
Qed.

Lemma douts_bind_intro A B (m : ptree A) (f : A -> ptree B) a l1 l2 b :
  douts m l1 a -> douts (f a) l2 b -> douts (bind m f) (l1 ++ l2) b.
Proof.
  intros H1 H2; induction H1; cbn [bind app]; auto.
  - constructor; auto.
  - econstructor; eauto.
  - econstructor; eauto.
Qed.

(* douts and Tree_facts.outcome describe the same reachable results *)
Lemma douts_outcome A (m : ptree A) ds a : douts m ds a -> exists l, outcome m l a.
Proof.
  induction 1.
  - exists []. constructor.
  - destruct IHdouts as [l' H']. exists (i :: l'). constructor; auto.
  - destruct IHdouts as [l' H']. exists l'. econstructor; eauto.
  - destruct IHdouts as [l' H']. exists l'. econstructor; eauto.
Qed.
Lemma outcome_douts A (m : ptree A) l a : outcome m l a -> exists ds, douts m ds a.
Proof.
  induction 1.
  - exists []. constructor.
  - destruct IHoutcome as [ds H']. exists ds. constructor; auto.
  - destruct IHoutcome as [ds H']. exists (b :: ds). econstructor; eauto.
  - destruct IHoutcome as [ds H']. exists ds. econstructor; eauto.
Qed.

(* every Dir node gives mass 1/2 to each direction, whatever happens below *)
Remark expect_Dir A (k : bool -> ptree A) (g : A -> Q) :
  expect (Dir k) g = ((1 # 2) * expect (k true) g + (1 # 2) * expect (k false) g)%Q.
Proof. reflexivity. Qed.

(* the shape of the trajectory as a function of the direction bits.  State of the loop: the
   block [lo, lo + 2^d - 1] at depth d, fuel f = maxdepth - d.  The direction list must be
   consumed exactly (None otherwise).  Result: (lo, depth, stopped_by_turn). *)
Fixpoint shape_loop (turn : Z -> Z -> bool) (f : nat) (lo : Z) (d : nat) (ds : list bool)
  : option (Z * nat * bool) :=
  match f with
  | O => match ds with [] => Some (lo, d, false) | _ => None end
  | S f' =>
      match ds with
      | [] => None
      | fwd :: ds' =>
          let loN := if fwd then lo + P2 d else lo - P2 d in
          let loP := if fwd then lo else lo - P2 d in
          if ok turn loN d
          then if turn3 turn loP d
               then match ds' with [] => Some (loP, S d, true) | _ => None end
               else shape_loop turn f' loP (S d) ds'
          else match ds' with [] => Some (lo, d, true) | _ => None end
      end
  end.

(* (lo, hi, depth, stopped_by_turn) *)
Definition dshape (turn : Z -> Z -> bool) (maxdepth : nat) (a : Z) (ds : list bool)
  : option (Z * Z * nat * bool) :=
  match shape_loop turn maxdepth a 0 ds with
  | Some (lo, d, fl) => Some (lo, lo + P2 d - 1, d, fl)
  | None => None
  end.

Section Shape.
  Variable wt : Z -> Q.
  Variable turn : Z -> Z -> bool.
  Notation sib := (sibling wt turn nofault nofault).
  Notation ext := (extend wt turn nofault nofault).

  Lemma merge_douts a b fwd ds m :
    douts (merge_into a b fwd) ds m -> ds = [] /\ exists tk, m = merged a b fwd tk.
  Proof.
    unfold merge_into. destruct (Qle_bool _ _); intros H.
    - apply douts_ret_inv in H. destruct H as [-> ->]. eauto.
    - apply douts_flip_inv in H. destruct H as [c H].
      apply douts_ret_inv in H. destruct H as [-> ->]. eauto.
  Qed.

  Lemma sib_douts_fwd j : forall i ds r, douts (sib j i true true) ds r ->
    ds = [] /\ (if ok turn i j then exists x w, r = SOk (mk i j x w false) else r = STurn).
  Proof.
    induction j; intros i ds r H.
    - cbn [sibling] in H. unfold nofault in H. apply douts_tick_inv in H.
      apply douts_ret_inv in H. destruct H as [-> ->]. split; auto.
      cbn [ok]. rewrite leaf_mk. eauto.
    - cbn [sibling] in H. apply douts_bind_inv in H.
      destruct H as (ra & d1 & d2 & H1 & H2 & ->).
      apply IHj in H1. destruct H1 as [-> H1]. cbn [ok app].
      destruct (ok turn i j); cbn [andb].
      + destruct H1 as (x & w & ->). cbn beta iota in H2.
        apply douts_bind_inv in H2. destruct H2 as (rb & d3 & d4 & H3 & H4 & ->).
        rewrite next_fwd in H3. apply IHj in H3. destruct H3 as [-> H3]. cbn [app].
        destruct (ok turn (i + P2 j) j); cbn [andb].
        * destruct H3 as (y & w2 & ->). cbn beta iota in H4.
          apply douts_bind_inv in H4. destruct H4 as (m & d5 & d6 & H5 & H6 & ->).
          apply merge_douts in H5. destruct H5 as [-> [tk ->]].
          apply douts_ret_inv in H6. destruct H6 as [-> ->]. split; auto.
          rewrite merged_fwd, turning_fwd. cbn [andb].
          destruct (turn3 turn i j); cbn [negb]; eauto.
        * subst rb. apply douts_ret_inv in H4. destruct H4 as [-> ->]. auto.
      + subst ra. apply douts_ret_inv in H2. destruct H2 as [-> ->]. auto.
  Qed.

  Lemma sib_douts_bwd j : forall lo i ds r, i = lo + P2 j - 1 ->
    douts (sib j i false true) ds r ->
    ds = [] /\ (if ok turn lo j then exists x w, r = SOk (mk lo j x w false) else r = STurn).
  Proof.
    induction j; intros lo i ds r Hi H.
    - assert (i = lo) as E0 by (assert (P2 0 = 1) by reflexivity; lia).
      clear Hi. subst i.
      cbn [sibling] in H. unfold nofault in H. apply douts_tick_inv in H.
      apply douts_ret_inv in H. destruct H as [-> ->]. split; auto.
      cbn [ok]. rewrite leaf_mk. eauto.
    - cbn [sibling] in H. apply douts_bind_inv in H.
      destruct H as (ra & d1 & d2 & H1 & H2 & ->).
      apply (IHj (lo + P2 j)) in H1; [|rewrite P2_S in Hi; lia].
      destruct H1 as [-> H1]. cbn [ok app].
      destruct (ok turn (lo + P2 j) j); [|rewrite andb_false_r].
      + destruct H1 as (x & w & ->). cbn beta iota in H2.
        apply douts_bind_inv in H2. destruct H2 as (rb & d3 & d4 & H3 & H4 & ->).
        rewrite next_bwd in H3. apply (IHj lo) in H3; [|reflexivity].
        destruct H3 as [-> H3]. cbn [app].
        destruct (ok turn lo j); cbn [andb].
        * destruct H3 as (y & w2 & ->). cbn beta iota in H4.
          apply douts_bind_inv in H4. destruct H4 as (m & d5 & d6 & H5 & H6 & ->).
          apply merge_douts in H5. destruct H5 as [-> [tk ->]].
          apply douts_ret_inv in H6. destruct H6 as [-> ->]. split; auto.
          rewrite merged_bwd, turning_bwd. cbn [andb].
          destruct (turn3 turn lo j); cbn [negb]; eauto.
        * subst rb. apply douts_ret_inv in H4. destruct H4 as [-> ->]. auto.
      + subst ra. apply douts_ret_inv in H2. destruct H2 as [-> ->]. cbn [andb]. auto.
  Qed.

  Lemma ext_douts_fwd lo d s w ds r :
    douts (ext (mk lo d s w true) true true) ds r ->
    ds = [] /\
    (if ok turn (lo + P2 d) d
     then exists x w', r = xw (turn3 turn lo d) (mk lo (S d) x w' true)
     else r = XTurn (mk lo d s w true)).
  Proof.
    intros H. unfold extend in H.
    change (t_depth (mk lo d s w true)) with d in H. rewrite next_fwd in H.
    apply douts_bind_inv in H. destruct H as (ra & d1 & d2 & H1 & H2 & ->).
    apply sib_douts_fwd in H1. destruct H1 as [-> H1]. cbn [app].
    destruct (ok turn (lo + P2 d) d).
    - destruct H1 as (x & wN & ->). cbn beta iota in H2.
      apply douts_bind_inv in H2. destruct H2 as (m & d5 & d6 & H5 & H6 & ->).
      apply merge_douts in H5. destruct H5 as [-> [tk ->]].
      apply douts_ret_inv in H6. destruct H6 as [-> ->]. split; auto.
      rewrite merged_fwd, turning_fwd. cbn [andb]. unfold xw.
      destruct (turn3 turn lo d); eauto.
    - subst ra. apply douts_ret_inv in H2. destruct H2 as [-> ->]. auto.
  Qed.

  Lemma ext_douts_bwd loN lo d s w ds r : lo = loN + P2 d ->
    douts (ext (mk lo d s w true) false true) ds r ->
    ds = [] /\
    (if ok turn loN d
     then exists x w', r = xw (turn3 turn loN d) (mk loN (S d) x w' true)
     else r = XTurn (mk lo d s w true)).
  Proof.
    intros -> H. unfold extend in H.
    change (t_depth (mk (loN + P2 d) d s w true)) with d in H. rewrite next_bwd in H.
    apply douts_bind_inv in H. destruct H as (ra & d1 & d2 & H1 & H2 & ->).
    apply (sib_douts_bwd d loN) in H1; [|reflexivity]. destruct H1 as [-> H1]. cbn [app].
    destruct (ok turn loN d).
    - destruct H1 as (x & wN & ->). cbn beta iota in H2.
      apply douts_bind_inv in H2. destruct H2 as (m & d5 & d6 & H5 & H6 & ->).
      apply merge_douts in H5. destruct H5 as [-> [tk ->]].
      apply douts_ret_inv in H6. destruct H6 as [-> ->]. split; auto.
      rewrite merged_bwd, turning_bwd. cbn [andb]. unfold xw.
      destruct (turn3 turn loN d); eauto.
    - subst ra. apply douts_ret_inv in H2. destruct H2 as [-> ->]. auto.
  Qed.

  Lemma loop_sound md : forall f lo d s w ds r,
    douts (draw_loop wt turn nofault nofault (std_opts md) f (mk lo d s w true)) ds r ->
    shape_loop turn f lo d ds = Some (d_lo r, d_depth r, negb (d_maxdepth r)) /\
    d_hi r = d_lo r + P2 (d_depth r) - 1.
  Proof.
    induction f; intros lo d s w ds r H.
    - cbn [draw_loop] in H. apply douts_ret_inv in H. destruct H as [-> ->].
      cbn. split; reflexivity.
    - cbn [draw_loop] in H. apply douts_dir_inv in H. destruct H as (fwd & ds' & -> & H).
      cbn [std_opts n_check n_mindepth n_extra andb Nat.leb] in H.
      change (t_depth (mk lo d s w true)) with d in H. cbn [Nat.leb] in H.
      apply douts_bind_inv in H. destruct H as (rx & d1 & d2 & H1 & H2 & ->).
      cbn [shape_loop]. destruct fwd.
      + apply ext_douts_fwd in H1. destruct H1 as [-> H1]. cbn [app].
        destruct (ok turn (lo + P2 d) d).
        * destruct H1 as (x & w' & ->). unfold xw in H2.
          destruct (turn3 turn lo d).
          -- cbn [extra_loop] in H2. apply douts_ret_inv in H2. destruct H2 as [-> ->].
             cbn. split; reflexivity.
          -- apply IHf in H2. exact H2.
        * subst rx. cbn [extra_loop] in H2. apply douts_ret_inv in H2.
          destruct H2 as [-> ->]. cbn. split; reflexivity.
      + apply (ext_douts_bwd (lo - P2 d)) in H1; [|lia]. destruct H1 as [-> H1]. cbn [app].
        destruct (ok turn (lo - P2 d) d).
        * destruct H1 as (x & w' & ->). unfold xw in H2.
          destruct (turn3 turn (lo - P2 d) d).
          -- cbn [extra_loop] in H2. apply douts_ret_inv in H2. destruct H2 as [-> ->].
             cbn. split; reflexivity.
          -- apply IHf in H2. exact H2.
        * subst rx. cbn [extra_loop] in H2. apply douts_ret_inv in H2.
          destruct H2 as [-> ->]. cbn. split; reflexivity.
  Qed.
End Shape.

(* M1(a): interval, depth and stop flag of every outcome are determined by the directions *)
Theorem shape_sound :
  forall (wt : Z -> Q) (turn : Z -> Z -> bool) (maxdepth : nat) (a : Z) (ds : list bool) (r : dres),
    douts (pdraw wt turn nofault nofault (std_opts maxdepth) a) ds r ->
    dshape turn maxdepth a ds = Some (d_lo r, d_hi r, d_depth r, negb (d_maxdepth r)).
Proof.
  intros wt turn md a ds r H. unfold pdraw in H. cbn [std_opts n_dim0 n_maxdepth] in H.
  rewrite root_mk in H. apply loop_sound in H. destruct H as [H1 H2].
  unfold dshape. rewrite H1, H2. reflexivity.
Qed.

(* ------------------------------------------------------------------------------------ *)
(* M1(b): the mirrored direction sequence                                                 *)
(* ------------------------------------------------------------------------------------ *)
(* the directions that grow {b} into the block [lo, lo + 2^d - 1] (lowest level first):
   at each level b's current block is the left half (then go forward) or the right half *)
Fixpoint path (lo : Z) (d : nat) (b : Z) : list bool :=
  match d with
  | O => []
  | S d' => if b <? lo + P2 d' then path lo d' b ++ [true] else path (lo + P2 d') d' b ++ [false]
  end.

Lemma path_length d : forall lo b, length (path lo d b) = d.
Proof.
  induction d; intros lo b; cbn [path]; [reflexivity|].
  destruct (b <? lo + P2 d); rewrite app_length, IHd; cbn; lia.
Qed.

(* directions from b that reproduce the shape reached from the loop state (lo, d) with ds:
   below the final block re-derived from b's offset; a doubling that stopped because the new
   half failed keeps its direction *)
Fixpoint mirror_loop (turn : Z -> Z -> bool) (f : nat) (lo : Z) (d : nat) (ds : list bool) (b : Z)
  : list bool :=
  match f, ds with
  | S f', fwd :: ds' =>
      let loN := if fwd then lo + P2 d else lo - P2 d in
      let loP := if fwd then lo else lo - P2 d in
      if ok turn loN d
      then if turn3 turn loP d then path loP (S d) b else mirror_loop turn f' loP (S d) ds' b
      else path lo d b ++ [fwd]
  | _, _ => path lo d b
  end.

Definition mirror (turn : Z -> Z -> bool) (maxdepth : nat) (a b : Z) (ds : list bool) : list bool :=
  mirror_loop turn maxdepth a 0 ds b.

Section Mirror.
  Variable turn : Z -> Z -> bool.

  Lemma shape_loop_path d : forall lo b f rest,
    inb lo d b -> ok turn lo d = true ->
    shape_loop turn (d + f) b 0 (path lo d b ++ rest) = shape_loop turn f lo d rest.
  Proof.
    induction d; intros lo b f rest Hi Hok.
    - unfold inb in Hi. assert (b = lo) as -> by (assert (P2 0 = 1) by reflexivity; lia).
      reflexivity.
    - cbn [path]. cbn [ok] in Hok.
      apply andb_true_iff in Hok. destruct Hok as [Hok Ht].
      apply andb_true_iff in Hok. destruct Hok as [HL HR].
      apply negb_true_iff in Ht.
      pose proof (P2_pos d) as Hp. unfold inb in Hi. rewrite P2_S in Hi.
      replace (S d + f)%nat with (d + S f)%nat by lia.
      destruct (b <? lo + P2 d) eqn:E.
      + apply Z.ltb_lt in E. rewrite <- app_assoc. cbn [app].
        rewrite IHd by (unfold inb; auto; lia).
        cbn [shape_loop]. rewrite HR, Ht. reflexivity.
      + apply Z.ltb_ge in E. rewrite <- app_assoc. cbn [app].
        rewrite IHd by (unfold inb; auto; lia).
        cbn [shape_loop]. replace (lo + P2 d - P2 d) with lo by lia.
        rewrite HL, Ht. reflexivity.
  Qed.

  Lemma mirror_loop_ok : forall f lo d ds lo' d' fl b,
    ok turn lo d = true ->
    shape_loop turn f lo d ds = Some (lo', d', fl) ->
    inb lo' d' b ->
    length (mirror_loop turn f lo d ds b) = (d + length ds)%nat /\
    shape_loop turn (d + f) b 0 (mirror_loop turn f lo d ds b) = Some (lo', d', fl).
  Proof.
    induction f; intros lo d ds lo' d' fl b Hok Hs Hb.
    - cbn [shape_loop] in Hs. destruct ds; [|discriminate]. inversion Hs; subst.
      cbn [mirror_loop length]. split; [rewrite path_length; lia|].
      rewrite <- (app_nil_r (path lo' d' b)), shape_loop_path by assumption. reflexivity.
    - destruct ds as [|fwd ds']; [discriminate|].
      cbn [shape_loop mirror_loop] in *.
      set (loN := if fwd then lo + P2 d else lo - P2 d) in *.
      set (loP := if fwd then lo else lo - P2 d) in *.
      pose proof (P2_pos d) as Hp.
      destruct (ok turn loN d) eqn:EN.
      + assert (ok turn loP d = true /\ ok turn (loP + P2 d) d = true) as [HL HR].
        { subst loN loP. destruct fwd; [auto|].
          replace (lo - P2 d + P2 d) with lo by lia. auto. }
        destruct (turn3 turn loP d) eqn:ET.
        * destruct ds'; [|discriminate]. inversion Hs; subst lo' d' fl. clear Hs.
          split; [rewrite path_length; cbn [length]; lia|].
          cbn [path]. unfold inb in Hb. rewrite P2_S in Hb.
          destruct (b <? loP + P2 d) eqn:E.
          -- apply Z.ltb_lt in E.
             rewrite shape_loop_path by (unfold inb; auto; lia).
             cbn [shape_loop]. rewrite HR, ET. reflexivity.
          -- apply Z.ltb_ge in E.
             rewrite shape_loop_path by (unfold inb; auto; lia).
             cbn [shape_loop]. replace (loP + P2 d - P2 d) with loP by lia.
             rewrite HL, ET. reflexivity.
        * assert (ok turn loP (S d) = true) as HokP.
          { cbn [ok]. rewrite HL, HR, ET. reflexivity. }
          destruct (IHf loP (S d) ds' lo' d' fl b HokP Hs Hb) as [I1 I2].
          split; [cbn [length]; lia|].
          replace (d + S f)%nat with (S d + f)%nat by lia. exact I2.
      + destruct ds'; [|discriminate]. inversion Hs; subst lo' d' fl. clear Hs.
        split; [rewrite app_length, path_length; cbn [length]; lia|].
        rewrite shape_loop_path by assumption.
        cbn [shape_loop]. fold loN. rewrite EN. reflexivity.
  Qed.
End Mirror.

Theorem trajectory_mirror :
  forall (turn : Z -> Z -> bool) (maxdepth : nat) (a : Z) (ds : list bool)
         (lo hi : Z) (depth : nat) (flag : bool),
    dshape turn maxdepth a ds = Some (lo, hi, depth, flag) ->
    forall b, lo <= b <= hi ->
      length (mirror turn maxdepth a b ds) = length ds /\
      dshape turn maxdepth b (mirror turn maxdepth a b ds) = Some (lo, hi, depth, flag).
Proof.
  intros turn md a ds lo hi depth flag H b Hb. unfold dshape in H.
  destruct (shape_loop turn md a 0 ds) as [[[lo' d'] fl]|] eqn:E; [|discriminate].
  inversion H; subst lo' d' fl. subst hi. clear H.
  destruct (mirror_loop_ok turn md a 0%nat ds lo depth flag b eq_refl E) as [I1 I2].
  { unfold inb. lia. }
  unfold mirror, dshape. cbn [Nat.add] in I2. rewrite I2. split; [exact I1|reflexivity].
Qed.

(* ------------------------------------------------------------------------------------ *)
(* completeness: every direction list accepted by dshape is realised by an outcome        *)
(* ------------------------------------------------------------------------------------ *)
Section Complete.
  Variable wt : Z -> Q.
  Variable turn : Z -> Z -> bool.
  Notation sib := (sibling wt turn nofault nofault).
  Notation ext := (extend wt turn nofault nofault).

  Lemma merge_douts_ex a b fwd : exists m, douts (merge_into a b fwd) [] m.
  Proof.
    unfold merge_into. destruct (Qle_bool _ _).
    - eexists. constructor.
    - eexists. apply (D_flip _ _ true). constructor.
  Qed.

  Lemma sib_douts_ex j : forall i fwd chk, exists r, douts (sib j i fwd chk) [] r.
  Proof.
    induction j; intros i fwd chk.
    - cbn [sibling]. unfold nofault. eexists. constructor. constructor.
    - cbn [sibling]. destruct (IHj i fwd chk) as [ra Ha].
      destruct ra as [ta| | |].
      2,3,4: eexists; apply (douts_bind_intro _ _ _ _ _ [] [] _ Ha); constructor.
      destruct (IHj (next_index ta fwd) fwd chk) as [rb Hb].
      destruct rb as [tb| | |].
      2,3,4: eexists; apply (douts_bind_intro _ _ _ _ _ [] [] _ Ha); cbn beta iota;
             apply (douts_bind_intro _ _ _ _ _ [] [] _ Hb); constructor.
      destruct (merge_douts_ex ta tb fwd) as [m Hm].
      eexists. apply (douts_bind_intro _ _ _ _ _ [] [] _ Ha). cbn beta iota.
      apply (douts_bind_intro _ _ _ _ _ [] [] _ Hb). cbn beta iota.
      apply (douts_bind_intro _ _ _ _ _ [] [] _ Hm). constructor.
  Qed.

  Lemma ext_douts_ex t fwd chk : exists r, douts (ext t fwd chk) [] r.
  Proof.
    unfold extend. destruct (sib_douts_ex (t_depth t) (next_index t fwd) fwd chk) as [ra Ha].
    destruct ra as [ta| | |].
    2,3,4: eexists; apply (douts_bind_intro _ _ _ _ _ [] [] _ Ha); constructor.
    destruct (merge_douts_ex t ta fwd) as [m Hm].
    eexists. apply (douts_bind_intro _ _ _ _ _ [] [] _ Ha). cbn beta iota.
    apply (douts_bind_intro _ _ _ _ _ [] [] _ Hm). constructor.
  Qed.

  Lemma loop_complete md : forall f lo d s w ds res,
    shape_loop turn f lo d ds = Some res ->
    exists r, douts (draw_loop wt turn nofault nofault (std_opts md) f (mk lo d s w true)) ds r.
  Proof.
    induction f; intros lo d s w ds res Hs.
    - cbn [shape_loop] in Hs. destruct ds; [|discriminate]. cbn [draw_loop].
      eexists. constructor.
    - destruct ds as [|fwd ds']; [discriminate|]. cbn [shape_loop] in Hs.
      cbn [draw_loop].
      cbn [std_opts n_check n_mindepth n_extra andb].
      change (t_depth (mk lo d s w true)) with d. cbn [Nat.leb].
      destruct (ext_douts_ex (mk lo d s w true) fwd true) as [rx Hx].
      destruct fwd.
      + destruct (ext_douts_fwd wt turn _ _ _ _ _ _ Hx) as [_ Hr].
        destruct (ok turn (lo + P2 d) d).
        * destruct Hr as (x & w' & ->). unfold xw in Hx.
          destruct (turn3 turn lo d).
          -- destruct ds'; [|discriminate].
             eexists. apply D_dir. apply (douts_bind_intro _ _ _ _ _ [] [] _ Hx).
             cbn [extra_loop]. constructor.
          -- destruct (IHf lo (S d) x w' ds' res Hs) as [r Hr].
             exists r. apply D_dir. apply (douts_bind_intro _ _ _ _ _ [] ds' _ Hx). exact Hr.
        * subst rx. destruct ds'; [|discriminate].
          eexists. apply D_dir. apply (douts_bind_intro _ _ _ _ _ [] [] _ Hx).
          cbn [extra_loop]. constructor.
      + destruct (ext_douts_bwd wt turn (lo - P2 d) lo d s w _ _ ltac:(lia) Hx) as [_ Hr].
        destruct (ok turn (lo - P2 d) d).
        * destruct Hr as (x & w' & ->). unfold xw in Hx.
          destruct (turn3 turn (lo - P2 d) d).
          -- destruct ds'; [|discriminate].
             eexists. apply D_dir. apply (douts_bind_intro _ _ _ _ _ [] [] _ Hx).
             cbn [extra_loop]. constructor.
          -- destruct (IHf (lo - P2 d) (S d) x w' ds' res Hs) as [r Hr].
             exists r. apply D_dir. apply (douts_bind_intro _ _ _ _ _ [] ds' _ Hx). exact Hr.
        * subst rx. destruct ds'; [|discriminate].
          eexists. apply D_dir. apply (douts_bind_intro _ _ _ _ _ [] [] _ Hx).
          cbn [extra_loop]. constructor.
  Qed.
End Complete.

Theorem shape_complete :
  forall (wt : Z -> Q) (turn : Z -> Z -> bool) (maxdepth : nat) (a : Z) (ds : list bool) res,
    dshape turn maxdepth a ds = Some res ->
    exists r, douts (pdraw wt turn nofault nofault (std_opts maxdepth) a) ds r.
Proof.
  intros wt turn md a ds res H. unfold dshape in H.
  destruct (shape_loop turn md a 0 ds) as [res'|] eqn:E; [|discriminate].
  unfold pdraw. cbn [std_opts n_dim0 n_maxdepth]. rewrite root_mk.
  eapply loop_complete. exact E.
Qed.

(* ------------------------------------------------------------------------------------ *)
(* the probability of a direction sequence is 2^-(its length), whatever the coins         *)
(* ------------------------------------------------------------------------------------ *)
(* expectation of g restricted to the runs whose Dir choices are exactly ds *)
Fixpoint expectD {A} (m : ptree A) (ds : list bool) (g : A -> Q) : Q :=
  match m with
  | Ret a => match ds with [] => g a | _ => 0%Q end
  | Tick _ k => expectD k ds g
  | Dir k => match ds with [] => 0%Q | b :: ds' => ((1 # 2) * expectD (k b) ds' g)%Q end
  | Flip p k => (p * expectD (k true) ds g + (1 - p) * expectD (k false) ds g)%Q
  end.

Fixpoint nodir {A} (m : ptree A) : Prop :=
  match m with
  | Ret _ => True
  | Tick _ k => nodir k
  | Dir _ => False
  | Flip _ k => forall b, nodir (k b)
  end.

Lemma nodir_bind {A B} (m : ptree A) (f : A -> ptree B) :
  nodir m -> (forall x, nodir (f x)) -> nodir (bind m f).
Proof.
  induction m as [a|i k IH|k IH|p k IH]; cbn [bind nodir]; intros Hm Hf; auto.
Qed.

Lemma expectD_bind_nodir {A B} (m : ptree A) (f : A -> ptree B) ds g :
  nodir m -> expectD (bind m f) ds g = expect m (fun x => expectD (f x) ds g).
Proof.
  induction m as [a|i k IH|k IH|p k IH]; cbn [bind nodir expectD expect]; intros Hm.
  - reflexivity.
  - apply IH, Hm.
  - contradiction.
  - rewrite (IH true (Hm true)), (IH false (Hm false)). reflexivity.
Qed.

Fixpoint halfpow (n : nat) : Q :=
  match n with O => 1%Q | S n' => ((1 # 2) * halfpow n')%Q end.

Section Mass.
  Variable wt : Z -> Q.
  Variable turn : Z -> Z -> bool.
  Hypothesis wt_pos : forall i, (0 < wt i)%Q.
  Notation sib := (sibling wt turn nofault nofault).
  Notation ext := (extend wt turn nofault nofault).

  Lemma nodir_merge a b fwd : nodir (merge_into a b fwd).
  Proof. unfold merge_into. destruct (Qle_bool _ _); cbn [nodir]; auto. Qed.

  Lemma nodir_sib j : forall i fwd chk, nodir (sib j i fwd chk).
  Proof.
    induction j; intros i fwd chk; cbn [sibling].
    - unfold nofault. cbn [nodir]. exact I.
    - apply nodir_bind; [apply IHj|]. intros [ta| | |]; cbn [nodir]; auto.
      apply nodir_bind; [apply IHj|]. intros [tb| | |]; cbn [nodir]; auto.
      apply nodir_bind; [apply nodir_merge|]. intros m. exact I.
  Qed.

  Lemma nodir_ext t fwd chk : nodir (ext t fwd chk).
  Proof.
    unfold extend. apply nodir_bind; [apply nodir_sib|].
    intros [ta| | |]; cbn [nodir]; auto.
    apply nodir_bind; [apply nodir_merge|]. intros m. exact I.
  Qed.

  Definition mass_of (r : option (Z * nat * bool)) (n : nat) : Q :=
    match r with Some _ => halfpow n | None => 0%Q end.

  Lemma loop_mass md : forall f lo d s w ds, (w == bw wt lo d)%Q ->
    (expectD (draw_loop wt turn nofault nofault (std_opts md) f (mk lo d s w true)) ds (fun _ => 1)
     == mass_of (shape_loop turn f lo d ds) (length ds))%Q.
  Proof.
    induction f; intros lo d s w ds Hw.
    - cbn [draw_loop expectD shape_loop]. destruct ds; reflexivity.
    - cbn [draw_loop expectD shape_loop]. destruct ds as [|fwd ds']; [reflexivity|].
      cbn [std_opts n_check n_mindepth n_extra andb].
      change (t_depth (mk lo d s w true)) with d. cbn [Nat.leb length].
      rewrite expectD_bind_nodir by apply nodir_ext.
      destruct fwd.
      + destruct (extend_fwd wt turn wt_pos lo d s w Hw) as [w1 [H1 E1]]. rewrite E1.
        destruct (ok turn (lo + P2 d) d).
        * destruct (turn3 turn lo d); cbn [xw extra_loop expectD].
          -- rewrite avg_const by exact wt_pos. destruct ds'; cbn [mass_of halfpow length]; ring.
          -- rewrite (avg_ext wt _ _ _ (fun _ => mass_of (shape_loop turn f lo (S d) ds') (length ds')))
               by (intros x; apply IHf; exact H1).
             rewrite avg_const by exact wt_pos. rewrite (IHf _ _ _ _ _ H1).
             destruct (shape_loop turn f lo (S d) ds'); cbn [mass_of halfpow]; ring.
        * cbn [extra_loop expectD]. destruct ds'; cbn [mass_of halfpow length]; ring.
      + assert (lo = lo - P2 d + P2 d) as El by lia.
        assert (w == bw wt (lo - P2 d + P2 d) d)%Q as Hw' by (rewrite <- El; exact Hw).
        destruct (extend_bwd wt turn wt_pos (lo - P2 d) d s w Hw') as [w1 [H1 E1]].
        rewrite <- El in E1. rewrite E1.
        destruct (ok turn (lo - P2 d) d).
        * destruct (turn3 turn (lo - P2 d) d); cbn [xw extra_loop expectD].
          -- rewrite avg_const by exact wt_pos. destruct ds'; cbn [mass_of halfpow length]; ring.
          -- rewrite (avg_ext wt _ _ _
                        (fun _ => mass_of (shape_loop turn f (lo - P2 d) (S d) ds') (length ds')))
               by (intros x; apply IHf; exact H1).
             rewrite avg_const by exact wt_pos. rewrite (IHf _ _ _ _ _ H1).
             destruct (shape_loop turn f (lo - P2 d) (S d) ds'); cbn [mass_of halfpow]; ring.
        * cbn [extra_loop expectD]. destruct ds'; cbn [mass_of halfpow length]; ring.
  Qed.
End Mass.

(* the total mass of the runs of pdraw whose direction choices are exactly ds *)
Theorem dir_mass :
  forall (wt : Z -> Q) (turn : Z -> Z -> bool) (maxdepth : nat),
    (forall i, 0 < wt i)%Q ->
    forall (a : Z) (ds : list bool),
      (expectD (pdraw wt turn nofault nofault (std_opts maxdepth) a) ds (fun _ => 1)
       == match dshape turn maxdepth a ds with
          | Some _ => halfpow (length ds)
          | None => 0
          end)%Q.
Proof.
  intros wt turn md Hpos a ds. unfold pdraw. cbn [std_opts n_dim0 n_maxdepth].
  rewrite root_mk. rewrite (loop_mass wt turn Hpos md md a 0%nat a (wt a) ds) by reflexivity.
  unfold dshape, mass_of.
  destruct (shape_loop turn md a 0 ds) as [[[lo' d'] fl]|]; reflexivity.
Qed.

(* hence a direction sequence and its mirror image have the same probability *)
Corollary mirror_mass :
  forall (wt : Z -> Q) (turn : Z -> Z -> bool) (maxdepth : nat),
    (forall i, 0 < wt i)%Q ->
    forall (a : Z) (ds : list bool) lo hi depth flag,
      dshape turn maxdepth a ds = Some (lo, hi, depth, flag) ->
      forall b, lo <= b <= hi ->
        (expectD (pdraw wt turn nofault nofault (std_opts maxdepth) b)
                 (mirror turn maxdepth a b ds) (fun _ => 1)
         == expectD (pdraw wt turn nofault nofault (std_opts maxdepth) a) ds (fun _ => 1))%Q.
Proof.
  intros wt turn md Hpos a ds lo hi depth flag H b Hb.
  destruct (trajectory_mirror turn md a ds lo hi depth flag H b Hb) as [I1 I2].
  rewrite !dir_mass by exact Hpos. rewrite H, I2, I1. reflexivity.
Qed.

Print Assumptions stationary.
Print Assumptions trans_prob_total.
Print Assumptions trans_prob_support.
(* ------------------------------------------------------------------------------------ *)
(* mirror rebuild: from any state s of the final block, the bit-wise mirrored directions   *)
(* (model.Tree.mirror_dirs) with maxdepth = depth re-create the block; the rebuild stops   *)
(* for a U-turn iff the block itself turns                                                 *)
(* ------------------------------------------------------------------------------------ *)
Lemma P2_pow d : P2 d = 2 ^ Z.of_nat d.
Proof.
  induction d; [reflexivity|]. rewrite P2_S, IHd, Nat2Z.inj_succ, Z.pow_succ_r by lia. reflexivity.
Qed.

Lemma mirror_dirs_path d : forall lo s, inb lo d s -> mirror_dirs lo d s = path lo d s.
Proof.
  induction d; intros lo s Hi; [reflexivity|].
  unfold mirror_dirs. rewrite seq_S, map_app. cbn [map path Nat.add].
  unfold inb in Hi. rewrite P2_S in Hi. pose proof (P2_pos d) as Hp.
  destruct (s <? lo + P2 d) eqn:E.
  - apply Z.ltb_lt in E. f_equal.
    + apply (IHd lo s). unfold inb. lia.
    + rewrite <- P2_pow, Z.div_small by lia. reflexivity.
  - apply Z.ltb_ge in E. f_equal.
    + rewrite <- (IHd (lo + P2 d) s) by (unfold inb; lia).
      unfold mirror_dirs. apply map_ext_in. intros j Hj. apply in_seq in Hj.
      replace (s - lo) with ((s - (lo + P2 d)) + 2 ^ Z.of_nat (d - j) * 2 ^ Z.of_nat j).
      * rewrite Z.div_add by (apply Z.pow_nonzero; lia).
        rewrite Z.even_add, (Z.even_pow 2) by lia. cbn [Z.even].
        destruct (Z.even _); reflexivity.
      * rewrite <- Z.pow_add_r by lia. replace (Z.of_nat (d - j) + Z.of_nat j) with (Z.of_nat d) by lia.
        rewrite <- P2_pow. lia.
    + replace (s - lo) with ((s - lo - P2 d) + 1 * 2 ^ Z.of_nat d) by (rewrite <- P2_pow; lia).
      rewrite Z.div_add by (apply Z.pow_nonzero; lia).
      rewrite <- P2_pow, Z.div_small by lia. reflexivity.
Qed.

Definition halves_ok (turn : Z -> Z -> bool) (lo : Z) (d : nat) : Prop :=
  match d with O => True | S j => ok turn lo j = true /\ ok turn (lo + P2 j) j = true end.
Definition top_turn (turn : Z -> Z -> bool) (lo : Z) (d : nat) : bool :=
  match d with O => false | S j => turn3 turn lo j end.

Lemma ok_halves turn lo d : ok turn lo d = true -> halves_ok turn lo d.
Proof.
  destruct d; cbn [ok halves_ok]; auto. intros H.
  apply andb_true_iff in H. destruct H as [H _]. apply andb_true_iff in H. exact H.
Qed.

Lemma shape_loop_halves turn : forall f lo d ds lo' d' fl,
  ok turn lo d = true -> shape_loop turn f lo d ds = Some (lo', d', fl) -> halves_ok turn lo' d'.
Proof.
  induction f; intros lo d ds lo' d' fl Hok Hs.
  - cbn [shape_loop] in Hs. destruct ds; [|discriminate]. inversion Hs; subst. apply ok_halves; auto.
  - destruct ds as [|fwd ds']; [discriminate|]. cbn [shape_loop] in Hs.
    set (loN := if fwd then lo + P2 d else lo - P2 d) in *.
    set (loP := if fwd then lo else lo - P2 d) in *.
    destruct (ok turn loN d) eqn:EN.
    + assert (ok turn loP d = true /\ ok turn (loP + P2 d) d = true) as [HL HR].
      { subst loN loP. destruct fwd; [auto|].
        replace (lo - P2 d + P2 d) with lo by lia. auto. }
      destruct (turn3 turn loP d) eqn:ET.
      * destruct ds'; [|discriminate]. inversion Hs; subst. cbn [halves_ok]. auto.
      * apply (IHf loP (S d) ds' lo' d' fl); auto. cbn [ok]. rewrite HL, HR, ET. reflexivity.
    + destruct ds'; [|discriminate]. inversion Hs; subst. apply ok_halves; auto.
Qed.

Lemma rebuild_from_path turn d : forall lo b,
  halves_ok turn lo d -> inb lo d b ->
  shape_loop turn d b 0 (path lo d b) = Some (lo, d, top_turn turn lo d).
Proof.
  destruct d as [|j]; intros lo b Hh Hi.
  - unfold inb in Hi. assert (b = lo) as -> by (assert (P2 0 = 1) by reflexivity; lia). reflexivity.
  - cbn [halves_ok] in Hh. destruct Hh as [HL HR]. cbn [path top_turn].
    unfold inb in Hi. rewrite P2_S in Hi. pose proof (P2_pos j) as Hp.
    replace (S j) with (j + 1)%nat at 1 by lia.
    destruct (b <? lo + P2 j) eqn:E.
    + apply Z.ltb_lt in E. rewrite shape_loop_path by (unfold inb; auto; lia).
      cbn [shape_loop]. rewrite HR. destruct (turn3 turn lo j); reflexivity.
    + apply Z.ltb_ge in E. rewrite shape_loop_path by (unfold inb; auto; lia).
      cbn [shape_loop]. replace (lo + P2 j - P2 j) with lo by lia.
      rewrite HL. destruct (turn3 turn lo j); reflexivity.
Qed.

Lemma ok_top_turn turn lo d : ok turn lo d = true -> top_turn turn lo d = false.
Proof.
  destruct d; cbn [ok top_turn]; auto. intros H.
  apply andb_true_iff in H. destruct H as [_ H]. apply negb_true_iff in H. exact H.
Qed.

Lemma shape_loop_noturn turn : forall f lo d ds lo' d',
  ok turn lo d = true -> shape_loop turn f lo d ds = Some (lo', d', false) -> top_turn turn lo' d' = false.
Proof.
  induction f; intros lo d ds lo' d' Hok Hs.
  - cbn [shape_loop] in Hs. destruct ds; [|discriminate]. inversion Hs; subst. apply ok_top_turn; auto.
  - destruct ds as [|fwd ds']; [discriminate|]. cbn [shape_loop] in Hs.
    set (loN := if fwd then lo + P2 d else lo - P2 d) in *.
    set (loP := if fwd then lo else lo - P2 d) in *.
    destruct (ok turn loN d) eqn:EN.
    + assert (ok turn loP d = true /\ ok turn (loP + P2 d) d = true) as [HL HR].
      { subst loN loP. destruct fwd; [auto|].
        replace (lo - P2 d + P2 d) with lo by lia. auto. }
      destruct (turn3 turn loP d) eqn:ET.
      * destruct ds'; discriminate.
      * apply (IHf loP (S d) ds' lo' d'); auto. cbn [ok]. rewrite HL, HR, ET. reflexivity.
    + destruct ds'; discriminate.
Qed.

Theorem mirror_rebuild :
  forall (turn : Z -> Z -> bool) (maxdepth : nat) (a : Z) (ds : list bool)
         (lo hi : Z) (depth : nat) (flag : bool),
    dshape turn maxdepth a ds = Some (lo, hi, depth, flag) ->
    forall s, lo <= s <= hi ->
      mirror_dirs lo depth s = path lo depth s /\
      length (mirror_dirs lo depth s) = depth /\
      dshape turn depth s (mirror_dirs lo depth s) = Some (lo, hi, depth, top_turn turn lo depth) /\
      (flag = false -> top_turn turn lo depth = false).
Proof.
  intros turn md a ds lo hi depth flag H s Hs. unfold dshape in H.
  destruct (shape_loop turn md a 0 ds) as [[[lo' d'] fl]|] eqn:E; [|discriminate].
  inversion H; subst lo' d' fl. subst hi. clear H.
  assert (inb lo depth s) as Hi by (unfold inb; lia).
  pose proof (shape_loop_halves turn md a 0%nat ds lo depth flag eq_refl E) as Hh.
  rewrite (mirror_dirs_path depth lo s Hi). split; [reflexivity|]. split; [apply path_length|].
  split; [unfold dshape; rewrite (rebuild_from_path turn depth lo s Hh Hi); reflexivity|].
  intros ->. exact (shape_loop_noturn turn md a 0%nat ds lo depth eq_refl E).
Qed.

Print Assumptions shape_sound.
Print Assumptions mirror_rebuild.
Print Assumptions shape_complete.
Print Assumptions trajectory_mirror.
Print Assumptions dir_mass.
Print Assumptions mirror_mass.
