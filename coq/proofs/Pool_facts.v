(* Safety of the reference-counted state pool model (model/Pool.v).
   inv: the strong count of every cell is the number of live handles of that cell, and the free
   list holds exactly the cells with no live handle.  Consequences: no premature recycling, a
   fresh handle is the unique owner, try_point_mut succeeds iff unique, a successful write is
   invisible through every other handle. *)
From Coq Require Import List Arith Bool Lia.
From NutsV Require Import model.Pool.
Import ListNotations.

(* ---------- list helpers: set_nth ---------- *)

Lemma set_nth_length : forall A (l : list A) i x, length (set_nth l i x) = length l.
Proof. induction l; intros [|i] x; simpl; auto. Qed.

Lemma nth_set_nth_eq : forall A (l : list A) i x d, i < length l -> nth i (set_nth l i x) d = x.
Proof.
  induction l; intros [|i] x d H; simpl in *; try lia; auto. apply IHl; lia.
Qed.

Lemma nth_set_nth_neq : forall A (l : list A) i j x d, i <> j -> nth j (set_nth l i x) d = nth j l d.
Proof.
  induction l; intros [|i] [|j] x d H; simpl; try lia; auto.
Qed.

Lemma nth_error_set_nth_eq : forall A (l : list A) i x,
  i < length l -> nth_error (set_nth l i x) i = Some x.
Proof.
  induction l; intros [|i] x H; simpl in *; try lia; auto. apply IHl; lia.
Qed.

Lemma nth_error_set_nth_neq : forall A (l : list A) i j x,
  i <> j -> nth_error (set_nth l i x) j = nth_error l j.
Proof.
  induction l; intros [|i] [|j] x H; simpl; try lia; auto.
Qed.

Lemma nth_error_snoc_last : forall A (l : list A) x, nth_error (l ++ [x]) (length l) = Some x.
Proof. induction l; simpl; auto. Qed.

Lemma nth_error_snoc_old : forall A (l : list A) x i,
  i < length l -> nth_error (l ++ [x]) i = nth_error l i.
Proof. intros. apply nth_error_app1; auto. Qed.

Lemma nth_error_snoc_inv : forall A (l : list A) x i y,
  nth_error (l ++ [x]) i = Some y ->
  (i < length l /\ nth_error l i = Some y) \/ (i = length l /\ y = x).
Proof.
  intros A l x i y H.
  destruct (lt_dec i (length l)) as [Hlt|Hge].
  - left. split; auto. rewrite nth_error_app1 in H; auto.
  - right. rewrite nth_error_app2 in H by lia.
    destruct (i - length l) as [|k] eqn:E.
    + simpl in H. inversion H. split; auto. lia.
    + simpl in H. destruct k; discriminate.
Qed.

Lemma nth_snoc_last : forall A (l : list A) x d, nth (length l) (l ++ [x]) d = x.
Proof. intros. rewrite app_nth2 by lia. rewrite Nat.sub_diag. reflexivity. Qed.

Lemma nth_snoc_old : forall A (l : list A) x d i, i < length l -> nth i (l ++ [x]) d = nth i l d.
Proof. intros. apply app_nth1; auto. Qed.

(* ---------- counting live handles of a cell ---------- *)

Definition oeq : forall x y : option nat, {x = y} + {x <> y}.
Proof. decide equality; apply Nat.eq_dec. Defined.

(* number of handles equal to [Some c] *)
Definition live (l : list (option nat)) (c : nat) : nat := count_occ oeq l (Some c).

Lemma live_nil : forall c, live [] c = 0.
Proof. reflexivity. Qed.

Lemma live_cons_same : forall l c, live (Some c :: l) c = S (live l c).
Proof. intros. unfold live. apply count_occ_cons_eq. reflexivity. Qed.

Lemma live_cons_other : forall l a c, a <> Some c -> live (a :: l) c = live l c.
Proof. intros. unfold live. apply count_occ_cons_neq. auto. Qed.

Lemma live_snoc : forall l c d, live (l ++ [Some c]) d = live l d + (if c =? d then 1 else 0).
Proof.
  intros. unfold live. rewrite count_occ_app. f_equal.
  destruct (Nat.eqb_spec c d).
  - subst. rewrite count_occ_cons_eq by reflexivity. reflexivity.
  - rewrite count_occ_cons_neq by congruence. reflexivity.
Qed.

Lemma live_set_nth_None : forall l h c d,
  nth_error l h = Some (Some c) ->
  live l d = live (set_nth l h None) d + (if c =? d then 1 else 0).
Proof.
  induction l as [|a l IH]; intros [|h] c d H; simpl in H; try discriminate.
  - inversion H; subst a. simpl set_nth.
    rewrite (live_cons_other l None d) by discriminate.
    destruct (Nat.eqb_spec c d).
    + subst. rewrite live_cons_same. lia.
    + rewrite live_cons_other by congruence. lia.
  - simpl set_nth. destruct (oeq a (Some d)) as [E|E].
    + subst a. rewrite !live_cons_same. rewrite (IH h c d H). lia.
    + rewrite !live_cons_other by auto. apply IH; auto.
Qed.

Lemma live_zero_iff : forall l c,
  live l c = 0 <-> (forall h, nth_error l h <> Some (Some c)).
Proof.
  intros. unfold live. rewrite <- count_occ_not_In. split.
  - intros H h E. apply H. eapply nth_error_In; eauto.
  - intros H HIn. apply In_nth_error in HIn. destruct HIn as [h E]. exact (H h E).
Qed.

Lemma live_pos : forall l h c, nth_error l h = Some (Some c) -> 1 <= live l c.
Proof.
  intros. rewrite (live_set_nth_None l h c c H). rewrite Nat.eqb_refl. lia.
Qed.

Lemma nth_error_lt : forall A (l : list A) i x, nth_error l i = Some x -> i < length l.
Proof. intros. apply nth_error_Some. congruence. Qed.

Lemma live_one_iff : forall l h c,
  nth_error l h = Some (Some c) ->
  (live l c = 1 <-> forall h', h' <> h -> nth_error l h' <> Some (Some c)).
Proof.
  intros l h c H.
  rewrite (live_set_nth_None l h c c H). rewrite Nat.eqb_refl.
  assert (Hlt : h < length l) by (eapply nth_error_lt; eauto).
  split.
  - intros E h' Hne.
    assert (Z : live (set_nth l h None) c = 0) by lia.
    rewrite live_zero_iff in Z. specialize (Z h').
    rewrite nth_error_set_nth_neq in Z by auto. exact Z.
  - intros U.
    assert (Z : live (set_nth l h None) c = 0).
    { apply live_zero_iff. intros h'. destruct (Nat.eq_dec h' h).
      - subst. rewrite nth_error_set_nth_eq by auto. discriminate.
      - rewrite nth_error_set_nth_neq by auto. apply U; auto. }
    lia.
Qed.

(* ---------- the invariant ---------- *)

Lemma cell_of_iff : forall p h c,
  cell_of p h = Some c <-> nth_error (p_handles p) h = Some (Some c).
Proof.
  intros. unfold cell_of. destruct (nth_error (p_handles p) h) as [[d|]|]; split; intros E;
    try discriminate; congruence.
Qed.

Record inv (p : pool) : Prop := {
  (* (a) *)
  inv_len : length (p_counts p) = length (p_vals p);
  (* (b) every live handle points to an existing cell *)
  inv_bound : forall h c, cell_of p h = Some c -> c < length (p_counts p);
  (* (c) strong count = number of live handles of the cell *)
  inv_count : forall c, c < length (p_counts p) -> nth c (p_counts p) 0 = live (p_handles p) c;
  (* (d) free list = exactly the existing cells with no live handle, without repetition *)
  inv_nodup : NoDup (p_free p);
  inv_free_lt : forall c, In c (p_free p) -> c < length (p_counts p);
  inv_free_iff : forall c,
    In c (p_free p) <-> c < length (p_counts p) /\ nth c (p_counts p) 0 = 0
}.

(* the count of the cell behind a live handle *)
Lemma inv_count_handle : forall p h c, inv p -> cell_of p h = Some c ->
  nth c (p_counts p) 0 = live (p_handles p) c /\ 1 <= live (p_handles p) c /\
  c < length (p_counts p).
Proof.
  intros p h c I H. pose proof (inv_bound p I h c H) as Hb.
  split; [apply inv_count; auto|]. split; auto.
  apply cell_of_iff in H. eapply live_pos; eauto.
Qed.

Theorem inv_empty : inv empty.
Proof.
  constructor; simpl; auto.
  - intros h c. unfold cell_of. simpl. destruct h; discriminate.
  - intros c H. lia.
  - constructor.
  - intros c [].
  - intros c. split; [intros []|]. intros [H _]. lia.
Qed.

(* ---------- P1: every operation preserves the invariant ---------- *)

Lemma inv_step_new : forall p, inv p -> inv (fst (step p ONew)).
Proof.
  intros p I. unfold step. destruct (p_free p) as [|c rest] eqn:F; simpl.
  - (* allocate a new cell *)
    assert (Hnone : forall h, nth_error (p_handles p) h <> Some (Some (length (p_counts p)))).
    { intros h E. apply cell_of_iff in E. apply (inv_bound p I) in E. lia. }
    constructor; simpl.
    + rewrite !app_length. simpl. rewrite (inv_len p I). reflexivity.
    + intros h c E. apply cell_of_iff in E. simpl in E.
      rewrite app_length; simpl.
      apply nth_error_snoc_inv in E. destruct E as [[_ E]|[_ E]].
      * apply cell_of_iff in E. apply (inv_bound p I) in E. lia.
      * inversion E. lia.
    + intros c Hc. rewrite app_length in Hc; simpl in Hc. rewrite live_snoc.
      destruct (Nat.eq_dec c (length (p_counts p))) as [->|Hne].
      * rewrite nth_snoc_last. rewrite Nat.eqb_refl.
        apply live_zero_iff in Hnone. lia.
      * rewrite nth_snoc_old by lia. rewrite (inv_count p I) by lia.
        destruct (Nat.eqb_spec (length (p_counts p)) c); [congruence|lia].
    + constructor.
    + intros c [].
    + intros c. split; [intros []|]. intros [Hc Hz]. rewrite app_length in Hc; simpl in Hc.
      destruct (Nat.eq_dec c (length (p_counts p))) as [->|Hne].
      * rewrite nth_snoc_last in Hz. discriminate.
      * rewrite nth_snoc_old in Hz by lia.
        assert (In c (p_free p)) by (apply (inv_free_iff p I); split; [lia|auto]).
        rewrite F in H. destruct H.
  - (* recycle the top of the free list *)
    assert (Hin : In c (p_free p)) by (rewrite F; left; reflexivity).
    pose proof (inv_free_lt p I c Hin) as Hc.
    pose proof (proj1 (inv_free_iff p I c) Hin) as [_ Hz].
    pose proof (inv_nodup p I) as ND. rewrite F in ND. inversion ND as [|? ? Hnotin ND']; subst.
    constructor; simpl.
    + rewrite set_nth_length. apply (inv_len p I).
    + intros h d E. rewrite set_nth_length. apply cell_of_iff in E. simpl in E.
      apply nth_error_snoc_inv in E. destruct E as [[_ E]|[_ E]].
      * apply cell_of_iff in E. apply (inv_bound p I) in E. lia.
      * inversion E. lia.
    + intros d Hd. rewrite set_nth_length in Hd. rewrite live_snoc.
      destruct (Nat.eq_dec c d) as [->|Hne].
      * rewrite nth_set_nth_eq by auto. rewrite Nat.eqb_refl.
        rewrite <- (inv_count p I) by auto. lia.
      * rewrite nth_set_nth_neq by auto. rewrite (inv_count p I) by lia.
        destruct (Nat.eqb_spec c d); [congruence|lia].
    + exact ND'.
    + intros d Hd. rewrite set_nth_length. apply (inv_free_lt p I). rewrite F. right; auto.
    + intros d. rewrite set_nth_length. destruct (Nat.eq_dec c d) as [->|Hne].
      * rewrite nth_set_nth_eq by auto. split; [intros; contradiction|intros [_ E]; discriminate].
      * rewrite nth_set_nth_neq by auto. rewrite <- (inv_free_iff p I d). rewrite F. simpl.
        split; [auto|]. intros [E|E]; [congruence|auto].
Qed.

Lemma inv_step_clone : forall p h, inv p -> inv (fst (step p (OClone h))).
Proof.
  intros p h I. unfold step. destruct (cell_of p h) as [c|] eqn:C; simpl; [|exact I].
  destruct (inv_count_handle p h c I C) as (Hn & Hpos & Hc).
  constructor; simpl.
  - rewrite set_nth_length. apply (inv_len p I).
  - intros h' d E. rewrite set_nth_length. apply cell_of_iff in E. simpl in E.
    apply nth_error_snoc_inv in E. destruct E as [[_ E]|[_ E]].
    + apply cell_of_iff in E. apply (inv_bound p I) in E. lia.
    + inversion E. lia.
  - intros d Hd. rewrite set_nth_length in Hd. rewrite live_snoc.
    destruct (Nat.eq_dec c d) as [<-|Hne].
    + rewrite nth_set_nth_eq by auto. rewrite Nat.eqb_refl. lia.
    + rewrite nth_set_nth_neq by auto. rewrite (inv_count p I) by lia.
      destruct (Nat.eqb_spec c d); [congruence|lia].
  - apply (inv_nodup p I).
  - intros d Hd. rewrite set_nth_length. apply (inv_free_lt p I); auto.
  - intros d. rewrite set_nth_length. destruct (Nat.eq_dec c d) as [<-|Hne].
    + rewrite nth_set_nth_eq by auto. rewrite (inv_free_iff p I c).
      split; [intros [_ E]; lia|intros [_ E]; discriminate].
    + rewrite nth_set_nth_neq by auto. apply (inv_free_iff p I d).
Qed.

Lemma inv_step_drop : forall p h, inv p -> inv (fst (step p (ODrop h))).
Proof.
  intros p h I. unfold step. destruct (cell_of p h) as [c|] eqn:C; simpl; [|exact I].
  destruct (inv_count_handle p h c I C) as (Hn & Hpos & Hc).
  pose proof (proj1 (cell_of_iff p h c) C) as Hh.
  assert (Hold : forall h' d, nth_error (set_nth (p_handles p) h None) h' = Some (Some d) ->
                              nth_error (p_handles p) h' = Some (Some d)).
  { intros h' d E. destruct (Nat.eq_dec h h') as [<-|Hne].
    - rewrite nth_error_set_nth_eq in E by (eapply nth_error_lt; eauto). discriminate.
    - rewrite nth_error_set_nth_neq in E by auto. exact E. }
  assert (Hnotfree : ~ In c (p_free p)).
  { intros Hin. apply (inv_free_iff p I) in Hin. lia. }
  constructor; simpl.
  - rewrite set_nth_length. apply (inv_len p I).
  - intros h' d E. rewrite set_nth_length. apply cell_of_iff in E. simpl in E.
    apply Hold in E. apply cell_of_iff in E. apply (inv_bound p I) in E. exact E.
  - intros d Hd. rewrite set_nth_length in Hd.
    pose proof (live_set_nth_None (p_handles p) h c d Hh) as L.
    destruct (Nat.eq_dec c d) as [<-|Hne].
    + rewrite nth_set_nth_eq by auto. rewrite Nat.eqb_refl in L. lia.
    + rewrite nth_set_nth_neq by auto. rewrite (inv_count p I) by lia.
      destruct (Nat.eqb_spec c d); [congruence|lia].
  - destruct (Nat.eqb_spec (nth c (p_counts p) 0) 1).
    + constructor; auto. apply (inv_nodup p I).
    + apply (inv_nodup p I).
  - intros d Hd. rewrite set_nth_length.
    destruct (Nat.eqb_spec (nth c (p_counts p) 0) 1).
    + destruct Hd as [<-|Hd]; auto. apply (inv_free_lt p I); auto.
    + apply (inv_free_lt p I); auto.
  - intros d. rewrite set_nth_length. destruct (Nat.eq_dec c d) as [<-|Hne].
    + rewrite nth_set_nth_eq by auto.
      destruct (Nat.eqb_spec (nth c (p_counts p) 0) 1) as [E1|E1].
      * split; [intros _; split; [auto|lia]|intros _; left; reflexivity].
      * split; [intros; contradiction|intros [_ E]; lia].
    + rewrite nth_set_nth_neq by auto. rewrite <- (inv_free_iff p I d).
      destruct (Nat.eqb_spec (nth c (p_counts p) 0) 1) as [E1|E1]; [|tauto].
      simpl. split; [intros [E|E]; [congruence|auto]|auto].
Qed.

Lemma inv_step_write : forall p h v, inv p -> inv (fst (step p (OWrite h v))).
Proof.
  intros p h v I. unfold step. destruct (cell_of p h) as [c|] eqn:C; simpl; [|exact I].
  destruct (nth c (p_counts p) 0 =? 1); simpl; [|exact I].
  constructor; simpl.
  - rewrite set_nth_length. apply (inv_len p I).
  - intros h' d E. apply (inv_bound p I h' d). exact E.
  - apply (inv_count p I).
  - apply (inv_nodup p I).
  - apply (inv_free_lt p I).
  - apply (inv_free_iff p I).
Qed.

Theorem inv_step : forall p o, inv p -> inv (fst (step p o)).
Proof.
  intros p [|h|h|h v] I.
  - apply inv_step_new; auto.
  - apply inv_step_clone; auto.
  - apply inv_step_drop; auto.
  - apply inv_step_write; auto.
Qed.

Lemma run_cons : forall p o rest,
  fst (run p (o :: rest)) = fst (run (fst (step p o)) rest).
Proof.
  intros. simpl. destruct (step p o) as [p1 r]. simpl.
  destruct (run p1 rest) as [p2 rs]. reflexivity.
Qed.

Theorem inv_run_from : forall ops p, inv p -> inv (fst (run p ops)).
Proof.
  induction ops as [|o rest IH]; intros p I.
  - exact I.
  - rewrite run_cons. apply IH. apply inv_step. exact I.
Qed.

Theorem inv_run : forall ops, inv (fst (run empty ops)).
Proof. intros. apply inv_run_from. apply inv_empty. Qed.

(* ---------- consequences ---------- *)

(* under inv, "strong count = 1" is "this handle is the only handle of the cell" *)
Lemma count_one_iff_unique : forall p h c, inv p -> cell_of p h = Some c ->
  (nth c (p_counts p) 0 = 1 <-> forall h', h' <> h -> cell_of p h' <> Some c).
Proof.
  intros p h c I C. destruct (inv_count_handle p h c I C) as (Hn & _ & _).
  rewrite Hn. apply cell_of_iff in C. rewrite (live_one_iff _ h c C).
  split; intros U h' Hne E; apply (U h' Hne); apply cell_of_iff; exact E.
Qed.

(* P2: a cell on the free list has no live handle (no premature recycling) *)
Theorem free_cell_has_no_handle : forall p c, inv p -> In c (p_free p) ->
  forall h, cell_of p h <> Some c.
Proof.
  intros p c I Hin h C. destruct (inv_count_handle p h c I C) as (Hn & Hpos & _).
  apply (inv_free_iff p I) in Hin. lia.
Qed.

(* outcome of a write in terms of the strong count *)
Lemma write_ok_iff_count : forall p h v c, cell_of p h = Some c ->
  (snd (step p (OWrite h v)) = ROk <-> nth c (p_counts p) 0 = 1).
Proof.
  intros p h v c C. unfold step. rewrite C.
  destruct (Nat.eqb_spec (nth c (p_counts p) 0) 1); simpl; split; intros; auto; try discriminate.
  contradiction.
Qed.

(* P4: try_point_mut succeeds exactly when the handle is the unique owner *)
Theorem write_succeeds_iff_unique : forall p h v c, inv p -> cell_of p h = Some c ->
  (snd (step p (OWrite h v)) = ROk <-> forall h', h' <> h -> cell_of p h' <> Some c).
Proof.
  intros p h v c I C. rewrite (write_ok_iff_count p h v c C).
  apply count_one_iff_unique; auto.
Qed.

Lemma write_ok_inv : forall p h v, snd (step p (OWrite h v)) = ROk ->
  exists c, cell_of p h = Some c /\ nth c (p_counts p) 0 = 1 /\
    fst (step p (OWrite h v)) =
      {| p_counts := p_counts p; p_vals := set_nth (p_vals p) c v; p_free := p_free p;
         p_handles := p_handles p |}.
Proof.
  intros p h v. unfold step. destruct (cell_of p h) as [c|] eqn:C; simpl; [|discriminate].
  destruct (Nat.eqb_spec (nth c (p_counts p) 0) 1); simpl; [|discriminate].
  intros _. exists c. auto.
Qed.

(* P5: a successful write through h is invisible through every other handle, and visible
   through h *)
Theorem write_no_alias : forall p h v, inv p -> snd (step p (OWrite h v)) = ROk ->
  forall h', h' <> h -> read (fst (step p (OWrite h v))) h' = read p h'.
Proof.
  intros p h v I Hok h' Hne.
  destruct (write_ok_inv p h v Hok) as (c & C & H1 & ->).
  pose proof (proj1 (count_one_iff_unique p h c I C) H1 h' Hne) as U.
  unfold read, cell_of in *. simpl.
  destruct (nth_error (p_handles p) h') as [[d|]|]; auto.
  apply nth_error_set_nth_neq. congruence.
Qed.

Theorem write_reads_back : forall p h v, inv p -> snd (step p (OWrite h v)) = ROk ->
  read (fst (step p (OWrite h v))) h = Some v.
Proof.
  intros p h v I Hok.
  destruct (write_ok_inv p h v Hok) as (c & C & H1 & ->).
  pose proof (inv_bound p I h c C) as Hb. rewrite (inv_len p I) in Hb.
  unfold read. unfold cell_of in *. simpl.
  destruct (nth_error (p_handles p) h) as [[d|]|]; try discriminate.
  inversion C; subst d. apply nth_error_set_nth_eq. exact Hb.
Qed.

(* the values of all cells other than the written one are unchanged as well (cell level) *)
Theorem write_other_cells : forall p h v c, cell_of p h = Some c ->
  forall d, d <> c -> nth_error (p_vals (fst (step p (OWrite h v)))) d = nth_error (p_vals p) d.
Proof.
  intros p h v c C d Hne. unfold step. rewrite C.
  destruct (nth c (p_counts p) 0 =? 1); simpl; auto.
  apply nth_error_set_nth_neq. congruence.
Qed.

(* P3: the handle returned by new_state is the only handle of its cell, hence writable *)
Theorem new_is_fresh : forall p p' h, inv p -> step p ONew = (p', RHandle h) ->
  exists c, cell_of p' h = Some c /\ (forall h', h' <> h -> cell_of p' h' <> Some c).
Proof.
  intros p p' h I S.
  assert (I' : inv p') by (change p' with (fst (p', RHandle h)); rewrite <- S; apply inv_step; auto).
  assert (exists c, cell_of p' h = Some c /\ nth c (p_counts p') 0 = 1) as (c & C & H1).
  { unfold step in S. destruct (p_free p) as [|c rest] eqn:F; inversion S; subst; clear S.
    - exists (length (p_counts p)). split.
      + apply cell_of_iff. simpl. apply nth_error_snoc_last.
      + simpl. apply nth_snoc_last.
    - exists c. split.
      + apply cell_of_iff. simpl. apply nth_error_snoc_last.
      + simpl. apply nth_set_nth_eq. apply (inv_free_lt p I). rewrite F. left; reflexivity. }
  exists c. split; auto. apply (count_one_iff_unique p' h c I' C). exact H1.
Qed.

Theorem new_then_write_ok : forall p p' h v, inv p -> step p ONew = (p', RHandle h) ->
  snd (step p' (OWrite h v)) = ROk /\ read (fst (step p' (OWrite h v))) h = Some v.
Proof.
  intros p p' h v I S.
  assert (I' : inv p') by (change p' with (fst (p', RHandle h)); rewrite <- S; apply inv_step; auto).
  destruct (new_is_fresh p p' h I S) as (c & C & U).
  assert (Hok : snd (step p' (OWrite h v)) = ROk)
    by (apply (write_succeeds_iff_unique p' h v c I' C); exact U).
  split; auto. apply write_reads_back; auto.
Qed.

(* ONew never fails and returns the next handle number *)
Theorem new_returns_next_handle : forall p, snd (step p ONew) = RHandle (length (p_handles p)).
Proof. intros. unfold step. destruct (p_free p); reflexivity. Qed.

(* P6: failing operations change nothing *)
Theorem failed_ops_change_nothing : forall p o,
  snd (step p o) = RInUse \/ snd (step p o) = RBad -> fst (step p o) = p.
Proof.
  intros p [|h|h|h v]; unfold step.
  - destruct (p_free p); simpl; intros [E|E]; discriminate.
  - destruct (cell_of p h); simpl; auto. intros [E|E]; discriminate.
  - destruct (cell_of p h); simpl; auto. intros [E|E]; discriminate.
  - destruct (cell_of p h); simpl; auto.
    destruct (nth n (p_counts p) 0 =? 1); simpl; auto. intros [E|E]; discriminate.
Qed.

(* P7: a clone shares the cell (and therefore the value) of the original *)
Theorem clone_shares : forall p p' h h2 c, inv p -> cell_of p h = Some c ->
  step p (OClone h) = (p', RHandle h2) ->
  cell_of p' h2 = Some c /\ read p' h2 = read p h /\ read p' h = read p h.
Proof.
  intros p p' h h2 c I C S. unfold step in S. rewrite C in S. inversion S; subst; clear S.
  pose proof (proj1 (cell_of_iff p h c) C) as Hh.
  assert (C2 : cell_of {| p_counts := set_nth (p_counts p) c (S (nth c (p_counts p) 0));
                          p_vals := p_vals p; p_free := p_free p;
                          p_handles := p_handles p ++ [Some c] |} (length (p_handles p)) = Some c).
  { apply cell_of_iff. simpl. apply nth_error_snoc_last. }
  assert (C1 : cell_of {| p_counts := set_nth (p_counts p) c (S (nth c (p_counts p) 0));
                          p_vals := p_vals p; p_free := p_free p;
                          p_handles := p_handles p ++ [Some c] |} h = Some c).
  { apply cell_of_iff. simpl. rewrite nth_error_snoc_old by (eapply nth_error_lt; eauto). exact Hh. }
  split; auto. unfold read. rewrite C2, C1, C. simpl. auto.
Qed.

(* after a clone neither handle can write: both get RInUse *)
Theorem clone_blocks_write : forall p p' h h2 c v, inv p -> cell_of p h = Some c ->
  step p (OClone h) = (p', RHandle h2) ->
  snd (step p' (OWrite h v)) = RInUse /\ snd (step p' (OWrite h2 v)) = RInUse.
Proof.
  intros p p' h h2 c v I C S.
  destruct (clone_shares p p' h h2 c I C S) as (C2 & _ & _).
  destruct (inv_count_handle p h c I C) as (Hn & Hpos & Hc).
  unfold step in S. rewrite C in S. inversion S; subst; clear S.
  assert (C1 : cell_of {| p_counts := set_nth (p_counts p) c (S (nth c (p_counts p) 0));
                          p_vals := p_vals p; p_free := p_free p;
                          p_handles := p_handles p ++ [Some c] |} h = Some c).
  { apply cell_of_iff. simpl. apply cell_of_iff in C.
    rewrite nth_error_snoc_old by (eapply nth_error_lt; eauto). exact C. }
  unfold step. rewrite C1, C2. simpl. rewrite nth_set_nth_eq by auto.
  destruct (Nat.eqb_spec (S (nth c (p_counts p) 0)) 1); [lia|]. auto.
Qed.

(* P8: drop recycles the cell exactly when the dropping handle was the only one *)
Theorem drop_recycles_iff_last : forall p h c, inv p -> cell_of p h = Some c ->
  (In c (p_free (fst (step p (ODrop h)))) <-> forall h', h' <> h -> cell_of p h' <> Some c).
Proof.
  intros p h c I C. rewrite <- (count_one_iff_unique p h c I C).
  destruct (inv_count_handle p h c I C) as (Hn & Hpos & Hc).
  unfold step. rewrite C. simpl.
  destruct (Nat.eqb_spec (nth c (p_counts p) 0) 1) as [E|E].
  - split; auto. intros _. left; reflexivity.
  - split; [|contradiction]. intros Hin. apply (inv_free_iff p I) in Hin. lia.
Qed.

(* the dropped handle is dead afterwards; the other handles keep their cell *)
Theorem drop_kills_handle : forall p h c, cell_of p h = Some c ->
  cell_of (fst (step p (ODrop h))) h = None /\
  forall h', h' <> h -> cell_of (fst (step p (ODrop h))) h' = cell_of p h'.
Proof.
  intros p h c C. unfold step. rewrite C. simpl. unfold cell_of in *. simpl. split.
  - rewrite nth_error_set_nth_eq; auto.
    apply nth_error_Some. destruct (nth_error (p_handles p) h); congruence.
  - intros h' Hne. rewrite nth_error_set_nth_neq by auto. reflexivity.
Qed.

(* whole-run corollaries from the empty pool *)
Corollary run_free_cells_unreferenced : forall ops c h,
  In c (p_free (fst (run empty ops))) -> cell_of (fst (run empty ops)) h <> Some c.
Proof. intros ops c h Hin. apply free_cell_has_no_handle; auto. apply inv_run. Qed.

Corollary run_write_no_alias : forall ops h v h',
  let p := fst (run empty ops) in
  snd (step p (OWrite h v)) = ROk -> h' <> h ->
  read (fst (step p (OWrite h v))) h' = read p h'.
Proof. intros ops h v h' p Hok Hne. apply write_no_alias; auto. apply inv_run. Qed.

(* sanity: the invariant components are not vacuous on a concrete run *)
Example run_example :
  run_codes [ONew; OClone 0; OWrite 0 7; ODrop 1; OWrite 0 7; ODrop 0; ONew; OWrite 2 9; OWrite 0 1]
  = ([10; 11; 1; 0; 0; 0; 12; 0; 2], [[]; [0]; [1]; [2; 0; 1; 9]]).
Proof. vm_compute. reflexivity. Qed.
