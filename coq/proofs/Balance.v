(* Detailed balance of the NUTS transition of model/Tree.v over a fixed orbit. *)
From Coq Require Import ZArith QArith List Bool Lia Lqa Setoid Morphisms.
From NutsV Require Import model.Tree.
Local Open Scope Z_scope.

Definition nofault : Z -> bool := fun _ => false.
Definition std_opts (maxdepth : nat) : nopts :=
  {| n_maxdepth := maxdepth; n_mindepth := 0; n_extra := 0; n_check := true; n_dim0 := false |}.

(* ------------------------------------------------------------------------------------ *)
(* (i) monad lemmas for expect                                                            *)
(* ------------------------------------------------------------------------------------ *)
Lemma expect_ext {A} (m : ptree A) :
  forall g h, (forall x, g x == h x)%Q -> (expect m g == expect m h)%Q.
Proof.
  induction m as [a|i k IH|k IH|p k IH]; intros g h E; cbn [expect].
  - apply E.
  - apply IH, E.
  - rewrite (IH true g h E), (IH false g h E). reflexivity.
  - rewrite (IH true g h E), (IH false g h E). reflexivity.
Qed.

Lemma expect_bind {A B} (m : ptree A) (f : A -> ptree B) (g : B -> Q) :
  expect (bind m f) g = expect m (fun x => expect (f x) g).
Proof.
  induction m as [a|i k IH|k IH|p k IH]; cbn [bind expect].
  - reflexivity.
  - apply IH.
  - rewrite (IH true), (IH false). reflexivity.
  - rewrite (IH true), (IH false). reflexivity.
Qed.

Lemma expect_const {A} (m : ptree A) (c : Q) : (expect m (fun _ => c) == c)%Q.
Proof.
  induction m as [a|i k IH|k IH|p k IH]; cbn [expect].
  - reflexivity.
  - apply IH.
  - rewrite (IH true), (IH false). ring.
  - rewrite (IH true), (IH false). ring.
Qed.

Lemma expect_lin {A} (m : ptree A) (c : Q) (g h : A -> Q) :
  (expect m (fun x => c * g x + h x) == c * expect m g + expect m h)%Q.
Proof.
  induction m as [a|i k IH|k IH|p k IH]; cbn [expect].
  - reflexivity.
  - apply IH.
  - rewrite (IH true), (IH false). ring.
  - rewrite (IH true), (IH false). ring.
Qed.

Lemma expect_scale {A} (m : ptree A) (c : Q) (g : A -> Q) :
  (expect m (fun x => c * g x) == c * expect m g)%Q.
Proof.
  rewrite (expect_ext m (fun x => c * g x)%Q (fun x => c * g x + 0)%Q).
  - rewrite expect_lin, expect_const. ring.
  - intros; ring.
Qed.

Lemma expect_plus {A} (m : ptree A) (g h : A -> Q) :
  (expect m (fun x => g x + h x) == expect m g + expect m h)%Q.
Proof.
  rewrite (expect_ext m (fun x => g x + h x)%Q (fun x => 1 * g x + h x)%Q).
  - rewrite expect_lin. ring.
  - intros; ring.
Qed.

(* ------------------------------------------------------------------------------------ *)
(* dyadic blocks                                                                          *)
(* ------------------------------------------------------------------------------------ *)
Fixpoint P2 (d : nat) : Z := match d with O => 1 | S d' => 2 * P2 d' end.
Lemma P2_pos d : 0 < P2 d.
Proof. induction d; cbn [P2]; lia. Qed.
Lemma P2_S d : P2 (S d) = 2 * P2 d.
Proof. reflexivity. Qed.
Global Opaque P2.

Definition ind (x b : Z) : Q := if x =? b then 1%Q else 0%Q.
Definition inb (lo : Z) (d : nat) (x : Z) : Prop := lo <= x < lo + P2 d.
Definition pacc (x y : Q) : Q := if Qle_bool x y then 1%Q else (y / x)%Q.
Definition gate (c : bool) (q : Q) : Q := if c then q else 0%Q.

Definition mk (lo : Z) (d : nat) (s : Z) (w : Q) (main : bool) : tree :=
  {| t_lo := lo; t_hi := lo + P2 d - 1; t_sel := s; t_w := w; t_depth := d; t_main := main |}.

Lemma Qle_bool_false (x y : Q) : (0 < x)%Q -> Qle_bool (x + y) y = false.
Proof.
  intros Hx. destruct (Qle_bool (x + y) y) eqn:E; auto.
  apply Qle_bool_iff in E. lra.
Qed.

Lemma pacc_sym (x y : Q) : (0 < x)%Q -> (0 < y)%Q -> (pacc x y / y == pacc y x / x)%Q.
Proof.
  intros Hx Hy. unfold pacc.
  destruct (Qle_bool x y) eqn:E1; destruct (Qle_bool y x) eqn:E2.
  - apply Qle_bool_iff in E1. apply Qle_bool_iff in E2.
    assert (x == y)%Q as -> by lra. reflexivity.
  - field. split; lra.
  - field. split; lra.
  - exfalso.
    assert (~ (x <= y)%Q) by (intro H; apply Qle_bool_iff in H; congruence).
    assert (~ (y <= x)%Q) by (intro H'; apply Qle_bool_iff in H'; congruence).
    lra.
Qed.

Section Bal.
  Variable wt : Z -> Q.
  Variable turn : Z -> Z -> bool.
  Hypothesis wt_pos : forall i, (0 < wt i)%Q.

  Fixpoint bw (lo : Z) (j : nat) : Q :=
    match j with
    | O => wt lo
    | S j' => (bw lo j' + bw (lo + P2 j') j')%Q
    end.

  Fixpoint avg (lo : Z) (j : nat) (g : Z -> Q) : Q :=
    match j with
    | O => g lo
    | S j' => ((bw lo j' * avg lo j' g + bw (lo + P2 j') j' * avg (lo + P2 j') j' g)
               / (bw lo j' + bw (lo + P2 j') j'))%Q
    end.

  Definition turn3 (lo : Z) (j : nat) : bool :=
    turn lo (lo + 2 * P2 j - 1) ||
    match j with
    | O => false
    | S _ => turn (lo + P2 j - 1) (lo + 2 * P2 j - 1) || turn lo (lo + P2 j)
    end.

  Fixpoint ok (lo : Z) (j : nat) : bool :=
    match j with
    | O => true
    | S j' => ok lo j' && ok (lo + P2 j') j' && negb (turn3 lo j')
    end.

  Lemma bw_pos lo j : (0 < bw lo j)%Q.
  Proof.
    revert lo; induction j; intros lo; cbn [bw].
    - apply wt_pos.
    - pose proof (IHj lo). pose proof (IHj (lo + P2 j)). lra.
  Qed.

  Lemma avg_ext lo j : forall g h, (forall x, g x == h x)%Q -> (avg lo j g == avg lo j h)%Q.
  Proof.
    revert lo; induction j; intros lo g h E; cbn [avg].
    - apply E.
    - rewrite (IHj lo g h E), (IHj (lo + P2 j) g h E). reflexivity.
  Qed.

  Lemma avg_affine lo j (c e : Q) (g : Z -> Q) :
    (avg lo j (fun x => c * g x + e) == c * avg lo j g + e)%Q.
  Proof.
    revert lo; induction j; intros lo; cbn [avg].
    - reflexivity.
    - rewrite (IHj lo), (IHj (lo + P2 j)).
      pose proof (bw_pos lo j). pose proof (bw_pos (lo + P2 j) j).
      field. lra.
  Qed.

  Lemma avg_const lo j (c : Q) : (avg lo j (fun _ => c) == c)%Q.
  Proof.
    revert lo; induction j; intros lo; cbn [avg].
    - reflexivity.
    - rewrite (IHj lo), (IHj (lo + P2 j)).
      pose proof (bw_pos lo j). pose proof (bw_pos (lo + P2 j) j).
      field. lra.
  Qed.

  (* progressive sampling mixes two block averages *)
  Lemma avg_mix la ja lb jb (p q : Q) (F H : Z -> Q) :
    (avg la ja (fun x => avg lb jb (fun y => p * F y + q * H x))
     == p * avg lb jb F + q * avg la ja H)%Q.
  Proof.
    rewrite (avg_ext la ja _ (fun x => q * H x + p * avg lb jb F)%Q).
    - rewrite avg_affine. ring.
    - intros x. rewrite avg_affine. ring.
  Qed.

  Lemma avg_ind_out lo j b : ~ inb lo j b -> (avg lo j (fun x => ind x b) == 0)%Q.
  Proof.
    revert lo; induction j; intros lo Hn; cbn [avg].
    - unfold ind. destruct (lo =? b) eqn:E; [|reflexivity].
      apply Z.eqb_eq in E. exfalso. apply Hn. unfold inb.
      pose proof (P2_pos 0). lia.
    - pose proof (P2_pos j).
      rewrite (IHj lo), (IHj (lo + P2 j)).
      + pose proof (bw_pos lo j). pose proof (bw_pos (lo + P2 j) j). field. lra.
      + intro Hi. apply Hn. unfold inb in *. rewrite P2_S. lia.
      + intro Hi. apply Hn. unfold inb in *. rewrite P2_S. lia.
  Qed.

  Lemma avg_ind_in lo j b : inb lo j b -> (avg lo j (fun x => ind x b) == wt b / bw lo j)%Q.
  Proof.
    revert lo; induction j; intros lo Hi; cbn [avg bw].
    - unfold inb in Hi. assert (lo = b) as ->.
      { assert (P2 0 = 1) by reflexivity. lia. }
      unfold ind. rewrite Z.eqb_refl. pose proof (wt_pos b). field. lra.
    - pose proof (P2_pos j). unfold inb in Hi. rewrite P2_S in Hi.
      pose proof (bw_pos lo j). pose proof (bw_pos (lo + P2 j) j).
      destruct (Z_lt_le_dec b (lo + P2 j)) as [Hl|Hr].
      + rewrite (IHj lo) by (unfold inb; lia).
        rewrite (avg_ind_out (lo + P2 j)) by (unfold inb; lia).
        field. split; lra.
      + rewrite (IHj (lo + P2 j)) by (unfold inb; lia).
        rewrite (avg_ind_out lo) by (unfold inb; lia).
        field. split; lra.
  Qed.

  (* ---------------------------------------------------------------------------------- *)
  (* trees over blocks                                                                    *)
  (* ---------------------------------------------------------------------------------- *)
  Lemma leaf_mk i : leaf wt i = mk i 0 i (wt i) false.
  Proof.
    unfold leaf, mk. f_equal. assert (P2 0 = 1) by reflexivity. lia.
  Qed.

  Lemma next_fwd lo d s w m : next_index (mk lo d s w m) true = lo + P2 d.
  Proof. unfold next_index, mk; cbn [t_hi]. lia. Qed.
  Lemma next_bwd lo d s w m : next_index (mk lo d s w m) false = lo - 1.
  Proof. reflexivity. Qed.

  Lemma turning_fwd lo d x wa m1 y wb m2 :
    turning turn (mk lo d x wa m1) (mk (lo + P2 d) d y wb m2) true = turn3 lo d.
  Proof.
    unfold turning, turn3, mk; cbn [t_lo t_hi t_depth].
    replace (lo + P2 d + P2 d - 1) with (lo + 2 * P2 d - 1) by lia.
    destruct d; reflexivity.
  Qed.

  Lemma turning_bwd lo d x wa m1 y wb m2 :
    turning turn (mk (lo + P2 d) d x wa m1) (mk lo d y wb m2) false = turn3 lo d.
  Proof.
    unfold turning, turn3, mk; cbn [t_lo t_hi t_depth].
    replace (lo + P2 d + P2 d - 1) with (lo + 2 * P2 d - 1) by lia.
    destruct d; reflexivity.
  Qed.

  Lemma merged_fwd lo d x wa mn y wb m2 tk :
    merged (mk lo d x wa mn) (mk (lo + P2 d) d y wb m2) true tk
    = mk lo (S d) (if tk then y else x) (wa + wb)%Q mn.
  Proof.
    unfold merged, mk; cbn [t_lo t_hi t_sel t_w t_depth t_main].
    f_equal. rewrite P2_S. lia.
  Qed.

  Lemma merged_bwd lo d x wa mn y wb m2 tk :
    merged (mk (lo + P2 d) d x wa mn) (mk lo d y wb m2) false tk
    = mk lo (S d) (if tk then y else x) (wa + wb)%Q mn.
  Proof.
    unfold merged, mk; cbn [t_lo t_hi t_sel t_w t_depth t_main].
    f_equal. rewrite P2_S. lia.
  Qed.

  (* ---------------------------------------------------------------------------------- *)
  (* (ii) sub-trees: exact multinomial sampling over the block, deterministic failure     *)
  (* ---------------------------------------------------------------------------------- *)
  Notation sib := (sibling wt turn nofault nofault).

  Lemma merge_sub (a b : tree) fwd G : t_main a = false -> (0 < t_w a)%Q ->
    (expect (merge_into a b fwd) G ==
     (t_w b / (t_w a + t_w b)) * G (merged a b fwd true)
     + (1 - t_w b / (t_w a + t_w b)) * G (merged a b fwd false))%Q.
  Proof.
    intros Hm Hp. unfold merge_into. rewrite Hm.
    rewrite Qle_bool_false by assumption. cbn [expect]. reflexivity.
  Qed.

  Lemma sibling_fwd j : forall i, exists w, (w == bw i j)%Q /\
    forall G, (expect (sib j i true true) G ==
      if ok i j then avg i j (fun x => G (SOk (mk i j x w false))) else G STurn)%Q.
  Proof.
    induction j; intros i.
    - exists (wt i). split; [reflexivity|]. intros G.
      cbn [sibling expect ok avg]. unfold nofault. rewrite leaf_mk. reflexivity.
    - destruct (IHj i) as [wa [Ha EA]]. destruct (IHj (i + P2 j)) as [wb [Hb EB]].
      assert (0 < wa)%Q as Pa by (rewrite Ha; apply bw_pos).
      assert (0 < wb)%Q as Pb by (rewrite Hb; apply bw_pos).
      exists (wa + wb)%Q. split. { cbn [bw]. rewrite Ha, Hb. reflexivity. }
      intros G. cbn [sibling]. rewrite expect_bind, EA. cbn [ok].
      destruct (ok i j); [|reflexivity].
      set (G' := fun z => if turn3 i j then G STurn else G (SOk (mk i (S j) z (wa + wb)%Q false))).
      rewrite (avg_ext i j _ (fun x => if ok (i + P2 j) j
                 then avg (i + P2 j) j (fun y => (wb / (wa + wb)) * G' y + (1 - wb / (wa + wb)) * G' x)
                 else G STurn)%Q).
      + destruct (ok (i + P2 j) j); cbn [andb].
        * rewrite avg_mix. unfold G'. destruct (turn3 i j); cbn [negb].
          -- rewrite !avg_const. ring.
          -- cbn [avg]. rewrite <- Ha, <- Hb. field. lra.
        * rewrite avg_const. reflexivity.
      + intros x. cbn beta iota. rewrite expect_bind, next_fwd, EB.
        destruct (ok (i + P2 j) j); [|reflexivity].
        apply avg_ext; intros y. cbn beta iota. rewrite expect_bind.
        rewrite merge_sub by (cbn; auto). cbn [expect].
        rewrite !merged_fwd, turning_fwd. cbn [andb t_w mk]. unfold G'.
        destruct (turn3 i j); reflexivity.
  Qed.

  Lemma sibling_bwd j : forall lo i, i = lo + P2 j - 1 -> exists w, (w == bw lo j)%Q /\
    forall G, (expect (sib j i false true) G ==
      if ok lo j then avg lo j (fun x => G (SOk (mk lo j x w false))) else G STurn)%Q.
  Proof.
    induction j; intros lo i Hi.
    - assert (i = lo) as E0 by (assert (P2 0 = 1) by reflexivity; lia).
      clear Hi. subst i.
      exists (wt lo). split; [reflexivity|]. intros G.
      cbn [sibling expect ok avg]. unfold nofault. rewrite leaf_mk. reflexivity.
    - destruct (IHj (lo + P2 j) i) as [wa [Ha EA]]. { rewrite P2_S in Hi. lia. }
      destruct (IHj lo (lo + P2 j - 1) eq_refl) as [wb [Hb EB]].
      assert (0 < wa)%Q as Pa by (rewrite Ha; apply bw_pos).
      assert (0 < wb)%Q as Pb by (rewrite Hb; apply bw_pos).
      exists (wa + wb)%Q. split. { cbn [bw]. rewrite Ha, Hb. ring. }
      intros G. cbn [sibling]. rewrite expect_bind, EA. cbn [ok].
      destruct (ok (lo + P2 j) j); [|rewrite andb_false_r; reflexivity].
      set (G' := fun z => if turn3 lo j then G STurn else G (SOk (mk lo (S j) z (wa + wb)%Q false))).
      rewrite (avg_ext (lo + P2 j) j _ (fun x => if ok lo j
                 then avg lo j (fun y => (wb / (wa + wb)) * G' y + (1 - wb / (wa + wb)) * G' x)
                 else G STurn)%Q).
      + destruct (ok lo j); cbn [andb].
        * rewrite avg_mix. unfold G'. destruct (turn3 lo j); cbn [negb].
          -- rewrite !avg_const. ring.
          -- cbn [avg]. rewrite <- Ha, <- Hb. field. lra.
        * rewrite avg_const. reflexivity.
      + intros x. cbn beta iota. rewrite expect_bind, next_bwd, EB.
        destruct (ok lo j); [|reflexivity].
        apply avg_ext; intros y. cbn beta iota. rewrite expect_bind.
        rewrite merge_sub by (cbn; auto). cbn [expect].
        rewrite !merged_bwd, turning_bwd. cbn [andb t_w mk]. unfold G'.
        destruct (turn3 lo j); reflexivity.
  Qed.

  (* ---------------------------------------------------------------------------------- *)
  (* (iii) main tree: extend and draw_loop                                                *)
  (* ---------------------------------------------------------------------------------- *)
  Lemma pacc_comp x x' y y' : (x == x')%Q -> (y == y')%Q -> (pacc x y == pacc x' y')%Q.
  Proof.
    intros Hx Hy. unfold pacc. rewrite (Qleb_comp _ _ Hx _ _ Hy).
    destruct (Qle_bool x' y'); [reflexivity|]. rewrite Hx, Hy. reflexivity.
  Qed.

  Lemma merge_main (a b : tree) fwd G : t_main a = true ->
    (expect (merge_into a b fwd) G ==
     pacc (t_w a) (t_w b) * G (merged a b fwd true)
     + (1 - pacc (t_w a) (t_w b)) * G (merged a b fwd false))%Q.
  Proof.
    intros Hm. unfold merge_into, pacc. rewrite Hm.
    destruct (Qle_bool (t_w a) (t_w b)); cbn [expect]; [ring|reflexivity].
  Qed.

  Definition xw (c : bool) (t : tree) : xres := if c then XTurn t else XOk t.

  Notation ext := (extend wt turn nofault nofault).

  Lemma extend_fwd lo d s w : (w == bw lo d)%Q -> exists w', (w' == bw lo (S d))%Q /\
    forall G, (expect (ext (mk lo d s w true) true true) G ==
      if ok (lo + P2 d) d
      then pacc (bw lo d) (bw (lo + P2 d) d)
             * avg (lo + P2 d) d (fun x => G (xw (turn3 lo d) (mk lo (S d) x w' true)))
           + (1 - pacc (bw lo d) (bw (lo + P2 d) d)) * G (xw (turn3 lo d) (mk lo (S d) s w' true))
      else G (XTurn (mk lo d s w true)))%Q.
  Proof.
    intros Hw. destruct (sibling_fwd d (lo + P2 d)) as [wN [HN EN]].
    exists (w + wN)%Q. split. { cbn [bw]. rewrite Hw, HN. reflexivity. }
    intros G. unfold extend. cbn [t_depth mk]. fold (mk lo d s w true).
    rewrite next_fwd, expect_bind, EN.
    destruct (ok (lo + P2 d) d); [|reflexivity].
    rewrite (avg_ext _ _ _ (fun x => pacc w wN * G (xw (turn3 lo d) (mk lo (S d) x (w + wN)%Q true))
                 + (1 - pacc w wN) * G (xw (turn3 lo d) (mk lo (S d) s (w + wN)%Q true)))%Q).
    - rewrite avg_affine. rewrite (pacc_comp _ _ _ _ Hw HN). reflexivity.
    - intros x. cbn beta iota. rewrite expect_bind, merge_main by reflexivity.
      cbn [expect]. rewrite !merged_fwd, turning_fwd. cbn [andb t_w mk].
      unfold xw. destruct (turn3 lo d); reflexivity.
  Qed.

  Lemma extend_bwd loN d s w : (w == bw (loN + P2 d) d)%Q -> exists w', (w' == bw loN (S d))%Q /\
    forall G, (expect (ext (mk (loN + P2 d) d s w true) false true) G ==
      if ok loN d
      then pacc (bw (loN + P2 d) d) (bw loN d)
             * avg loN d (fun x => G (xw (turn3 loN d) (mk loN (S d) x w' true)))
           + (1 - pacc (bw (loN + P2 d) d) (bw loN d)) * G (xw (turn3 loN d) (mk loN (S d) s w' true))
      else G (XTurn (mk (loN + P2 d) d s w true)))%Q.
  Proof.
    intros Hw. destruct (sibling_bwd d loN (loN + P2 d - 1) eq_refl) as [wN [HN EN]].
    exists (w + wN)%Q. split. { cbn [bw]. rewrite Hw, HN. ring. }
    intros G. unfold extend. cbn [t_depth mk]. fold (mk (loN + P2 d) d s w true).
    rewrite next_bwd, expect_bind, EN.
    destruct (ok loN d); [|reflexivity].
    rewrite (avg_ext _ _ _ (fun x => pacc w wN * G (xw (turn3 loN d) (mk loN (S d) x (w + wN)%Q true))
                 + (1 - pacc w wN) * G (xw (turn3 loN d) (mk loN (S d) s (w + wN)%Q true)))%Q).
    - rewrite avg_affine. rewrite (pacc_comp _ _ _ _ Hw HN). reflexivity.
    - intros x. cbn beta iota. rewrite expect_bind, merge_main by reflexivity.
      cbn [expect]. rewrite !merged_bwd, turning_bwd. cbn [andb t_w mk].
      unfold xw. destruct (turn3 loN d); reflexivity.
  Qed.

  (* one direction of one doubling: loT = current tree, loN = new block, loP = merged tree *)
  Definition kstep (K : Z -> nat -> Q) (loT loN loP : Z) (d : nat) : Q :=
    if ok loN d
    then ((1 - pacc (bw loT d) (bw loN d)) * (if turn3 loP d then 1 else K loP (S d)))%Q
    else 1%Q.

  Definition rstep (K R : Z -> nat -> Q) (loT loN loP : Z) (d : nat) (b : Z) : Q :=
    if ok loN d
    then (pacc (bw loT d) (bw loN d) * avg loN d (fun x => ind x b)
            * (if turn3 loP d then 1 else K loP (S d))
          + (if turn3 loP d then 0 else R loP (S d)))%Q
    else 0%Q.

  (* probability that the current selection survives all remaining doublings *)
  Fixpoint Keep (f : nat) (lo : Z) (d : nat) : Q :=
    match f with
    | O => 1%Q
    | S f' => ((1 # 2) * kstep (Keep f') lo (lo + P2 d) lo d
               + (1 # 2) * kstep (Keep f') lo (lo - P2 d) (lo - P2 d) d)%Q
    end.

  (* probability that a later doubling selects b and b then survives *)
  Fixpoint Rr (f : nat) (lo : Z) (d : nat) (b : Z) : Q :=
    match f with
    | O => 0%Q
    | S f' => ((1 # 2) * rstep (Keep f') (fun l d' => Rr f' l d' b) lo (lo + P2 d) lo d b
               + (1 # 2) * rstep (Keep f') (fun l d' => Rr f' l d' b) lo (lo - P2 d) (lo - P2 d) d b)%Q
    end.

  Section Loop.
    Variable md : nat.
    Variable b : Z.
    Notation dl := (draw_loop wt turn nofault nofault (std_opts md)).
    Definition hsel (r : dres) : Q := ind (d_sel r) b.

    Definition cont (f : nat) (fwd : bool) (r : xres) : ptree dres :=
      match r with
      | XOk t' => dl f t'
      | XTurn t' => extra_loop wt turn nofault nofault (n_extra (std_opts md)) t' fwd
      | XDiv t' i => Ret (finish t' false (Some i))
      | XErr i => Ret (failed i)
      end.

    Lemma step_eval f fwd loT loN loP d s w w1 :
      (forall lo d s w, (w == bw lo d)%Q ->
         (expect (dl f (mk lo d s w true)) hsel == ind s b * Keep f lo d + Rr f lo d b)%Q) ->
      (w1 == bw loP (S d))%Q ->
      ((if ok loN d
        then pacc (bw loT d) (bw loN d)
               * avg loN d (fun x => expect (cont f fwd (xw (turn3 loP d) (mk loP (S d) x w1 true))) hsel)
             + (1 - pacc (bw loT d) (bw loN d))
               * expect (cont f fwd (xw (turn3 loP d) (mk loP (S d) s w1 true))) hsel
        else expect (cont f fwd (XTurn (mk loT d s w true))) hsel)
       == ind s b * kstep (Keep f) loT loN loP d
          + rstep (Keep f) (fun l d' => Rr f l d' b) loT loN loP d b)%Q.
    Proof.
      intros IH H1. unfold kstep, rstep.
      destruct (ok loN d).
      - destruct (turn3 loP d); cbn [xw cont].
        + cbn [std_opts n_extra extra_loop expect]. unfold hsel.
          cbn [finish d_sel t_sel mk]. ring.
        + rewrite (avg_ext _ _ _ (fun x => Keep f loP (S d) * ind x b + Rr f loP (S d) b)%Q).
          * rewrite avg_affine. rewrite (IH _ _ _ _ H1). ring.
          * intros x. rewrite (IH _ _ _ _ H1). ring.
      - cbn [cont std_opts n_extra extra_loop expect]. unfold hsel.
        cbn [finish d_sel t_sel mk]. ring.
    Qed.

    Lemma V_main : forall f lo d s w, (w == bw lo d)%Q ->
      (expect (dl f (mk lo d s w true)) hsel == ind s b * Keep f lo d + Rr f lo d b)%Q.
    Proof.
      induction f; intros lo d s w Hw.
      - cbn [draw_loop expect Keep Rr]. unfold hsel. cbn [finish d_sel t_sel mk]. ring.
      - cbn [draw_loop expect Keep Rr].
        cbn [std_opts n_check n_mindepth andb Nat.leb t_depth mk].
        rewrite !expect_bind.
        fold (mk lo d s w true).
        assert (forall fwd, (expect (ext (mk lo d s w true) fwd true)
                  (fun x => expect (cont f fwd x) hsel)
                == ind s b * kstep (Keep f) lo (if fwd then lo + P2 d else lo - P2 d)
                                   (if fwd then lo else lo - P2 d) d
                   + rstep (Keep f) (fun l d' => Rr f l d' b) lo
                        (if fwd then lo + P2 d else lo - P2 d)
                        (if fwd then lo else lo - P2 d) d b)%Q) as Hdir.
        { intros [|].
          - destruct (extend_fwd lo d s w Hw) as [w1 [H1 E1]]. rewrite E1.
            apply (step_eval f true lo (lo + P2 d) lo d s w w1 IHf H1).
          - assert (lo = lo - P2 d + P2 d) as El by lia.
            assert (w == bw (lo - P2 d + P2 d) d)%Q as Hw' by (rewrite <- El; exact Hw).
            destruct (extend_bwd (lo - P2 d) d s w Hw') as [w1 [H1 E1]].
            rewrite <- El in E1. rewrite E1.
            apply (step_eval f false lo (lo - P2 d) (lo - P2 d) d s w w1 IHf H1). }
        unfold cont in Hdir.
        rewrite (Hdir true), (Hdir false). ring.
    Qed.
  End Loop.

  (* ---------------------------------------------------------------------------------- *)
  (* (iv)/(v) symmetry of Rr and detailed balance                                         *)
  (* ---------------------------------------------------------------------------------- *)
  Lemma Rr_zero : forall f lo d b, inb lo d b -> (Rr f lo d b == 0)%Q.
  Proof.
    induction f; intros lo d b Hi; cbn [Rr]; [reflexivity|].
    pose proof (P2_pos d) as Hp. unfold inb in Hi. unfold rstep.
    assert (avg (lo + P2 d) d (fun x => ind x b) == 0)%Q as E1
      by (apply avg_ind_out; unfold inb; lia).
    assert (avg (lo - P2 d) d (fun x => ind x b) == 0)%Q as E2
      by (apply avg_ind_out; unfold inb; lia).
    assert (Rr f lo (S d) b == 0)%Q as E3
      by (apply IHf; unfold inb; rewrite P2_S; lia).
    assert (Rr f (lo - P2 d) (S d) b == 0)%Q as E4
      by (apply IHf; unfold inb; rewrite P2_S; lia).
    destruct (ok (lo + P2 d) d), (ok (lo - P2 d) d), (turn3 lo d), (turn3 (lo - P2 d) d);
      rewrite ?E1, ?E2, ?E3, ?E4; ring.
  Qed.

  Lemma ok_S_bwd lo d :
    ok (lo - P2 d) (S d) = ok lo d && ok (lo - P2 d) d && negb (turn3 (lo - P2 d) d).
  Proof.
    cbn [ok]. replace (lo - P2 d + P2 d) with lo by lia.
    destruct (ok lo d), (ok (lo - P2 d) d); reflexivity.
  Qed.

  Lemma gate_half c x u v :
    (gate c (x * ((1 # 2) * u + (1 # 2) * v)) == (1 # 2) * gate c (x * u) + (1 # 2) * gate c (x * v))%Q.
  Proof. destruct c; cbn [gate]; ring. Qed.

  Lemma nonjoin f a b loT loN loP d :
    ~ inb loN d b ->
    ok loP (S d) = ok loT d && ok loN d && negb (turn3 loP d) ->
    (gate (ok loT d) (wt a * rstep (Keep f) (fun l d' => Rr f l d' b) loT loN loP d b)
     == gate (ok loP (S d)) (wt a * Rr f loP (S d) b))%Q.
  Proof.
    intros Hn Hok. rewrite Hok. unfold rstep.
    pose proof (avg_ind_out loN d b Hn) as E1.
    destruct (ok loT d), (ok loN d), (turn3 loP d); cbn [gate andb negb];
      rewrite ?E1; ring.
  Qed.

  Lemma join f lo d a b : inb lo d a -> inb (lo + P2 d) d b ->
    (gate (ok lo d) (wt a * rstep (Keep f) (fun l d' => Rr f l d' b) lo (lo + P2 d) lo d b)
     == gate (ok (lo + P2 d) d)
          (wt b * rstep (Keep f) (fun l d' => Rr f l d' a) (lo + P2 d) lo lo d a))%Q.
  Proof.
    intros Ha Hb. pose proof (P2_pos d) as Hp. unfold rstep.
    pose proof (avg_ind_in _ _ _ Ha) as Ea. pose proof (avg_ind_in _ _ _ Hb) as Eb.
    assert (Rr f lo (S d) a == 0)%Q as Za
      by (apply Rr_zero; unfold inb in *; rewrite P2_S; lia).
    assert (Rr f lo (S d) b == 0)%Q as Zb
      by (apply Rr_zero; unfold inb in *; rewrite P2_S; lia).
    pose proof (bw_pos lo d) as P1. pose proof (bw_pos (lo + P2 d) d) as P2'.
    pose proof (pacc_sym _ _ P1 P2') as Hs.
    set (W1 := bw lo d) in *. set (W2 := bw (lo + P2 d) d) in *.
    set (p1 := pacc W1 W2) in *. set (p2 := pacc W2 W1) in *.
    destruct (ok lo d), (ok (lo + P2 d) d); cbn [gate]; try ring.
    rewrite Ea, Eb.
    set (K := if turn3 lo d then 1%Q else Keep f lo (S d)).
    transitivity (wt a * wt b * K * (p1 / W2))%Q.
    - destruct (turn3 lo d); rewrite ?Zb; field; lra.
    - rewrite Hs. destruct (turn3 lo d); rewrite ?Za; field; lra.
  Qed.

  Lemma Rr_sym : forall f d lo1 lo2 c a b,
    1 <= c -> lo2 = lo1 + c * P2 d -> inb lo1 d a -> inb lo2 d b ->
    (gate (ok lo1 d) (wt a * Rr f lo1 d b) == gate (ok lo2 d) (wt b * Rr f lo2 d a))%Q.
  Proof.
    induction f; intros d lo1 lo2 c a b Hc Hlo Ha Hb.
    - cbn [Rr]. unfold gate. destruct (ok lo1 d), (ok lo2 d); ring.
    - cbn [Rr]. rewrite !gate_half.
      pose proof (P2_pos d) as Hp. unfold inb in Ha, Hb.
      destruct (Z.eq_dec c 1) as [Hc1|Hc1].
      + subst c. assert (lo2 = lo1 + P2 d) as -> by lia. clear Hlo.
        replace (lo1 + P2 d - P2 d) with lo1 by lia.
        rewrite (join f lo1 d a b) by (unfold inb; lia).
        rewrite (nonjoin f a b lo1 (lo1 - P2 d) (lo1 - P2 d) d);
          [| unfold inb; lia | apply ok_S_bwd].
        rewrite (nonjoin f b a (lo1 + P2 d) (lo1 + P2 d + P2 d) (lo1 + P2 d) d);
          [| unfold inb; lia | reflexivity].
        rewrite (IHf (S d) (lo1 - P2 d) (lo1 + P2 d) 1 a b);
          [ring | lia | rewrite P2_S; lia
           | unfold inb; rewrite P2_S; lia | unfold inb; rewrite P2_S; lia].
      + assert (2 <= c) as Hc2 by lia.
        assert (2 * P2 d <= c * P2 d) as Hcp by nia.
        rewrite (nonjoin f a b lo1 (lo1 + P2 d) lo1 d);
          [| unfold inb; lia | reflexivity].
        rewrite (nonjoin f a b lo1 (lo1 - P2 d) (lo1 - P2 d) d);
          [| unfold inb; lia | apply ok_S_bwd].
        rewrite (nonjoin f b a lo2 (lo2 + P2 d) lo2 d);
          [| unfold inb; lia | reflexivity].
        rewrite (nonjoin f b a lo2 (lo2 - P2 d) (lo2 - P2 d) d);
          [| unfold inb; lia | apply ok_S_bwd].
        pose proof (Z.div_mod c 2 ltac:(lia)) as Hdm.
        pose proof (Z.mod_pos_bound c 2 ltac:(lia)) as Hmb.
        set (k := c / 2) in *. set (r := c mod 2) in *. clearbody k r.
        assert (r = 0 \/ r = 1) as [Hr|Hr] by lia.
        * assert (c = 2 * k) as Hck by lia. subst c.
          rewrite (IHf (S d) lo1 lo2 k a b);
            [| lia | rewrite P2_S; lia
             | unfold inb; rewrite P2_S; lia | unfold inb; rewrite P2_S; lia].
          rewrite (IHf (S d) (lo1 - P2 d) (lo2 - P2 d) k a b);
            [| lia | rewrite P2_S; lia
             | unfold inb; rewrite P2_S; lia | unfold inb; rewrite P2_S; lia].
          ring.
        * assert (c = 2 * k + 1) as Hck by lia. subst c.
          rewrite (IHf (S d) lo1 (lo2 - P2 d) k a b);
            [| lia | rewrite P2_S; lia
             | unfold inb; rewrite P2_S; lia | unfold inb; rewrite P2_S; lia].
          rewrite (IHf (S d) (lo1 - P2 d) lo2 (k + 1) a b);
            [| lia | rewrite P2_S; lia
             | unfold inb; rewrite P2_S; lia | unfold inb; rewrite P2_S; lia].
          ring.
  Qed.
End Bal.

(* ------------------------------------------------------------------------------------ *)
(* (v) detailed balance                                                                   *)
(* ------------------------------------------------------------------------------------ *)
Lemma root_mk wt a : root wt a = mk a 0 a (wt a) true.
Proof.
  unfold root, mk. f_equal. assert (P2 0 = 1) by reflexivity. lia.
Qed.

(* closed form of the transition probability *)
Lemma trans_prob_formula (wt : Z -> Q) (turn : Z -> Z -> bool) (maxdepth : nat) :
  (forall i, 0 < wt i)%Q ->
  forall a b,
    (trans_prob wt turn nofault nofault (std_opts maxdepth) a b
     == ind a b * Keep wt turn maxdepth a 0 + Rr wt turn maxdepth a 0 b)%Q.
Proof.
  intros Hpos a b. unfold trans_prob, pdraw. cbn [std_opts n_dim0 n_maxdepth].
  rewrite root_mk.
  apply (V_main wt turn Hpos maxdepth b maxdepth a 0%nat a (wt a)).
  reflexivity.
Qed.

Lemma Rr_balance_lt (wt : Z -> Q) (turn : Z -> Z -> bool) (f : nat) :
  (forall i, 0 < wt i)%Q ->
  forall a b, a < b ->
    (wt a * Rr wt turn f a 0 b == wt b * Rr wt turn f b 0 a)%Q.
Proof.
  intros Hpos a b Hab.
  assert (P2 0 = 1) as HP by reflexivity.
  pose proof (Rr_sym wt turn Hpos f 0%nat a b (b - a) a b) as H.
  cbn [ok gate] in H. apply H; unfold inb; rewrite ?HP; lia.
Qed.

Theorem detailed_balance :
  forall (wt : Z -> Q) (turn : Z -> Z -> bool) (maxdepth : nat),
    (forall i, 0 < wt i)%Q ->
    forall a b : Z,
      (wt a * trans_prob wt turn nofault nofault (std_opts maxdepth) a b ==
       wt b * trans_prob wt turn nofault nofault (std_opts maxdepth) b a)%Q.
Proof.
  intros wt turn maxdepth Hpos a b.
  destruct (Z.eq_dec a b) as [->|Hne]; [reflexivity|].
  rewrite !(trans_prob_formula wt turn maxdepth Hpos).
  unfold ind.
  destruct (a =? b) eqn:E1; [apply Z.eqb_eq in E1; contradiction|].
  destruct (b =? a) eqn:E2; [apply Z.eqb_eq in E2; congruence|].
  assert (a < b \/ b < a) as [Hlt|Hlt] by lia.
  - rewrite !Qmult_0_l, !Qplus_0_l. apply Rr_balance_lt; assumption.
  - rewrite !Qmult_0_l, !Qplus_0_l. symmetry. apply Rr_balance_lt; assumption.
Qed.

Print Assumptions detailed_balance.
Print Assumptions trans_prob_formula.
Print Assumptions sibling_fwd.
Print Assumptions sibling_bwd.
Print Assumptions V_main.
Print Assumptions Rr_sym.
