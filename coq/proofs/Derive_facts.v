(* Facts about the model of #[derive(Storable)] (model/Derive.v): for ALL declarations the five
   generated functions are aligned with each other.  Induction over the nested declaration
   structure uses the principle decl_ind_nested below. *)
From Coq Require Import String List Bool Arith Lia.
From NutsV Require Import model.Derive.
Import ListNotations.
Local Open Scope string_scope.
Local Open Scope list_scope.

(* ---------------------------------------------------------------------------------------- *)
(* Induction principle for the nested inductive decl / field / list                           *)
(* ---------------------------------------------------------------------------------------- *)
Inductive fields_all (P : decl -> Prop) : list (string * field) -> Prop :=
| fa_nil : fields_all P []
| fa_basic : forall n ty dm ev o tl, fields_all P tl -> fields_all P ((n, Basic ty dm ev o) :: tl)
| fa_flat : forall n d o tl, P d -> fields_all P tl -> fields_all P ((n, Flatten d o) :: tl)
| fa_ign : forall n tl, fields_all P tl -> fields_all P ((n, Ignored) :: tl).

Definition decl_ind_nested (P : decl -> Prop)
  (H : forall name fs, fields_all P fs -> P (Struct name fs)) : forall d, P d :=
  fix F (d : decl) : P d :=
    match d with
    | Struct name fs =>
        H name fs
          ((fix G (l : list (string * field)) : fields_all P l :=
              match l as l0 return fields_all P l0 with
              | [] => fa_nil P
              | p :: tl =>
                  match p as p0 return fields_all P (p0 :: tl) with
                  | (n, f) =>
                      match f as f0 return fields_all P ((n, f0) :: tl) with
                      | Basic ty dm ev o => fa_basic P n ty dm ev o tl (G tl)
                      | Flatten d' o => fa_flat P n d' o tl (F d') (G tl)
                      | Ignored => fa_ign P n tl (G tl)
                      end
                  end
              end) fs)
    end.

(* ---------------------------------------------------------------------------------------- *)
(* The inner loops as top-level functions (convertible with the nested fixpoints)             *)
(* ---------------------------------------------------------------------------------------- *)
Definition names_fs : list (string * field) -> list string :=
  fix go (l : list (string * field)) : list string :=
    match l with
    | [] => []
    | (n, f) :: tl =>
        match f with
        | Basic _ _ _ _ => [n]
        | Flatten d' _ => names d'
        | Ignored => []
        end ++ go tl
    end.

Definition decls_fs : list (string * field) -> list (string * src_info) :=
  fix go (l : list (string * field)) : list (string * src_info) :=
    match l with
    | [] => []
    | (n, f) :: tl =>
        match f with
        | Basic ty dm ev o => [(n, (ty, dm, ev, o))]
        | Flatten d' _ => decls_of d'
        | Ignored => []
        end ++ go tl
    end.

Definition lookup_fs {A : Type} (leaf : string -> list string -> option string -> bool -> A)
           (name : string) : list (string * field) -> option A :=
  fix go (l : list (string * field)) : option A :=
    match l with
    | [] => None
    | (n, f) :: tl =>
        match f with
        | Basic ty dm ev o => if String.eqb name n then Some (leaf ty dm ev o) else go tl
        | Flatten d' _ => if mem name (names d') then lookup leaf d' name else go tl
        | Ignored => go tl
        end
    end.

Definition gas_fs : list (string * field) -> list fval -> list (string * src_info * option value_tag) :=
  fix go (l : list (string * field)) (vs : list fval) : list (string * src_info * option value_tag) :=
    match l with
    | [] => []
    | (n, f) :: tl =>
        match f with
        | Ignored => go tl vs
        | Basic ty dm ev o =>
            match vs with
            | FBasic x :: vt => (n, (ty, dm, ev, o), x) :: go tl vt
            | _ => []
            end
        | Flatten d' o =>
            match vs with
            | FInner (Some v') :: vt => get_all_src d' v' ++ go tl vt
            | FInner None :: vt => go tl vt
            | _ => []
            end
        end
    end.

Definition shaped_fs : list (string * field) -> list fval -> Prop :=
  fix go (l : list (string * field)) (vs : list fval) : Prop :=
    match l with
    | [] => vs = []
    | (n, f) :: tl =>
        match f with
        | Ignored => go tl vs
        | Basic ty dm ev o =>
            match vs with
            | FBasic x :: vt => basic_shaped ty o x /\ go tl vt
            | _ => False
            end
        | Flatten d' o =>
            match vs with
            | FInner (Some v') :: vt => shaped d' v' /\ go tl vt
            | FInner None :: vt => o = true /\ go tl vt
            | _ => False
            end
        end
    end.

Definition nof_fs : list (string * field) -> bool :=
  fix go (l : list (string * field)) : bool :=
    match l with
    | [] => true
    | (_, f) :: tl =>
        match f with
        | Flatten d' o => negb o && no_option_flatten d' && go tl
        | _ => go tl
        end
    end.

Definition known_fs : list (string * field) -> bool :=
  fix go (l : list (string * field)) : bool :=
    match l with
    | [] => true
    | (_, f) :: tl =>
        match f with
        | Basic ty _ _ o =>
            match macro_vexpr ty with
            | Some e => Bool.eqb (vexpr_is_map e) o && go tl
            | None => false
            end
        | Flatten d' _ => basics_known d' && go tl
        | Ignored => go tl
        end
    end.

Lemma names_unfold : forall s fs, names (Struct s fs) = names_fs fs.
Proof. reflexivity. Qed.
Lemma decls_unfold : forall s fs, decls_of (Struct s fs) = decls_fs fs.
Proof. reflexivity. Qed.
Lemma lookup_unfold : forall A (leaf : string -> list string -> option string -> bool -> A) s fs name,
    lookup leaf (Struct s fs) name = lookup_fs leaf name fs.
Proof. reflexivity. Qed.
Lemma gas_unfold : forall s fs vs, get_all_src (Struct s fs) (DVal vs) = gas_fs fs vs.
Proof. reflexivity. Qed.
Lemma shaped_unfold : forall s fs vs, shaped (Struct s fs) (DVal vs) = shaped_fs fs vs.
Proof. reflexivity. Qed.
Lemma nof_unfold : forall s fs, no_option_flatten (Struct s fs) = nof_fs fs.
Proof. reflexivity. Qed.
Lemma known_unfold : forall s fs, basics_known (Struct s fs) = known_fs fs.
Proof. reflexivity. Qed.

(* ---------------------------------------------------------------------------------------- *)
(* Association lists                                                                          *)
(* ---------------------------------------------------------------------------------------- *)
Lemma assoc_app : forall A (k : string) (l1 l2 : list (string * A)),
    assoc k (l1 ++ l2) = match assoc k l1 with Some a => Some a | None => assoc k l2 end.
Proof.
  induction l1 as [|[k' a] tl IH]; intros; simpl; [reflexivity|].
  destruct (String.eqb k k'); [reflexivity | apply IH].
Qed.

Lemma mem_map_fst : forall A (k : string) (l : list (string * A)),
    mem k (map fst l) = match assoc k l with Some _ => true | None => false end.
Proof.
  unfold mem. induction l as [|[k' a] tl IH]; simpl; [reflexivity|].
  destruct (String.eqb k k'); simpl; [reflexivity | apply IH].
Qed.

Lemma mem_In : forall (k : string) l, mem k l = true <-> In k l.
Proof.
  unfold mem. intros. rewrite existsb_exists. split.
  - intros [x [Hin He]]. apply String.eqb_eq in He. subst. exact Hin.
  - intros Hin. exists k. split; [exact Hin | apply String.eqb_refl].
Qed.

Lemma assoc_In : forall A (k : string) (a : A) l, assoc k l = Some a -> In (k, a) l.
Proof.
  induction l as [|[k' a'] tl IH]; simpl; intros H; [discriminate|].
  destruct (String.eqb k k') eqn:E.
  - apply String.eqb_eq in E. inversion H. subst. left. reflexivity.
  - right. apply IH. exact H.
Qed.

Lemma assoc_NoDup : forall A (k : string) (a : A) l,
    NoDup (map fst l) -> In (k, a) l -> assoc k l = Some a.
Proof.
  induction l as [|[k' a'] tl IH]; simpl; intros Hnd Hin; [contradiction|].
  inversion Hnd as [|x xs Hnotin Hnd']. subst.
  destruct Hin as [He | Hin].
  - inversion He. subst. rewrite String.eqb_refl. reflexivity.
  - destruct (String.eqb k k') eqn:E.
    + apply String.eqb_eq in E. subst. exfalso. apply Hnotin.
      apply in_map_iff. exists (k', a). split; [reflexivity | exact Hin].
    + apply IH; assumption.
Qed.

Lemma nodupb_NoDup : forall l, nodupb l = true <-> NoDup l.
Proof.
  induction l as [|x tl IH]; simpl.
  - split; [constructor | reflexivity].
  - rewrite andb_true_iff, negb_true_iff, IH. split.
    + intros [Hm Hn]. constructor; [| exact Hn].
      intro Hin. apply mem_In in Hin. congruence.
    + intros Hnd. inversion Hnd as [|y ys Hnotin Hnd']. subst. split; [| exact Hnd'].
      destruct (mem x tl) eqn:E; [| reflexivity]. apply mem_In in E. contradiction.
Qed.

(* ---------------------------------------------------------------------------------------- *)
(* names = the first column of the flattened declaration list                                 *)
(* ---------------------------------------------------------------------------------------- *)
Lemma names_decls : forall d, names d = map fst (decls_of d).
Proof.
  apply (decl_ind_nested (fun d => names d = map fst (decls_of d))).
  intros s fs H. rewrite names_unfold, decls_unfold.
  induction H; simpl.
  - reflexivity.
  - rewrite IHfields_all. reflexivity.
  - rewrite map_app. rewrite H, IHfields_all. reflexivity.
  - exact IHfields_all.
Qed.

(* FIRST MATCHING ARM: each of the three generated matches returns what the first field with
   that name (in names() order) declares; the panic arm is reached exactly for unknown names. *)
Lemma lookup_first_match :
  forall A (leaf : string -> list string -> option string -> bool -> A) d name,
    lookup leaf d name =
    option_map (fun i : src_info => let '(ty, dm, ev, o) := i in leaf ty dm ev o)
               (assoc name (decls_of d)).
Proof.
  intros A leaf.
  apply (decl_ind_nested (fun d => forall name, lookup leaf d name =
    option_map (fun i : src_info => let '(ty, dm, ev, o) := i in leaf ty dm ev o)
               (assoc name (decls_of d)))).
  intros s fs H name. rewrite lookup_unfold, decls_unfold.
  induction H; simpl.
  - reflexivity.
  - destruct (String.eqb name n); [reflexivity | exact IHfields_all].
  - rewrite assoc_app. rewrite names_decls, mem_map_fst. rewrite H.
    unfold src_info in *.
    match goal with |- context [@assoc ?T name (decls_of d)] =>
      destruct (@assoc T name (decls_of d)) as [i|] end; [reflexivity | exact IHfields_all].
  - exact IHfields_all.
Qed.

Corollary lookup_src_first_match : forall d name, lookup_src d name = assoc name (decls_of d).
Proof.
  intros. unfold lookup_src. rewrite lookup_first_match.
  destruct (assoc name (decls_of d)) as [[[[ty dm] ev] o]|]; reflexivity.
Qed.

Lemma lookup_known_name : forall A (leaf : string -> list string -> option string -> bool -> A) d name,
    lookup leaf d name <> None <-> In name (names d).
Proof.
  intros. rewrite lookup_first_match, names_decls, <- mem_In, mem_map_fst.
  destruct (assoc name (decls_of d)); simpl; split; congruence.
Qed.

(* ---------------------------------------------------------------------------------------- *)
(* get_all lists exactly the declared fields, in the declared order                           *)
(* ---------------------------------------------------------------------------------------- *)
Definition entry_decl (e : string * src_info * option value_tag) : string * src_info := fst e.

Lemma get_all_src_decls : forall d v,
    no_option_flatten d = true -> shaped d v ->
    map entry_decl (get_all_src d v) = decls_of d.
Proof.
  apply (decl_ind_nested (fun d => forall v, no_option_flatten d = true -> shaped d v ->
                                             map entry_decl (get_all_src d v) = decls_of d)).
  intros s fs H [vs]. rewrite nof_unfold, shaped_unfold, gas_unfold, decls_unfold.
  revert vs. induction H; intros vs Hn Hs; simpl in *.
  - reflexivity.
  - destruct vs as [|[x|?] vt]; try contradiction. destruct Hs as [_ Hs].
    simpl. rewrite (IHfields_all vt Hn Hs). reflexivity.
  - apply andb_true_iff in Hn. destruct Hn as [Hn Hn2].
    apply andb_true_iff in Hn. destruct Hn as [Ho Hd].
    destruct vs as [|[?|[v'|]] vt]; try contradiction.
    + destruct Hs as [Hs1 Hs2]. rewrite map_app.
      rewrite (H v' Hd Hs1), (IHfields_all vt Hn2 Hs2). reflexivity.
    + destruct Hs as [Ho' _]. subst. discriminate.
  - apply IHfields_all; assumption.
Qed.

Lemma get_all_names : forall d v,
    no_option_flatten d = true -> shaped d v -> map fst (get_all d v) = names d.
Proof.
  intros d v Hn Hs. unfold get_all. rewrite map_map. simpl.
  rewrite names_decls, <- (get_all_src_decls d v Hn Hs), map_map. reflexivity.
Qed.

(* every value sits in a field whose Rust type dictates its constructor *)
Lemma get_all_src_typed : forall d v,
    shaped d v ->
    Forall (fun e => let '(n, (ty, dm, ev, o), x) := e in basic_shaped ty o x) (get_all_src d v).
Proof.
  apply (decl_ind_nested (fun d => forall v, shaped d v ->
    Forall (fun e : string * src_info * option value_tag =>
              let '(n, (ty, dm, ev, o), x) := e in basic_shaped ty o x) (get_all_src d v))).
  intros s fs H [vs]. rewrite shaped_unfold, gas_unfold.
  revert vs. induction H; intros vs Hs; simpl in *.
  - constructor.
  - destruct vs as [|[x|?] vt]; try contradiction. destruct Hs as [Hb Hs].
    constructor; [exact Hb | apply IHfields_all; exact Hs].
  - destruct vs as [|[?|[v'|]] vt]; try contradiction.
    + destruct Hs as [Hs1 Hs2]. apply Forall_app. split; [apply H; exact Hs1 | apply IHfields_all; exact Hs2].
    + destruct Hs as [_ Hs2]. apply IHfields_all; exact Hs2.
  - apply IHfields_all; exact Hs.
Qed.

(* ---------------------------------------------------------------------------------------- *)
(* The macro's table                                                                          *)
(* ---------------------------------------------------------------------------------------- *)
Lemma table_rows_consistent : forallb row_consistent macro_table = true.
Proof. vm_compute. reflexivity. Qed.

Lemma assoc_forallb : forall A (P : string * A -> bool) k a l,
    forallb P l = true -> assoc k l = Some a -> exists k', String.eqb k k' = true /\ P (k', a) = true.
Proof.
  induction l as [|[k' a'] tl IH]; simpl; intros HP Ha; [discriminate|].
  apply andb_true_iff in HP. destruct HP as [H1 H2].
  destruct (String.eqb k k') eqn:E.
  - inversion Ha. subst. exists k'. split; assumption.
  - apply IH; assumption.
Qed.

(* the declared ItemType of a table row is the item type of the Value the field really yields *)
Lemma table_consistent : forall ty t,
    macro_item_type ty = Some t ->
    forall t' vec opt, rust_value ty = Some (t', vec, opt) -> t' = t.
Proof.
  intros ty t Hm t' vec opt Hr. unfold macro_item_type in Hm.
  destruct (assoc ty macro_table) as [[t0 e]|] eqn:E; [| discriminate].
  simpl in Hm. inversion Hm. subst t0.
  destruct (assoc_forallb _ row_consistent ty (t, e) macro_table table_rows_consistent E) as [k' [Hk Hrow]].
  apply String.eqb_eq in Hk. subst k'. unfold row_consistent in Hrow. rewrite Hr in Hrow.
  apply andb_true_iff in Hrow. destruct Hrow as [Ht _].
  destruct t, t'; simpl in Ht; try discriminate; reflexivity.
Qed.

(* ---------------------------------------------------------------------------------------- *)
(* Alignment                                                                                  *)
(* ---------------------------------------------------------------------------------------- *)
(* what the schema functions say about one entry of a row *)
Definition entry_aligned (d : decl) (e : string * src_info * option value_tag) : Prop :=
  let '(n, (ty, dm, ev, o), x) := e in
  item_type d n = macro_item_type ty /\
  dims d n = Some dm /\
  event_dim d n = Some ev /\
  (forall t len, x = Some (t, len) -> macro_item_type ty <> None -> item_type d n = Some t).

Definition dup_consistent (d : decl) : Prop :=
  forall n i, In (n, i) (decls_of d) -> assoc n (decls_of d) = Some i.

Lemma NoDup_dup_consistent : forall d, NoDup (names d) -> dup_consistent d.
Proof.
  intros d Hnd n i Hin. apply assoc_NoDup; [rewrite <- names_decls; exact Hnd | exact Hin].
Qed.

Lemma list_eqb_eq : forall a b, list_eqb a b = true -> a = b.
Proof.
  induction a as [|x a IH]; destruct b as [|y b]; simpl; intros H; try discriminate; [reflexivity|].
  apply andb_true_iff in H. destruct H as [H1 H2]. apply String.eqb_eq in H1. subst.
  rewrite (IH b H2). reflexivity.
Qed.

Lemma info_eqb_eq : forall a b, info_eqb a b = true -> a = b.
Proof.
  intros [[[ty dm] ev] o] [[[ty' dm'] ev'] o']. simpl. intros H.
  repeat (apply andb_true_iff in H; destruct H as [H ?]).
  apply String.eqb_eq in H. apply list_eqb_eq in H2. apply Bool.eqb_prop in H0.
  destruct ev, ev'; simpl in H1; try discriminate;
    [apply String.eqb_eq in H1 |]; subst; reflexivity.
Qed.

Lemma dup_consistentb_sound : forall d, dup_consistentb d = true -> dup_consistent d.
Proof.
  intros d H n i Hin. unfold dup_consistentb in H. rewrite forallb_forall in H.
  specialize (H (n, i) Hin). simpl in H.
  destruct (assoc n (decls_of d)) as [i'|]; [| discriminate].
  apply info_eqb_eq in H. subst. reflexivity.
Qed.

Lemma aligned_core : forall d v,
    dup_consistent d -> no_option_flatten d = true -> shaped d v ->
    map fst (get_all d v) = names d /\ Forall (entry_aligned d) (get_all_src d v).
Proof.
  intros d v Hdc Hn Hs. split; [apply get_all_names; assumption|].
  pose proof (get_all_src_decls d v Hn Hs) as Hdecl.
  pose proof (get_all_src_typed d v Hs) as Hty.
  rewrite Forall_forall in *. intros [[n [[[ty dm] ev] o]] x] Hin.
  assert (Hd : In (n, (ty, dm, ev, o)) (decls_of d)).
  { rewrite <- Hdecl. apply in_map_iff. exists (n, (ty, dm, ev, o), x). split; [reflexivity | exact Hin]. }
  pose proof (Hdc _ _ Hd) as Ha.
  unfold entry_aligned, item_type, dims, event_dim.
  rewrite !lookup_first_match, Ha. simpl.
  assert (Hit : match macro_item_type ty with Some t => Some t | None => None end = macro_item_type ty)
    by (destruct (macro_item_type ty); reflexivity).
  repeat split; try exact Hit.
  intros t len Hx Hknown.
  specialize (Hty _ Hin). simpl in Hty. subst x. simpl in Hty.
  destruct Hty as [vec [opt [Hr _]]].
  destruct (macro_item_type ty) as [t0|] eqn:Em; [| congruence].
  rewrite (table_consistent ty t0 Em t vec opt Hr). reflexivity.
Qed.

(* the requested statement *)
Lemma derive_aligned_lemma : forall d v,
    NoDup (names d) -> no_option_flatten d = true -> shaped d v ->
    map fst (get_all d v) = names d /\ Forall (entry_aligned d) (get_all_src d v).
Proof.
  intros d v Hnd. apply aligned_core. apply NoDup_dup_consistent. exact Hnd.
Qed.

Lemma get_all_is_projection : forall d v,
    get_all d v = map (fun e => (fst (fst e), snd e)) (get_all_src d v).
Proof. reflexivity. Qed.

(* ---------------------------------------------------------------------------------------- *)
(* The decidable shape check implies the typing hypothesis                                    *)
(* ---------------------------------------------------------------------------------------- *)
Definition shapedb_fs : list (string * field) -> list fval -> bool :=
  fix go (l : list (string * field)) (vs : list fval) : bool :=
    match l with
    | [] => match vs with [] => true | _ => false end
    | (n, f) :: tl =>
        match f with
        | Ignored => go tl vs
        | Basic ty dm ev o =>
            match vs with
            | FBasic x :: vt => basic_shapedb ty o x && go tl vt
            | _ => false
            end
        | Flatten d' o =>
            match vs with
            | FInner (Some v') :: vt => shapedb d' v' && go tl vt
            | FInner None :: vt => o && go tl vt
            | _ => false
            end
        end
    end.

Lemma shapedb_unfold : forall s fs vs, shapedb (Struct s fs) (DVal vs) = shapedb_fs fs vs.
Proof. reflexivity. Qed.

Lemma basic_shapedb_sound : forall ty o x, basic_shapedb ty o x = true -> basic_shaped ty o x.
Proof.
  intros ty o [[t len]|]; simpl; [| tauto].
  destruct (rust_value ty) as [[[t' vec] opt]|]; [| discriminate].
  intros H. apply andb_true_iff in H. destruct H as [Ht Hv].
  exists vec, opt. split.
  - destruct t, t'; simpl in Ht; try discriminate; reflexivity.
  - apply Bool.eqb_prop in Hv. subst. destruct len; simpl; split; intros; congruence.
Qed.

Lemma shapedb_sound : forall d v, shapedb d v = true -> shaped d v.
Proof.
  apply (decl_ind_nested (fun d => forall v, shapedb d v = true -> shaped d v)).
  intros s fs H [vs]. rewrite shapedb_unfold, shaped_unfold.
  revert vs. induction H; intros vs Hs; simpl in *.
  - destruct vs; [reflexivity | discriminate].
  - destruct vs as [|[x|?] vt]; try discriminate.
    apply andb_true_iff in Hs. destruct Hs as [Hb Hs].
    split; [apply basic_shapedb_sound; exact Hb | apply IHfields_all; exact Hs].
  - destruct vs as [|[?|[v'|]] vt]; try discriminate;
      apply andb_true_iff in Hs; destruct Hs as [Hb Hs].
    + split; [apply H; exact Hb | apply IHfields_all; exact Hs].
    + split; [exact Hb | apply IHfields_all; exact Hs].
  - apply IHfields_all; exact Hs.
Qed.

(* ---------------------------------------------------------------------------------------- *)
(* Witnesses for the excluded cases                                                           *)
(* ---------------------------------------------------------------------------------------- *)
Definition w_inner : decl := Struct "Inner" [("a", Basic "f64" [] None false)].
Definition w_optflat : decl := Struct "W" [("inner", Flatten w_inner true); ("b", Basic "u64" [] None false)].
Definition w_optflat_val : dval := DVal [FInner None; FBasic (Some (TU64, None))].

Lemma option_flatten_misaligned :
  NoDup (names w_optflat) /\ shaped w_optflat w_optflat_val /\
  names w_optflat = ["a"; "b"] /\ map fst (get_all w_optflat w_optflat_val) = ["b"].
Proof.
  split; [| split; [| split]].
  - apply nodupb_NoDup. vm_compute. reflexivity.
  - simpl. repeat split. exists false, false. split; [vm_compute; reflexivity | split; intros; [discriminate | congruence]].
  - reflexivity.
  - reflexivity.
Qed.

(* a duplicated name with a different declaration: the second field is shadowed *)
Definition w_dup : decl :=
  Struct "D" [("x", Basic "f64" [] None false); ("x", Basic "Vec < u64 >" ["n"] (Some "ev") false)].
Definition w_dup_val : dval := DVal [FBasic (Some (TF64, None)); FBasic (Some (TU64, Some 3))].

Lemma duplicate_shadowed :
  no_option_flatten w_dup = true /\ shaped w_dup w_dup_val /\
  get_all w_dup w_dup_val = [("x", Some (TF64, None)); ("x", Some (TU64, Some 3))] /\
  item_type w_dup "x" = Some TF64 /\ dims w_dup "x" = Some [] /\ event_dim w_dup "x" = Some None.
Proof.
  split; [reflexivity | split; [| split; [reflexivity | split; [reflexivity | split; reflexivity]]]].
  simpl. repeat split.
  - exists false, false. split; [vm_compute; reflexivity | split; intros; [discriminate | congruence]].
  - exists true, false. split; [vm_compute; reflexivity | split; intros; [discriminate | reflexivity]].
Qed.

(* non-vacuity: a nested declaration with a value that satisfies all hypotheses *)
Definition w_ok : decl :=
  Struct "Outer" [("k", Basic "u64" [] None false);
                  ("in", Flatten (Struct "In" [("v", Basic "Option < Vec < f64 > >" ["n"] (Some "e") true);
                                               ("_p", Ignored)]) false);
                  ("s", Basic "Option < String >" [] None true)].
Definition w_ok_val : dval :=
  DVal [FBasic (Some (TU64, None)); FInner (Some (DVal [FBasic (Some (TF64, Some 4))])); FBasic None].

Lemma w_ok_hyps : NoDup (names w_ok) /\ no_option_flatten w_ok = true /\ shaped w_ok w_ok_val.
Proof.
  split; [apply nodupb_NoDup; vm_compute; reflexivity | split; [reflexivity |]].
  simpl. repeat split.
  - exists false, false. split; [vm_compute; reflexivity | split; intros; [discriminate | congruence]].
  - exists true, true. split; [vm_compute; reflexivity | split; intros; [discriminate | reflexivity]].
Qed.
