(* Lemmas about the Zarr trace model (model/Zarr.v); used by Properties/C15.v *)
From Coq Require Import Arith NArith Bool List Lia Permutation.
From NutsV Require Import model.Zarr.
Import ListNotations.

(* ---------------------------------------------------------------------------------------- *)
(* lists                                                                                      *)
(* ---------------------------------------------------------------------------------------- *)
Lemma nth_error_skipn' {A} (n : nat) (l : list A) (i : nat) :
  nth_error (skipn n l) i = nth_error l (n + i).
Proof.
  revert l. induction n; intros l; simpl; auto.
  destruct l; simpl; auto. destruct i; reflexivity.
Qed.

Lemma nth_error_merge (rows old : chunk) (j : nat) :
  nth_error (rows ++ skipn (length rows) old) j =
  if j <? length rows then nth_error rows j else nth_error old j.
Proof.
  destruct (j <? length rows) eqn:E.
  - apply Nat.ltb_lt in E. apply nth_error_app1; auto.
  - apply Nat.ltb_ge in E. rewrite nth_error_app2 by auto. rewrite nth_error_skipn'.
    f_equal. lia.
Qed.

Lemma length_merge (rows old : chunk) :
  length (rows ++ skipn (length rows) old) = Nat.max (length rows) (length old).
Proof. rewrite app_length, skipn_length. lia. Qed.

Lemma In_remove_nth {A} (i : nat) (l : list A) (x : A) : In x (remove_nth i l) -> In x l.
Proof.
  revert i. induction l; intros i H; destruct i; simpl in *; auto.
  destruct H; auto. right. eapply IHl; eauto.
Qed.

Lemma In_split_nth {A} (i : nat) (l : list A) (w x : A) :
  nth_error l i = Some w -> In x l -> x = w \/ In x (remove_nth i l).
Proof.
  revert i. induction l; intros i Hn Hin; [destruct i; simpl in *; contradiction|].
  destruct i; simpl in *.
  - inversion Hn; subst. destruct Hin; auto.
  - destruct Hin; auto. destruct (IHl _ Hn H); auto.
Qed.

Lemma NoDup_app_snoc {A} (l : list A) (x : A) : NoDup l -> ~ In x l -> NoDup (l ++ [x]).
Proof.
  induction l; intros H N; simpl.
  - constructor; auto; constructor.
  - inversion H; subst. constructor.
    + intros I. apply in_app_or in I. destruct I as [I|[E|[]]]; auto. subst. apply N; simpl; auto.
    + apply IHl; auto. intros I; apply N; simpl; auto.
Qed.

Lemma perm_remove_nth {A} (i : nat) (l : list A) (w : A) :
  nth_error l i = Some w -> Permutation (w :: remove_nth i l) l.
Proof.
  revert i. induction l; intros i Hn; destruct i; simpl in *; try discriminate.
  - inversion Hn; subst. apply Permutation_refl.
  - eapply perm_trans; [apply perm_swap|]. apply perm_skip. apply IHl; auto.
Qed.

(* ---------------------------------------------------------------------------------------- *)
(* chunks consistent with the sequence pushed to an array                                     *)
(* ---------------------------------------------------------------------------------------- *)
Definition cons (cs : nat) (P : list token) (idx : nat) (ch : chunk) : Prop :=
  length ch <= cs /\ forall j, j < length ch -> nth_error ch j = nth_error P (idx * cs + j).

Definition acons (cs : nat) (P : list token) (a : astore) : Prop :=
  forall idx ch, a idx = Some ch -> cons cs P idx ch.

Lemma cons_nil cs P idx : cons cs P idx [].
Proof. split; simpl; [lia|]. intros j Hj; lia. Qed.

Lemma cons_app cs P x idx ch : cons cs P idx ch -> cons cs (P ++ x) idx ch.
Proof.
  intros [H1 H2]; split; auto. intros j Hj. rewrite (H2 j Hj). symmetry. apply nth_error_app1.
  apply nth_error_Some. rewrite <- (H2 j Hj). apply nth_error_Some; auto.
Qed.

Lemma acons_app cs P x a : acons cs P a -> acons cs (P ++ x) a.
Proof. intros H idx ch E. apply cons_app; eauto. Qed.

Lemma acons_empty cs P : acons cs P a_empty.
Proof. intros idx ch E; discriminate. Qed.

Lemma cons_old cs P a idx : acons cs P a -> cons cs P idx (old_rows a idx).
Proof. intros H. unfold old_rows. destruct (a idx) eqn:E; [eauto | apply cons_nil]. Qed.

Lemma cons_merge cs P idx rows old :
  cons cs P idx rows -> cons cs P idx old -> cons cs P idx (rows ++ skipn (length rows) old).
Proof.
  intros [L1 N1] [L2 N2]. split.
  - rewrite length_merge. lia.
  - intros j Hj. rewrite length_merge in Hj. rewrite nth_error_merge.
    destruct (j <? length rows) eqn:E.
    + apply Nat.ltb_lt in E; auto.
    + apply Nat.ltb_ge in E. apply N2. lia.
Qed.

Lemma upd_same a i c : upd a i c i = Some c.
Proof. unfold upd. rewrite Nat.eqb_refl; auto. Qed.
Lemma upd_other a i c j : j <> i -> upd a i c j = a j.
Proof. unfold upd. intros H. apply Nat.eqb_neq in H. rewrite H; auto. Qed.

Lemma acons_upd cs P a i c : acons cs P a -> cons cs P i c -> acons cs P (upd a i c).
Proof.
  intros H Hc idx ch E. destruct (Nat.eq_dec idx i) as [->|N].
  - rewrite upd_same in E. inversion E; subst; auto.
  - rewrite upd_other in E by auto. eauto.
Qed.

Lemma acons_store cs str P a c :
  acons cs P a -> cons cs P (co_idx c) (co_rows c) -> acons cs P (store_zarr_chunk cs str a c).
Proof.
  intros Ha Hc. unfold store_zarr_chunk. destruct (co_rows c) eqn:R; auto. rewrite <- R in *.
  destruct str; [|destruct (length (co_rows c) =? cs)]; unfold store_array_subset, store_chunk, store_chunk_subset;
    apply acons_upd; auto; try (apply cons_merge; auto; apply cons_old; auto).
Qed.

(* stored chunks never get shorter *)
Definition a_le (a a' : astore) : Prop :=
  forall idx ch, a idx = Some ch -> exists ch', a' idx = Some ch' /\ length ch <= length ch'.

Lemma a_le_refl a : a_le a a.
Proof. intros idx ch E; eauto. Qed.
Lemma a_le_trans a b c : a_le a b -> a_le b c -> a_le a c.
Proof.
  intros H1 H2 idx ch E. destruct (H1 _ _ E) as (ch1 & E1 & L1). destruct (H2 _ _ E1) as (ch2 & E2 & L2).
  exists ch2; split; auto; lia.
Qed.

Lemma a_le_upd a i c : length (old_rows a i) <= length c -> a_le a (upd a i c).
Proof.
  intros L idx ch E. destruct (Nat.eq_dec idx i) as [->|N].
  - rewrite upd_same. exists c; split; auto. unfold old_rows in L. rewrite E in L; auto.
  - rewrite upd_other by auto. eauto.
Qed.

Lemma a_le_store cs str P a c : acons cs P a -> a_le a (store_zarr_chunk cs str a c).
Proof.
  intros Ha. unfold store_zarr_chunk. destruct (co_rows c) eqn:R; [apply a_le_refl|]. rewrite <- R.
  destruct str; [|destruct (length (co_rows c) =? cs) eqn:F];
    unfold store_array_subset, store_chunk, store_chunk_subset; apply a_le_upd.
  - rewrite length_merge; lia.
  - apply Nat.eqb_eq in F. rewrite F. apply (cons_old cs P a (co_idx c) Ha).
  - rewrite length_merge; lia.
Qed.

(* the rows of a write are stored *)
Lemma store_has cs str a c :
  co_rows c <> [] ->
  exists ch, store_zarr_chunk cs str a c (co_idx c) = Some ch /\ length (co_rows c) <= length ch.
Proof.
  intros N. unfold store_zarr_chunk. destruct (co_rows c) eqn:R; [congruence|]. rewrite <- R.
  destruct str; [|destruct (length (co_rows c) =? cs)];
    unfold store_array_subset, store_chunk, store_chunk_subset; rewrite upd_same; eexists; split; eauto;
    rewrite ?length_merge; lia.
Qed.

(* ---------------------------------------------------------------------------------------- *)
(* coverage and reading                                                                       *)
(* ---------------------------------------------------------------------------------------- *)
Definition scov (cs : nat) (a : astore) (n : nat) : Prop :=
  forall idx j, j < cs -> idx * cs + j < n -> exists ch, a idx = Some ch /\ j < length ch.

Lemma scov_le cs a a' n : a_le a a' -> scov cs a n -> scov cs a' n.
Proof.
  intros H S idx j Hj Hn. destruct (S idx j Hj Hn) as (ch & E & L). destruct (H _ _ E) as (ch' & E' & L').
  exists ch'; split; auto; lia.
Qed.

Lemma scov_mono cs a n m : m <= n -> scov cs a n -> scov cs a m.
Proof. intros H S idx j Hj Hn. apply S; auto; lia. Qed.

Lemma read_correct cs fill P a shape n i :
  0 < cs -> acons cs P a -> scov cs a n -> i < n -> i < shape ->
  read_row cs fill a shape i = nth_error P i.
Proof.
  intros Hcs Ha Hs Hi Hsh. unfold read_row.
  assert (E : i <? shape = true) by (apply Nat.ltb_lt; auto). rewrite E.
  assert (Hm : i mod cs < cs) by (apply Nat.mod_upper_bound; lia).
  assert (Hd : i = (i / cs) * cs + i mod cs) by (rewrite Nat.mul_comm; apply Nat.div_mod; lia).
  destruct (Hs (i / cs) (i mod cs) Hm) as (ch & Ech & L); [lia|].
  rewrite Ech. destruct (Ha _ _ Ech) as [_ Hn]. rewrite <- (nth_error_nth' ch fill L).
  rewrite (Hn _ L). f_equal. lia.
Qed.

Lemma read_out_of_shape cs fill a shape i : shape <= i -> read_row cs fill a shape i = None.
Proof. intros H. unfold read_row. assert (E : i <? shape = false) by (apply Nat.ltb_ge; auto). rewrite E; auto. Qed.

(* ---------------------------------------------------------------------------------------- *)
(* SampleBuffer                                                                               *)
(* ---------------------------------------------------------------------------------------- *)
(* the buffer holds the tail of the sequence P pushed since the last reset *)
Definition Bok (cs : nat) (P : list token) (b : buffer) : Prop :=
  b_len b < cs /\ length P = b_cur b * cs + b_len b /\
  forall j, j < b_len b -> nth_error (b_items b) j = nth_error P (b_cur b * cs + j).

Lemma Bok_new cs : 0 < cs -> Bok cs [] sb_new.
Proof. intros H. repeat split; simpl; auto; try (intros j Hj; simpl in Hj; lia). Qed.

Lemma Bok_cons cs P b : Bok cs P b -> cons cs P (b_cur b) (b_items b).
Proof. intros (L & T & N). split; [unfold b_len in L; lia | exact N]. Qed.

Lemma Bok_total cs P b : Bok cs P b -> sb_total_pushed cs b = length P.
Proof. intros (L & T & N). unfold sb_total_pushed. lia. Qed.

Lemma items_app cs P b t :
  Bok cs P b -> forall j, j < S (b_len b) ->
  nth_error (b_items b ++ [t]) j = nth_error (P ++ [t]) (b_cur b * cs + j).
Proof.
  intros (L & T & N) j Hj. unfold b_len in *.
  destruct (Nat.eq_dec j (length (b_items b))) as [->|Ne].
  - rewrite nth_error_app2 by lia. rewrite Nat.sub_diag. rewrite <- T.
    rewrite nth_error_app2 by lia. rewrite Nat.sub_diag. reflexivity.
  - rewrite nth_error_app1 by lia. rewrite nth_error_app1 by lia. apply N. lia.
Qed.

Lemma idx_split cs i j cur len :
  j < cs -> len <= cs -> i * cs + j < cur * cs + len -> i * cs + j < cur * cs \/ (i = cur /\ j < len).
Proof.
  intros Hj Hl H. destruct (lt_eq_lt_dec i cur) as [[Lt|Eq]|Gt].
  - left. assert (S i * cs <= cur * cs) by (apply Nat.mul_le_mono_r; lia). simpl in H0. lia.
  - right. subst. split; auto. lia.
  - exfalso. assert (S cur * cs <= i * cs) by (apply Nat.mul_le_mono_r; lia). simpl in H0. lia.
Qed.

(* ---------------------------------------------------------------------------------------- *)
(* one variable: invariant of store + queue                                                   *)
(* ---------------------------------------------------------------------------------------- *)
Definition PP (PW PS : list token) (warm : bool) : list token := if warm then PW else PS.

Definition covered (a : astore) (pend : list wr) (warm : bool) (idx j : nat) : Prop :=
  (exists ch, a idx = Some ch /\ j < length ch) \/
  (exists w, In w pend /\ w_warm w = warm /\ co_idx (w_out w) = idx /\ j < length (co_rows (w_out w))).

Definition covp (cs : nat) (a : astore) (pend : list wr) (warm : bool) (n : nat) : Prop :=
  forall idx j, j < cs -> idx * cs + j < n -> covered a pend warm idx j.

Record SInv (cs : nat) (lw : bool) (vs : vstate) (PW PS : list token) (curb nW nS : nat) : Prop := {
  si_c : forall warm, acons cs (PP PW PS warm) (v_array vs warm);
  si_cp : forall w, In w (v_pend vs) ->
          cons cs (PP PW PS (w_warm w)) (co_idx (w_out w)) (co_rows (w_out w)) /\ co_rows (w_out w) <> [];
  si_nodup : NoDup (map w_key (v_pend vs));
  si_bound : forall w, In w (v_pend vs) ->
             (w_warm w = lw -> co_idx (w_out w) < curb) /\ (w_warm w <> lw -> lw = false);
  si_dw : covp cs (v_warm vs) (v_pend vs) true nW;
  si_ds : covp cs (v_samp vs) (v_pend vs) false nS }.

Definition Inv (cs : nat) (lw : bool) (vs : vstate) (PW PS : list token) : Prop :=
  Bok cs (PP PW PS lw) (v_buf vs) /\ (lw = true -> PS = []) /\
  SInv cs lw vs PW PS (b_cur (v_buf vs))
       (if lw then b_cur (v_buf vs) * cs else length PW)
       (if lw then 0 else b_cur (v_buf vs) * cs).

Lemma v_array_apply cs str vs w warm :
  v_array (apply_wr cs str vs w) warm =
  if Bool.eqb (w_warm w) warm then store_zarr_chunk cs str (v_array vs warm) (w_out w) else v_array vs warm.
Proof. unfold apply_wr, v_array. destruct (w_warm w), warm; reflexivity. Qed.

Lemma v_pend_apply cs str vs w : v_pend (apply_wr cs str vs w) = v_pend vs.
Proof. unfold apply_wr. destruct (w_warm w); reflexivity. Qed.
Lemma v_buf_apply cs str vs w : v_buf (apply_wr cs str vs w) = v_buf vs.
Proof. unfold apply_wr. destruct (w_warm w); reflexivity. Qed.

Lemma covered_mono a a' pend pend' warm idx j :
  a_le a a' -> (forall w, In w pend -> In w pend') ->
  covered a pend warm idx j -> covered a' pend' warm idx j.
Proof.
  intros Hle Hin [(ch & E & L)|(w & I & W & X & L)].
  - left. destruct (Hle _ _ E) as (ch' & E' & L'). exists ch'; split; auto; lia.
  - right. exists w; auto.
Qed.

Lemma covp_mono cs a a' pend pend' warm n :
  a_le a a' -> (forall w, In w pend -> In w pend') -> covp cs a pend warm n -> covp cs a' pend' warm n.
Proof. intros Hle Hin H idx j Hj Hn. eapply covered_mono; eauto. Qed.

Lemma a_le_apply cs str vs w PW PS warm :
  (forall wm, acons cs (PP PW PS wm) (v_array vs wm)) ->
  a_le (v_array vs warm) (v_array (apply_wr cs str vs w) warm).
Proof.
  intros Hc. rewrite v_array_apply. destruct (Bool.eqb (w_warm w) warm); [|apply a_le_refl].
  eapply a_le_store; eauto.
Qed.

Lemma SInv_set_buf cs lw vs b PW PS curb nW nS :
  SInv cs lw vs PW PS curb nW nS -> SInv cs lw (set_buf vs b) PW PS curb nW nS.
Proof. intros [A B C D E F]. constructor; auto. Qed.

(* the sequences grow *)
Lemma SInv_grow cs lw vs PW PS xw xs curb nW nS :
  SInv cs lw vs PW PS curb nW nS -> SInv cs lw vs (PW ++ xw) (PS ++ xs) curb nW nS.
Proof.
  intros [A B C D E F]. constructor; auto.
  - intros warm. specialize (A warm). destruct warm; simpl in *; apply acons_app; auto.
  - intros w I. destruct (B w I) as [H1 H2]. split; auto. destruct (w_warm w); simpl in *; apply cons_app; auto.
Qed.

(* a consistent write reaches the store *)
Lemma SInv_apply cs str lw vs PW PS curb nW nS w :
  SInv cs lw vs PW PS curb nW nS ->
  cons cs (PP PW PS (w_warm w)) (co_idx (w_out w)) (co_rows (w_out w)) ->
  SInv cs lw (apply_wr cs str vs w) PW PS curb nW nS.
Proof.
  intros [A B C D E F] Hc. constructor; rewrite ?v_pend_apply; auto.
  - intros warm. rewrite v_array_apply. destruct (Bool.eqb (w_warm w) warm) eqn:Q; auto.
    apply eqb_prop in Q. subst warm. apply acons_store; auto.
  - eapply covp_mono; [| |exact E]; auto. apply (a_le_apply cs str vs w PW PS true); auto.
  - eapply covp_mono; [| |exact F]; auto. apply (a_le_apply cs str vs w PW PS false); auto.
Qed.

Lemma apply_has cs str vs w :
  co_rows (w_out w) <> [] ->
  exists ch, v_array (apply_wr cs str vs w) (w_warm w) (co_idx (w_out w)) = Some ch /\
             length (co_rows (w_out w)) <= length ch.
Proof. intros N. rewrite v_array_apply. rewrite eqb_reflx. apply store_has; auto. Qed.

Lemma v_buf_emit async cs str vs w : v_buf (emit async cs str vs w) = v_buf vs.
Proof. unfold emit. destruct async; [reflexivity | apply v_buf_apply]. Qed.

(* coverage gained by a new write *)
Definition gains (cs : nat) (n n' : nat) (hit : bool) (idx len : nat) : Prop :=
  forall i j, j < cs -> i * cs + j < n' -> i * cs + j < n \/ (hit = true /\ i = idx /\ j < len).

Lemma gains_refl cs n hit idx len : gains cs n n hit idx len.
Proof. intros i j Hj Hn; auto. Qed.

Lemma SInv_emit async cs str lw vs PW PS curb curb' nW nS nW' nS' w :
  SInv cs lw vs PW PS curb nW nS ->
  cons cs (PP PW PS (w_warm w)) (co_idx (w_out w)) (co_rows (w_out w)) ->
  co_rows (w_out w) <> [] ->
  (w_warm w = lw -> co_idx (w_out w) < curb') -> (w_warm w <> lw -> lw = false) ->
  curb <= curb' ->
  ~ In (w_key w) (map w_key (v_pend vs)) ->
  gains cs nW nW' (w_warm w) (co_idx (w_out w)) (length (co_rows (w_out w))) ->
  gains cs nS nS' (negb (w_warm w)) (co_idx (w_out w)) (length (co_rows (w_out w))) ->
  SInv cs lw (emit async cs str vs w) PW PS curb' nW' nS'.
Proof.
  intros S Hc Hne Hb1 Hb2 Hle Hfresh Gw Gs. unfold emit. destruct async.
  - (* queued *)
    destruct S as [A B C D E F]. constructor; simpl; auto.
    + intros w' I. apply in_app_or in I. destruct I as [I|[<-|[]]]; auto.
    + rewrite map_app. simpl. apply NoDup_app_snoc; auto.
    + intros w' I. apply in_app_or in I. destruct I as [I|[<-|[]]]; auto.
      destruct (D w' I) as [D1 D2]. split; auto. intros Q. specialize (D1 Q). lia.
    + intros i j Hj Hn. destruct (Gw i j Hj Hn) as [Lt|(Hit & -> & Lj)].
      * eapply covered_mono; [apply a_le_refl| |apply E; auto]. intros; apply in_or_app; auto.
      * right. exists w. repeat split; auto. apply in_or_app; right; simpl; auto.
    + intros i j Hj Hn. destruct (Gs i j Hj Hn) as [Lt|(Hit & -> & Lj)].
      * eapply covered_mono; [apply a_le_refl| |apply F; auto]. intros; apply in_or_app; auto.
      * right. exists w. repeat split; auto. apply in_or_app; right; simpl; auto.
        destruct (w_warm w); simpl in Hit; congruence.
  - (* stored now *)
    pose proof (SInv_apply cs str lw vs PW PS curb nW nS w S Hc) as S'.
    destruct (apply_has cs str vs w Hne) as (ch & Ech & Lch).
    destruct S' as [A B C D E F]. constructor; auto.
    + intros w' I. destruct (D w' I) as [D1 D2]. split; auto. intros Q. specialize (D1 Q). lia.
    + intros i j Hj Hn. destruct (Gw i j Hj Hn) as [Lt|(Hit & -> & Lj)]; [apply E; auto|].
      left. exists ch. rewrite Hit in Ech. split; auto. lia.
    + intros i j Hj Hn. destruct (Gs i j Hj Hn) as [Lt|(Hit & -> & Lj)]; [apply F; auto|].
      left. exists ch. destruct (w_warm w); simpl in Hit; try discriminate. split; auto. lia.
Qed.

(* ---------------------------------------------------------------------------------------- *)
(* record_sample for one variable                                                             *)
(* ---------------------------------------------------------------------------------------- *)
Lemma key_fresh cs lw vs PW PS curb nW nS warm :
  SInv cs lw vs PW PS curb nW nS -> warm = lw \/ lw = true ->
  ~ In (warm, curb) (map w_key (v_pend vs)).
Proof.
  intros S Hw I. apply in_map_iff in I. destruct I as (w & K & I). unfold w_key in K. inversion K; subst.
  destruct (si_bound _ _ _ _ _ _ _ _ S w I) as [B1 B2].
  destruct Hw as [Hw|Hw].
  - specialize (B1 Hw). lia.
  - destruct (bool_dec (w_warm w) lw) as [Q|Q]; [specialize (B1 Q); lia|]. specialize (B2 Q). congruence.
Qed.

(* push in the phase the chain is in *)
Lemma Inv_push async cs str lw vs PW PS t :
  0 < cs -> Inv cs lw vs PW PS ->
  Inv cs lw (let (b2, oc) := sb_push cs (v_buf vs) t in emit_opt async cs str (set_buf vs b2) lw oc)
      (PW ++ if lw then [t] else []) (PS ++ if lw then [] else [t]).
Proof.
  intros Hcs (B & Hps & HS).
  assert (S1 := SInv_grow cs lw vs PW PS (if lw then [t] else []) (if lw then [] else [t]) _ _ _ HS).
  assert (EP : PP (PW ++ (if lw then [t] else [])) (PS ++ (if lw then [] else [t])) lw = PP PW PS lw ++ [t])
    by (destruct lw; reflexivity).
  unfold sb_push. unfold b_len at 1. simpl b_items. rewrite app_length. simpl length. rewrite Nat.add_1_r.
  pose proof (items_app cs _ _ t B) as IA. destruct B as (L & T & N).
  destruct (S (length (b_items (v_buf vs))) =? cs) eqn:F.
  - (* the chunk is full *)
    apply Nat.eqb_eq in F. unfold sb_finish_chunk. simpl. unfold emit_opt.
    set (w := {| w_warm := lw; w_out := {| co_idx := b_cur (v_buf vs); co_rows := b_items (v_buf vs) ++ [t] |} |}).
    assert (Hc : cons cs (PP PW PS lw ++ [t]) (b_cur (v_buf vs)) (b_items (v_buf vs) ++ [t])).
    { split; [rewrite app_length; simpl; lia|]. intros j Hj. rewrite app_length in Hj. simpl in Hj.
      apply IA. unfold b_len. lia. }
    unfold Inv. rewrite v_buf_emit. simpl v_buf.
    split; [|split].
    + rewrite EP. unfold Bok, b_len; simpl. repeat split; try lia.
      rewrite app_length. simpl. unfold b_len in T. lia.
    + intros Q. rewrite (Hps Q). subst lw. reflexivity.
    + simpl. eapply (SInv_emit async cs str lw (set_buf vs _) _ _ (b_cur (v_buf vs)) (S (b_cur (v_buf vs)))
                       _ _ _ _ w); simpl.
      * apply SInv_set_buf. exact S1.
      * rewrite EP. exact Hc.
      * destruct (b_items (v_buf vs)); discriminate.
      * intros _. lia.
      * intros Q. congruence.
      * lia.
      * change (v_pend (set_buf vs {| b_items := []; b_cur := S (b_cur (v_buf vs)) |})) with (v_pend vs).
        apply (key_fresh cs lw vs PW PS _ _ _ lw HS). auto.
      * intros i j Hj Hn. destruct lw; [|left; rewrite app_nil_r in Hn; exact Hn].
        rewrite app_length. simpl length.
        assert (Hn' : i * cs + j < b_cur (v_buf vs) * cs + cs) by (simpl in Hn; lia).
        destruct (idx_split cs i j _ cs Hj (le_n _) Hn') as [H1|[H1 H2]]; auto. right. repeat split; auto. lia.
      * intros i j Hj Hn. destruct lw; [left; exact Hn|].
        rewrite app_length. simpl length.
        assert (Hn' : i * cs + j < b_cur (v_buf vs) * cs + cs) by (simpl in Hn; lia).
        destruct (idx_split cs i j _ cs Hj (le_n _) Hn') as [H1|[H1 H2]]; auto. right. repeat split; auto. lia.
  - (* not full *)
    apply Nat.eqb_neq in F. simpl. split; [|split].
    + rewrite EP. unfold Bok, b_len; simpl. rewrite !app_length. simpl. unfold b_len in *. repeat split; try lia.
      intros j Hj. apply IA. unfold b_len. lia.
    + intros Q. rewrite (Hps Q). subst lw. reflexivity.
    + simpl. apply SInv_set_buf. destruct lw.
      * rewrite app_nil_r. rewrite app_nil_r in S1. exact S1.
      * rewrite app_nil_r. rewrite app_nil_r in S1. exact S1.
Qed.

(* the warmup -> sample transition: buffer.reset(), the partial warmup chunk is written *)
Lemma Inv_transition async cs str vs PW :
  0 < cs -> Inv cs true vs PW [] ->
  Inv cs false (let (b1, oc) := sb_reset (v_buf vs) in emit_opt async cs str (set_buf vs b1) true oc) PW [].
Proof.
  intros Hcs (B & _ & HS). pose proof (Bok_cons _ _ _ B) as Hc. destruct B as (L & T & N).
  unfold sb_reset, b_len in *. simpl PP in *.
  assert (Sw : forall vs' curb nW, SInv cs true vs' PW [] curb nW 0 -> nW = length PW ->
                                   SInv cs false vs' PW [] 0 (length PW) 0).
  { intros vs' curb nW [A B C D E F] ->. constructor; auto.
    intros w I. destruct (D w I) as [D1 D2]. split.
    - intros Q. destruct (bool_dec (w_warm w) true) as [Q'|Q']; [congruence|]. specialize (D2 Q'). discriminate.
    - auto. }
  destruct (b_items (v_buf vs)) eqn:EI; simpl length in *.
  - (* empty buffer *)
    simpl. unfold Inv. simpl. split; [|split].
    + unfold Bok, b_len; simpl. repeat split; auto; try (intros j Hj; simpl in Hj; lia).
    + discriminate.
    + eapply Sw; [apply SInv_set_buf; exact HS|]. lia.
  - (* partial chunk *)
    unfold sb_finish_chunk. simpl. unfold Inv. rewrite v_buf_emit. simpl. split; [|split].
    + unfold Bok, b_len; simpl. repeat split; auto; try (intros j Hj; simpl in Hj; lia).
    + discriminate.
    + rewrite <- EI in *. eapply Sw; [|reflexivity].
      eapply (SInv_emit async cs str true (set_buf vs _) PW [] (b_cur (v_buf vs)) (S (b_cur (v_buf vs)))
                        _ _ _ 0 {| w_warm := true; w_out := {| co_idx := b_cur (v_buf vs); co_rows := b_items (v_buf vs) |} |}); simpl.
      * apply SInv_set_buf. exact HS.
      * exact Hc.
      * rewrite EI; discriminate.
      * intros _; lia.
      * congruence.
      * lia.
      * apply (key_fresh cs true vs PW [] _ _ _ true HS). auto.
      * intros i j Hj Hn. rewrite T in Hn.
        destruct (idx_split cs i j _ _ Hj (Nat.lt_le_incl _ _ L) Hn) as [H1|[H1 H2]]; [left; auto|].
        right; repeat split; auto. rewrite EI; simpl; lia.
      * apply gains_refl.
Qed.

(* record_sample, one variable; the tuning flags are of the form warmup^a sample^b *)
Lemma Inv_record async cs str lw vs PW PS tuning val :
  0 < cs -> Inv cs lw vs PW PS -> (tuning = true -> lw = true) ->
  let first := lw && negb tuning in
  Inv cs (if first then false else lw) (v_record async cs str first tuning vs val)
      (PW ++ match val with Some t => if tuning then [t] else [] | None => [] end)
      (PS ++ match val with Some t => if tuning then [] else [t] | None => [] end).
Proof.
  intros Hcs I Ht. simpl. unfold v_record.
  destruct lw, tuning; simpl; try (specialize (Ht eq_refl); discriminate).
  - (* warmup record *)
    destruct val as [t|]; [apply (Inv_push async cs str true vs PW PS t Hcs I)|].
    rewrite !app_nil_r; auto.
  - (* first sample record *)
    assert (PS = []) as -> by (destruct I as (_ & H & _); auto).
    pose proof (Inv_transition async cs str vs PW Hcs I) as I1.
    destruct (sb_reset (v_buf vs)) as [b1 oc]. 
    destruct val as [t|]; [|rewrite !app_nil_r; auto].
    apply (Inv_push async cs str false _ PW [] t Hcs I1).
  - (* later sample record *)
    destruct val as [t|]; [apply (Inv_push async cs str false vs PW PS t Hcs I)|].
    rewrite !app_nil_r; auto.
Qed.

(* a pending write completes *)
Lemma NoDup_remove_nth {A B} (f : A -> B) i (l : list A) : NoDup (map f l) -> NoDup (map f (remove_nth i l)).
Proof.
  revert i. induction l; intros i H; destruct i; simpl in *; auto; inversion H; subst; auto.
  constructor; auto. intros I. apply H2. apply in_map_iff in I. destruct I as (x & E & I).
  apply in_map_iff. exists x; split; auto. eapply In_remove_nth; eauto.
Qed.

Lemma Inv_complete cs str lw vs PW PS i :
  Inv cs lw vs PW PS -> Inv cs lw (v_complete cs str i vs) PW PS.
Proof.
  intros (B & Hps & HS). unfold v_complete. destruct (nth_error (v_pend vs) i) as [w|] eqn:E; [|exact (conj B (conj Hps HS))].
  pose proof (nth_error_In _ _ E) as Iw.
  destruct (si_cp _ _ _ _ _ _ _ _ HS w Iw) as [Hc Hne].
  pose proof (SInv_apply cs str lw vs PW PS _ _ _ w HS Hc) as S1.
  destruct (apply_has cs str vs w Hne) as (ch & Ech & Lch).
  unfold Inv. simpl. rewrite v_buf_apply. split; [|split]; auto.
  destruct S1 as [A Bp C D Ew Es]. rewrite v_pend_apply in *.
  assert (Cv : forall warm idx j, covered (v_array (apply_wr cs str vs w) warm) (v_pend vs) warm idx j ->
                                  covered (v_array (apply_wr cs str vs w) warm) (remove_nth i (v_pend vs)) warm idx j).
  { intros warm idx j [H|(w' & I' & W' & X' & L')]; [left; auto|].
    destruct (In_split_nth i _ w w' E I') as [->|I2].
    - left. subst. exists ch. split; auto. lia.
    - right. exists w'; auto. }
  constructor; simpl; auto.
  - intros w' I'. apply Bp. eapply In_remove_nth; eauto.
  - apply NoDup_remove_nth; auto.
  - intros w' I'. apply D. eapply In_remove_nth; eauto.
  - intros idx j Hj Hn. apply (Cv true). apply Ew; auto.
  - intros idx j Hj Hn. apply (Cv false). apply Es; auto.
Qed.

(* joining: every pending write completes, in any order *)
Lemma join_fold cs str lw PW PS L : forall vs curb nW nS,
  SInv cs lw vs PW PS curb nW nS -> (forall w, In w L -> In w (v_pend vs)) ->
  let vs2 := fold_left (apply_wr cs str) L vs in
  SInv cs lw vs2 PW PS curb nW nS /\ v_pend vs2 = v_pend vs /\ v_buf vs2 = v_buf vs /\
  (forall warm, a_le (v_array vs warm) (v_array vs2 warm)) /\
  (forall w, In w L -> exists ch, v_array vs2 (w_warm w) (co_idx (w_out w)) = Some ch /\
                                  length (co_rows (w_out w)) <= length ch).
Proof.
  induction L as [|w L IH]; intros vs curb nW nS HS Hin; simpl.
  - split; [auto|split; [auto|split; [auto|split]]]. + intros; apply a_le_refl. + intros w [].
  - assert (Iw : In w (v_pend vs)) by (apply Hin; simpl; auto).
    destruct (si_cp _ _ _ _ _ _ _ _ HS w Iw) as [Hc Hne].
    pose proof (SInv_apply cs str lw vs PW PS _ _ _ w HS Hc) as S1.
    destruct (IH (apply_wr cs str vs w) curb nW nS S1) as (S2 & P2 & B2 & Le2 & Has2).
    { intros w' I'. rewrite v_pend_apply. apply Hin; simpl; auto. }
    split; [auto|split; [|split; [|split]]].
    + rewrite P2. apply v_pend_apply.
    + rewrite B2. apply v_buf_apply.
    + intros warm. eapply a_le_trans; [|apply Le2]. apply (a_le_apply cs str vs w PW PS warm). apply (si_c _ _ _ _ _ _ _ _ HS).
    + intros w' [<-|I']; auto.
      destruct (apply_has cs str vs w Hne) as (ch & Ech & Lch).
      destruct (Le2 (w_warm w) _ _ Ech) as (ch' & E' & L'). exists ch'; split; auto; lia.
Qed.

Definition is_perm (ord : list wr -> list wr) : Prop := forall l, Permutation (ord l) l.

Lemma covp_nil_scov cs a warm n : covp cs a [] warm n -> scov cs a n.
Proof. intros H idx j Hj Hn. destruct (H idx j Hj Hn) as [X|(w & [] & _)]; auto. Qed.

Lemma Inv_join cs str ord lw vs PW PS :
  is_perm ord -> Inv cs lw vs PW PS ->
  let vs2 := v_join cs str ord vs in
  Inv cs lw vs2 PW PS /\ v_pend vs2 = [] /\ v_buf vs2 = v_buf vs /\
  (forall warm, a_le (v_array vs warm) (v_array vs2 warm)).
Proof.
  intros Hp (B & Hps & HS). unfold v_join.
  destruct (join_fold cs str lw PW PS (ord (v_pend vs)) vs _ _ _ HS) as (S2 & P2 & B2 & Le2 & Has2).
  { intros w I. eapply Permutation_in; [apply Hp|]; auto. }
  set (vf := fold_left (apply_wr cs str) (ord (v_pend vs)) vs) in *.
  assert (HI : Inv cs lw (set_pend vf []) PW PS).
  { unfold Inv. simpl v_buf. rewrite B2. split; [exact B|split; [exact Hps|]].
    destruct S2 as [A Bp C D Ew Es].
    assert (Cv : forall warm idx j, covered (v_array vf warm) (v_pend vs) warm idx j ->
                                    covered (v_array vf warm) [] warm idx j).
    { intros warm idx j [H|(w' & I' & W' & X' & L')]; [left; auto|]. left.
      destruct (Has2 w') as (ch & Ech & Lch).
      { eapply Permutation_in; [apply Permutation_sym; apply Hp|]; auto. }
      subst. exists ch; split; auto. lia. }
    rewrite P2 in *. constructor; simpl; auto.
    + intros w [].
    + constructor.
    + intros w [].
    + intros idx j Hj Hn. apply (Cv true). apply Ew; auto.
    + intros idx j Hj Hn. apply (Cv false). apply Es; auto. }
  split; [exact HI|]. simpl. split; [reflexivity|split; [exact B2|exact Le2]].
Qed.

(* ---------------------------------------------------------------------------------------- *)
(* flush and finalize, one variable                                                           *)
(* ---------------------------------------------------------------------------------------- *)
Definition Stored (cs : nat) (vs : vstate) (PW PS : list token) : Prop :=
  v_pend vs = [] /\ scov cs (v_warm vs) (length PW) /\ scov cs (v_samp vs) (length PS).

Lemma Inv_SInv cs lw vs PW PS : Inv cs lw vs PW PS -> forall warm, acons cs (PP PW PS warm) (v_array vs warm).
Proof. intros (_ & _ & HS). apply (si_c _ _ _ _ _ _ _ _ HS). Qed.

Lemma Inv_flush cs str ord lw vs PW PS :
  0 < cs -> is_perm ord -> Inv cs lw vs PW PS ->
  let vs' := v_flush cs str ord lw vs in
  Inv cs lw vs' PW PS /\ Stored cs vs' PW PS /\ v_buf vs' = v_buf vs /\
  (forall warm, a_le (v_array vs warm) (v_array vs' warm)).
Proof.
  intros Hcs Hp I. unfold v_flush.
  set (vs1 := match sb_copy_as_chunk (v_buf vs) with
              | Some c => apply_wr cs str vs {| w_warm := lw; w_out := c |}
              | None => vs end).
  assert (A : Inv cs lw vs1 PW PS /\ v_buf vs1 = v_buf vs /\
              (forall warm, a_le (v_array vs warm) (v_array vs1 warm)) /\
              (forall j, j < b_len (v_buf vs) ->
                         exists ch, v_array vs1 lw (b_cur (v_buf vs)) = Some ch /\ j < length ch)).
  { destruct I as (B & Hps & HS). pose proof (Bok_cons _ _ _ B) as Hc.
    unfold vs1, sb_copy_as_chunk, b_len. destruct (b_items (v_buf vs)) eqn:EI; simpl length.
    - split; [exact (conj B (conj Hps HS))|]. split; auto. split; [intros; apply a_le_refl|]. intros j Hj; lia.
    - rewrite <- EI in *.
      set (w := {| w_warm := lw; w_out := {| co_idx := b_cur (v_buf vs); co_rows := b_items (v_buf vs) |} |}).
      assert (Hne : co_rows (w_out w) <> []) by (simpl; rewrite EI; discriminate).
      split; [|split; [apply v_buf_apply|split]].
      + unfold Inv. rewrite v_buf_apply. split; [exact B|split; [exact Hps|]].
        apply SInv_apply; auto.
      + intros warm. apply (a_le_apply cs str vs w PW PS warm). apply (si_c _ _ _ _ _ _ _ _ HS).
      + intros j Hj. destruct (apply_has cs str vs w Hne) as (ch & Ech & Lch). simpl in Ech, Lch.
        exists ch; split; auto. rewrite EI in Lch. simpl in Lch. lia. }
  destruct A as (I1 & B1 & Le1 & Has1).
  destruct (Inv_join cs str ord lw vs1 PW PS Hp I1) as (I2 & P2 & B2 & Le2).
  set (vs2 := v_join cs str ord vs1) in *.
  split; [exact I2|]. split; [|split; [congruence|intros warm; eapply a_le_trans; eauto]].
  destruct I2 as (B & Hps & HS). rewrite B2, B1 in *.
  destruct HS as [A Bp C D Ew Es]. rewrite P2 in *.
  apply covp_nil_scov in Ew. apply covp_nil_scov in Es.
  destruct B as (L & T & N).
  assert (Ext : scov cs (v_array vs2 lw) (length (PP PW PS lw))).
  { intros idx j Hj Hn. rewrite T in Hn.
    destruct (idx_split cs idx j _ _ Hj (Nat.lt_le_incl _ _ L) Hn) as [H1|[-> H2]].
    - destruct lw; simpl; [apply Ew|apply Es]; auto.
    - destruct (Has1 j H2) as (ch & Ech & Lch). destruct (Le2 lw _ _ Ech) as (ch' & E' & L').
      exists ch'; split; auto; lia. }
  split; [exact P2|]. destruct lw; simpl in *.
  - split; [exact Ext|]. rewrite (Hps eq_refl). intros idx j Hj Hn; simpl in Hn; lia.
  - split; [exact Ew|exact Ext].
Qed.

Lemma apply_set_buf cs str vs b w : apply_wr cs str (set_buf vs b) w = set_buf (apply_wr cs str vs w) b.
Proof. unfold apply_wr, set_buf. destruct (w_warm w); reflexivity. Qed.

Lemma fold_set_buf cs str L : forall vs b,
  fold_left (apply_wr cs str) L (set_buf vs b) = set_buf (fold_left (apply_wr cs str) L vs) b.
Proof. induction L; intros; simpl; auto. rewrite apply_set_buf. apply IHL. Qed.

(* finalize stores exactly what flush stores; only the buffer differs *)
Lemma finalize_as_flush cs str ord lw vs :
  v_finalize cs str ord lw vs = set_buf (v_flush cs str ord lw vs) (fst (sb_reset (v_buf vs))).
Proof.
  unfold v_finalize, v_flush, sb_reset, sb_copy_as_chunk, b_len.
  destruct (b_items (v_buf vs)) eqn:EI; simpl.
  - unfold v_join. simpl. rewrite fold_set_buf. reflexivity.
  - unfold v_join. rewrite apply_set_buf. simpl. rewrite ?EI. rewrite !v_pend_apply. rewrite fold_set_buf. reflexivity.
Qed.

Lemma finalize_post cs str ord lw vs PW PS :
  0 < cs -> is_perm ord -> Inv cs lw vs PW PS ->
  let vs' := v_finalize cs str ord lw vs in
  Stored cs vs' PW PS /\ (forall warm, acons cs (PP PW PS warm) (v_array vs' warm)) /\
  (forall warm, a_le (v_array vs warm) (v_array vs' warm)).
Proof.
  intros Hcs Hp I. simpl. rewrite finalize_as_flush.
  destruct (Inv_flush cs str ord lw vs PW PS Hcs Hp I) as (I2 & St & _ & Le).
  split; [exact St|]. split; [|exact Le]. apply (Inv_SInv _ _ _ _ _ I2).
Qed.

(* ---------------------------------------------------------------------------------------- *)
(* histories of one variable                                                                  *)
(* ---------------------------------------------------------------------------------------- *)
Inductive vop := VRec (tuning : bool) (val : option token) | VFlush | VComplete (i : nat) | VNop.

Definition v_step (async : bool) (cs : nat) (str : bool) (ord : list wr -> list wr)
           (p : vstate * bool) (o : vop) : vstate * bool :=
  match o with
  | VRec tuning val => let first := snd p && negb tuning in
                       (v_record async cs str first tuning (fst p) val, if first then false else snd p)
  | VFlush => (v_flush cs str ord (snd p) (fst p), snd p)
  | VComplete i => (v_complete cs str i (fst p), snd p)
  | VNop => p
  end.

Definition vpush (warm : bool) (o : vop) : list token :=
  match o with
  | VRec tuning (Some x) => if Bool.eqb tuning warm then [x] else []
  | _ => []
  end.
Fixpoint vpushed (warm : bool) (ops : list vop) : list token :=
  match ops with [] => [] | o :: t => vpush warm o ++ vpushed warm t end.

Fixpoint vphases_ok (seen_sample : bool) (ops : list vop) : bool :=
  match ops with
  | [] => true
  | VRec tuning _ :: t => if tuning then negb seen_sample && vphases_ok false t else vphases_ok true t
  | _ :: t => vphases_ok seen_sample t
  end.

Lemma a_le_emit_opt async cs str vs PW PS wm oc warm :
  (forall x, acons cs (PP PW PS x) (v_array vs x)) ->
  a_le (v_array vs warm) (v_array (emit_opt async cs str vs wm oc) warm).
Proof.
  intros Hc. unfold emit_opt. destruct oc; [|apply a_le_refl]. unfold emit. destruct async; [apply a_le_refl|].
  eapply a_le_apply; eauto.
Qed.

Lemma a_le_record async cs str lw vs PW PS tuning val :
  0 < cs -> Inv cs lw vs PW PS -> (tuning = true -> lw = true) ->
  forall warm, a_le (v_array vs warm) (v_array (v_record async cs str (lw && negb tuning) tuning vs val) warm).
Proof.
  intros Hcs I Ht warm. pose proof (Inv_SInv _ _ _ _ _ I) as Hc. unfold v_record.
  assert (Push : forall vs0 P1 P2 tn, (forall x, acons cs (PP P1 P2 x) (v_array vs0 x)) ->
            a_le (v_array vs0 warm)
                 (v_array (match val with
                           | None => vs0
                           | Some t => let (b2, oc) := sb_push cs (v_buf vs0) t in
                                       emit_opt async cs str (set_buf vs0 b2) tn oc end) warm)).
  { intros vs0 P1 P2 tn H0. destruct val as [t|]; [|apply a_le_refl].
    destruct (sb_push cs (v_buf vs0) t) as [b2 oc].
    apply (a_le_emit_opt async cs str (set_buf vs0 b2) P1 P2 tn oc warm). exact H0. }
  destruct lw, tuning; simpl; try (specialize (Ht eq_refl); discriminate).
  - eapply Push; eauto.
  - assert (PS = []) as -> by (destruct I as (_ & H & _); auto).
    pose proof (Inv_transition async cs str vs PW Hcs I) as I1.
    destruct (sb_reset (v_buf vs)) as [b1 oc].
    eapply a_le_trans; [apply (a_le_emit_opt async cs str (set_buf vs b1) PW [] true oc warm); exact Hc|].
    eapply Push. apply (Inv_SInv _ _ _ _ _ I1).
  - eapply Push; eauto.
Qed.

Lemma a_le_complete cs str lw vs PW PS i :
  Inv cs lw vs PW PS -> forall warm, a_le (v_array vs warm) (v_array (v_complete cs str i vs) warm).
Proof.
  intros I warm. unfold v_complete. destruct (nth_error (v_pend vs) i); [|apply a_le_refl].
  change (v_array (set_pend (apply_wr cs str vs w) (remove_nth i (v_pend vs))) warm)
    with (v_array (apply_wr cs str vs w) warm).
  eapply a_le_apply. apply (Inv_SInv _ _ _ _ _ I).
Qed.

Section VarRun.
  Variable async : bool.
  Variable cs : nat.
  Variable str : bool.
  Variable ord : list wr -> list wr.
  Hypothesis Hcs : 0 < cs.
  Hypothesis Hord : is_perm ord.

  Lemma Inv_step lw vs PW PS o rest :
    Inv cs lw vs PW PS -> vphases_ok (negb lw) (o :: rest) = true ->
    let p := v_step async cs str ord (vs, lw) o in
    Inv cs (snd p) (fst p) (PW ++ vpush true o) (PS ++ vpush false o) /\
    vphases_ok (negb (snd p)) rest = true /\
    (forall warm, a_le (v_array vs warm) (v_array (fst p) warm)).
  Proof.
    intros I Hph. destruct o as [tuning val| |i|]; simpl in *.
    - assert (Ht : tuning = true -> lw = true).
      { intros ->. apply andb_prop in Hph. destruct Hph as [H _]. destruct lw; auto. }
      split; [|split].
      + pose proof (Inv_record async cs str lw vs PW PS tuning val Hcs I Ht) as H. simpl in H.
        destruct val as [t|]; destruct tuning; simpl in *; exact H.
      + destruct tuning; simpl.
        * apply andb_prop in Hph. destruct Hph as [_ H]. rewrite andb_false_r. rewrite (Ht eq_refl). exact H.
        * rewrite andb_true_r. destruct lw; simpl; exact Hph.
      + apply (a_le_record async cs str lw vs PW PS tuning val Hcs I Ht).
    - destruct (Inv_flush cs str ord lw vs PW PS Hcs Hord I) as (I2 & _ & _ & Le).
      rewrite !app_nil_r. auto.
    - rewrite !app_nil_r. split; [apply Inv_complete; auto|]. split; auto.
      apply (a_le_complete cs str lw vs PW PS i I).
    - rewrite !app_nil_r. split; auto. split; auto. intros; apply a_le_refl.
  Qed.

  Lemma Inv_run ops : forall lw vs PW PS,
    Inv cs lw vs PW PS -> vphases_ok (negb lw) ops = true ->
    let p := fold_left (v_step async cs str ord) ops (vs, lw) in
    Inv cs (snd p) (fst p) (PW ++ vpushed true ops) (PS ++ vpushed false ops) /\
    (forall warm, a_le (v_array vs warm) (v_array (fst p) warm)).
  Proof.
    induction ops as [|o rest IH]; intros lw vs PW PS I Hph; simpl.
    - rewrite !app_nil_r. split; auto. intros; apply a_le_refl.
    - destruct (Inv_step lw vs PW PS o rest I Hph) as (I1 & Hph1 & Le1).
      destruct (v_step async cs str ord (vs, lw) o) as [vs1 lw1] eqn:E. simpl in *.
      destruct (IH lw1 vs1 _ _ I1 Hph1) as (I2 & Le2).
      rewrite <- !app_assoc in I2. split; auto. intros warm. eapply a_le_trans; eauto.
  Qed.

  Lemma Inv_init : Inv cs true v_init [] [].
  Proof.
    split; [apply Bok_new; auto|]. split; auto. constructor; simpl; auto.
    - intros warm. destruct warm; apply acons_empty.
    - intros w [].
    - constructor.
    - intros w [].
    - intros idx j Hj Hn; simpl in Hn; lia.
    - intros idx j Hj Hn; lia.
  Qed.

  Definition v_run (ops : list vop) : vstate * bool := fold_left (v_step async cs str ord) ops (v_init, true).

  Lemma run_Inv ops :
    vphases_ok false ops = true ->
    Inv cs (snd (v_run ops)) (fst (v_run ops)) (vpushed true ops) (vpushed false ops).
  Proof. intros H. apply (Inv_run ops true v_init [] [] Inv_init H). Qed.

  (* after flush, a reader sees every row pushed so far *)
  Lemma v_flush_complete ops fill shape warm i :
    vphases_ok false ops = true ->
    i < length (vpushed warm ops) -> i < shape ->
    read_row cs fill (v_array (v_flush cs str ord (snd (v_run ops)) (fst (v_run ops))) warm) shape i =
    nth_error (vpushed warm ops) i.
  Proof.
    intros Hph Hi Hs. pose proof (run_Inv ops Hph) as I.
    destruct (Inv_flush cs str ord _ _ _ _ Hcs Hord I) as (I2 & (_ & Sw & Ss) & _ & _).
    pose proof (Inv_SInv _ _ _ _ _ I2 warm) as Hc.
    destruct warm; simpl in *; eapply read_correct; eauto.
  Qed.

  Lemma vphases_app rest : forall ops b (q : vstate * bool), b = negb (snd q) ->
    vphases_ok b (ops ++ rest) = true ->
    vphases_ok b ops = true /\
    vphases_ok (negb (snd (fold_left (v_step async cs str ord) ops q))) rest = true.
  Proof.
    induction ops as [|o t IH]; intros b q Hb H; simpl in *.
    - subst; auto.
    - destruct o as [tuning val| |k|]; simpl in *; try (apply IH; auto).
      destruct tuning.
      + apply andb_prop in H. destruct H as [H1 H2]. rewrite H1. simpl.
        apply IH; auto. simpl. subst b. destruct (snd q); simpl in *; auto; discriminate.
      + apply IH; auto. simpl. rewrite andb_true_r. destruct (snd q); auto.
  Qed.

  (* whatever happens after a flush (records, flushes, completions, finalize): the rows that were
     pushed before the flush stay readable and unchanged *)
  Lemma v_flush_stable ops1 ops2 fill shape warm i (fin : bool) :
    vphases_ok false (ops1 ++ VFlush :: ops2) = true ->
    i < length (vpushed warm ops1) -> i < shape ->
    let p := v_run (ops1 ++ VFlush :: ops2) in
    let vs := if fin then v_finalize cs str ord (snd p) (fst p) else fst p in
    read_row cs fill (v_array vs warm) shape i = nth_error (vpushed warm ops1) i.
  Proof.
    intros Hph Hi Hs. cbv zeta.
    destruct (vphases_app (VFlush :: ops2) ops1 false (v_init, true) eq_refl Hph) as (Hph1 & Hph2).
    pose proof (run_Inv ops1 Hph1) as I1.
    unfold v_run in *. rewrite fold_left_app. simpl fold_left.
    set (q1 := fold_left (v_step async cs str ord) ops1 (v_init, true)) in *.
    destruct (Inv_flush cs str ord _ _ _ _ Hcs Hord I1) as (I2 & (_ & Sw & Ss) & _ & _).
    simpl in Hph2.
    pose proof (Inv_run ops2 (snd q1) (v_flush cs str ord (snd q1) (fst q1)) _ _ I2 Hph2) as (I3 & Le3).
    change (v_step async cs str ord q1 VFlush) with (v_flush cs str ord (snd q1) (fst q1), snd q1).
    set (q3 := fold_left (v_step async cs str ord) ops2 (v_flush cs str ord (snd q1) (fst q1), snd q1)) in *.
    assert (Hpre : nth_error (PP (vpushed true ops1 ++ vpushed true ops2) (vpushed false ops1 ++ vpushed false ops2) warm) i
                   = nth_error (vpushed warm ops1) i).
    { destruct warm; simpl; apply nth_error_app1; auto. }
    assert (Hsc : scov cs (v_array (fst q3) warm) (length (vpushed warm ops1))).
    { eapply scov_le; [apply Le3|]. destruct warm; simpl; auto. }
    rewrite <- Hpre. destruct fin.
    - destruct (finalize_post cs str ord _ _ _ _ Hcs Hord I3) as (_ & Hc & Le4).
      apply read_correct with (n := length (vpushed warm ops1)); auto.
      eapply scov_le; [apply Le4|]. exact Hsc.
    - apply read_correct with (n := length (vpushed warm ops1)); auto. apply (Inv_SInv _ _ _ _ _ I3).
  Qed.

  (* the buffer invariant at every reachable state *)
  Lemma v_buffer_inv ops :
    vphases_ok false ops = true ->
    let p := v_run ops in
    sb_assert cs (v_buf (fst p)) = true /\
    sb_total_pushed cs (v_buf (fst p)) = length (vpushed (snd p) ops) /\
    (snd p = true -> vpushed false ops = []).
  Proof.
    intros Hph p. destruct (run_Inv ops Hph) as (B & Hps & _). fold p in B, Hps.
    split; [|split; auto].
    - destruct B as (L & _). unfold sb_assert. apply Nat.ltb_lt; auto.
    - rewrite (Bok_total _ _ _ B). destruct (snd p); reflexivity.
  Qed.

  (* pending writes address pairwise distinct chunks, all different from the chunk a flush writes *)
  Lemma v_pending_distinct ops :
    vphases_ok false ops = true ->
    let p := v_run ops in
    NoDup (map w_key (v_pend (fst p))) /\
    ~ In (snd p, b_cur (v_buf (fst p))) (map w_key (v_pend (fst p))).
  Proof.
    intros Hph p. destruct (run_Inv ops Hph) as (B & Hps & HS). fold p in B, Hps, HS.
    split; [apply (si_nodup _ _ _ _ _ _ _ _ HS)|].
    apply (key_fresh cs (snd p) (fst p) _ _ _ _ _ (snd p) HS). auto.
  Qed.
End VarRun.

(* ---------------------------------------------------------------------------------------- *)
(* the async writer: completion order does not matter, result = the sync writer's             *)
(* ---------------------------------------------------------------------------------------- *)
Definition aeq (a b : vstate) : Prop := forall warm i, v_array a warm i = v_array b warm i.

Lemma aeq_refl a : aeq a a. Proof. intros w i; auto. Qed.
Lemma aeq_sym a b : aeq a b -> aeq b a. Proof. intros H w i; auto. Qed.
Lemma aeq_trans a b c : aeq a b -> aeq b c -> aeq a c.
Proof. intros H1 H2 w i. rewrite H1; auto. Qed.

Definition new_rows (cs : nat) (str : bool) (rows old : chunk) : chunk :=
  if str then rows ++ skipn (length rows) old
  else if length rows =? cs then rows else rows ++ skipn (length rows) old.

Lemma store_at cs str a c i :
  store_zarr_chunk cs str a c i =
  match co_rows c with
  | [] => a i
  | _ :: _ => if i =? co_idx c then Some (new_rows cs str (co_rows c) (old_rows a (co_idx c))) else a i
  end.
Proof.
  unfold store_zarr_chunk, new_rows. destruct (co_rows c) eqn:R; auto. rewrite <- R.
  destruct str; [|destruct (length (co_rows c) =? cs)];
    unfold store_array_subset, store_chunk, store_chunk_subset, upd; reflexivity.
Qed.

Lemma store_ext cs str a a' c :
  (forall i, a i = a' i) -> forall i, store_zarr_chunk cs str a c i = store_zarr_chunk cs str a' c i.
Proof.
  intros H i. rewrite !store_at. unfold old_rows. rewrite (H (co_idx c)), (H i). reflexivity.
Qed.

Lemma store_comm cs str a c1 c2 :
  co_idx c1 <> co_idx c2 ->
  forall i, store_zarr_chunk cs str (store_zarr_chunk cs str a c1) c2 i =
            store_zarr_chunk cs str (store_zarr_chunk cs str a c2) c1 i.
Proof.
  intros N i. rewrite !store_at. unfold old_rows. rewrite !store_at.
  assert (E12 : co_idx c1 =? co_idx c2 = false) by (apply Nat.eqb_neq; auto).
  assert (E21 : co_idx c2 =? co_idx c1 = false) by (apply Nat.eqb_neq; auto).
  rewrite E12, E21.
  destruct (co_rows c1) eqn:R1, (co_rows c2) eqn:R2; auto.
  destruct (i =? co_idx c2) eqn:Q2, (i =? co_idx c1) eqn:Q1; auto.
  apply Nat.eqb_eq in Q1, Q2. congruence.
Qed.

Lemma apply_aeq cs str a b w : aeq a b -> aeq (apply_wr cs str a w) (apply_wr cs str b w).
Proof.
  intros H warm i. rewrite !v_array_apply. destruct (Bool.eqb (w_warm w) warm); auto.
  apply store_ext. apply H.
Qed.

Lemma fold_aeq cs str L : forall a b, aeq a b -> aeq (fold_left (apply_wr cs str) L a) (fold_left (apply_wr cs str) L b).
Proof. induction L; intros a0 b0 H; simpl; auto. apply IHL. apply apply_aeq; auto. Qed.

Lemma apply_comm cs str vs w1 w2 :
  w_key w1 <> w_key w2 ->
  aeq (apply_wr cs str (apply_wr cs str vs w1) w2) (apply_wr cs str (apply_wr cs str vs w2) w1).
Proof.
  intros N warm i. rewrite !v_array_apply.
  destruct (Bool.eqb (w_warm w2) warm) eqn:Q2, (Bool.eqb (w_warm w1) warm) eqn:Q1; auto.
  apply eqb_prop in Q1, Q2. apply store_comm. intros E. apply N. unfold w_key. congruence.
Qed.

Lemma apply_fold_comm cs str L : forall vs w,
  ~ In (w_key w) (map w_key L) ->
  aeq (fold_left (apply_wr cs str) L (apply_wr cs str vs w)) (apply_wr cs str (fold_left (apply_wr cs str) L vs) w).
Proof.
  induction L as [|x t IH]; intros vs w N; simpl; [apply aeq_refl|].
  eapply aeq_trans; [apply fold_aeq; apply apply_comm|apply IH].
  - intros E. apply N. simpl. auto.
  - intros I. apply N. simpl. auto.
Qed.

Lemma fold_perm_aeq cs str L L' :
  Permutation L L' -> NoDup (map w_key L) ->
  forall vs, aeq (fold_left (apply_wr cs str) L vs) (fold_left (apply_wr cs str) L' vs).
Proof.
  induction 1; intros ND vs; simpl.
  - apply aeq_refl.
  - apply IHPermutation. inversion ND; auto.
  - apply fold_aeq. apply apply_comm. simpl in ND. inversion ND; subst. intros E. apply H1. simpl. auto.
  - eapply aeq_trans; [apply IHPermutation1; auto|apply IHPermutation2].
    eapply Permutation_NoDup; [apply Permutation_map; eauto|auto].
Qed.

Lemma fold_set_pend cs str L : forall vs p,
  fold_left (apply_wr cs str) L (set_pend vs p) = set_pend (fold_left (apply_wr cs str) L vs) p.
Proof.
  induction L; intros; simpl; auto. rewrite <- IHL. f_equal. unfold apply_wr, set_pend. destruct (w_warm a); reflexivity.
Qed.

Lemma fold_buf cs str L : forall vs, v_buf (fold_left (apply_wr cs str) L vs) = v_buf vs.
Proof. induction L; intros; simpl; auto. rewrite IHL. apply v_buf_apply. Qed.

(* the store the queue will produce *)
Definition absv (cs : nat) (str : bool) (vs : vstate) : vstate := fold_left (apply_wr cs str) (v_pend vs) vs.

Definition Sim (cs : nat) (str : bool) (va vsy : vstate) : Prop :=
  v_buf va = v_buf vsy /\ v_pend vsy = [] /\ aeq (absv cs str va) vsy.

Lemma Sim_emit_opt cs str va vsy b wm oc :
  Sim cs str va vsy ->
  Sim cs str (emit_opt true cs str (set_buf va b) wm oc) (emit_opt false cs str (set_buf vsy b) wm oc).
Proof.
  intros (Hb & Hp & Ha). unfold emit_opt. destruct oc as [c|].
  - unfold emit. split; [|split].
    + simpl. rewrite v_buf_apply. reflexivity.
    + rewrite v_pend_apply. exact Hp.
    + unfold absv. simpl v_pend. rewrite fold_set_pend. rewrite fold_left_app. simpl fold_left.
      intros warm i. 
      change (v_array (set_pend (apply_wr cs str (fold_left (apply_wr cs str) (v_pend va) (set_buf va b))
                                  {| w_warm := wm; w_out := c |}) (v_pend va ++ [{| w_warm := wm; w_out := c |}])) warm i)
        with (v_array (apply_wr cs str (fold_left (apply_wr cs str) (v_pend va) (set_buf va b))
                                  {| w_warm := wm; w_out := c |}) warm i).
      apply apply_aeq. rewrite fold_set_buf. intros w2 i2. apply (Ha w2 i2).
  - split; [reflexivity|split; [exact Hp|]]. unfold absv. simpl v_pend. rewrite fold_set_buf.
    intros w2 i2. apply (Ha w2 i2).
Qed.

Lemma Sim_record cs str va vsy first tuning val :
  Sim cs str va vsy -> Sim cs str (v_record true cs str first tuning va val) (v_record false cs str first tuning vsy val).
Proof.
  intros S. unfold v_record.
  assert (S1 : Sim cs str
                 (if first then let (b1, oc) := sb_reset (v_buf va) in emit_opt true cs str (set_buf va b1) true oc else va)
                 (if first then let (b1, oc) := sb_reset (v_buf vsy) in emit_opt false cs str (set_buf vsy b1) true oc else vsy)).
  { destruct first; auto. destruct S as (Hb & Hp & Ha). rewrite <- Hb. destruct (sb_reset (v_buf va)) as [b1 oc].
    apply Sim_emit_opt. split; auto. }
  destruct val as [t|]; auto.
  destruct S1 as (Hb1 & Hp1 & Ha1). rewrite <- Hb1.
  match goal with |- Sim _ _ (let (b2, oc) := sb_push cs (v_buf ?X) t in _) _ => destruct (sb_push cs (v_buf X) t) as [b2 oc] end.
  apply Sim_emit_opt. split; auto.
Qed.

Lemma perm_nil_ord ord : is_perm ord -> ord [] = [].
Proof. intros H. apply Permutation_nil. apply Permutation_sym. apply H. Qed.

Lemma Sim_flush cs str ord1 ord2 lw va vsy PW PS :
  is_perm ord1 -> is_perm ord2 -> Inv cs lw va PW PS -> Sim cs str va vsy ->
  Sim cs str (v_flush cs str ord1 lw va) (v_flush cs str ord2 lw vsy).
Proof.
  intros H1 H2 I (Hb & Hp & Ha). destruct I as (B & Hps & HS).
  unfold v_flush. rewrite <- Hb.
  assert (G : forall (va1 vsy1 : vstate), v_pend va1 = v_pend va -> v_pend vsy1 = [] -> v_buf va1 = v_buf vsy1 ->
              aeq (fold_left (apply_wr cs str) (v_pend va) va1) vsy1 ->
              Sim cs str (v_join cs str ord1 va1) (v_join cs str ord2 vsy1)).
  { intros va1 vsy1 P1 P2 B1 A1. unfold v_join. rewrite P1, P2. rewrite (perm_nil_ord ord2 H2). simpl.
    split; [|split; auto].
    - simpl. rewrite fold_buf. exact B1.
    - unfold absv. simpl. intros warm i.
      change (v_array (set_pend (fold_left (apply_wr cs str) (ord1 (v_pend va)) va1) []) warm i)
        with (v_array (fold_left (apply_wr cs str) (ord1 (v_pend va)) va1) warm i).
      change (v_array (set_pend vsy1 []) warm i) with (v_array vsy1 warm i).
      rewrite <- (A1 warm i). apply fold_perm_aeq.
      + apply H1.
      + eapply Permutation_NoDup; [apply Permutation_map; apply Permutation_sym; apply H1|].
        apply (si_nodup _ _ _ _ _ _ _ _ HS). }
  destruct (sb_copy_as_chunk (v_buf va)) as [c|] eqn:EC.
  - apply G.
    + apply v_pend_apply.
    + rewrite v_pend_apply; auto.
    + rewrite !v_buf_apply; auto.
    + eapply aeq_trans; [apply apply_fold_comm|apply apply_aeq; exact Ha].
      unfold sb_copy_as_chunk in EC. destruct (b_len (v_buf va)); [discriminate|]. inversion EC; subst. simpl.
      apply (key_fresh cs lw va PW PS _ _ _ lw HS). auto.
  - apply G; auto.
Qed.

Lemma Sim_complete cs str lw va vsy PW PS i :
  Inv cs lw va PW PS -> Sim cs str va vsy -> Sim cs str (v_complete cs str i va) (v_complete cs str i vsy).
Proof.
  intros I (Hb & Hp & Ha). destruct I as (B & Hps & HS).
  unfold v_complete at 2. rewrite Hp. replace (nth_error (@nil wr) i) with (@None wr) by (destruct i; reflexivity).
  unfold v_complete. destruct (nth_error (v_pend va) i) as [w|] eqn:E; [|split; auto].
  split; [|split; auto].
  - simpl. rewrite v_buf_apply. exact Hb.
  - unfold absv. simpl v_pend. rewrite fold_set_pend. intros warm k.
    change (v_array (set_pend (fold_left (apply_wr cs str) (remove_nth i (v_pend va)) (apply_wr cs str va w))
                              (remove_nth i (v_pend va))) warm k)
      with (v_array (fold_left (apply_wr cs str) (w :: remove_nth i (v_pend va)) va) warm k).
    rewrite <- (Ha warm k). unfold absv. apply fold_perm_aeq.
    + apply perm_remove_nth; auto.
    + eapply Permutation_NoDup; [apply Permutation_map; apply Permutation_sym; apply perm_remove_nth; eauto|].
      apply (si_nodup _ _ _ _ _ _ _ _ HS).
Qed.

Lemma Sim_run cs str ord1 ord2 :
  0 < cs -> is_perm ord1 -> is_perm ord2 ->
  forall ops lw va vsy PW PS,
    Inv cs lw va PW PS -> vphases_ok (negb lw) ops = true -> Sim cs str va vsy ->
    let pa := fold_left (v_step true cs str ord1) ops (va, lw) in
    let ps := fold_left (v_step false cs str ord2) ops (vsy, lw) in
    Sim cs str (fst pa) (fst ps) /\ snd pa = snd ps /\
    exists PW' PS', Inv cs (snd pa) (fst pa) PW' PS'.
Proof.
  intros Hcs H1 H2. induction ops as [|o rest IH]; intros lw va vsy PW PS I Hph S; simpl.
  - split; auto. split; auto. eauto.
  - destruct (Inv_step true cs str ord1 Hcs H1 lw va PW PS o rest I Hph) as (I1 & Hph1 & _).
    assert (S1 : Sim cs str (fst (v_step true cs str ord1 (va, lw) o)) (fst (v_step false cs str ord2 (vsy, lw) o)) /\
                 snd (v_step true cs str ord1 (va, lw) o) = snd (v_step false cs str ord2 (vsy, lw) o)).
    { destruct o as [tuning val| |i|]; simpl; split; auto.
      - apply Sim_record; auto.
      - eapply Sim_flush; eauto.
      - eapply Sim_complete; eauto. }
    destruct S1 as (S1 & E1).
    destruct (v_step true cs str ord1 (va, lw) o) as [va1 lw1].
    destruct (v_step false cs str ord2 (vsy, lw) o) as [vsy1 lw1'].
    simpl in *. subst lw1'. eapply IH; eauto.
Qed.

Lemma Sim_init cs str : Sim cs str v_init v_init.
Proof. split; auto. split; auto. apply aeq_refl. Qed.

(* after flush: the async store (any completion orders) = the sync store *)
Lemma v_async_sync cs str ord1 ord2 ops :
  0 < cs -> is_perm ord1 -> is_perm ord2 -> vphases_ok false ops = true ->
  let pa := v_run true cs str ord1 ops in
  let ps := v_run false cs str ord2 ops in
  snd pa = snd ps /\
  aeq (v_flush cs str ord1 (snd pa) (fst pa)) (v_flush cs str ord2 (snd ps) (fst ps)).
Proof.
  intros Hcs H1 H2 Hph. simpl. unfold v_run.
  destruct (Sim_run cs str ord1 ord2 Hcs H1 H2 ops true v_init v_init [] [] (Inv_init cs Hcs) Hph (Sim_init cs str))
    as (S & E & PW' & PS' & I).
  split; auto. rewrite <- E.
  pose proof (Sim_flush cs str ord1 ord2 _ _ _ _ _ H1 H2 I S) as (_ & _ & A).
  unfold absv in A.
  assert (P : v_pend (v_flush cs str ord1 (snd (fold_left (v_step true cs str ord1) ops (v_init, true)))
                              (fst (fold_left (v_step true cs str ord1) ops (v_init, true)))) = []).
  { unfold v_flush, v_join. reflexivity. }
  rewrite P in A. exact A.
Qed.

(* ---------------------------------------------------------------------------------------- *)
(* chains: projection to one variable                                                         *)
(* ---------------------------------------------------------------------------------------- *)
Definition proj (v : nat) (o : op) : vop :=
  match o with
  | ORec t vals => VRec t (nth v vals None)
  | OFlush => VFlush
  | OComplete var i => if var =? v then VComplete i else VNop
  end.

Lemma pushed_proj v warm ops : pushed v warm ops = vpushed warm (map (proj v) ops).
Proof.
  induction ops as [|o t IH]; simpl; auto. destruct o as [tn vals| |var i]; simpl; auto.
  - rewrite IH. destruct (nth v vals None); auto. destruct (Bool.eqb tn warm); auto.
  - destruct (var =? v); simpl; auto.
Qed.

Lemma phases_proj v b ops : phases_ok b ops = vphases_ok b (map (proj v) ops).
Proof.
  revert b. induction ops as [|o t IH]; intros b; simpl; auto. destruct o as [tn vals| |var i]; simpl; auto.
  - destruct tn; rewrite IH; auto.
  - destruct (var =? v); simpl; auto.
Qed.

Lemma nth_error_map3 {A B C D} (f : A -> B -> C -> D) la lb lc v a b c :
  nth_error la v = Some a -> nth_error lb v = Some b -> nth_error lc v = Some c ->
  nth_error (map3 f la lb lc) v = Some (f a b c).
Proof.
  revert lb lc v. induction la as [|x ta IH]; intros lb lc v Ha Hb Hc; destruct v; simpl in *; try discriminate;
    destruct lb, lc; simpl in *; try discriminate.
  - inversion Ha; inversion Hb; inversion Hc; subst; auto.
  - eapply IH; eauto.
Qed.

Lemma length_map3 {A B C D} (f : A -> B -> C -> D) la lb lc :
  length lb = length la -> length lc = length la -> length (map3 f la lb lc) = length la.
Proof.
  revert lb lc. induction la; intros lb lc H1 H2; destruct lb, lc; simpl in *; try discriminate; auto.
Qed.

Lemma nth_error_map2 {A B C} (f : A -> B -> C) la lb v a b :
  nth_error la v = Some a -> nth_error lb v = Some b -> nth_error (map2 f la lb) v = Some (f a b).
Proof.
  revert lb v. induction la as [|x ta IH]; intros lb v Ha Hb; destruct v; simpl in *; try discriminate;
    destruct lb; simpl in *; try discriminate.
  - inversion Ha; inversion Hb; subst; auto.
  - eapply IH; eauto.
Qed.

Lemma length_map2 {A B C} (f : A -> B -> C) la lb : length lb = length la -> length (map2 f la lb) = length la.
Proof. revert lb. induction la; intros lb H; destruct lb; simpl in *; try discriminate; auto. Qed.

Lemma nth_error_map2_at {A B} (f : A -> B -> B) k la lb v a b :
  nth_error la v = Some a -> nth_error lb v = Some b ->
  nth_error (map2_at f k la lb) v = Some (if k =? v then f a b else b).
Proof.
  revert k lb v. induction la as [|x ta IH]; intros k lb v Ha Hb; destruct v; simpl in *; try discriminate;
    destruct lb; simpl in *; try discriminate.
  - inversion Ha; inversion Hb; subst. destruct k; auto.
  - destruct k; simpl; auto.
Qed.

Lemma length_map2_at {A B} (f : A -> B -> B) k la lb : length (map2_at f k la lb) = length lb.
Proof.
  revert k lb. induction la as [|a ta IH]; intros k lb; destruct lb as [|b tb], k; simpl; auto.
Qed.

Section ChainLift.
  Variable async : bool.
  Variable cs : nat.
  Variable metas : list vmeta.
  Variable ord : list wr -> list wr.
  Variable v : nat.
  Variable m : vmeta.
  Hypothesis Hm : nth_error metas v = Some m.

  Lemma c_step_proj s o vs :
    length (c_vars s) = length metas -> arity_ok (length metas) [o] = true ->
    nth_error (c_vars s) v = Some vs ->
    let s' := c_step async cs metas ord s o in
    let p := v_step async cs (m_string m) ord (vs, c_last_warm s) (proj v o) in
    nth_error (c_vars s') v = Some (fst p) /\ c_last_warm s' = snd p /\ length (c_vars s') = length metas.
  Proof.
    intros Hl Ha Hv. destruct o as [tn vals| |var i]; simpl in *.
    - rewrite andb_true_r in Ha. apply Nat.eqb_eq in Ha.
      assert (Hx : nth_error vals v = Some (nth v vals None)).
      { apply nth_error_nth'. rewrite Ha. apply nth_error_Some. congruence. }
      split; [|split; auto].
      + erewrite nth_error_map3; eauto.
      + apply length_map3; auto.
    - split; [|split; auto].
      + erewrite nth_error_map2; eauto.
      + apply length_map2; auto.
    - split; [|split].
      + rewrite (nth_error_map2_at _ var metas (c_vars s) v m vs Hm Hv). destruct (var =? v); reflexivity.
      + destruct (var =? v); reflexivity.
      + rewrite length_map2_at; auto.
  Qed.

  Lemma c_run_proj ops : forall s vs,
    length (c_vars s) = length metas -> arity_ok (length metas) ops = true ->
    nth_error (c_vars s) v = Some vs ->
    let s' := c_run async cs metas ord s ops in
    let p := fold_left (v_step async cs (m_string m) ord) (map (proj v) ops) (vs, c_last_warm s) in
    nth_error (c_vars s') v = Some (fst p) /\ c_last_warm s' = snd p /\ length (c_vars s') = length metas.
  Proof.
    induction ops as [|o t IH]; intros s vs Hl Ha Hv; simpl.
    - auto.
    - assert (Ha1 : arity_ok (length metas) [o] = true /\ arity_ok (length metas) t = true).
      { destruct o; simpl in *; auto. apply andb_prop in Ha. destruct Ha as [H1 H2]. rewrite H1; auto. }
      destruct Ha1 as [Ha1 Ha2].
      destruct (c_step_proj s o vs Hl Ha1 Hv) as (E1 & E2 & E3).
      destruct (IH (c_step async cs metas ord s o) _ E3 Ha2 E1) as (F1 & F2 & F3).
      unfold c_run in *. rewrite E2 in *.
      destruct (v_step async cs (m_string m) ord (vs, c_last_warm s) (proj v o)); simpl in *. auto.
  Qed.

  Lemma c_init_nth : nth_error (c_vars (c_init metas)) v = Some v_init.
  Proof.
    unfold c_init. simpl. rewrite nth_error_map. rewrite Hm. reflexivity.
  Qed.

  Lemma c_run_init ops :
    arity_ok (length metas) ops = true ->
    let s' := c_run async cs metas ord (c_init metas) ops in
    let p := v_run async cs (m_string m) ord (map (proj v) ops) in
    nth_error (c_vars s') v = Some (fst p) /\ c_last_warm s' = snd p /\ length (c_vars s') = length metas.
  Proof.
    intros Ha. apply (c_run_proj ops (c_init metas) v_init); auto.
    - unfold c_init; simpl. apply map_length.
    - apply c_init_nth.
  Qed.
End ChainLift.

(* ---------------------------------------------------------------------------------------- *)
(* chains: the theorems                                                                       *)
(* ---------------------------------------------------------------------------------------- *)
Lemma wf_split n ops : wf_ops n ops = true -> phases_ok false ops = true /\ arity_ok n ops = true.
Proof. intros H. apply andb_prop in H. exact H. Qed.

Lemma nth_error_lt {A} (l : list A) v : v < length l -> exists x, nth_error l v = Some x.
Proof. intros H. destruct (nth_error l v) eqn:E; eauto. apply nth_error_None in E. lia. Qed.

Lemma c_array_nth s v vs warm : nth_error (c_vars s) v = Some vs -> c_array s v warm = v_array vs warm.
Proof. intros H. unfold c_array. rewrite (nth_error_nth _ _ v_init H). reflexivity. Qed.

Lemma v_array_set_buf vs b warm : v_array (set_buf vs b) warm = v_array vs warm.
Proof. destruct warm; reflexivity. Qed.

Lemma map_proj_app v ops1 ops2 :
  map (proj v) (ops1 ++ OFlush :: ops2) = map (proj v) ops1 ++ VFlush :: map (proj v) ops2.
Proof. rewrite map_app. reflexivity. Qed.

Section ChainTheorems.
  Variable async : bool.
  Variable cs : nat.
  Variable metas : list vmeta.
  Variable ord : list wr -> list wr.
  Hypothesis Hcs : 0 < cs.
  Hypothesis Hord : is_perm ord.

  Notation run := (c_run async cs metas ord (c_init metas)).

  Theorem c_flush_complete ops v warm fill shape i :
    wf_ops (length metas) ops = true -> v < length metas ->
    i < length (pushed v warm ops) -> i < shape ->
    read_row cs fill (c_array (c_flush cs metas ord (run ops)) v warm) shape i = nth_error (pushed v warm ops) i.
  Proof.
    intros Hwf Hv Hi Hs. destruct (wf_split _ _ Hwf) as (Hph & Har).
    destruct (nth_error_lt metas v Hv) as (m & Hm).
    destruct (c_run_init async cs metas ord v m Hm ops Har) as (E1 & E2 & E3).
    rewrite (c_array_nth _ v (v_flush cs (m_string m) ord (c_last_warm (run ops))
                                       (fst (v_run async cs (m_string m) ord (map (proj v) ops))))).
    - rewrite E2. rewrite pushed_proj in *. apply v_flush_complete; auto. rewrite <- phases_proj; auto.
    - unfold c_flush. simpl. erewrite nth_error_map2; eauto.
  Qed.

  Theorem c_finalize_complete ops v warm fill shape i :
    wf_ops (length metas) ops = true -> v < length metas ->
    i < length (pushed v warm ops) -> i < shape ->
    read_row cs fill (c_array (fst (c_finalize cs metas ord (run ops))) v warm) shape i =
    nth_error (pushed v warm ops) i.
  Proof.
    intros Hwf Hv Hi Hs. destruct (wf_split _ _ Hwf) as (Hph & Har).
    destruct (nth_error_lt metas v Hv) as (m & Hm).
    destruct (c_run_init async cs metas ord v m Hm ops Har) as (E1 & E2 & E3).
    rewrite (c_array_nth _ v (v_finalize cs (m_string m) ord (c_last_warm (run ops))
                                          (fst (v_run async cs (m_string m) ord (map (proj v) ops))))).
    - rewrite finalize_as_flush. rewrite v_array_set_buf.
      rewrite E2. rewrite pushed_proj in *. apply v_flush_complete; auto. rewrite <- phases_proj; auto.
    - unfold c_finalize. simpl. erewrite nth_error_map2; eauto.
  Qed.

  Theorem c_flush_stable ops1 ops2 (fin : bool) v warm fill shape i :
    wf_ops (length metas) (ops1 ++ OFlush :: ops2) = true -> v < length metas ->
    i < length (pushed v warm ops1) -> i < shape ->
    let s := run (ops1 ++ OFlush :: ops2) in
    let s' := if fin then fst (c_finalize cs metas ord s) else s in
    read_row cs fill (c_array s' v warm) shape i = nth_error (pushed v warm ops1) i.
  Proof.
    intros Hwf Hv Hi Hs. cbv zeta. destruct (wf_split _ _ Hwf) as (Hph & Har).
    destruct (nth_error_lt metas v Hv) as (m & Hm).
    destruct (c_run_init async cs metas ord v m Hm _ Har) as (E1 & E2 & E3).
    rewrite (phases_proj v), map_proj_app in Hph. rewrite pushed_proj in *.
    pose proof (v_flush_stable async cs (m_string m) ord Hcs Hord (map (proj v) ops1) (map (proj v) ops2)
                               fill shape warm i fin Hph Hi Hs) as R.
    cbv zeta in R. rewrite <- map_proj_app in R. rewrite <- R.
    destruct fin.
    - rewrite (c_array_nth _ v (v_finalize cs (m_string m) ord (c_last_warm (run (ops1 ++ OFlush :: ops2)))
                                          (fst (v_run async cs (m_string m) ord (map (proj v) (ops1 ++ OFlush :: ops2)))))).
      + rewrite E2. reflexivity.
      + unfold c_finalize. simpl. erewrite nth_error_map2; eauto.
    - rewrite (c_array_nth _ v _ warm E1). reflexivity.
  Qed.

  Theorem c_buffer_inv ops v :
    wf_ops (length metas) ops = true -> v < length metas ->
    let s := run ops in
    let b := v_buf (nth v (c_vars s) v_init) in
    sb_assert cs b = true /\
    sb_total_pushed cs b = length (pushed v (c_last_warm s) ops) /\
    (c_last_warm s = true -> pushed v false ops = []).
  Proof.
    intros Hwf Hv. cbv zeta. destruct (wf_split _ _ Hwf) as (Hph & Har).
    destruct (nth_error_lt metas v Hv) as (m & Hm).
    destruct (c_run_init async cs metas ord v m Hm _ Har) as (E1 & E2 & E3).
    rewrite (nth_error_nth _ _ v_init E1). rewrite E2. rewrite !pushed_proj.
    apply v_buffer_inv; auto. rewrite <- phases_proj; auto.
  Qed.

  Theorem c_pending_distinct ops v :
    wf_ops (length metas) ops = true -> v < length metas ->
    let s := run ops in
    let vs := nth v (c_vars s) v_init in
    NoDup (map w_key (v_pend vs)) /\
    ~ In (c_last_warm s, b_cur (v_buf vs)) (map w_key (v_pend vs)).
  Proof.
    intros Hwf Hv. cbv zeta. destruct (wf_split _ _ Hwf) as (Hph & Har).
    destruct (nth_error_lt metas v Hv) as (m & Hm).
    destruct (c_run_init async cs metas ord v m Hm _ Har) as (E1 & E2 & E3).
    rewrite (nth_error_nth _ _ v_init E1). rewrite E2.
    apply v_pending_distinct; auto. rewrite <- phases_proj; auto.
  Qed.
End ChainTheorems.

Theorem c_async_sync cs metas ord1 ord2 ops v warm i :
  0 < cs -> is_perm ord1 -> is_perm ord2 ->
  wf_ops (length metas) ops = true -> v < length metas ->
  c_array (c_flush cs metas ord1 (c_run true cs metas ord1 (c_init metas) ops)) v warm i =
  c_array (c_flush cs metas ord2 (c_run false cs metas ord2 (c_init metas) ops)) v warm i.
Proof.
  intros Hcs H1 H2 Hwf Hv. destruct (wf_split _ _ Hwf) as (Hph & Har).
  destruct (nth_error_lt metas v Hv) as (m & Hm).
  destruct (c_run_init true cs metas ord1 v m Hm _ Har) as (E1 & E2 & E3).
  destruct (c_run_init false cs metas ord2 v m Hm _ Har) as (F1 & F2 & F3).
  rewrite (phases_proj v) in Hph.
  destruct (v_async_sync cs (m_string m) ord1 ord2 _ Hcs H1 H2 Hph) as (EL & A).
  rewrite (c_array_nth _ v (v_flush cs (m_string m) ord1 (c_last_warm (c_run true cs metas ord1 (c_init metas) ops))
                                     (fst (v_run true cs (m_string m) ord1 (map (proj v) ops))))).
  - rewrite (c_array_nth _ v (v_flush cs (m_string m) ord2 (c_last_warm (c_run false cs metas ord2 (c_init metas) ops))
                                       (fst (v_run false cs (m_string m) ord2 (map (proj v) ops))))).
    + rewrite E2, F2. apply A.
    + unfold c_flush. simpl. erewrite nth_error_map2; eauto.
  - unfold c_flush. simpl. erewrite nth_error_map2; eauto.
Qed.

(* sizes of the event arrays after the trace is finalized *)
Lemma dim_count_ge cs d : forall metas vars v m vs,
  nth_error metas v = Some m -> m_dim m = Some d -> nth_error vars v = Some vs ->
  sb_total_pushed cs (v_buf vs) <= dim_count cs metas vars d.
Proof.
  induction metas as [|m0 tm IH]; intros vars v m vs Hm Hd Hv; destruct v; simpl in *; try discriminate;
    destruct vars as [|vs0 tv]; simpl in *; try discriminate.
  - inversion Hm; inversion Hv; subst. unfold dim_count. simpl. unfold has_dim. rewrite Hd. rewrite Nat.eqb_refl.
    apply Nat.le_max_l.
  - unfold dim_count. simpl. eapply Nat.le_trans; [eapply IH; eauto|]. apply Nat.le_max_r.
Qed.

Lemma max_over_ge {A} (f : A -> nat) l c : In c l -> f c <= max_over f l.
Proof.
  induction l; intros H; simpl in *; [contradiction|]. destruct H as [->|H].
  - apply Nat.le_max_l.
  - eapply Nat.le_trans; [apply IHl; auto|apply Nat.le_max_r].
Qed.

Lemma vpushed_app warm a b : vpushed warm (a ++ b) = vpushed warm a ++ vpushed warm b.
Proof. induction a; simpl; auto. rewrite IHa, app_assoc; auto. Qed.

Section Shapes.
  Variable async : bool.
  Variable cs : nat.
  Variable metas : list vmeta.
  Variable ord : list wr -> list wr.
  Hypothesis Hcs : 0 < cs.
  Hypothesis Hord : is_perm ord.
  Notation run := (c_run async cs metas ord (c_init metas)).

  (* once sampling has started, the stored warmup count of a dimension bounds the warmup events
     of each of its statistics *)
  Lemma wcounts_ok ops : 
    wf_ops (length metas) ops = true ->
    c_last_warm (run ops) = false ->
    forall v m d, nth_error metas v = Some m -> m_dim m = Some d ->
                  length (pushed v true ops) <= c_wcounts (run ops) d.
  Proof.
    induction ops as [|o ops IH] using rev_ind; intros Hwf Hlw v m d Hm Hd.
    - simpl in Hlw. discriminate.
    - destruct (wf_split _ _ Hwf) as (Hph & Har).
      assert (Hv : v < length metas) by (apply nth_error_Some; congruence).
      (* the prefix is well formed *)
      assert (Har1 : arity_ok (length metas) ops = true /\ arity_ok (length metas) [o] = true).
      { clear - Har. induction ops as [|x t IHt]; simpl in *; auto.
        destruct x; auto. apply andb_prop in Har. destruct Har as [H1 H2]. rewrite H1. simpl. auto. }
      destruct Har1 as (Har1 & Haro).
      rewrite (phases_proj v), map_app in Hph.
      destruct (vphases_app async cs (m_string m) ord (map (proj v) [o]) (map (proj v) ops) false (v_init, true) eq_refl Hph)
        as (Hph1 & Hpho).
      assert (Hwf1 : wf_ops (length metas) ops = true).
      { unfold wf_ops. rewrite (phases_proj v), Hph1, Har1. reflexivity. }
      destruct (c_run_init async cs metas ord v m Hm ops Har1) as (E1 & E2 & E3).
      fold (v_run async cs (m_string m) ord (map (proj v) ops)) in Hpho. rewrite <- E2 in Hpho.
      unfold c_run in *. rewrite fold_left_app in *. simpl fold_left in *.
      set (s := fold_left (c_step async cs metas ord) ops (c_init metas)) in *.
      assert (Hpu : pushed v true (ops ++ [o]) = pushed v true ops ++ pushed v true [o]).
      { rewrite !pushed_proj, map_app. apply vpushed_app. }
      rewrite Hpu. destruct o as [tn vals| |var i]; simpl in *.
      + destruct tn; simpl in *.
        * (* a warmup record: the chain is still in warmup afterwards *)
          apply andb_prop in Hpho. destruct Hpho as [Hq _]. destruct (c_last_warm s); simpl in *; discriminate.
        * rewrite app_nil_r. rewrite andb_true_r in *. destruct (c_last_warm s) eqn:Elw.
          -- (* the transition *)
             destruct (c_buffer_inv async cs metas ord Hcs Hord ops v Hwf1 Hv) as (_ & Ht & _).
             fold s in Ht. unfold c_run in Ht. fold s in Ht. rewrite Elw in Ht. rewrite <- Ht.
             eapply Nat.le_trans; [|apply Nat.le_max_r].
             eapply dim_count_ge; eauto. rewrite (nth_error_nth _ _ v_init E1). exact E1.
          -- eapply IH; eauto.
      + rewrite app_nil_r. eapply IH; eauto.
      + rewrite app_nil_r. eapply IH; eauto.
  Qed.

  (* every array is large enough for what was pushed to it *)
  Theorem final_shape_covers ops n_tune n_draws v m d warm (counts : list (nat -> nat * nat)) :
    wf_ops (length metas) ops = true ->
    nth_error metas v = Some m -> m_dim m = Some d ->
    In (snd (c_finalize cs metas ord (run ops))) counts ->
    length (pushed v warm ops) <= shape_final n_tune n_draws m counts warm.
  Proof.
    intros Hwf Hm Hd Hin. unfold shape_final. rewrite Hd.
    destruct counts as [|c0 ct]; [contradiction|]. remember (c0 :: ct) as cl.
    eapply Nat.le_trans; [|apply (max_over_ge _ cl _ Hin)].
    assert (Hv : v < length metas) by (apply nth_error_Some; congruence).
    destruct (wf_split _ _ Hwf) as (Hph & Har).
    destruct (c_run_init async cs metas ord v m Hm ops Har) as (E1 & E2 & E3).
    destruct (c_buffer_inv async cs metas ord Hcs Hord ops v Hwf Hv) as (_ & Ht & Hs0).
    rewrite (nth_error_nth _ _ v_init E1) in Ht.
    pose proof (dim_count_ge cs d metas _ v m _ Hm Hd E1) as Hge.
    simpl. destruct (c_last_warm (run ops)) eqn:Elw; destruct warm; simpl.
    - rewrite <- Ht. exact Hge.
    - rewrite (Hs0 eq_refl). simpl. lia.
    - apply (wcounts_ok ops Hwf Elw v m d Hm Hd).
    - rewrite <- Ht. exact Hge.
  Qed.
End Shapes.

(* the two completion orders used by the executable checks *)
Lemma ord_rev_perm : forall l, Permutation (ord_rev l) l.
Proof. intros l. apply Permutation_sym. apply Permutation_rev. Qed.
Lemma ord_id_perm : forall l, Permutation (ord_id l) l.
Proof. intros l. apply Permutation_refl. Qed.
