(* Facts about the serde model (model/Serde.v): the JSON round trip for all well-formed type
   descriptions and all typed values, and its congruence corollary. *)
From Coq Require Import String List NArith ZArith Bool Lia.
From NutsV Require Import model.Serde.
Import ListNotations.
Local Open Scope string_scope.
Local Open Scope list_scope.

(* --------------------------------------------------------------------------------------------- *)
(* Induction principle for the nested inductive sty                                              *)
(* --------------------------------------------------------------------------------------------- *)
Section StyInd.
  Variable P : sty -> Prop.
  Hypothesis HS : forall fs, Forall (fun p => P (snd p)) fs -> P (SStruct fs).
  Hypothesis HE : forall vs,
      Forall (fun p => match snd p with Some t => P t | None => True end) vs -> P (SEnum vs).
  Hypothesis HO : forall t, P t -> P (SOpt t).
  Hypothesis HF : P SF64.
  Hypothesis HU : P SU64.
  Hypothesis HZ : P SUsize.
  Hypothesis HB : P SBool.

  Definition PE (p : string * option sty) : Prop :=
    match snd p with Some t => P t | None => True end.

  Fixpoint sty_ind' (t : sty) : P t :=
    match t with
    | SStruct fs =>
        HS fs ((fix go (fs : list (string * sty)) : Forall (fun p => P (snd p)) fs :=
                  match fs with
                  | [] => Forall_nil _
                  | (n, t') :: r =>
                      @Forall_cons _ (fun p => P (snd p)) (n, t') r (sty_ind' t') (go r)
                  end) fs)
    | SEnum vs =>
        HE vs ((fix go (vs : list (string * option sty)) : Forall PE vs :=
                  match vs with
                  | [] => Forall_nil _
                  | (n, Some t') :: r => @Forall_cons _ PE (n, Some t') r (sty_ind' t') (go r)
                  | (n, None) :: r => @Forall_cons _ PE (n, None) r I (go r)
                  end) vs)
    | SOpt t' => HO t' (sty_ind' t')
    | SF64 => HF
    | SU64 => HU
    | SUsize => HZ
    | SBool => HB
    end.
End StyInd.

(* --------------------------------------------------------------------------------------------- *)
(* Lists of names                                                                                *)
(* --------------------------------------------------------------------------------------------- *)
Lemma existsb_eqb_In : forall x l, existsb (String.eqb x) l = true <-> In x l.
Proof.
  intros x l. rewrite existsb_exists. split.
  - intros [y [Hy He]]. apply String.eqb_eq in He. subst. exact Hy.
  - intros H. exists x. split; [exact H | apply String.eqb_refl].
Qed.

Lemma nodupb_NoDup : forall l, nodupb l = true -> NoDup l.
Proof.
  induction l as [|x r IH]; simpl; intros H.
  - constructor.
  - apply andb_true_iff in H. destruct H as [H1 H2]. constructor.
    + intros Hin. apply existsb_eqb_In in Hin. rewrite Hin in H1. discriminate.
    + apply IH. exact H2.
Qed.

Lemma get_field_notin : forall k ms, ~ In k (map fst ms) -> get_field k ms = LMissing.
Proof.
  induction ms as [|[n j] r IH]; simpl; intros H.
  - reflexivity.
  - destruct (String.eqb n k) eqn:E.
    + apply String.eqb_eq in E. exfalso. apply H. left. exact E.
    + apply IH. intros Hin. apply H. right. exact Hin.
Qed.

Lemma get_field_app_notin : forall k pre ms,
    ~ In k (map fst pre) -> get_field k (pre ++ ms) = get_field k ms.
Proof.
  induction pre as [|[n j] r IH]; simpl; intros ms H.
  - reflexivity.
  - destruct (String.eqb n k) eqn:E.
    + apply String.eqb_eq in E. exfalso. apply H. left. exact E.
    + apply IH. intros Hin. apply H. right. exact Hin.
Qed.

Lemma get_field_unique : forall k j pre post,
    ~ In k (map fst pre) -> ~ In k (map fst post) ->
    get_field k (pre ++ (k, j) :: post) = LOne j.
Proof.
  intros k j pre post H1 H2. rewrite get_field_app_notin by exact H1.
  simpl. rewrite String.eqb_refl. rewrite get_field_notin by exact H2. reflexivity.
Qed.

Lemma enc_fields_names : forall e fs vs k,
    In k (map fst (enc_fields e fs vs)) -> In k (map fst fs).
Proof.
  induction fs as [|[n t] fr IH]; simpl; intros vs k H.
  - exact H.
  - destruct vs as [|[m x] vr]; simpl in H.
    + contradiction.
    + destruct H as [H|H]; [left; exact H | right; eapply IH; exact H].
Qed.

(* --------------------------------------------------------------------------------------------- *)
(* Encodings of typed values of non-Option types are never null                                  *)
(* --------------------------------------------------------------------------------------------- *)
Lemma enc_variant_nonnull : forall e vs name p,
    typed_variant typed vs name p = true -> enc_variant e vs name p <> JNull.
Proof.
  induction vs as [|[n k] r IH]; simpl; intros name p H.
  - discriminate H.
  - destruct (String.eqb n name).
    + destruct k, p; try (discriminate H); intros C; discriminate C.
    + apply IH. exact H.
Qed.

Lemma enc_nonnull : forall t x, is_opt t = false -> typed t x = true -> enc t x <> JNull.
Proof.
  intros t x Hopt Hty.
  destruct t; simpl in *; try (discriminate Hopt); destruct x; try (discriminate Hty).
  - intros C; discriminate C.
  - apply enc_variant_nonnull. exact Hty.
  - rewrite Hty. intros C; discriminate C.
  - intros C; discriminate C.
  - intros C; discriminate C.
  - intros C; discriminate C.
Qed.

(* --------------------------------------------------------------------------------------------- *)
(* The round trip                                                                                *)
(* --------------------------------------------------------------------------------------------- *)
Definition rt (t : sty) : Prop :=
  forall v, wf t = true -> typed t v = true -> dec t (enc t v) = Some v.

Lemma fields_roundtrip : forall fs,
    Forall (fun p => rt (snd p)) fs ->
    forall vs pre,
      NoDup (map fst pre ++ map fst fs) ->
      wf_fields wf fs = true ->
      typed_fields typed fs vs = true ->
      dec_fields dec fs (pre ++ enc_fields enc fs vs) = Some vs.
Proof.
  induction fs as [|[n t] fr IH]; intros HF vs pre Hnd Hwf Hty.
  - destruct vs; simpl in *; [reflexivity | discriminate].
  - destruct vs as [|[m x] vr]; simpl in Hty; [discriminate|].
    apply andb_true_iff in Hty. destruct Hty as [Hty Htr].
    apply andb_true_iff in Hty. destruct Hty as [Hnm Htx].
    apply String.eqb_eq in Hnm. subst m.
    simpl in Hwf. apply andb_true_iff in Hwf. destruct Hwf as [Hwt Hwr].
    inversion HF as [|? ? Hhead Htail]; subst. simpl in Hhead.
    simpl in Hnd.
    assert (Hn1 : ~ In n (map fst pre)).
    { intros Hin. apply NoDup_remove_2 in Hnd. apply Hnd. apply in_or_app. left. exact Hin. }
    assert (Hn2 : ~ In n (map fst (enc_fields enc fr vr))).
    { intros Hin. apply NoDup_remove_2 in Hnd. apply Hnd. apply in_or_app. right.
      eapply enc_fields_names. exact Hin. }
    change (dec_fields dec ((n, t) :: fr) (pre ++ enc_fields enc ((n, t) :: fr) ((n, x) :: vr)))
      with (match get_field n (pre ++ (n, enc t x) :: enc_fields enc fr vr) with
            | LDup => None
            | LMissing => if is_opt t
                          then cons_opt (n, VNone)
                                 (dec_fields dec fr (pre ++ (n, enc t x) :: enc_fields enc fr vr))
                          else None
            | LOne j =>
                match dec t j with
                | Some x0 => cons_opt (n, x0)
                               (dec_fields dec fr (pre ++ (n, enc t x) :: enc_fields enc fr vr))
                | None => None
                end
            end).
    rewrite get_field_unique by assumption.
    rewrite (Hhead x Hwt Htx).
    replace (pre ++ (n, enc t x) :: enc_fields enc fr vr)
      with ((pre ++ [(n, enc t x)]) ++ enc_fields enc fr vr)
      by (rewrite <- app_assoc; reflexivity).
    rewrite (IH Htail vr (pre ++ [(n, enc t x)])).
    + reflexivity.
    + rewrite map_app. simpl. rewrite <- app_assoc. simpl. exact Hnd.
    + exact Hwr.
    + exact Htr.
Qed.

Lemma unit_variant_roundtrip : forall vs name,
    typed_variant typed vs name None = true ->
    enc_variant enc vs name None = JStr name /\ dec_unit vs name = Some (VEnum name None).
Proof.
  induction vs as [|[n k] r IH]; simpl; intros name H.
  - discriminate.
  - destruct (String.eqb n name) eqn:E.
    + apply String.eqb_eq in E. subst n. destruct k; [discriminate|]. split; reflexivity.
    + apply IH. exact H.
Qed.

Lemma newtype_variant_roundtrip : forall vs,
    Forall (fun p => match snd p with Some t => rt t | None => True end) vs ->
    forall name x,
      wf_variants wf vs = true ->
      typed_variant typed vs name (Some x) = true ->
      exists t, enc_variant enc vs name (Some x) = JObj [(name, enc t x)] /\
                dec_newtype dec vs name (enc t x) = Some (VEnum name (Some x)).
Proof.
  induction vs as [|[n k] r IH]; intros HF name x Hwf Hty.
  - simpl in Hty. discriminate.
  - inversion HF as [|? ? Hhead Htail]; subst. simpl in Hhead.
    simpl in Hty. simpl.
    destruct (String.eqb n name) eqn:E.
    + apply String.eqb_eq in E. subst n. destruct k as [t|]; [|discriminate].
      simpl in Hwf. apply andb_true_iff in Hwf. destruct Hwf as [Hwt _].
      exists t. split; [reflexivity|]. rewrite (Hhead x Hwt Hty). reflexivity.
    + apply (IH Htail name x); [|exact Hty].
      simpl in Hwf. destruct k; [apply andb_true_iff in Hwf; destruct Hwf as [_ Hw]; exact Hw | exact Hwf].
Qed.

Theorem serde_roundtrip : forall ty v,
    wf ty = true -> typed ty v = true -> dec ty (enc ty v) = Some v.
Proof.
  intros ty. change (rt ty). induction ty using sty_ind'; unfold rt; intros v Hwf Hty.
  - (* struct *)
    destruct v; simpl in Hty; try discriminate.
    simpl in Hwf. apply andb_true_iff in Hwf. destruct Hwf as [Hnd Hwf].
    simpl.
    pose proof (fields_roundtrip fs H fields [] (nodupb_NoDup _ Hnd) Hwf Hty) as R.
    simpl in R. rewrite R. reflexivity.
  - (* enum *)
    destruct v; simpl in Hty; try discriminate.
    simpl in Hwf. apply andb_true_iff in Hwf. destruct Hwf as [_ Hwf].
    destruct payload as [x|].
    + destruct (newtype_variant_roundtrip vs H variant x Hwf Hty) as [t [He Hd]].
      simpl. rewrite He. exact Hd.
    + destruct (unit_variant_roundtrip vs variant Hty) as [He Hd].
      simpl. rewrite He. exact Hd.
  - (* option *)
    simpl in Hwf. apply andb_true_iff in Hwf. destruct Hwf as [Hno Hwf].
    apply negb_true_iff in Hno.
    destruct v; simpl in Hty; try discriminate.
    + reflexivity.
    + pose proof (enc_nonnull ty v Hno Hty) as Hnn.
      pose proof (IHty v Hwf Hty) as R.
      simpl. destruct (enc ty v) eqn:E; try (rewrite R; reflexivity).
      exfalso. apply Hnn. reflexivity.
  - destruct v; simpl in Hty; try discriminate. simpl. rewrite Hty. simpl. rewrite Hty. reflexivity.
  - destruct v; simpl in Hty; try discriminate. simpl. rewrite Hty. reflexivity.
  - destruct v; simpl in Hty; try discriminate. simpl. rewrite Hty. reflexivity.
  - destruct v; simpl in Hty; try discriminate. reflexivity.
Qed.

(* Any function of the decoded settings (in particular: the chain built from them with a given
   seed, run for any number of draws) equals that function of the original settings. *)
Corollary same_settings_same_chain :
  forall (T : Type) (chain_of : sval -> N -> T) (ty : sty) (v : sval) (seed : N),
    wf ty = true -> typed ty v = true ->
    option_map (fun s => chain_of s seed) (dec ty (enc ty v)) = Some (chain_of v seed).
Proof.
  intros T chain_of ty v seed Hwf Hty. rewrite (serde_roundtrip ty v Hwf Hty). reflexivity.
Qed.

(* decoding is insensitive to member order and to unknown members: a member list that has every
   field of the struct exactly once decodes like the canonical one.  (Used by the check only as
   documentation of `dec`; the statement for the canonical encoding is serde_roundtrip.) *)
Lemma dec_ignores_unknown_prefix : forall fs k j ms,
    ~ In k (map fst fs) ->
    dec_fields dec fs ((k, j) :: ms) = dec_fields dec fs ms.
Proof.
  induction fs as [|[n t] fr IH]; intros k j ms Hk.
  - reflexivity.
  - simpl in Hk.
    assert (Hne : String.eqb k n = false).
    { apply String.eqb_neq. intros E. apply Hk. left. symmetry. exact E. }
    assert (Hr : ~ In k (map fst fr)) by (intros Hin; apply Hk; right; exact Hin).
    simpl. rewrite Hne. rewrite (IH k j ms Hr). reflexivity.
Qed.
