(* Facts about the microcanonical sampler model (model/Mclmc.v):
     Part A  the ESH momentum update keeps the momentum on the unit sphere (over exact rationals),
     Part B  the step / halving loop: exact time accounting, bounded halving depth, divergence only
             with the halving budget exhausted, dependence on the consumed prefix only,
     Part C  the Euclidean -> Microcanonical switch happens exactly once. *)
From Coq Require Import QArith List ZArith NArith Bool Lia Lqa Arith.
From NutsV Require Import model.Mclmc.
Import ListNotations.

(* ========================================================================================== *)
(* Part A: ESH momentum update                                                                  *)
(* ========================================================================================== *)

Lemma qdot_comb : forall (a b : Q) (g p : list Q),
  length g = length p ->
  qdot (qmap2 (fun gi pi => a * gi + b * pi) g p) (qmap2 (fun gi pi => a * gi + b * pi) g p)
  == a * a * qdot g g + 2 * a * b * qdot p g + b * b * qdot p p.
Proof.
  intros a b g; induction g as [|x g IH]; intros [|y p] Hl; cbn [qdot qmap2]; try discriminate.
  - ring.
  - injection Hl as Hl. rewrite (IH p Hl). ring.
Qed.

Lemma qdot_self_nonneg : forall v, 0 <= qdot v v.
Proof.
  induction v as [|x v IH]; cbn [qdot].
  - apply Qle_refl.
  - assert (0 <= x * x) by (destruct (Qlt_le_dec x 0); nra). lra.
Qed.

Lemma qdot_map_div : forall c u v,
  qdot (map (fun x => x / c) u) (map (fun x => x / c) v) == qdot u v / (c * c).
Proof.
  intros c u; induction u as [|x u IH]; intros [|y v]; cbn [qdot map].
  - unfold Qdiv. ring.
  - unfold Qdiv. ring.
  - unfold Qdiv. ring.
  - rewrite IH. unfold Qdiv. rewrite Qinv_mult_distr. ring.
Qed.

(* A1: |p_raw|^2 is the square of the closed-form norm. *)
Theorem esh_raw_norm : forall (ghat p : list Q) (z : Q),
  length ghat = length p ->
  qdot ghat ghat == 1 -> qdot p p == 1 ->
  qdot (esh_raw ghat p z) (esh_raw ghat p z)
  == esh_norm (esh_alpha ghat p) z * esh_norm (esh_alpha ghat p) z.
Proof.
  intros ghat p z Hl Hg Hp. unfold esh_raw.
  rewrite (qdot_comb _ _ ghat p Hl). rewrite Hg, Hp.
  unfold esh_alpha, esh_coeff_g, esh_norm. ring.
Qed.

Corollary esh_raw_norm_pow : forall (ghat p : list Q) (z : Q),
  length ghat = length p ->
  qdot ghat ghat == 1 -> qdot p p == 1 ->
  qdot (esh_raw ghat p z) (esh_raw ghat p z) == (esh_norm (esh_alpha ghat p) z) ^ 2.
Proof.
  intros. rewrite esh_raw_norm by assumption. reflexivity.
Qed.

(* Cauchy-Schwarz for unit vectors: alpha = p . ghat lies in [-1, 1]. *)
Theorem esh_alpha_bounds : forall (ghat p : list Q),
  length ghat = length p ->
  qdot ghat ghat == 1 -> qdot p p == 1 ->
  -(1) <= esh_alpha ghat p /\ esh_alpha ghat p <= 1.
Proof.
  intros ghat p Hl Hg Hp. unfold esh_alpha.
  pose proof (qdot_self_nonneg (qmap2 (fun gi pi => 1 * gi + 1 * pi) ghat p)) as H1.
  pose proof (qdot_self_nonneg (qmap2 (fun gi pi => 1 * gi + -(1) * pi) ghat p)) as H2.
  rewrite (qdot_comb _ _ ghat p Hl), Hg, Hp in H1.
  rewrite (qdot_comb _ _ ghat p Hl), Hg, Hp in H2.
  split; lra.
Qed.

Lemma esh_norm_pos : forall alpha z,
  ~ z == 0 -> -(1) <= alpha -> alpha <= 1 -> 0 < esh_norm alpha z.
Proof.
  intros alpha z Hz Hlo Hhi. unfold esh_norm.
  assert (Hzz : 0 < z * z) by (destruct (Q_dec z 0) as [[?|?]|?]; [nra | nra | contradiction]).
  destruct (Qlt_le_dec (-(1)) alpha) as [Hl|Hl].
  - assert (0 <= (1 - alpha) * (z * z)) by nra. lra.
  - assert (alpha == -(1)) by lra.
    assert ((1 - alpha) * (z * z) == 2 * (z * z)) by nra. lra.
Qed.

(* A2: the updated momentum has unit norm.  Only z <> 0 is needed (z = exp(-delta) is in (0, 1]);
   the bound on alpha is Cauchy-Schwarz, proved above. *)
Theorem esh_unit_norm_gen : forall (ghat p : list Q) (z : Q),
  length ghat = length p ->
  qdot ghat ghat == 1 -> qdot p p == 1 ->
  ~ z == 0 ->
  qdot (esh_update ghat p z) (esh_update ghat p z) == 1.
Proof.
  intros ghat p z Hl Hg Hp Hz. unfold esh_update.
  rewrite qdot_map_div, (esh_raw_norm ghat p z Hl Hg Hp).
  destruct (esh_alpha_bounds ghat p Hl Hg Hp) as [Hlo Hhi].
  pose proof (esh_norm_pos _ z Hz Hlo Hhi) as HN.
  set (N := esh_norm (esh_alpha ghat p) z) in *.
  unfold Qdiv. apply Qmult_inv_r. nra.
Qed.

Theorem esh_unit_norm : forall (ghat p : list Q) (z : Q),
  length ghat = length p ->
  qdot ghat ghat == 1 -> qdot p p == 1 ->
  0 < z -> z <= 1 ->
  0 < esh_norm (esh_alpha ghat p) z /\
  qdot (esh_update ghat p z) (esh_update ghat p z) == 1.
Proof.
  intros ghat p z Hl Hg Hp Hz _.
  assert (Hnz : ~ z == 0) by lra.
  split.
  - destruct (esh_alpha_bounds ghat p Hl Hg Hp). apply esh_norm_pos; assumption.
  - apply esh_unit_norm_gen; assumption.
Qed.

(* A3 *)
Theorem esh_log_arg_is_norm_minus_one : forall alpha z,
  esh_log_arg alpha z == esh_norm alpha z - 1.
Proof. intros. unfold esh_log_arg, esh_norm. ring. Qed.

(* A4 *)
Definition qnormalize (sq : Q -> Q) (v : list Q) : list Q := map (fun x => x / sq (qdot v v)) v.

Theorem normalize_unit_at : forall (sq : Q -> Q) (v : list Q),
  0 < qdot v v ->
  sq (qdot v v) * sq (qdot v v) == qdot v v ->
  qdot (qnormalize sq v) (qnormalize sq v) == 1.
Proof.
  intros sq v Hpos Hsq. unfold qnormalize.
  rewrite qdot_map_div, Hsq. unfold Qdiv. apply Qmult_inv_r. lra.
Qed.

Theorem normalize_unit : forall (sq : Q -> Q) (v : list Q),
  (forall y, 0 < y -> sq y * sq y == y /\ 0 < sq y) ->
  0 < qdot v v ->
  qdot (qnormalize sq v) (qnormalize sq v) == 1.
Proof.
  intros sq v Hsq Hpos. apply normalize_unit_at; [assumption | apply Hsq; assumption].
Qed.

(* ========================================================================================== *)
(* Part B: the step / halving loop                                                              *)
(* ========================================================================================== *)

Local Open Scope nat_scope.

(* ---- the three transitions of kernel_loop, named ---- *)
Definition step_ok (s : kstate) : kstate :=
  let h := length (k_stack s) in
  let u := unwind (S h) (k_remaining s - 1) (k_stack s) in
  {| k_remaining := fst u; k_stack := snd u; k_steps := S (k_steps s);
     k_time := (k_time s + pow2inv h)%Q; k_log := k_log s ++ [h] |}.
Definition step_div (s : kstate) : kstate :=
  {| k_remaining := 2; k_stack := k_remaining s :: k_stack s; k_steps := k_steps s;
     k_time := k_time s; k_log := k_log s ++ [length (k_stack s)] |}.
(* the state reported by KDiverged / KError: unchanged except for the logged attempt *)
Definition fail_state (s : kstate) : kstate :=
  {| k_remaining := k_remaining s; k_stack := k_stack s; k_steps := k_steps s;
     k_time := k_time s; k_log := k_log s ++ [length (k_stack s)] |}.

Lemma kernel_loop_eq : forall mh outs s,
  kernel_loop mh outs s =
  match k_remaining s with
  | O => KDone s
  | S _ =>
      match outs with
      | [] => KStarved s
      | OOk :: rest => kernel_loop mh rest (step_ok s)
      | ODiv :: rest =>
          if mh <=? length (k_stack s) then KDiverged (fail_state s)
          else kernel_loop mh rest (step_div s)
      | OErr :: _ => KError (fail_state s)
      end
  end.
Proof.
  intros mh outs s. destruct outs as [|o rest]; cbn [kernel_loop].
  - destruct (k_remaining s); reflexivity.
  - destruct (k_remaining s) eqn:E; [reflexivity|].
    destruct o.
    + unfold step_ok. rewrite E. destruct (unwind _ _ _). reflexivity.
    + unfold fail_state, step_div. rewrite E. reflexivity.
    + unfold fail_state. rewrite E. reflexivity.
Qed.

(* every state visited by the loop (the initial one first) *)
Fixpoint ktrace (mh : nat) (outs : list outcome) (s : kstate) : list kstate :=
  s :: match k_remaining s with
       | O => []
       | S _ =>
           match outs with
           | [] => []
           | OOk :: rest => ktrace mh rest (step_ok s)
           | ODiv :: rest =>
               if mh <=? length (k_stack s) then [] else ktrace mh rest (step_div s)
           | OErr :: _ => []
           end
       end.

(* the result is built from a visited state *)
Lemma kernel_loop_result : forall mh outs s,
  match kernel_loop mh outs s with
  | KDone s' => In s' (ktrace mh outs s) /\ k_remaining s' = 0
  | KStarved s' => In s' (ktrace mh outs s) /\ k_remaining s' <> 0
  | KDiverged s' =>
      exists s0, In s0 (ktrace mh outs s) /\ s' = fail_state s0 /\
                 k_remaining s0 <> 0 /\ mh <= length (k_stack s0)
  | KError s' =>
      exists s0, In s0 (ktrace mh outs s) /\ s' = fail_state s0 /\ k_remaining s0 <> 0
  end.
Proof.
  intros mh outs; induction outs as [|o rest IH]; intros s; rewrite kernel_loop_eq;
    cbn [ktrace]; destruct (k_remaining s) eqn:E.
  - split; [left; reflexivity | assumption].
  - split; [left; reflexivity | lia].
  - split; [left; reflexivity | assumption].
  - destruct o.
    + specialize (IH (step_ok s)).
      destruct (kernel_loop mh rest (step_ok s)).
      * destruct IH; split; [right|]; assumption.
      * destruct IH as (u & ? & ?); exists u; split; [right|]; assumption.
      * destruct IH as (u & ? & ?); exists u; split; [right|]; assumption.
      * destruct IH; split; [right|]; assumption.
    + destruct (mh <=? length (k_stack s)) eqn:B.
      * exists s. apply Nat.leb_le in B. repeat split; [left; reflexivity | lia | assumption].
      * specialize (IH (step_div s)).
        destruct (kernel_loop mh rest (step_div s)).
        -- destruct IH; split; [right|]; assumption.
        -- destruct IH as (u & ? & ?); exists u; split; [right|]; assumption.
        -- destruct IH as (u & ? & ?); exists u; split; [right|]; assumption.
        -- destruct IH; split; [right|]; assumption.
    + exists s. repeat split; [left; reflexivity | lia].
Qed.

(* invariants: anything preserved by the two continuing transitions holds in every visited state *)
Lemma ktrace_invariant : forall (I : kstate -> Prop) mh,
  (forall s, I s -> k_remaining s <> 0 -> I (step_ok s)) ->
  (forall s, I s -> k_remaining s <> 0 -> length (k_stack s) < mh -> I (step_div s)) ->
  forall outs s, I s -> Forall I (ktrace mh outs s).
Proof.
  intros I mh Hok Hdiv outs; induction outs as [|o rest IH]; intros s Hs; cbn [ktrace];
    constructor; try assumption; destruct (k_remaining s) eqn:E; try constructor.
  destruct o.
  - apply IH, Hok; [assumption | lia].
  - destruct (mh <=? length (k_stack s)) eqn:B; [constructor|].
    apply Nat.leb_gt in B. apply IH, Hdiv; [assumption | lia | assumption].
  - constructor.
Qed.

Definition kstate_of (r : kresult) : kstate :=
  match r with KDone s | KDiverged s | KError s | KStarved s => s end.

Theorem kernel_loop_invariant : forall (I : kstate -> Prop) mh,
  (forall s, I s -> k_remaining s <> 0 -> I (step_ok s)) ->
  (forall s, I s -> k_remaining s <> 0 -> length (k_stack s) < mh -> I (step_div s)) ->
  forall outs s, I s ->
  match kernel_loop mh outs s with
  | KDone s' => I s' /\ k_remaining s' = 0
  | KStarved s' => I s' /\ k_remaining s' <> 0
  | KDiverged s' =>
      exists s0, I s0 /\ s' = fail_state s0 /\ k_remaining s0 <> 0 /\ mh <= length (k_stack s0)
  | KError s' => exists s0, I s0 /\ s' = fail_state s0 /\ k_remaining s0 <> 0
  end.
Proof.
  intros I mh Hok Hdiv outs s Hs.
  pose proof (ktrace_invariant I mh Hok Hdiv outs s Hs) as HF.
  rewrite Forall_forall in HF.
  pose proof (kernel_loop_result mh outs s) as HR.
  destruct (kernel_loop mh outs s).
  - destruct HR; split; auto.
  - destruct HR as (u & ? & ?); exists u; split; auto.
  - destruct HR as (u & ? & ?); exists u; split; auto.
  - destruct HR; split; auto.
Qed.

(* ---- arithmetic of the factors ---- *)
Definition qn (n : nat) : Q := inject_Z (Z.of_nat n).

Lemma qn_S : forall n, (qn (S n) == qn n + 1)%Q.
Proof.
  intros n. unfold qn. rewrite Nat2Z.inj_succ. unfold Z.succ. rewrite inject_Z_plus. reflexivity.
Qed.

Lemma qn_le : forall a b, (qn a <= qn b)%Q <-> a <= b.
Proof.
  intros a b. unfold qn. rewrite <- Zle_Qle. lia.
Qed.

Lemma qn_eq : forall a b, (qn a == qn b)%Q <-> a = b.
Proof.
  intros a b. unfold qn. rewrite inject_Z_injective. lia.
Qed.

Lemma pow2inv_0 : (pow2inv 0 == 1)%Q.
Proof. reflexivity. Qed.

Lemma pow2inv_S : forall h, (pow2inv (S h) + pow2inv (S h) == pow2inv h)%Q.
Proof.
  intros h. unfold pow2inv.
  replace (2 ^ S h) with (2 * 2 ^ h) by (cbn [Nat.pow]; lia).
  rewrite Nat2Pos.inj_mul by (try apply Nat.pow_nonzero; discriminate).
  change (Pos.of_nat 2) with 2%positive.
  unfold Qeq, Qplus. cbn [Qnum Qden]. lia.
Qed.

Lemma pow2inv_pos : forall h, (0 < pow2inv h)%Q.
Proof. intros h. unfold pow2inv, Qlt. cbn [Qnum Qden]. lia. Qed.

Lemma pow2inv_le1 : forall h, (pow2inv h <= 1)%Q.
Proof.
  induction h as [|h IH].
  - rewrite pow2inv_0. apply Qle_refl.
  - pose proof (pow2inv_S h). pose proof (pow2inv_pos (S h)). lra.
Qed.

Lemma pow2inv_lt1 : forall h, 0 < h -> (pow2inv h < 1)%Q.
Proof.
  intros [|h] Hh; [lia|].
  pose proof (pow2inv_S h). pose proof (pow2inv_pos (S h)). pose proof (pow2inv_le1 h). lra.
Qed.

(* ---- unwind ---- *)
Definition owed' (r : nat) (st : list nat) : Q :=
  (qn r * pow2inv (length st) + owed_stack (length st) st)%Q.

Lemma owed_owed' : forall s, owed s = owed' (k_remaining s) (k_stack s).
Proof. reflexivity. Qed.

Lemma unwind_nil : forall f r, unwind f r [] = (r, []).
Proof. intros [|f] [|r]; reflexivity. Qed.

Lemma unwind_owed : forall f r st,
  (owed' (fst (unwind f r st)) (snd (unwind f r st)) == owed' r st)%Q.
Proof.
  induction f as [|f IH]; intros r st; cbn [unwind]; [reflexivity|].
  destruct r as [|r]; [|reflexivity].
  destruct st as [|prev rest]; [reflexivity|].
  rewrite IH. unfold owed'. cbn [length owed_stack]. change (qn 0) with 0%Q. unfold qn. ring.
Qed.

Lemma unwind_len : forall f r st, length (snd (unwind f r st)) <= length st.
Proof.
  induction f as [|f IH]; intros r st; cbn [unwind]; [cbn; lia|].
  destruct r as [|r]; [|cbn; lia].
  destruct st as [|prev rest]; [cbn; lia|].
  specialize (IH (prev - 1) rest). cbn [length]. lia.
Qed.

Lemma unwind_wf : forall f r st,
  length st <= f -> fst (unwind f r st) = 0 -> snd (unwind f r st) = [].
Proof.
  induction f as [|f IH]; intros r st Hl; cbn [unwind].
  - destruct st; [reflexivity | cbn in Hl; lia].
  - destruct r as [|r]; [|cbn; discriminate].
    destruct st as [|prev rest]; [reflexivity|].
    apply IH. cbn in Hl. lia.
Qed.

Definition init_state (n : nat) : kstate :=
  {| k_remaining := n; k_stack := []; k_steps := 0; k_time := 0%Q; k_log := [] |}.

Lemma kernel_init : forall n mh outs, kernel n mh outs = kernel_loop mh outs (init_state n).
Proof. reflexivity. Qed.

(* ---- B1: no divergence => exactly num_base steps at factor 1 ---- *)
Lemma step_ok_nil : forall s r,
  k_stack s = [] -> k_remaining s = S r ->
  step_ok s = {| k_remaining := r; k_stack := []; k_steps := S (k_steps s);
                 k_time := (k_time s + pow2inv 0)%Q; k_log := k_log s ++ [0] |}.
Proof.
  intros s r Hst Hr. unfold step_ok. rewrite Hst, Hr, unwind_nil. cbn [fst snd length].
  replace (S r - 1) with r by lia. reflexivity.
Qed.

Lemma all_ok_run : forall mh r outs s,
  k_remaining s = r -> k_stack s = [] ->
  Forall (fun o => o = OOk) outs -> r <= length outs ->
  exists s', kernel_loop mh outs s = KDone s' /\
    k_steps s' = k_steps s + r /\ (k_time s' == k_time s + qn r)%Q /\
    k_log s' = k_log s ++ repeat 0 r /\ k_remaining s' = 0 /\ k_stack s' = [].
Proof.
  intros mh r; induction r as [|r IH]; intros outs s Hr Hst Hall Hlen; rewrite kernel_loop_eq, Hr.
  - exists s. repeat split; try assumption; try lia.
    + change (qn 0) with 0%Q. ring.
    + cbn [repeat]. rewrite app_nil_r. reflexivity.
  - destruct outs as [|o rest]; [cbn in Hlen; lia|].
    inversion Hall as [|? ? Ho Hall']; subst o.
    rewrite (step_ok_nil s r Hst Hr).
    edestruct (IH rest) as (s' & HK & Hs & Ht & Hlg & Hrem & Hstk);
      [| | exact Hall' | | exists s'; split; [exact HK|]];
      cbn [k_remaining k_stack k_steps k_time k_log] in *; try reflexivity.
    + cbn [length] in Hlen. lia.
    + repeat split; try assumption.
      * lia.
      * rewrite Ht, qn_S, pow2inv_0. ring.
      * rewrite Hlg, <- app_assoc. reflexivity.
Qed.

Theorem steps_exact : forall num_base mh outs,
  Forall (fun o => o = OOk) outs -> num_base <= length outs ->
  exists s, kernel num_base mh outs = KDone s /\
    k_steps s = num_base /\ (k_time s == inject_Z (Z.of_nat num_base))%Q /\
    k_log s = repeat 0 num_base /\ k_remaining s = 0 /\ k_stack s = [].
Proof.
  intros n mh outs Hall Hlen. rewrite kernel_init.
  destruct (all_ok_run mh n outs (init_state n) eq_refl eq_refl Hall Hlen)
    as (s' & HK & Hs & Ht & Hlg & Hrem & Hstk).
  exists s'. cbn [init_state k_steps k_time k_log] in *. repeat split; try assumption.
  - rewrite Ht. unfold qn. ring.
Qed.

(* ---- B2: time accounting ---- *)
Definition inv_time (T : Q) (s : kstate) : Prop := (k_time s + owed s == T)%Q.
(* remaining = 0 only with an empty stack (unwind ran to completion) *)
Definition inv_wf (s : kstate) : Prop := k_remaining s = 0 -> k_stack s = [].

Lemma inv_time_step_ok : forall T s, inv_time T s -> k_remaining s <> 0 -> inv_time T (step_ok s).
Proof.
  intros T s H Hr. unfold inv_time in *. rewrite owed_owed' in *.
  unfold step_ok. cbn [k_remaining k_stack k_time]. rewrite unwind_owed.
  destruct (k_remaining s) as [|r]; [congruence|].
  replace (S r - 1) with r by lia.
  rewrite <- H. unfold owed'. rewrite qn_S. ring.
Qed.

Lemma inv_time_step_div : forall T s, inv_time T s -> k_remaining s <> 0 -> inv_time T (step_div s).
Proof.
  intros T s H Hr. unfold inv_time in *. rewrite owed_owed' in *.
  unfold step_div. cbn [k_remaining k_stack k_time].
  destruct (k_remaining s) as [|r]; [congruence|].
  rewrite <- H. unfold owed'. cbn [length owed_stack].
  replace (S r - 1) with r by lia. rewrite (qn_S r).
  pose proof (pow2inv_S (length (k_stack s))) as HP.
  fold (qn 2). change (qn 2) with 2%Q. fold (qn r).
  set (x' := pow2inv (S (length (k_stack s)))) in *. set (x := pow2inv (length (k_stack s))) in *.
  rewrite <- HP. ring.
Qed.

Lemma inv_wf_step_ok : forall s, inv_wf (step_ok s).
Proof.
  intros s. unfold inv_wf, step_ok. cbn [k_remaining k_stack]. apply unwind_wf. lia.
Qed.

Lemma inv_wf_step_div : forall s, inv_wf (step_div s).
Proof. intros s. unfold inv_wf, step_div. cbn [k_remaining]. discriminate. Qed.

Lemma inv_time_init : forall n, inv_time (qn n) (init_state n).
Proof.
  intros n. unfold inv_time, owed, init_state. cbn [k_time k_remaining k_stack length owed_stack].
  rewrite pow2inv_0. fold (qn n). ring.
Qed.

Lemma inv_wf_init : forall n, inv_wf (init_state n).
Proof. intros n _. reflexivity. Qed.

(* the key invariant holds in every visited state, for every script *)
Theorem retry_accounting_trace : forall num_base mh outs,
  Forall (fun s => (k_time s + owed s == inject_Z (Z.of_nat num_base))%Q)
         (ktrace mh outs (init_state num_base)).
Proof.
  intros n mh outs.
  apply (ktrace_invariant (inv_time (qn n)) mh).
  - intros; apply inv_time_step_ok; assumption.
  - intros; apply inv_time_step_div; assumption.
  - apply inv_time_init.
Qed.

Lemma done_time : forall n mh outs s,
  kernel n mh outs = KDone s ->
  (k_time s == qn n)%Q /\ k_remaining s = 0 /\ k_stack s = [].
Proof.
  intros n mh outs s HK. rewrite kernel_init in HK.
  pose proof (kernel_loop_invariant (fun s => inv_time (qn n) s /\ inv_wf s) mh) as HI.
  specialize (HI
    (fun s H Hr => conj (inv_time_step_ok _ s (proj1 H) Hr) (inv_wf_step_ok s))
    (fun s H Hr _ => conj (inv_time_step_div _ s (proj1 H) Hr) (inv_wf_step_div s))
    outs (init_state n) (conj (inv_time_init n) (inv_wf_init n))).
  rewrite HK in HI. destruct HI as [[Ht Hw] Hr].
  specialize (Hw Hr). repeat split; try assumption.
  unfold inv_time, owed in Ht. rewrite Hr, Hw in Ht. cbn [length owed_stack] in Ht.
  rewrite <- Ht. change (inject_Z (Z.of_nat 0)) with 0%Q. ring.
Qed.

(* however many retries, a completed draw integrates exactly num_base base steps of time *)
Theorem retry_accounting : forall num_base mh outs s,
  kernel num_base mh outs = KDone s ->
  (k_time s == inject_Z (Z.of_nat num_base))%Q.
Proof. intros n mh outs s HK. apply (done_time n mh outs s HK). Qed.

(* ---- B2, second half: retries cost extra steps ---- *)
(* steps counts successful attempts, length log all attempts; each successful attempt at depth h
   adds 2^-h <= 1 to the time, < 1 if h > 0 *)
Definition inv_hist (s : kstate) : Prop :=
  (k_time s <= qn (k_steps s))%Q /\
  k_steps s <= length (k_log s) /\
  (k_steps s = length (k_log s) ->
     k_stack s = [] /\ (k_time s == qn (k_steps s))%Q /\ Forall (fun h => h = 0) (k_log s)) /\
  (k_steps s < length (k_log s) -> (k_time s < qn (k_steps s))%Q \/ k_stack s <> []) /\
  ((k_time s < qn (k_steps s))%Q -> Exists (fun h => 0 < h) (k_log s)).

Lemma inv_hist_init : forall n, inv_hist (init_state n).
Proof.
  intros n. unfold inv_hist, init_state. cbn [k_time k_steps k_log k_stack length].
  change (qn 0) with 0%Q. repeat split; try lia; try lra; try constructor.
Qed.

Lemma inv_hist_step_ok : forall s, inv_hist s -> inv_hist (step_ok s).
Proof.
  intros s (H1 & H2 & H3 & H4 & H5). unfold inv_hist, step_ok.
  cbn [k_time k_steps k_log k_stack]. rewrite app_length. cbn [length].
  set (h := length (k_stack s)) in *.
  pose proof (pow2inv_pos h) as Hp. pose proof (pow2inv_le1 h) as Hle.
  pose proof (qn_S (k_steps s)) as HS.
  repeat split.
  - lra.
  - lia.
  - assert (E : k_steps s = length (k_log s)) by lia.
    destruct (H3 E) as (Hst & _ & _). rewrite Hst, unwind_nil. reflexivity.
  - assert (E : k_steps s = length (k_log s)) by lia.
    destruct (H3 E) as (Hst & Ht & _).
    assert (h = 0) by (unfold h; rewrite Hst; reflexivity).
    subst h. rewrite H0 in *. rewrite pow2inv_0 in *. lra.
  - assert (E : k_steps s = length (k_log s)) by lia.
    destruct (H3 E) as (Hst & _ & HF).
    apply Forall_app; split; [assumption|]. constructor; [|constructor].
    unfold h; rewrite Hst; reflexivity.
  - intros Hlt. left.
    destruct H4 as [Ht | Hne]; [lia | lra |].
    assert (0 < h) by (unfold h; destruct (k_stack s); [congruence | cbn; lia]).
    pose proof (pow2inv_lt1 h H). lra.
  - intros Hlt. apply Exists_app.
    destruct h as [|h'] eqn:Eh.
    + left. apply H5. rewrite pow2inv_0 in *. lra.
    + right. constructor. lia.
Qed.

Lemma inv_hist_step_div : forall s, inv_hist s -> inv_hist (step_div s).
Proof.
  intros s (H1 & H2 & H3 & H4 & H5). unfold inv_hist, step_div.
  cbn [k_time k_steps k_log k_stack]. rewrite app_length. cbn [length].
  repeat split; try assumption; try lia.
  - intros _. right. discriminate.
  - intros Hlt. apply Exists_app. left. apply H5. assumption.
Qed.

Definition inv_all (n : nat) (s : kstate) : Prop :=
  inv_time (qn n) s /\ inv_wf s /\ inv_hist s.

Lemma done_all : forall n mh outs s,
  kernel n mh outs = KDone s ->
  (k_time s == qn n)%Q /\ k_remaining s = 0 /\ k_stack s = [] /\ inv_hist s.
Proof.
  intros n mh outs s HK. destruct (done_time n mh outs s HK) as (Ht & Hr & Hst).
  split; [assumption|]. split; [assumption|]. split; [assumption|].
  rewrite kernel_init in HK.
  pose proof (kernel_loop_invariant inv_hist mh
    (fun s H _ => inv_hist_step_ok s H) (fun s H _ _ => inv_hist_step_div s H)
    outs (init_state n) (inv_hist_init n)) as HI.
  rewrite HK in HI. apply HI.
Qed.

Theorem retry_steps_ge : forall num_base mh outs s,
  kernel num_base mh outs = KDone s -> num_base <= k_steps s.
Proof.
  intros n mh outs s HK. destruct (done_all n mh outs s HK) as (Ht & _ & _ & (H1 & _)).
  apply qn_le. lra.
Qed.

(* steps = num_base  <->  every attempt succeeded  <->  every attempt was at factor 1 *)
Theorem retry_steps_eq_iff : forall num_base mh outs s,
  kernel num_base mh outs = KDone s ->
  (k_steps s = num_base <-> k_steps s = length (k_log s)) /\
  (k_steps s = num_base <-> Forall (fun h => h = 0) (k_log s)).
Proof.
  intros n mh outs s HK.
  destruct (done_all n mh outs s HK) as (Ht & _ & Hst & (H1 & H2 & H3 & H4 & H5)).
  assert (A : k_steps s = n -> k_steps s = length (k_log s)).
  { intros E. destruct (Nat.eq_dec (k_steps s) (length (k_log s))) as [|Hne]; [assumption|].
    exfalso. destruct H4 as [Hlt | Hne']; [lia | | congruence].
    rewrite E in Hlt. lra. }
  assert (B : k_steps s = length (k_log s) -> k_steps s = n).
  { intros E. destruct (H3 E) as (_ & Ht' & _). apply qn_eq. lra. }
  repeat split; try assumption.
  - intros E. apply H3, A, E.
  - intros HF. apply qn_eq.
    destruct (Qlt_le_dec (k_time s) (qn (k_steps s))) as [Hlt|Hge]; [|lra].
    exfalso. apply H5 in Hlt. apply Exists_exists in Hlt. destruct Hlt as (h & Hin & Hh).
    rewrite Forall_forall in HF. specialize (HF h Hin). lia.
Qed.

Theorem retry_extra_steps_halved : forall num_base mh outs s,
  kernel num_base mh outs = KDone s -> num_base < k_steps s ->
  Exists (fun h => 0 < h) (k_log s).
Proof.
  intros n mh outs s HK Hlt.
  destruct (done_all n mh outs s HK) as (Ht & _ & _ & (_ & _ & _ & _ & H5)).
  apply H5. rewrite Ht. apply Qnot_le_lt. intros Hc. apply qn_le in Hc. lia.
Qed.

(* ---- the consumed prefix of the script ---- *)
Fixpoint consumed (mh : nat) (outs : list outcome) (s : kstate) : nat :=
  match k_remaining s with
  | O => 0
  | S _ =>
      match outs with
      | [] => 0
      | OOk :: rest => S (consumed mh rest (step_ok s))
      | ODiv :: rest =>
          if mh <=? length (k_stack s) then 1 else S (consumed mh rest (step_div s))
      | OErr :: _ => 1
      end
  end.

Fixpoint count_ok (l : list outcome) : nat :=
  match l with [] => 0 | OOk :: l' => S (count_ok l') | _ :: l' => count_ok l' end.

Lemma count_ok_le : forall l, count_ok l <= length l.
Proof. induction l as [|[] l IH]; cbn [count_ok length]; lia. Qed.

Lemma count_ok_full : forall l, count_ok l = length l <-> Forall (fun o => o = OOk) l.
Proof.
  induction l as [|o l IH]; cbn [count_ok length].
  - split; [constructor | reflexivity].
  - pose proof (count_ok_le l). destruct o.
    + split.
      * intros E. constructor; [reflexivity | apply IH; lia].
      * intros HF. inversion HF; subst. f_equal. apply IH. assumption.
    + split; [lia | intros HF; inversion HF; discriminate].
    + split; [lia | intros HF; inversion HF; discriminate].
Qed.

Lemma step_ok_log : forall s, k_log (step_ok s) = k_log s ++ [length (k_stack s)].
Proof. reflexivity. Qed.
Lemma step_ok_steps : forall s, k_steps (step_ok s) = S (k_steps s).
Proof. reflexivity. Qed.
Lemma step_div_log : forall s, k_log (step_div s) = k_log s ++ [length (k_stack s)].
Proof. reflexivity. Qed.
Lemma step_div_steps : forall s, k_steps (step_div s) = k_steps s.
Proof. reflexivity. Qed.

(* log length counts consumed outcomes, steps counts consumed OOk *)
Lemma consumed_spec : forall mh outs s,
  let c := consumed mh outs s in
  let s' := kstate_of (kernel_loop mh outs s) in
  c <= length outs /\
  length (k_log s') = length (k_log s) + c /\
  k_steps s' = k_steps s + count_ok (firstn c outs).
Proof.
  intros mh outs; induction outs as [|o rest IH]; intros s; cbn zeta; rewrite kernel_loop_eq;
    cbn [consumed]; destruct (k_remaining s) eqn:E; cbn [kstate_of firstn count_ok length];
    try (repeat split; lia).
  destruct o.
  - specialize (IH (step_ok s)). cbn zeta in IH. destruct IH as (I1 & I2 & I3).
    cbn [firstn count_ok]. rewrite I2, I3, step_ok_log, step_ok_steps.
    rewrite app_length. cbn [length]. repeat split; lia.
  - destruct (mh <=? length (k_stack s)).
    + cbn [kstate_of fail_state k_log k_steps firstn count_ok]. rewrite app_length. cbn [length].
      repeat split; lia.
    + specialize (IH (step_div s)). cbn zeta in IH. destruct IH as (I1 & I2 & I3).
      cbn [firstn count_ok]. rewrite I2, I3, step_div_log, step_div_steps.
      rewrite app_length. cbn [length]. repeat split; lia.
  - cbn [kstate_of fail_state k_log k_steps firstn count_ok]. rewrite app_length. cbn [length].
    repeat split; lia.
Qed.

(* B2, in terms of the script: steps = num_base iff no ODiv (nor OErr) was consumed *)
Theorem retry_steps_eq_iff_no_div : forall num_base mh outs s,
  kernel num_base mh outs = KDone s ->
  (k_steps s = num_base <->
   Forall (fun o => o = OOk) (firstn (consumed mh outs (init_state num_base)) outs)).
Proof.
  intros n mh outs s HK.
  destruct (retry_steps_eq_iff n mh outs s HK) as [H _]. rewrite H.
  pose proof (consumed_spec mh outs (init_state n)) as HC. cbn zeta in HC.
  rewrite <- kernel_init, HK in HC. cbn [kstate_of init_state k_log k_steps length] in HC.
  destruct HC as (C1 & C2 & C3).
  rewrite <- count_ok_full, firstn_length_le by assumption. lia.
Qed.

(* ---- B3: halving depth is bounded by max_halvings ---- *)
Definition inv_depth (mh : nat) (s : kstate) : Prop :=
  length (k_stack s) <= mh /\ Forall (fun h => h <= mh) (k_log s).

Lemma inv_depth_step_ok : forall mh s, inv_depth mh s -> inv_depth mh (step_ok s).
Proof.
  intros mh s [H1 H2]. unfold inv_depth, step_ok. cbn [k_stack k_log]. split.
  - pose proof (unwind_len (S (length (k_stack s))) (k_remaining s - 1) (k_stack s)). lia.
  - apply Forall_app; split; [assumption|]. constructor; [assumption | constructor].
Qed.

Lemma inv_depth_step_div : forall mh s,
  inv_depth mh s -> length (k_stack s) < mh -> inv_depth mh (step_div s).
Proof.
  intros mh s [H1 H2] Hlt. unfold inv_depth, step_div. cbn [k_stack k_log length]. split.
  - lia.
  - apply Forall_app; split; [assumption|]. constructor; [lia | constructor].
Qed.

Lemma inv_depth_fail : forall mh s, inv_depth mh s -> inv_depth mh (fail_state s).
Proof.
  intros mh s [H1 H2]. unfold inv_depth, fail_state. cbn [k_stack k_log]. split; [assumption|].
  apply Forall_app; split; [assumption|]. constructor; [assumption | constructor].
Qed.

Lemma inv_depth_init : forall mh n, inv_depth mh (init_state n).
Proof. intros mh n. split; cbn; [lia | constructor]. Qed.

Lemma depth_result : forall mh outs s, inv_depth mh s ->
  inv_depth mh (kstate_of (kernel_loop mh outs s)).
Proof.
  intros mh outs s Hs.
  pose proof (kernel_loop_invariant (inv_depth mh) mh
    (fun s H _ => inv_depth_step_ok mh s H) (fun s H _ Hl => inv_depth_step_div mh s H Hl)
    outs s Hs) as HI.
  destruct (kernel_loop mh outs s); cbn [kstate_of].
  - apply HI.
  - destruct HI as (u & Hu & -> & _). apply inv_depth_fail, Hu.
  - destruct HI as (u & Hu & -> & _). apply inv_depth_fail, Hu.
  - apply HI.
Qed.

Theorem halving_depth_bounded : forall num_base mh outs,
  Forall (fun h => h <= mh) (k_log (kstate_of (kernel num_base mh outs))) /\
  length (k_stack (kstate_of (kernel num_base mh outs))) <= mh /\
  Forall (fun s => length (k_stack s) <= mh /\ Forall (fun h => h <= mh) (k_log s))
         (ktrace mh outs (init_state num_base)).
Proof.
  intros n mh outs. rewrite kernel_init.
  pose proof (depth_result mh outs (init_state n) (inv_depth_init mh n)) as [H1 H2].
  split; [assumption|]. split; [assumption|].
  apply (ktrace_invariant (inv_depth mh) mh).
  - intros; apply inv_depth_step_ok; assumption.
  - intros; apply inv_depth_step_div; assumption.
  - apply inv_depth_init.
Qed.

(* with no halving budget, a divergent step ends the draw at once *)
Theorem no_budget_div_immediate : forall s rest,
  k_remaining s <> 0 -> kernel_loop 0 (ODiv :: rest) s = KDiverged (fail_state s).
Proof.
  intros s rest Hr. rewrite kernel_loop_eq. destruct (k_remaining s); [congruence|]. reflexivity.
Qed.

Theorem no_budget_any_div_diverges : forall num_base outs,
  In ODiv (firstn (consumed 0 outs (init_state num_base)) outs) ->
  exists s, kernel num_base 0 outs = KDiverged s.
Proof.
  intros n outs. rewrite kernel_init. generalize (init_state n).
  induction outs as [|o rest IH]; intros s; rewrite kernel_loop_eq; cbn [consumed];
    destruct (k_remaining s) eqn:E; cbn [firstn In]; try tauto.
  destruct o; cbn [Nat.leb firstn In].
  - intros [Hc|Hin]; [discriminate|]. apply IH, Hin.
  - intros _. eexists; reflexivity.
  - intros [Hc|[]]. discriminate.
Qed.

(* ---- B5: the result depends only on the consumed prefix ---- *)
Lemma kernel_loop_starved_app : forall mh pre s s0 extra,
  kernel_loop mh pre s = KStarved s0 ->
  kernel_loop mh (pre ++ extra) s = kernel_loop mh extra s0.
Proof.
  intros mh pre; induction pre as [|o rest IH]; intros s s0 extra; rewrite kernel_loop_eq.
  - destruct (k_remaining s); [discriminate|]. intros H; injection H as <-. reflexivity.
  - intros H. cbn [app]. rewrite (kernel_loop_eq mh (o :: rest ++ extra)).
    destruct (k_remaining s); [discriminate|].
    destruct o.
    + apply IH, H.
    + destruct (mh <=? length (k_stack s)); [discriminate|]. apply IH, H.
    + discriminate.
Qed.

Lemma kernel_loop_app : forall mh outs s extra,
  (forall s', kernel_loop mh outs s <> KStarved s') ->
  kernel_loop mh (outs ++ extra) s = kernel_loop mh outs s.
Proof.
  intros mh outs; induction outs as [|o rest IH]; intros s extra.
  - rewrite (kernel_loop_eq mh []). cbn [app]. rewrite (kernel_loop_eq mh extra).
    destruct (k_remaining s); [reflexivity|]. intros H. exfalso. apply (H s). reflexivity.
  - cbn [app]. rewrite (kernel_loop_eq mh (o :: rest)), (kernel_loop_eq mh (o :: rest ++ extra)).
    destruct (k_remaining s); [reflexivity|].
    destruct o.
    + apply IH.
    + destruct (mh <=? length (k_stack s)); [reflexivity|]. apply IH.
    + reflexivity.
Qed.

Lemma kernel_loop_firstn_consumed : forall mh outs s,
  kernel_loop mh (firstn (consumed mh outs s) outs) s = kernel_loop mh outs s.
Proof.
  intros mh outs; induction outs as [|o rest IH]; intros s.
  - rewrite firstn_nil. reflexivity.
  - cbn [consumed]. rewrite (kernel_loop_eq mh (o :: rest)).
    destruct (k_remaining s) eqn:E.
    + cbn [firstn]. rewrite kernel_loop_eq, E. reflexivity.
    + destruct o.
      * cbn [firstn]. rewrite kernel_loop_eq, E. apply IH.
      * destruct (mh <=? length (k_stack s)) eqn:B; cbn [firstn]; rewrite kernel_loop_eq, E, B.
        -- reflexivity.
        -- apply IH.
      * cbn [firstn]. rewrite kernel_loop_eq, E. reflexivity.
Qed.

Theorem kernel_deterministic_prefix : forall num_base mh outs extra,
  (forall s, kernel num_base mh outs <> KStarved s) ->
  kernel num_base mh (outs ++ extra) = kernel num_base mh outs.
Proof. intros n mh outs extra H. rewrite !kernel_init in *. apply kernel_loop_app, H. Qed.

(* sharper: only the consumed prefix matters *)
Theorem kernel_depends_on_consumed_only : forall num_base mh outs outs',
  (forall s, kernel num_base mh outs <> KStarved s) ->
  let c := consumed mh outs (init_state num_base) in
  firstn c outs' = firstn c outs ->
  kernel num_base mh outs' = kernel num_base mh outs.
Proof.
  intros n mh outs outs' H c Hpre. rewrite !kernel_init in *.
  rewrite <- (firstn_skipn c outs'), Hpre.
  pose proof (kernel_loop_firstn_consumed mh outs (init_state n)) as HF. fold c in HF.
  rewrite kernel_loop_app; [exact HF|]. rewrite HF. exact H.
Qed.

(* ---- B4: divergence is only reported with the halving budget exhausted ---- *)
Lemma diverged_last : forall mh outs s s',
  kernel_loop mh outs s = KDiverged s' ->
  exists pre post s0,
    outs = pre ++ ODiv :: post /\ kernel_loop mh pre s = KStarved s0 /\
    s' = fail_state s0 /\ k_remaining s0 <> 0 /\ mh <= length (k_stack s0) /\
    consumed mh outs s = S (length pre).
Proof.
  intros mh outs; induction outs as [|o rest IH]; intros s s'; rewrite kernel_loop_eq;
    cbn [consumed]; destruct (k_remaining s) eqn:E; try discriminate.
  destruct o.
  - intros H. destruct (IH _ _ H) as (pre & post & s0 & -> & HK & -> & Hr & Hl & Hc).
    exists (OOk :: pre), post, s0. repeat split; try assumption.
    + rewrite kernel_loop_eq, E. exact HK.
    + rewrite Hc. reflexivity.
  - destruct (mh <=? length (k_stack s)) eqn:B.
    + intros H; injection H as <-. exists [], rest, s. apply Nat.leb_le in B.
      repeat split; try assumption; try lia.
      rewrite kernel_loop_eq, E. reflexivity.
    + intros H. destruct (IH _ _ H) as (pre & post & s0 & -> & HK & -> & Hr & Hl & Hc).
      exists (ODiv :: pre), post, s0. repeat split; try assumption.
      * rewrite kernel_loop_eq, E, B. exact HK.
      * rewrite Hc. reflexivity.
  - discriminate.
Qed.

Theorem divergence_only_when_budget_exhausted : forall num_base mh outs s,
  kernel num_base mh outs = KDiverged s ->
  length (k_stack s) = mh /\
  exists pre post,
    outs = pre ++ ODiv :: post /\                        (* the last consumed outcome is ODiv *)
    consumed mh outs (init_state num_base) = S (length pre) /\
    length (k_log s) = S (length pre) /\
    last (k_log s) 0 = mh /\                             (* ... attempted at the smallest factor *)
    (exists s0, kernel num_base mh pre = KStarved s0 /\ s = fail_state s0) /\
    forall post', kernel num_base mh (pre ++ ODiv :: post') = KDiverged s.
Proof.
  intros n mh outs s HK. rewrite kernel_init in HK.
  destruct (diverged_last mh outs _ _ HK) as (pre & post & s0 & Ho & HS & Hs & Hr & Hl & Hc).
  pose proof (depth_result mh pre (init_state n) (inv_depth_init mh n)) as HD.
  rewrite HS in HD. cbn [kstate_of] in HD. destruct HD as [HD _].
  assert (Hlen : length (k_stack s0) = mh) by lia.
  split; [subst s; exact Hlen|].
  exists pre, post. split; [assumption|]. split; [assumption|].
  pose proof (consumed_spec mh outs (init_state n)) as HC. cbn zeta in HC.
  rewrite HK in HC. cbn [kstate_of init_state k_log length] in HC.
  split; [lia|]. split.
  - subst s. unfold fail_state. cbn [k_log]. rewrite last_last. exact Hlen.
  - split.
    + exists s0. rewrite kernel_init. split; assumption.
    + intros post'. rewrite kernel_init, (kernel_loop_starved_app mh pre _ s0 _ HS).
      rewrite kernel_loop_eq. destruct (k_remaining s0); [congruence|].
      apply Nat.leb_le in Hl. rewrite Hl, Hs. reflexivity.
Qed.

(* ========================================================================================== *)
(* Part C: the trajectory switch                                                                *)
(* ========================================================================================== *)

(* flags at draw index i of an EarlyThenMicro chain: (microcanonical?, resample velocity?) *)
Definition switch_flags (sd : N) (i : nat) : bool * bool :=
  ((sd <=? N.of_nat i)%N, (N.of_nat i =? sd)%N).

Lemma switch_run_early_gen : forall sd n a b,
  (b = false -> (N.of_nat a <= sd)%N) -> (b = true -> (sd < N.of_nat a)%N) ->
  switch_run TEarlyThenMicro sd (N.of_nat a) n b = map (switch_flags sd) (seq a n).
Proof.
  intros sd n; induction n as [|n IH]; intros a b Hf Ht; cbn [switch_run seq map]; [reflexivity|].
  replace (N.of_nat a + 1)%N with (N.of_nat (S a)) by lia.
  unfold switch_step at 1 2, switch_flags at 1.
  destruct b; cbn [negb].
  - specialize (Ht eq_refl). rewrite andb_false_r. cbn [fst].
    replace (sd <=? N.of_nat a)%N with true by (symmetry; apply N.leb_le; lia).
    replace (N.of_nat a =? sd)%N with false by (symmetry; apply N.eqb_neq; lia).
    f_equal. apply IH; [discriminate | intros _; lia].
  - specialize (Hf eq_refl). rewrite andb_true_r.
    destruct (N.of_nat a =? sd)%N eqn:E; cbn [fst].
    + apply N.eqb_eq in E.
      replace (sd <=? N.of_nat a)%N with true by (symmetry; apply N.leb_le; lia).
      f_equal. apply IH; [discriminate | intros _; lia].
    + apply N.eqb_neq in E.
      replace (sd <=? N.of_nat a)%N with false by (symmetry; apply N.leb_gt; lia).
      f_equal. apply IH; [intros _; lia | discriminate].
Qed.

(* closed form of the whole run *)
Theorem switch_once : forall sd n,
  switch_run TEarlyThenMicro sd 0 n (initial_micro TEarlyThenMicro)
  = map (switch_flags sd) (seq 0 n).
Proof.
  intros sd n. change 0%N with (N.of_nat 0). apply switch_run_early_gen; [lia | discriminate].
Qed.

(* pointwise reading: kind flag false before index sd and true from sd on;
   resample true exactly at index sd *)
Corollary switch_once_nth : forall sd n i, i < n ->
  exists micro resample,
    nth_error (switch_run TEarlyThenMicro sd 0 n false) i = Some (micro, resample) /\
    (micro = true <-> (sd <= N.of_nat i)%N) /\
    (resample = true <-> N.of_nat i = sd).
Proof.
  intros sd n i Hi. exists (sd <=? N.of_nat i)%N, (N.of_nat i =? sd)%N.
  pose proof (switch_once sd n) as H. cbn [initial_micro] in H. rewrite H. split.
  - rewrite nth_error_map, nth_error_nth' with (d := 0) by (rewrite seq_length; lia).
    rewrite seq_nth by lia. reflexivity.
  - split; [apply N.leb_le | apply N.eqb_eq].
Qed.

Theorem switch_never : forall k sd d n b,
  k = TMicro \/ k = TEuclid ->
  switch_run k sd d n b = repeat (b, false) n.
Proof.
  intros k sd d n b Hk; revert d; induction n as [|n IH]; intros d; cbn [switch_run repeat];
    [reflexivity|].
  destruct Hk as [-> | ->]; cbn [switch_step fst]; f_equal; apply IH.
Qed.

Corollary switch_never_initial : forall k sd n,
  k = TMicro \/ k = TEuclid ->
  switch_run k sd 0 n (initial_micro k) = repeat (initial_micro k, false) n.
Proof. intros. apply switch_never; assumption. Qed.

(* ========================================================================================== *)
(* sanity checks (non-vacuity / sharpness), by computation                                     *)
(* ========================================================================================== *)

(* A2 needs z <> 0: with z = 0 and p = -ghat (alpha = -1) the closed-form norm is 0 and the
   "normalised" momentum is the zero vector *)
Example esh_z0_antiparallel_degenerate :
  esh_norm (esh_alpha [1%Q] [(-1)%Q]) 0 == 0 /\
  ~ qdot (esh_update [1%Q] [(-1)%Q] 0) (esh_update [1%Q] [(-1)%Q] 0) == 1.
Proof. split; [reflexivity | intros H; vm_compute in H; discriminate]. Qed.

(* a run with one retry: 2 base steps, the first attempt diverges, is redone as two half steps *)
Example retry_run :
  exists s, kernel 2 3 [ODiv; OOk; OOk; OOk; OOk] = KDone s /\
            k_steps s = 3 /\ k_log s = [0; 1; 1; 0] /\ Qred (k_time s) = 2%Q.
Proof. eexists. split; [vm_compute; reflexivity|]. repeat split. Qed.

(* nested halving down to the budget, then divergence at the smallest factor *)
Example diverge_run :
  exists s, kernel 1 2 [ODiv; ODiv; ODiv; OOk] = KDiverged s /\
            k_stack s = [2; 1] /\ k_log s = [0; 1; 2].
Proof. eexists. split; [vm_compute; reflexivity|]. repeat split. Qed.

(* ========================================================================================== *)
Print Assumptions esh_raw_norm.
Print Assumptions esh_raw_norm_pow.
Print Assumptions esh_alpha_bounds.
Print Assumptions esh_unit_norm_gen.
Print Assumptions esh_unit_norm.
Print Assumptions esh_log_arg_is_norm_minus_one.
Print Assumptions normalize_unit_at.
Print Assumptions normalize_unit.
Print Assumptions kernel_loop_invariant.
Print Assumptions steps_exact.
Print Assumptions retry_accounting_trace.
Print Assumptions retry_accounting.
Print Assumptions retry_steps_ge.
Print Assumptions retry_steps_eq_iff.
Print Assumptions retry_steps_eq_iff_no_div.
Print Assumptions retry_extra_steps_halved.
Print Assumptions halving_depth_bounded.
Print Assumptions no_budget_div_immediate.
Print Assumptions no_budget_any_div_diverges.
Print Assumptions divergence_only_when_budget_exhausted.
Print Assumptions kernel_deterministic_prefix.
Print Assumptions kernel_depends_on_consumed_only.
Print Assumptions switch_once.
Print Assumptions switch_once_nth.
Print Assumptions switch_never.

(* ========================================================================================== *)
(* Part D: the ESH update is a flow in delta (z multiplies), and the microcanonical leapfrog    *)
(*         step is time-reversible                                                              *)
(* ========================================================================================== *)
Local Open Scope Q_scope.

(* ---- componentwise Qeq of vectors ---- *)
Lemma F2Q_refl : forall l : list Q, Forall2 Qeq l l.
Proof. induction l; constructor; [reflexivity | assumption]. Qed.

Lemma F2Q_sym : forall x y : list Q, Forall2 Qeq x y -> Forall2 Qeq y x.
Proof. induction 1; constructor; [symmetry|]; assumption. Qed.

Lemma F2Q_trans : forall x y z : list Q, Forall2 Qeq x y -> Forall2 Qeq y z -> Forall2 Qeq x z.
Proof.
  intros x y z H; revert z; induction H as [|a b x y Hab _ IH]; intros z Hz; inversion Hz; subst;
    constructor; [etransitivity; eassumption | apply IH; assumption].
Qed.

Lemma F2Q_length : forall x y : list Q, Forall2 Qeq x y -> length x = length y.
Proof. induction 1; cbn [length]; congruence. Qed.

Lemma qdot_F2Q : forall x x' y y',
  Forall2 Qeq x x' -> Forall2 Qeq y y' -> qdot x y == qdot x' y'.
Proof.
  intros x x' y y' H; revert y y'; induction H as [|a a' x x' Ha _ IH]; intros y y' Hy;
    inversion Hy as [|b b' t t' Hb Ht]; subst; cbn [qdot]; try reflexivity.
  rewrite Ha, Hb, (IH _ _ Ht). reflexivity.
Qed.

Lemma qmap2_F2Q : forall F F' : Q -> Q -> Q,
  (forall a a' b b', a == a' -> b == b' -> F a b == F' a' b') ->
  forall x x' y y', Forall2 Qeq x x' -> Forall2 Qeq y y' ->
  Forall2 Qeq (qmap2 F x y) (qmap2 F' x' y').
Proof.
  intros F F' HF x x' y y' H; revert y y'; induction H as [|a a' x x' Ha _ IH]; intros y y' Hy;
    inversion Hy as [|b b' t t' Hb Ht]; subst; cbn [qmap2]; constructor.
  - apply HF; assumption.
  - apply IH; assumption.
Qed.

Lemma qmap2_F2Q_same : forall F F' : Q -> Q -> Q,
  (forall a b, F a b == F' a b) ->
  forall x y, Forall2 Qeq (qmap2 F x y) (qmap2 F' x y).
Proof.
  intros F F' HF x; induction x as [|a x IH]; intros [|b y]; cbn [qmap2]; constructor;
    [apply HF | apply IH].
Qed.

Lemma qmap2_F2Q_snd : forall F : Q -> Q -> Q,
  (forall a b, F a b == b) ->
  forall x y, length x = length y -> Forall2 Qeq (qmap2 F x y) y.
Proof.
  intros F HF x; induction x as [|a x IH]; intros [|b y] Hl; cbn [qmap2]; try discriminate;
    constructor; [apply HF | apply IH; injection Hl as Hl; exact Hl].
Qed.

Lemma map_qmap2 : forall (f : Q -> Q) (h : Q -> Q -> Q) x y,
  map f (qmap2 h x y) = qmap2 (fun a b => f (h a b)) x y.
Proof.
  intros f h x; induction x as [|a x IH]; intros [|b y]; cbn [qmap2 map]; try reflexivity.
  rewrite IH. reflexivity.
Qed.

Lemma qmap2_qmap2_r : forall (F G : Q -> Q -> Q) x y,
  qmap2 F x (qmap2 G x y) = qmap2 (fun a b => F a (G a b)) x y.
Proof.
  intros F G x; induction x as [|a x IH]; intros [|b y]; cbn [qmap2]; try reflexivity.
  rewrite IH. reflexivity.
Qed.

Lemma qmap2_length : forall (F : Q -> Q -> Q) x y,
  length x = length y -> length (qmap2 F x y) = length y.
Proof.
  intros F x; induction x as [|a x IH]; intros [|b y] Hl; cbn [qmap2 length]; try discriminate;
    try reflexivity.
  injection Hl as Hl. rewrite (IH y Hl). reflexivity.
Qed.

Lemma esh_update_length : forall ghat p z,
  length ghat = length p -> length (esh_update ghat p z) = length p.
Proof.
  intros ghat p z Hl. unfold esh_update, esh_raw. rewrite map_length. apply qmap2_length, Hl.
Qed.

Lemma qdot_comb_l : forall (a b : Q) (g p : list Q),
  length g = length p ->
  qdot (qmap2 (fun gi pi => a * gi + b * pi) g p) g == a * qdot g g + b * qdot p g.
Proof.
  intros a b g; induction g as [|x g IH]; intros [|y p] Hl; cbn [qdot qmap2]; try discriminate.
  - ring.
  - injection Hl as Hl. rewrite (IH p Hl). ring.
Qed.

Lemma qdot_map_div_l : forall c u v, qdot (map (fun x => x / c) u) v == qdot u v / c.
Proof.
  intros c u; induction u as [|x u IH]; intros [|y v]; cbn [qdot map]; try (unfold Qdiv; ring).
  rewrite IH. unfold Qdiv. ring.
Qed.

(* ---- alpha after one update, in closed form ---- *)
Lemma esh_alpha_update : forall (ghat p : list Q) (z : Q),
  length ghat = length p -> qdot ghat ghat == 1 ->
  esh_alpha ghat (esh_update ghat p z)
  == (1 + esh_alpha ghat p - (1 - esh_alpha ghat p) * z * z) / esh_norm (esh_alpha ghat p) z.
Proof.
  intros ghat p z Hl Hg. unfold esh_alpha at 1. unfold esh_update, esh_raw.
  rewrite qdot_map_div_l, (qdot_comb_l _ _ ghat p Hl), Hg.
  fold (esh_alpha ghat p). unfold esh_coeff_g, Qdiv. ring.
Qed.

Lemma esh_update_pointwise : forall ghat p z,
  esh_update ghat p z =
  qmap2 (fun g pi => (esh_coeff_g (esh_alpha ghat p) z * g + 2 * z * pi)
                     / esh_norm (esh_alpha ghat p) z) ghat p.
Proof. intros. unfold esh_update, esh_raw. apply map_qmap2. Qed.

(* ---- one component of two successive updates ---- *)
Lemma esh_compose_scalar : forall a a' z1 z2 g x,
  ~ esh_norm a z1 == 0 -> ~ esh_norm a (z1 * z2) == 0 ->
  a' == (1 + a - (1 - a) * z1 * z1) / esh_norm a z1 ->
  (esh_coeff_g a' z2 * g + 2 * z2 * ((esh_coeff_g a z1 * g + 2 * z1 * x) / esh_norm a z1))
    / esh_norm a' z2
  == (esh_coeff_g a (z1 * z2) * g + 2 * (z1 * z2) * x) / esh_norm a (z1 * z2).
Proof.
  intros a a' z1 z2 g x H1 H12 Ha. unfold esh_coeff_g, esh_norm in *. rewrite Ha.
  field. split; [assumption|]. split; [assumption|].
  intro E. apply H12. lra.
Qed.

(* ---- the update composes: delta adds up, z = exp(-delta) multiplies ---- *)
Theorem esh_update_compose : forall (ghat p : list Q) (z1 z2 : Q),
  length ghat = length p -> qdot ghat ghat == 1 -> qdot p p == 1 -> ~ z1 == 0 -> ~ z2 == 0 ->
  Forall2 Qeq (esh_update ghat (esh_update ghat p z1) z2) (esh_update ghat p (z1 * z2)).
Proof.
  intros ghat p z1 z2 Hl Hg Hp Hz1 Hz2.
  destruct (esh_alpha_bounds ghat p Hl Hg Hp) as [Hlo Hhi].
  assert (Hz12 : ~ z1 * z2 == 0).
  { intro E. destruct (Qmult_integral _ _ E); contradiction. }
  pose proof (esh_norm_pos _ z1 Hz1 Hlo Hhi) as HN1.
  pose proof (esh_norm_pos _ (z1 * z2) Hz12 Hlo Hhi) as HN12.
  pose proof (esh_alpha_update ghat p z1 Hl Hg) as Ha'.
  rewrite (esh_update_pointwise ghat (esh_update ghat p z1) z2).
  set (a' := esh_alpha ghat (esh_update ghat p z1)) in *.
  rewrite (esh_update_pointwise ghat p z1), (esh_update_pointwise ghat p (z1 * z2)).
  rewrite qmap2_qmap2_r.
  apply qmap2_F2Q_same. intros g x.
  apply esh_compose_scalar; [lra | lra | exact Ha'].
Qed.

(* z = 1 (delta = 0) is the identity *)
Lemma esh_update_one : forall (ghat p : list Q) (w : Q),
  length ghat = length p -> w == 1 -> Forall2 Qeq (esh_update ghat p w) p.
Proof.
  intros ghat p w Hl Hw. rewrite esh_update_pointwise.
  apply qmap2_F2Q_snd; [|exact Hl]. intros g x.
  unfold esh_coeff_g, esh_norm. rewrite Hw. field. lra.
Qed.

(* the step with z2 = 1 / z1 (delta -> -delta) undoes the step with z1 *)
Theorem esh_update_inverse_gen : forall (ghat p : list Q) (z1 z2 : Q),
  length ghat = length p -> qdot ghat ghat == 1 -> qdot p p == 1 -> z1 * z2 == 1 ->
  Forall2 Qeq (esh_update ghat (esh_update ghat p z1) z2) p.
Proof.
  intros ghat p z1 z2 Hl Hg Hp Hz.
  assert (Hz1 : ~ z1 == 0) by (intro E; rewrite E in Hz; lra).
  assert (Hz2 : ~ z2 == 0) by (intro E; rewrite E in Hz; lra).
  eapply F2Q_trans; [apply esh_update_compose; assumption|].
  apply esh_update_one; assumption.
Qed.

Theorem esh_update_inverse : forall (ghat p : list Q) (z : Q),
  length ghat = length p -> qdot ghat ghat == 1 -> qdot p p == 1 -> ~ z == 0 ->
  Forall2 Qeq (esh_update ghat (esh_update ghat p z) (/ z)) p.
Proof.
  intros ghat p z Hl Hg Hp Hz. apply esh_update_inverse_gen; try assumption.
  apply Qmult_inv_r, Hz.
Qed.

(* ---- the update respects componentwise Qeq in all three arguments ---- *)
Lemma esh_update_F2Q : forall g g' p p' z z',
  Forall2 Qeq g g' -> Forall2 Qeq p p' -> z == z' ->
  Forall2 Qeq (esh_update g p z) (esh_update g' p' z').
Proof.
  intros g g' p p' z z' Hg Hp Hz. rewrite !esh_update_pointwise.
  assert (Ha : esh_alpha g p == esh_alpha g' p') by (unfold esh_alpha; apply qdot_F2Q; assumption).
  apply qmap2_F2Q; try assumption.
  intros a a' b b' Hab Hb. unfold esh_coeff_g, esh_norm. rewrite Ha, Hz, Hab, Hb. reflexivity.
Qed.

(* the position drift with the opposite sign, along a momentum equal up to Qeq, is undone *)
Lemma drift_undo : forall (d d' : Q) (q p r : list Q),
  d' == - d -> length q = length p -> Forall2 Qeq r p ->
  Forall2 Qeq (qmap2 (fun a b => a + d' * b) (qmap2 (fun a b => a + d * b) q p) r) q.
Proof.
  intros d d' q; induction q as [|x q IH]; intros [|y p] r Hd Hl Hr; try discriminate;
    inversion Hr as [|w y' r' p' Hw Hr']; subst; cbn [qmap2]; constructor.
  - rewrite Hd, Hw. ring.
  - apply IH; [exact Hd | injection Hl as Hl; exact Hl | exact Hr'].
Qed.

Section MicroReversible.
  Variable ghat_of : list Q -> list Q.
  Variable z_of : list Q -> Q.
  Variable c : Q.
  Variable n : nat.           (* the dimension; all hypotheses are about positions of length n *)
  Hypothesis ghat_len : forall x, length x = n -> length (ghat_of x) = n.
  Hypothesis ghat_unit : forall x, length x = n -> qdot (ghat_of x) (ghat_of x) == 1.
  Hypothesis z_nz : forall x, length x = n -> ~ z_of x == 0.
  (* positions equal up to Qeq (1/2 vs 2/4) give the same direction and the same z, up to Qeq *)
  Hypothesis pos_compat : forall x y, length x = n ->
    Forall2 Qeq x y -> Forall2 Qeq (ghat_of x) (ghat_of y) /\ z_of x == z_of y.

  (* a step with (zz, d) followed by a step with (zz', d'), where zz' = 1 / zz and d' = - d *)
  Lemma micro_core : forall (zz zz' : list Q -> Q) (d d' : Q),
    (forall x, length x = n -> zz x * zz' x == 1) ->
    (forall x y, length x = n -> Forall2 Qeq x y -> zz' x == zz' y) ->
    d' == - d ->
    forall q p, length q = n -> length p = n -> qdot p p == 1 ->
    let p1 := esh_update (ghat_of q) p (zz q) in
    let q1 := qmap2 (fun a b => a + d * b) q p1 in
    let p2 := esh_update (ghat_of q1) p1 (zz q1) in
    let r1 := esh_update (ghat_of q1) p2 (zz' q1) in
    let q2 := qmap2 (fun a b => a + d' * b) q1 r1 in
    let r2 := esh_update (ghat_of q2) r1 (zz' q2) in
    Forall2 Qeq q2 q /\ Forall2 Qeq r2 p.
  Proof.
    intros zz zz' d d' Hinv Hcompat Hd q p Hq Hl Hp p1 q1 p2 r1 q2 r2.
    assert (Hg0 : length (ghat_of q) = length p) by (rewrite ghat_len; congruence).
    assert (Hzq : ~ zz q == 0) by (intro E; pose proof (Hinv q Hq) as H; rewrite E in H; lra).
    assert (Hp1u : qdot p1 p1 == 1) by (apply esh_unit_norm_gen; auto).
    assert (Hp1l : length p1 = length p) by (apply esh_update_length; exact Hg0).
    assert (Hqp1 : length q = length p1) by congruence.
    assert (Hq1l : length q1 = length p1) by (apply qmap2_length; exact Hqp1).
    assert (Hq1 : length q1 = n) by congruence.
    assert (Hg1 : length (ghat_of q1) = length p1) by (rewrite ghat_len; congruence).
    assert (Hr1 : Forall2 Qeq r1 p1) by (apply esh_update_inverse_gen; auto).
    assert (Hq2 : Forall2 Qeq q2 q) by (apply drift_undo; assumption).
    assert (Hq2l : length q2 = n) by (rewrite (F2Q_length _ _ Hq2); exact Hq).
    split; [exact Hq2|].
    destruct (pos_compat q2 q Hq2l Hq2) as [Hg _].
    eapply F2Q_trans.
    - apply esh_update_F2Q; [exact Hg | exact Hr1 | apply Hcompat; [exact Hq2l | exact Hq2]].
    - apply esh_update_inverse_gen; auto.
  Qed.

  (* either direction first *)
  Theorem micro_step_reversible_dir : forall (fwd : bool) (q p : list Q),
    length q = n -> length p = n -> qdot p p == 1 ->
    let s := micro_step ghat_of z_of c fwd q p in
    let s' := micro_step ghat_of z_of c (negb fwd) (fst s) (snd s) in
    Forall2 Qeq (fst s') q /\ Forall2 Qeq (snd s') p.
  Proof.
    intros [|] q p Hq Hl Hp.
    - refine (micro_core z_of (fun x => / z_of x) c (- c) _ _ _ q p Hq Hl Hp).
      + intros x Hx. apply Qmult_inv_r, z_nz, Hx.
      + intros x y Hx H. destruct (pos_compat x y Hx H) as [_ E]. rewrite E. reflexivity.
      + reflexivity.
    - refine (micro_core (fun x => / z_of x) z_of (- c) c _ _ _ q p Hq Hl Hp).
      + intros x Hx. rewrite Qmult_comm. apply Qmult_inv_r, z_nz, Hx.
      + intros x y Hx H. apply (pos_compat x y Hx H).
      + ring.
  Qed.

  (* forward then backward *)
  Theorem micro_step_reversible : forall (q p : list Q),
    length q = n -> length p = n -> qdot p p == 1 ->
    let (q1, p1) := micro_step ghat_of z_of c true q p in
    let (q2, p2) := micro_step ghat_of z_of c false q1 p1 in
    Forall2 Qeq q2 q /\ Forall2 Qeq p2 p.
  Proof. intros q p Hq Hl Hp. exact (micro_step_reversible_dir true q p Hq Hl Hp). Qed.

  (* backward then forward *)
  Theorem micro_step_reversible_bwd : forall (q p : list Q),
    length q = n -> length p = n -> qdot p p == 1 ->
    let (q1, p1) := micro_step ghat_of z_of c false q p in
    let (q2, p2) := micro_step ghat_of z_of c true q1 p1 in
    Forall2 Qeq q2 q /\ Forall2 Qeq p2 p.
  Proof. intros q p Hq Hl Hp. exact (micro_step_reversible_dir false q p Hq Hl Hp). Qed.
End MicroReversible.

(* ---- non-vacuity ---- *)
(* a position-dependent direction field and z on dimension 2 satisfying the four hypotheses of
   MicroReversible (no direction field can satisfy them on dimension 0, hence the parameter n) *)
Definition ex_ghat (x : list Q) : list Q :=
  if Qle_bool 0 (hd 0 x) then [3 # 5; 4 # 5] else [1; 0].
Definition ex_z (x : list Q) : Q := 1 / (1 + hd 0 x * hd 0 x).

Lemma ex_hd_compat : forall x y, Forall2 Qeq x y -> hd 0 x == hd 0 y.
Proof. intros x y [|a b x' y' H _]; cbn [hd]; [reflexivity | exact H]. Qed.

Lemma ex_micro_hyps :
  (forall x, length x = 2%nat -> length (ex_ghat x) = 2%nat) /\
  (forall x, length x = 2%nat -> qdot (ex_ghat x) (ex_ghat x) == 1) /\
  (forall x, length x = 2%nat -> ~ ex_z x == 0) /\
  (forall x y, length x = 2%nat -> Forall2 Qeq x y ->
     Forall2 Qeq (ex_ghat x) (ex_ghat y) /\ ex_z x == ex_z y).
Proof.
  split; [|split; [|split]].
  - intros x _. unfold ex_ghat. destruct (Qle_bool 0 (hd 0 x)); reflexivity.
  - intros x _. unfold ex_ghat. destruct (Qle_bool 0 (hd 0 x)); reflexivity.
  - intros x _. unfold ex_z. set (a := hd 0 x). intro E.
    assert (Hpos : ~ 1 + a * a == 0) by nra.
    assert (H : (1 + a * a) * (1 / (1 + a * a)) == 1) by (field; exact Hpos).
    rewrite E in H. lra.
  - intros x y _ H. pose proof (ex_hd_compat x y H) as Hh. unfold ex_ghat, ex_z. split.
    + rewrite Hh. apply F2Q_refl.
    + rewrite Hh. reflexivity.
Qed.

(* the hypotheses of the inverse / reversibility theorems are satisfiable, and the round trip
   returns the starting point, on concrete vectors *)
Example esh_inverse_concrete :
  let ghat := [3 # 5; 4 # 5] in let p := [0; 1] in let z := 1 # 2 in
  length ghat = length p /\ qdot ghat ghat == 1 /\ qdot p p == 1 /\ ~ z == 0 /\
  map Qred (esh_update ghat p z) = [57 # 185; 176 # 185] /\
  map Qred (esh_update ghat (esh_update ghat p z) (/ z)) = p.
Proof. cbv zeta. repeat split; try (vm_compute; reflexivity). intro H; vm_compute in H; discriminate. Qed.

(* forward then backward from q = (-1/2, -2), p = (0, 1) with c = 3: the step crosses the two
   branches of ex_ghat; the starting point is recovered *)
Example micro_roundtrip_concrete :
  let s := micro_step ex_ghat ex_z 3 true [-1 # 2; -2 # 1] [0; 1] in
  let s' := micro_step ex_ghat ex_z 3 false (fst s) (snd s) in
  map Qred (fst s) = [13 # 82; 38 # 41] /\
  Forall2 Qeq (fst s') [-1 # 2; -2 # 1] /\ Forall2 Qeq (snd s') [0; 1].
Proof.
  (* the forward step is computed; the way back follows from the theorem (evaluating it as well
     costs an independent checker a quarter of an hour of rational arithmetic) *)
  split; [vm_compute; reflexivity|].
  destruct ex_micro_hyps as (H1 & H2 & H3 & H4).
  assert (Hp : qdot [0; 1] [0; 1] == 1) by (vm_compute; reflexivity).
  exact (micro_step_reversible_dir ex_ghat ex_z 3 2%nat H1 H2 H3 H4 true
           [-1 # 2; -2 # 1] [0; 1] eq_refl eq_refl Hp).
Qed.

Print Assumptions esh_update_compose.
Print Assumptions esh_update_inverse_gen.
Print Assumptions esh_update_inverse.
Print Assumptions micro_step_reversible_dir.
Print Assumptions micro_step_reversible.
Print Assumptions micro_step_reversible_bwd.
Print Assumptions esh_inverse_concrete.
Print Assumptions ex_micro_hyps.
Print Assumptions micro_roundtrip_concrete.

(* micro_step is micro_step_inputs at the values of ghat_of / z_of along the step *)
Lemma micro_step_is_inputs :
  forall (ghat_of : list Q -> list Q) (z_of : list Q -> Q) (c : Q) (fwd : bool) (q p : list Q),
    let q1 := fst (micro_step ghat_of z_of c fwd q p) in
    let zz := fun x => if fwd then z_of x else / z_of x in
    micro_step ghat_of z_of c fwd q p =
    micro_step_inputs (ghat_of q) (ghat_of q1) (zz q) (zz q1) (if fwd then c else - c) q p.
Proof. intros. unfold micro_step, micro_step_inputs. destruct fwd; reflexivity. Qed.
