From Coq Require Import List Arith Lia.
From NutsV Require Import model.Chain.
Import ListNotations.

Section Facts.
  Variable T : Type.
  Variable stream : nat -> T.
  Variable dim : nat.

  Lemma velocities_spec : forall n pos,
    velocities T stream dim pos n = map (fun k => segment T stream dim (pos + k * dim)) (seq 0 n).
  Proof.
    induction n as [|n IH]; intros pos; cbn [velocities seq map]; [reflexivity|].
    unfold draw_velocity. f_equal.
    - f_equal. lia.
    - rewrite IH. rewrite <- seq_shift, map_map. apply map_ext. intros k. f_equal. cbn. lia.
  Qed.

  (* the velocity of draw k is exactly the k-th block of dim stream outputs, scale 1 *)
  Theorem momentum_fresh : forall n k, k < n ->
    nth k (velocities T stream dim 0 n) [] = map stream (indices dim k).
  Proof.
    intros n k Hk. rewrite velocities_spec.
    set (f := fun k0 : nat => segment T stream dim (0 + k0 * dim)).
    rewrite (nth_indep (map f (seq 0 n)) [] (f 0)) by (rewrite map_length, seq_length; exact Hk).
    rewrite map_nth. rewrite seq_nth by exact Hk. unfold f, segment, indices. reflexivity.
  Qed.

  (* different draws use disjoint stream segments, in order *)
  Theorem segments_disjoint : forall j k i, j < k -> In i (indices dim j) -> In i (indices dim k) -> False.
  Proof.
    intros j k i Hjk Hj Hk. unfold indices in *. apply in_seq in Hj. apply in_seq in Hk.
    assert (j * dim + dim <= k * dim) by nia. lia.
  Qed.

  Theorem segment_length : forall pos, length (segment T stream dim pos) = dim.
  Proof. intros. unfold segment. rewrite map_length, seq_length. reflexivity. Qed.
End Facts.
