(* Facts about the presence model (model/Stats.v) on the declarations regenerated from the
   sources (gen/StorableDecls.v).  The closed obligations are decided by vm_compute over the
   finite set presets x declared names x option switches x draw views. *)
From Coq Require Import String List Bool ZArith Lia.
From NutsV Require Import model.Derive model.Stats gen.StorableDecls proofs.Derive_facts.
Import ListNotations.
Local Open Scope string_scope.
Local Open Scope list_scope.

(* ---------------------------------------------------------------------------------------- *)
(* Enumerations are complete                                                                  *)
(* ---------------------------------------------------------------------------------------- *)
Lemma all_opts_complete : forall o, In o all_opts.
Proof.
  intros [[] [] [] [] []]; vm_compute; repeat (first [left; reflexivity | right]).
Qed.

Lemma all_views_complete : forall v, In v all_views.
Proof.
  intros [[[]|] [] []]; vm_compute; repeat (first [left; reflexivity | right]).
Qed.

Definition check_presets (P : decl -> string -> opts -> view -> bool) : bool :=
  forallb (fun pd : string * decl =>
    forallb (fun n => let q := P (snd pd) n in
                      forallb (fun o => forallb (fun v => q o v) all_views) all_opts)
            (names (snd pd))) presets.

Lemma check_presets_sound : forall P, check_presets P = true ->
  forall pn d n o v, In (pn, d) presets -> In n (names d) -> P d n o v = true.
Proof.
  intros P H pn d n o v Hd Hn. unfold check_presets in H.
  rewrite forallb_forall in H. specialize (H (pn, d) Hd). cbv beta zeta in H.
  change (snd (pn, d)) with d in H.
  rewrite forallb_forall in H. specialize (H n Hn).
  rewrite forallb_forall in H. specialize (H o (all_opts_complete o)).
  rewrite forallb_forall in H. exact (H v (all_views_complete v)).
Qed.

Lemma event_dim_known : forall d n e, event_dim d n = Some e -> In n (names d).
Proof.
  intros d n e H. apply (lookup_known_name _ (fun _ _ ev _ => ev)). unfold event_dim in H. congruence.
Qed.

(* ---------------------------------------------------------------------------------------- *)
(* Closed obligations on the regenerated presets                                              *)
(* ---------------------------------------------------------------------------------------- *)
Lemma presets_classified : forallb (fun pd : string * decl => all_classified (snd pd)) presets = true.
Proof. vm_compute. reflexivity. Qed.

Lemma presets_event_only : check_presets chk_event_only = true.
Proof. vm_compute. reflexivity. Qed.

Lemma presets_identifying : check_presets chk_identifying = true.
Proof. vm_compute. reflexivity. Qed.

Lemma presets_identifying_declared :
  forallb (fun pd : string * decl => chk_identifying_declared (snd pd)) presets = true.
Proof. vm_compute. reflexivity. Qed.

Lemma presets_non_event : check_presets chk_non_event = true.
Proof. vm_compute. reflexivity. Qed.

(* ---------------------------------------------------------------------------------------- *)
(* The statements                                                                             *)
(* ---------------------------------------------------------------------------------------- *)
Lemma event_only_on_event_lemma : forall pn d, In (pn, d) presets ->
  forall name ev o v,
    event_dim d name = Some (Some ev) -> present d o v name = Some true ->
    event_happened v ev = Some true.
Proof.
  intros pn d Hd name ev o v Hev Hp.
  pose proof (check_presets_sound _ presets_event_only pn d name o v Hd (event_dim_known _ _ _ Hev)) as H.
  unfold chk_event_only in H. rewrite Hev in H.
  unfold present in Hp. unfold event_happened.
  destruct (event_fn ev) as [h|]; destruct (presence_fn d name) as [p|]; simpl in *; try discriminate.
  assert (Hp' : p o v = true) by congruence. rewrite Hp' in H. simpl in H. congruence.
Qed.

Lemma identifying_on_every_event_lemma : forall pn d, In (pn, d) presets ->
  forall name ev o v,
    event_dim d name = Some (Some ev) -> In name (identifying ev) ->
    exists h, event_happened v ev = Some h /\ present d o v name = Some h.
Proof.
  intros pn d Hd name ev o v Hev Hid.
  pose proof (check_presets_sound _ presets_identifying pn d name o v Hd (event_dim_known _ _ _ Hev)) as H.
  unfold chk_identifying in H. rewrite Hev in H.
  apply mem_In in Hid. rewrite Hid in H.
  unfold present, event_happened.
  destruct (event_fn ev) as [h|]; destruct (presence_fn d name) as [p|]; simpl in *; try discriminate.
  apply Bool.eqb_prop in H. exists (h v). rewrite H. split; reflexivity.
Qed.

Lemma identifying_declared_lemma : forall pn d, In (pn, d) presets ->
  forall name ev, event_dim d name = Some (Some ev) ->
    identifying ev <> [] /\ forall i, In i (identifying ev) -> event_dim d i = Some (Some ev).
Proof.
  intros pn d Hd name ev Hev.
  pose proof presets_identifying_declared as H. rewrite forallb_forall in H.
  specialize (H (pn, d) Hd). cbv beta in H. change (snd (pn, d)) with d in H.
  unfold chk_identifying_declared in H.
  rewrite forallb_forall in H. specialize (H name (event_dim_known _ _ _ Hev)).
  rewrite Hev in H. apply andb_true_iff in H. destruct H as [H1 H2]. split.
  - intro E. rewrite E in H1. discriminate.
  - intros i Hi. rewrite forallb_forall in H2. specialize (H2 i Hi).
    destruct (event_dim d i) as [[e'|]|]; try discriminate.
    apply String.eqb_eq in H2. subst. reflexivity.
Qed.

Lemma non_event_all_or_none_lemma : forall pn d, In (pn, d) presets ->
  forall name o, event_dim d name = Some None ->
    exists b, forall v, present d o v name = Some b.
Proof.
  intros pn d Hd name o Hev.
  pose proof (fun v => check_presets_sound _ presets_non_event pn d name o v Hd (event_dim_known _ _ _ Hev)) as H.
  unfold chk_non_event in H. rewrite Hev in H. unfold present.
  destruct (presence_fn d name) as [p|]; simpl in *.
  - exists (p o view0). intros v. specialize (H v). apply Bool.eqb_prop in H. rewrite H. reflexivity.
  - specialize (H view0). discriminate.
Qed.

(* ---------------------------------------------------------------------------------------- *)
(* Last reported id                                                                           *)
(* ---------------------------------------------------------------------------------------- *)
(* An update is reported on draw k iff the id at draw k differs from the id at draw k-1 (for
   k = 0: from the initially stored id). *)
Lemma reports_spec : forall ids last k,
    nth_error (reports last ids) k =
    option_map (fun cur => negb (Z.eqb cur (nth k (last :: ids) 0%Z))) (nth_error ids k).
Proof.
  induction ids as [|cur tl IH]; intros last k.
  - destruct k; reflexivity.
  - destruct k as [|k]; simpl.
    + reflexivity.
    + rewrite IH. reflexivity.
Qed.

Lemma reports_length : forall ids last, length (reports last ids) = length ids.
Proof. induction ids; intros; simpl; [reflexivity | rewrite IHids; reflexivity]. Qed.

Lemma reports_app : forall a b last,
    reports last (a ++ b) = reports last a ++ reports (List.last a last) b.
Proof.
  induction a as [|x a IH]; intros b last; simpl; [reflexivity|].
  rewrite IH. f_equal. f_equal. destruct a as [|z a]; [reflexivity|].
  clear. revert z. induction a as [|y a IHa]; intros z; [reflexivity|].
  change (List.last (z :: y :: a) x) with (List.last (y :: a) x).
  change (List.last (z :: y :: a) last) with (List.last (y :: a) last). apply IHa.
Qed.

Lemma reports_repeat : forall n x, reports x (repeat x n) = repeat false n.
Proof.
  induction n; intros x; simpl; [reflexivity|].
  rewrite Z.eqb_refl. simpl. rewrite IHn. reflexivity.
Qed.

(* while the id stays at x (n+1 draws after the history `pre`), the update is reported on the
   first of these draws iff x differs from the id before, and on none of the later ones *)
Lemma update_reported_once_lemma : forall pre x n last,
    reports last (pre ++ repeat x (S n)) =
    reports last pre ++ negb (Z.eqb x (List.last pre last)) :: repeat false n.
Proof.
  intros. rewrite reports_app. simpl. rewrite reports_repeat. reflexivity.
Qed.

(* after every expanded_draw the stored id is the current one *)
Lemma stored_id_is_current : forall last cur, snd (report_step last cur) = cur.
Proof. reflexivity. Qed.
