(* Machine-checked facts about the SIMD-kernel model (model/Kernel.v):
     P1/P2  partition of [0,n) and output lengths, for ANY number type;
     E1-E4  element-wise kernels over Q compute the textbook point-wise formula;
     R1-R4  reductions over Q compute the textbook sum (every element read exactly once),
            for every lane count that is a power of two and both values of fused_e;
     F1/F2  binary64: all_finite(_nonzero) characterisation, NaN propagation of + * fma -.
   No Admitted / Axiom / Parameter.  The Q part is axiom free; the binary64 part inherits the
   standard-library axioms Flocq's IEEE754 development depends on (see Print Assumptions at
   the end of the file). *)
From Coq Require Import ZArith NArith Bool List Lia QArith Lqa Setoid Morphisms.
From NutsV Require Import model.Kernel.
Import ListNotations.
Local Close Scope Q_scope.
Local Open Scope nat_scope.

(* ====================================================================================== *)
(* 0. generic list lemmas                                                                  *)
(* ====================================================================================== *)
Section Lists.
  Context {A B C D E : Type}.

  Lemma map2_length (f : A -> B -> C) x y :
    length x = length y -> length (map2 f x y) = length x.
  Proof.
    revert y; induction x as [|a x IH]; intros [|b y] H; simpl in *; try discriminate; auto.
  Qed.

  Lemma map3_length (f : A -> B -> C -> D) x y z :
    length x = length y -> length x = length z -> length (map3 f x y z) = length x.
  Proof.
    revert y z; induction x as [|a x IH]; intros [|b y] [|c z] H1 H2; simpl in *;
      try discriminate; auto.
  Qed.

  Lemma map2_nil_r (f : A -> B -> C) x : map2 f x [] = [].
  Proof. destruct x; reflexivity. Qed.

  Lemma map2_app (f : A -> B -> C) a b c d :
    length a = length c -> map2 f (a ++ b) (c ++ d) = map2 f a c ++ map2 f b d.
  Proof.
    revert c; induction a as [|p a IH]; intros [|q c] H; simpl in *; try discriminate; auto.
    f_equal; apply IH; lia.
  Qed.

  Lemma map3_app (f : A -> B -> C -> D) a b c a' b' c' :
    length a = length b -> length a = length c ->
    map3 f (a ++ a') (b ++ b') (c ++ c') = map3 f a b c ++ map3 f a' b' c'.
  Proof.
    revert b c; induction a as [|p a IH]; intros [|q b] [|r c] H1 H2; simpl in *;
      try discriminate; auto.
    f_equal; apply IH; lia.
  Qed.

  Lemma firstn_map2 (f : A -> B -> C) n x y :
    firstn n (map2 f x y) = map2 f (firstn n x) (firstn n y).
  Proof.
    revert x y; induction n as [|n IH]; intros [|a x] [|b y]; simpl; auto.
    f_equal; apply IH.
  Qed.

  Lemma skipn_map2 (f : A -> B -> C) n x y :
    skipn n (map2 f x y) = map2 f (skipn n x) (skipn n y).
  Proof.
    revert x y; induction n as [|n IH]; intros [|a x] [|b y]; simpl; auto.
    now rewrite map2_nil_r.
  Qed.

  Lemma firstn_map3 (f : A -> B -> C -> D) n x y z :
    firstn n (map3 f x y z) = map3 f (firstn n x) (firstn n y) (firstn n z).
  Proof.
    revert x y z; induction n as [|n IH]; intros [|a x] [|b y] [|c z]; simpl; auto.
    f_equal; apply IH.
  Qed.

  Lemma firstn_add (n m : nat) (x : list A) :
    firstn (n + m) x = firstn n x ++ firstn m (skipn n x).
  Proof.
    revert x; induction n as [|n IH]; intros [|a x]; simpl; auto.
    - now rewrite firstn_nil.
    - f_equal; apply IH.
  Qed.

  Lemma skipn_add (n m : nat) (x : list A) : skipn (n + m) x = skipn m (skipn n x).
  Proof.
    revert x; induction n as [|n IH]; intros [|a x]; simpl; auto.
    now rewrite skipn_nil.
  Qed.

  Lemma Forall2_len (R : A -> B -> Prop) x y : Forall2 R x y -> length x = length y.
  Proof. induction 1; simpl; auto. Qed.

  Lemma Forall2_firstn (R : A -> B -> Prop) n x y :
    Forall2 R x y -> Forall2 R (firstn n x) (firstn n y).
  Proof.
    intros H; revert n; induction H as [|a b x y Hab H IH]; intros [|n]; simpl; auto.
  Qed.

  Lemma Forall2_skipn (R : A -> B -> Prop) n x y :
    Forall2 R x y -> Forall2 R (skipn n x) (skipn n y).
  Proof.
    intros H; revert n; induction H as [|a b x y Hab H IH]; intros [|n]; simpl; auto.
  Qed.

  Lemma Forall2_map2_ext (R : C -> D -> Prop) (f : A -> B -> C) (g : A -> B -> D) x y :
    (forall a b, R (f a b) (g a b)) -> Forall2 R (map2 f x y) (map2 g x y).
  Proof.
    intros H; revert y; induction x as [|a x IH]; intros [|b y]; simpl; auto.
  Qed.

  Lemma Forall2_map3_ext (R : D -> E -> Prop) (f : A -> B -> C -> D) (g : A -> B -> C -> E)
        x y z :
    (forall a b c, R (f a b c) (g a b c)) -> Forall2 R (map3 f x y z) (map3 g x y z).
  Proof.
    intros H; revert y z; induction x as [|a x IH]; intros [|b y] [|c z]; simpl; auto.
  Qed.
End Lists.

(* ====================================================================================== *)
(* 1. facts that hold for ANY number type                                                  *)
(* ====================================================================================== *)
Section Generic.
  Variable L : nat.

  (* P1: the unrolled body (groups of four vectors), the leftover vectors and the scalar tail
     partition [0,n) *)
  Theorem partition (n : nat) :
    1 <= L ->
    ngroups L n * 4 * L + nrest L n * L + ntail L n = n /\ nrest L n < 4 /\ ntail L n < L.
  Proof.
    intros HL. unfold ngroups, nrest, ntail, nvec.
    assert (H4 : (n / L) = 4 * ((n / L) / 4) + (n / L) mod 4) by (apply Nat.div_mod; lia).
    assert (HLn : n = L * (n / L) + n mod L) by (apply Nat.div_mod; lia).
    assert (Hr : (n / L) mod 4 < 4) by (apply Nat.mod_upper_bound; lia).
    assert (Ht : n mod L < L) by (apply Nat.mod_upper_bound; lia).
    repeat split; auto.
    set (q := n / L) in *. set (g := q / 4) in *. set (r := q mod 4) in *.
    set (t := n mod L) in *.
    clearbody g r t. clearbody q. subst q. lia.
  Qed.

  Lemma nvec_le (n : nat) : nvec L n * L <= n.
  Proof.
    unfold nvec. destruct L as [|l]; [simpl; lia|].
    rewrite Nat.mul_comm. apply Nat.mul_div_le. lia.
  Qed.

  Lemma head_tail {A} (x : list A) : head L x ++ tail L x = x.
  Proof. apply firstn_skipn. Qed.

  Lemma head_length {A} (x : list A) : length (head L x) = nvec L (length x) * L.
  Proof. unfold head. rewrite firstn_length. pose proof (nvec_le (length x)). lia. Qed.

  Lemma tail_length {A} (x : list A) : length (tail L x) = ntail L (length x).
  Proof.
    unfold tail. rewrite skipn_length. unfold ntail, nvec.
    destruct L as [|l]; [simpl; lia|].
    pose proof (Nat.div_mod (length x) (S l)). lia.
  Qed.

  (* the vectors really have L lanes *)
  Lemma vec_at_length {A} (x : list A) i : i < nvec L (length x) -> length (vec_at L x i) = L.
  Proof.
    intros Hi. unfold vec_at. rewrite firstn_length, skipn_length.
    pose proof (nvec_le (length x)). nia.
  Qed.

  Lemma head_map2 {A B C} (f : A -> B -> C) x y :
    length x = length y -> head L (map2 f x y) = map2 f (head L x) (head L y).
  Proof.
    intros H. unfold head. rewrite map2_length by auto. rewrite <- H. apply firstn_map2.
  Qed.

  Lemma tail_map2 {A B C} (f : A -> B -> C) x y :
    length x = length y -> tail L (map2 f x y) = map2 f (tail L x) (tail L y).
  Proof.
    intros H. unfold tail. rewrite map2_length by auto. rewrite <- H. apply skipn_map2.
  Qed.

  Lemma vec_at_map2 {A B C} (f : A -> B -> C) x y i :
    vec_at L (map2 f x y) i = map2 f (vec_at L x i) (vec_at L y i).
  Proof. unfold vec_at. now rewrite skipn_map2, firstn_map2. Qed.

  Section Elementwise.
    Variable T : Type.

    (* the element-wise kernels compute ONE point-wise map as soon as the vector body and the
       scalar tail agree (up to a relation R) with a common point-wise function g *)
    Lemma elementwise2_rel (R : T -> T -> Prop) (fv fs g : T -> T -> T) x y :
      length x = length y ->
      (forall a b, R (fv a b) (g a b)) -> (forall a b, R (fs a b) (g a b)) ->
      Forall2 R (elementwise2 T L fv fs x y) (map2 g x y).
    Proof.
      intros Hl Hv Hs. unfold elementwise2.
      rewrite <- (head_tail x) at 3. rewrite <- (head_tail y) at 3.
      rewrite map2_app by (rewrite !head_length; now rewrite Hl).
      apply Forall2_app; now apply Forall2_map2_ext.
    Qed.

    Lemma elementwise3_rel (R : T -> T -> Prop) (fv fs g : T -> T -> T -> T) x y z :
      length x = length y -> length x = length z ->
      (forall a b c, R (fv a b c) (g a b c)) -> (forall a b c, R (fs a b c) (g a b c)) ->
      Forall2 R (elementwise3 T L fv fs x y z) (map3 g x y z).
    Proof.
      intros Hy Hz Hv Hs. unfold elementwise3.
      rewrite <- (head_tail x) at 3. rewrite <- (head_tail y) at 3.
      rewrite <- (head_tail z) at 3.
      rewrite map3_app by (rewrite !head_length; now rewrite <- ?Hy, <- ?Hz).
      apply Forall2_app; now apply Forall2_map3_ext.
    Qed.

    Lemma elementwise2_length (fv fs : T -> T -> T) x y :
      length x = length y -> length (elementwise2 T L fv fs x y) = length x.
    Proof.
      intros Hl.
      rewrite (Forall2_len _ _ _ (elementwise2_rel (fun _ _ => True) fv fs fv x y Hl
                                 (fun _ _ => I) (fun _ _ => I))).
      now apply map2_length.
    Qed.

    Lemma elementwise3_length (fv fs : T -> T -> T -> T) x y z :
      length x = length y -> length x = length z ->
      length (elementwise3 T L fv fs x y z) = length x.
    Proof.
      intros Hy Hz.
      rewrite (Forall2_len _ _ _ (elementwise3_rel (fun _ _ => True) fv fs fv x y z Hy Hz
                                 (fun _ _ _ => I) (fun _ _ _ => I))).
      now apply map3_length.
    Qed.

    (* P2: output lengths of the element-wise kernels *)
    Variables (add mul : T -> T -> T) (neg : T -> T) (fma : T -> T -> T -> T) (fe : bool).

    Theorem elementwise_length :
      (forall x y, length x = length y -> length (k_multiply T mul L x y) = length x) /\
      (forall a x y, length x = length y -> length (k_axpy T add mul fma fe L a x y) = length x) /\
      (forall s c p v, length p = length v ->
         length (fst (k_std_norm_flow T add mul neg fma L s c p v)) = length p /\
         length (snd (k_std_norm_flow T add mul neg fma L s c p v)) = length p) /\
      (forall eps p g v, length p = length g -> length p = length v ->
         length (k_std_norm_grad_flow T add mul fma L eps p g v) = length p).
    Proof.
      repeat split; intros; unfold k_multiply, k_axpy, k_std_norm_flow, k_std_norm_grad_flow;
        cbn [fst snd]; auto using elementwise2_length, elementwise3_length.
    Qed.
  End Elementwise.
End Generic.

(* ====================================================================================== *)
(* 2. the rational instance                                                                *)
(* ====================================================================================== *)
Definition Qfma (a b c : Q) : Q := (a * b + c)%Q.

(* the textbook sums *)
Fixpoint sumQ (l : list Q) : Q := match l with [] => 0%Q | a :: l' => (a + sumQ l')%Q end.
Fixpoint dotl (x y : list Q) : Q :=
  match x, y with a :: x', b :: y' => (a * b + dotl x' y')%Q | _, _ => 0%Q end.

Notation Qeql := (Forall2 Qeq).

Section QInst.
  Local Open Scope Q_scope.
  Variable fe : bool.      (* fused_e: both values *)
  Variable L : nat.        (* lanes *)

  Notation mae := (mul_add_e Q Qplus Qmult Qfma fe).

  Lemma mae_eq a b c : mae a b c == a * b + c.
  Proof. unfold mul_add_e, Qfma; destruct fe; reflexivity. Qed.

  (* ---------------------------------------------------------------------------------- *)
  (* E1-E4: element-wise kernels                                                          *)
  (* ---------------------------------------------------------------------------------- *)
  Theorem k_multiply_spec x y :
    length x = length y ->
    Qeql (k_multiply Q Qmult L x y) (map2 Qmult x y) /\
    length (k_multiply Q Qmult L x y) = length x.
  Proof.
    intros H; split; [|now apply elementwise2_length].
    apply elementwise2_rel; auto; intros; reflexivity.
  Qed.

  Theorem k_axpy_spec a x y :
    length x = length y ->
    Qeql (k_axpy Q Qplus Qmult Qfma fe L a x y) (map2 (fun xi yi => a * xi + yi) x y) /\
    length (k_axpy Q Qplus Qmult Qfma fe L a x y) = length x.
  Proof.
    intros H; split; [|now apply elementwise2_length].
    apply elementwise2_rel; auto; intros; [apply mae_eq | reflexivity].
  Qed.

  Theorem k_std_norm_flow_spec s c p v :
    length p = length v ->
    let r := k_std_norm_flow Q Qplus Qmult Qopp Qfma L s c p v in
    Qeql (fst r) (map2 (fun pi vi => pi * c + vi * s) p v) /\
    Qeql (snd r) (map2 (fun pi vi => pi * (- s) + vi * c) p v) /\
    length (fst r) = length p /\ length (snd r) = length p.
  Proof.
    intros H r; subst r; unfold k_std_norm_flow; cbn [fst snd].
    repeat split; try (now apply elementwise2_length);
      apply elementwise2_rel; auto; intros; reflexivity.
  Qed.

  Theorem k_std_norm_grad_flow_spec eps p g v :
    length p = length g -> length p = length v ->
    Qeql (k_std_norm_grad_flow Q Qplus Qmult Qfma L eps p g v)
         (map3 (fun pi gi vi => vi + eps * (pi + gi)) p g v) /\
    length (k_std_norm_grad_flow Q Qplus Qmult Qfma L eps p g v) = length p.
  Proof.
    intros Hg Hv; split; [|now apply elementwise3_length].
    apply elementwise3_rel; auto; intros; unfold Qfma; ring.
  Qed.

  (* ---------------------------------------------------------------------------------- *)
  (* sums                                                                                 *)
  (* ---------------------------------------------------------------------------------- *)
  Lemma sumQ_app a b : sumQ (a ++ b) == sumQ a + sumQ b.
  Proof. induction a as [|p a IH]; cbn [sumQ app]; [ring | rewrite IH; ring]. Qed.

  Lemma sumQ_map2_add a b :
    length a = length b -> sumQ (map2 Qplus a b) == sumQ a + sumQ b.
  Proof.
    revert b; induction a as [|p a IH]; intros [|q b] H; simpl in H; try discriminate;
      cbn [sumQ map2]; [ring | rewrite IH by lia; ring].
  Qed.

  Lemma sumQ_repeat0 n : sumQ (repeat 0 n) == 0.
  Proof. induction n as [|n IH]; cbn [sumQ repeat]; [reflexivity | rewrite IH; ring]. Qed.

  Lemma dotl_app a b c d :
    length a = length c -> dotl (a ++ b) (c ++ d) == dotl a c + dotl b d.
  Proof.
    revert c; induction a as [|p a IH]; intros [|q c] H; simpl in H; try discriminate;
      cbn [dotl app]; [ring | rewrite IH by lia; ring].
  Qed.

  Lemma dotl_proper a a' b b' : Qeql a a' -> Qeql b b' -> dotl a b == dotl a' b'.
  Proof.
    intros Ha; revert b b'; induction Ha as [|p p' a a' Hp Ha IH]; intros b b' Hb.
    - reflexivity.
    - destruct Hb as [|q q' b b' Hq Hb]; cbn [dotl]; [reflexivity|].
      rewrite Hp, Hq, (IH _ _ Hb). reflexivity.
  Qed.

  Lemma Qeql_refl x : Qeql x x.
  Proof. induction x; constructor; auto; reflexivity. Qed.

  Lemma map3_mae_sum f m a :
    length f = length a -> length m = length a ->
    sumQ (map3 mae f m a) == dotl f m + sumQ a.
  Proof.
    revert f m; induction a as [|r a IH]; intros [|p f] [|q m] Hf Hm; simpl in Hf, Hm;
      try discriminate; cbn [map3 sumQ dotl]; [ring|].
    rewrite IH by lia. rewrite mae_eq. ring.
  Qed.

  Lemma tail_acc_sum r f x : tail_acc Q Qplus Qmult r f x == r + dotl f x.
  Proof.
    revert r x; induction f as [|a f IH]; intros r [|b x]; cbn [tail_acc dotl]; try ring.
    rewrite IH. ring.
  Qed.

  (* ---------------------------------------------------------------------------------- *)
  (* horizontal reduction of one vector: exact for a power-of-two lane count              *)
  (* ---------------------------------------------------------------------------------- *)
  Lemma reduce_lanes_step f (v : list Q) :
    (2 <= length v)%nat ->
    reduce_lanes Q 0 Qplus (S f) v =
    reduce_lanes Q 0 Qplus f
      (map2 Qplus (firstn (Nat.div2 (length v)) v) (skipn (Nat.div2 (length v)) v)).
  Proof. destruct v as [|a [|b v]]; simpl; intros H; try lia; reflexivity. Qed.

  Lemma reduce_lanes_sum k : forall fuel v,
    length v = (2 ^ k)%nat -> (k <= fuel)%nat -> reduce_lanes Q 0 Qplus fuel v == sumQ v.
  Proof.
    induction k as [|k IH]; intros fuel v Hlen Hf.
    - destruct v as [|a [|b v]]; simpl in Hlen; try discriminate.
      destruct fuel; cbn [reduce_lanes hd sumQ]; ring.
    - destruct fuel as [|fuel]; [lia|].
      assert (Hp : (1 <= 2 ^ k)%nat) by (apply Nat.neq_0_lt_0, Nat.pow_nonzero; lia).
      rewrite Nat.pow_succ_r' in Hlen.
      rewrite reduce_lanes_step by lia.
      rewrite Hlen, Nat.div2_double.
      rewrite IH.
      + rewrite sumQ_map2_add.
        * rewrite <- sumQ_app, firstn_skipn. reflexivity.
        * rewrite firstn_length, skipn_length. lia.
      + rewrite map2_length; rewrite firstn_length, ?skipn_length; lia.
      + lia.
  Qed.

  (* ---------------------------------------------------------------------------------- *)
  (* the four-accumulator loop                                                            *)
  (* ---------------------------------------------------------------------------------- *)
  Section Loop.
    Variables fac mulv : nat -> list Q.

    Definition acc_sum (a : accs Q) : Q := sumQ (a0 Q a) + sumQ (a1 Q a) + sumQ (a2 Q a) + sumQ (a3 Q a).
    Definition acc_wf (a : accs Q) : Prop :=
      length (a0 Q a) = L /\ length (a1 Q a) = L /\ length (a2 Q a) = L /\ length (a3 Q a) = L.
    (* vectors i .. i+k-1 are well formed *)
    Definition vec_wf (i k : nat) : Prop :=
      forall j, (i <= j < i + k)%nat -> length (fac j) = L /\ length (mulv j) = L.

    (* sum over vectors i .. i+k-1 of the lane-wise products *)
    Fixpoint vsum (i k : nat) : Q :=
      match k with O => 0 | S k' => dotl (fac i) (mulv i) + vsum (S i) k' end.

    Lemma vsum_add i k1 k2 : vsum i (k1 + k2) == vsum i k1 + vsum (i + k1) k2.
    Proof.
      revert i; induction k1 as [|k1 IH]; intros i; cbn [vsum Nat.add].
      - rewrite Nat.add_0_r. ring.
      - rewrite IH. replace (S i + k1)%nat with (i + S k1)%nat by lia. ring.
    Qed.

    Lemma step_rest_inv i a :
      acc_wf a -> vec_wf i 1 ->
      acc_wf (step_rest Q Qplus Qmult Qfma fe fac mulv i a) /\
      acc_sum (step_rest Q Qplus Qmult Qfma fe fac mulv i a) == acc_sum a + vsum i 1.
    Proof.
      intros (H0 & H1 & H2 & H3) Hv. destruct (Hv i ltac:(lia)) as [Hf Hm].
      unfold acc_wf, acc_sum, step_rest; cbn [a0 a1 a2 a3 vsum]. split.
      - repeat split; auto. rewrite map3_length; lia.
      - rewrite map3_mae_sum by lia. ring.
    Qed.

    Lemma step_group_inv g a :
      acc_wf a -> vec_wf (4 * g) 4 ->
      acc_wf (step_group Q Qplus Qmult Qfma fe fac mulv g a) /\
      acc_sum (step_group Q Qplus Qmult Qfma fe fac mulv g a) == acc_sum a + vsum (4 * g) 4.
    Proof.
      intros (H0 & H1 & H2 & H3) Hv.
      destruct (Hv (4 * g)%nat ltac:(lia)) as [Hf0 Hm0].
      destruct (Hv (4 * g + 1)%nat ltac:(lia)) as [Hf1 Hm1].
      destruct (Hv (4 * g + 2)%nat ltac:(lia)) as [Hf2 Hm2].
      destruct (Hv (4 * g + 3)%nat ltac:(lia)) as [Hf3 Hm3].
      unfold acc_wf, acc_sum, step_group; cbn [a0 a1 a2 a3 vsum]. split.
      - repeat split; rewrite map3_length; lia.
      - rewrite !map3_mae_sum by lia.
        replace (S (4 * g)) with (4 * g + 1)%nat by lia.
        replace (S (4 * g + 1)) with (4 * g + 2)%nat by lia.
        replace (S (4 * g + 2)) with (4 * g + 3)%nat by lia.
        ring.
    Qed.

    Lemma loop_rest_inv : forall todo i a,
      acc_wf a -> vec_wf i todo ->
      acc_wf (loop_rest Q Qplus Qmult Qfma fe fac mulv i todo a) /\
      acc_sum (loop_rest Q Qplus Qmult Qfma fe fac mulv i todo a) == acc_sum a + vsum i todo.
    Proof.
      induction todo as [|t IH]; intros i a Hwf Hv; cbn [loop_rest].
      - split; auto. cbn [vsum]. ring.
      - destruct (step_rest_inv i a Hwf) as [Hwf' Hs].
        { intros j Hj; apply Hv; lia. }
        destruct (IH (S i) _ Hwf') as [Hwf'' Hs'].
        { intros j Hj; apply Hv; lia. }
        split; auto. rewrite Hs', Hs. cbn [vsum]. ring.
    Qed.

    Lemma loop_groups_inv : forall todo g a,
      acc_wf a -> vec_wf (4 * g) (4 * todo) ->
      acc_wf (loop_groups Q Qplus Qmult Qfma fe fac mulv g todo a) /\
      acc_sum (loop_groups Q Qplus Qmult Qfma fe fac mulv g todo a)
        == acc_sum a + vsum (4 * g) (4 * todo).
    Proof.
      induction todo as [|t IH]; intros g a Hwf Hv; cbn [loop_groups].
      - split; auto. rewrite Nat.mul_0_r. cbn [vsum]. ring.
      - destruct (step_group_inv g a Hwf) as [Hwf' Hs].
        { intros j Hj; apply Hv; lia. }
        destruct (IH (S g) _ Hwf') as [Hwf'' Hs'].
        { intros j Hj; apply Hv; lia. }
        split; auto. rewrite Hs', Hs.
        replace (4 * S t)%nat with (4 + 4 * t)%nat by lia.
        rewrite (vsum_add (4 * g) 4 (4 * t)).
        replace (4 * g + 4)%nat with (4 * S g)%nat by lia. ring.
    Qed.

    Lemma accs_zero_inv : acc_wf (accs_zero Q 0 L) /\ acc_sum (accs_zero Q 0 L) == 0.
    Proof.
      unfold acc_wf, acc_sum, accs_zero, vzero; cbn [a0 a1 a2 a3].
      rewrite repeat_length, sumQ_repeat0. repeat split; auto; ring.
    Qed.

    (* reduce_head sums the lane-wise products of ALL full vectors *)
    Lemma reduce_head_sum k n :
      L = (2 ^ k)%nat -> vec_wf 0 (nvec L n) ->
      reduce_head Q 0 Qplus Qmult Qfma fe L fac mulv n == vsum 0 (nvec L n).
    Proof.
      intros HL Hv. unfold reduce_head.
      assert (Hsplit : nvec L n = (4 * ngroups L n + nrest L n)%nat).
      { unfold ngroups, nrest. apply Nat.div_mod. lia. }
      destruct accs_zero_inv as [Hz Hzs].
      destruct (loop_groups_inv (ngroups L n) 0 _ Hz) as [Hw1 Hs1].
      { intros j Hj; apply Hv; lia. }
      destruct (loop_rest_inv (nrest L n) (4 * ngroups L n) _ Hw1) as [Hw2 Hs2].
      { intros j Hj; apply Hv; lia. }
      set (a := loop_rest _ _ _ _ _ _ _ _ _ _) in *.
      destruct Hw2 as (H0 & H1 & H2 & H3).
      rewrite (reduce_lanes_sum k).
      - unfold vadd. rewrite !sumQ_map2_add by (rewrite ?map2_length; lia).
        transitivity (acc_sum a); [unfold acc_sum; ring|]. rewrite Hs2, Hs1, Hzs.
        rewrite Hsplit, vsum_add. cbn [Nat.mul Nat.add]. ring.
      - unfold vadd. rewrite !map2_length; rewrite ?map2_length; lia.
      - rewrite HL. apply Nat.lt_le_incl, Nat.pow_gt_lin_r. lia.
    Qed.
  End Loop.

  Lemma vsum_ext fac mulv fac' mulv' : forall k i,
    (forall j, (i <= j < i + k)%nat -> dotl (fac j) (mulv j) == dotl (fac' j) (mulv' j)) ->
    vsum fac mulv i k == vsum fac' mulv' i k.
  Proof.
    induction k as [|k IH]; intros i H; cbn [vsum]; [reflexivity|].
    rewrite H by lia. rewrite IH; [reflexivity|]. intros j Hj; apply H; lia.
  Qed.

  (* the lane-wise products of the first k vectors are the dot product of the first k*L
     elements *)
  Lemma vsum_vec_at f x : forall k,
    length f = length x -> (k * L <= length x)%nat ->
    vsum (vec_at L f) (vec_at L x) 0 k == dotl (firstn (k * L) f) (firstn (k * L) x).
  Proof.
    induction k as [|k IH]; intros Hl Hk.
    - cbn [vsum Nat.mul firstn dotl]. reflexivity.
    - replace (S k) with (k + 1)%nat at 1 by lia. rewrite vsum_add. cbn [vsum Nat.add].
      rewrite IH by lia.
      replace (S k * L)%nat with (k * L + L)%nat by lia.
      rewrite !firstn_add, dotl_app.
      + unfold vec_at. ring.
      + rewrite !firstn_length. lia.
  Qed.

  (* the common core of VectorDot / ScalarProds2 / ScalarProds3 *)
  Lemma reduce_core k fac ft f x :
    L = (2 ^ k)%nat -> length f = length x ->
    (forall i, (i < nvec L (length x))%nat -> Qeql (fac i) (vec_at L f i)) ->
    Qeql ft (tail L f) ->
    tail_acc Q Qplus Qmult
      (reduce_head Q 0 Qplus Qmult Qfma fe L fac (vec_at L x) (length x)) ft (tail L x)
    == dotl f x.
  Proof.
    intros HL Hl Hfac Hft.
    rewrite tail_acc_sum.
    assert (Hh : reduce_head Q 0 Qplus Qmult Qfma fe L fac (vec_at L x) (length x)
                 == vsum fac (vec_at L x) 0 (nvec L (length x))).
    { apply (reduce_head_sum _ _ k); auto. intros j Hj; split.
      - rewrite (Forall2_len _ _ _ (Hfac j ltac:(lia))). apply vec_at_length. rewrite Hl; lia.
      - apply vec_at_length; lia. }
    rewrite Hh.
    rewrite (vsum_ext _ _ (vec_at L f) (vec_at L x)).
    - rewrite vsum_vec_at by (auto; apply nvec_le).
      rewrite (dotl_proper _ _ _ _ Hft (Qeql_refl _)).
      assert (E : dotl f x == dotl (head L f) (head L x) + dotl (tail L f) (tail L x)).
      { rewrite <- dotl_app by (rewrite !head_length; now rewrite Hl).
        now rewrite !head_tail. }
      rewrite E. unfold head. rewrite Hl. reflexivity.
    - intros j Hj. apply dotl_proper; [apply Hfac; lia | apply Qeql_refl].
  Qed.
End QInst.

(* ---------------------------------------------------------------------------------- *)
(* R1-R4: the reductions                                                                *)
(* ---------------------------------------------------------------------------------- *)
Section QReductions.
  Local Open Scope Q_scope.
  Variable fe : bool.
  Variables (L k : nat).
  Hypothesis HL : L = (2 ^ k)%nat.      (* lane count: a power of two *)

  (* R1 *)
  Theorem k_vector_dot_spec x y :
    length x = length y ->
    k_vector_dot Q 0 Qplus Qmult Qfma fe L x y == dotl x y.
  Proof.
    intros Hl. unfold k_vector_dot. rewrite Hl.
    apply (reduce_core fe L k); auto using Qeql_refl.
  Qed.

  (* R2 *)
  Theorem k_scalar_prods2_spec p1 p2 x y :
    length p1 = length p2 -> length p1 = length x -> length p1 = length y ->
    let r := k_scalar_prods2 Q 0 Qplus Qmult Qfma fe L p1 p2 x y in
    fst r == dotl (map2 Qplus p1 p2) x /\ snd r == dotl (map2 Qplus p1 p2) y.
  Proof.
    intros H2 Hx Hy r; subst r; unfold k_scalar_prods2; cbn [fst snd].
    assert (Hf : length (map2 Qplus p1 p2) = length p1) by now apply map2_length.
    split; [rewrite Hx | rewrite Hy]; apply (reduce_core fe L k); auto; try lia;
      try (intros i _; rewrite vec_at_map2; apply Qeql_refl);
      rewrite tail_map2 by auto; apply Qeql_refl.
  Qed.

  Lemma prods3_factor p1 n1 p2 :
    Qeql (map2 Qminus (map2 Qplus p1 p2) n1) (map3 (fun a b c => a - b + c) p1 n1 p2).
  Proof.
    revert n1 p2; induction p1 as [|a p1 IH]; intros [|b n1] [|c p2]; cbn [map2 map3];
      try constructor; auto. ring.
  Qed.

  Lemma prods3_factor_tail p1 n1 p2 :
    Qeql (map2 Qplus (map2 Qminus p1 n1) p2) (map3 (fun a b c => a - b + c) p1 n1 p2).
  Proof.
    revert n1 p2; induction p1 as [|a p1 IH]; intros [|b n1] [|c p2]; cbn [map2 map3];
      try constructor; auto. reflexivity.
  Qed.

  (* R3 *)
  Theorem k_scalar_prods3_spec p1 n1 p2 x y :
    length p1 = length n1 -> length p1 = length p2 ->
    length p1 = length x -> length p1 = length y ->
    let r := k_scalar_prods3 Q 0 Qplus Qminus Qmult Qfma fe L p1 n1 p2 x y in
    fst r == dotl (map3 (fun a b c => a - b + c) p1 n1 p2) x /\
    snd r == dotl (map3 (fun a b c => a - b + c) p1 n1 p2) y.
  Proof.
    intros Hn H2 Hx Hy r; subst r; unfold k_scalar_prods3; cbn [fst snd].
    set (f := map3 (fun a b c => a - b + c) p1 n1 p2).
    assert (Hf : length f = length p1) by now apply map3_length.
    assert (Hfac : forall i, Qeql (map2 Qminus (map2 Qplus (vec_at L p1 i) (vec_at L p2 i))
                                     (vec_at L n1 i)) (vec_at L f i)).
    { intros i. rewrite <- !vec_at_map2. unfold vec_at.
      apply Forall2_firstn, Forall2_skipn, prods3_factor. }
    assert (Hft : Qeql (map2 Qplus (map2 Qminus (tail L p1) (tail L n1)) (tail L p2))
                       (tail L f)).
    { rewrite <- !tail_map2 by (rewrite ?map2_length; auto).
      unfold tail. rewrite Hf, !map2_length by (rewrite ?map2_length; auto).
      apply Forall2_skipn, prods3_factor_tail. }
    split; [rewrite Hx | rewrite Hy]; apply (reduce_core fe L k); auto; lia.
  Qed.

  (* R4 (no lanes involved: a plain left-to-right loop) *)
  Lemma fold_left_sum l r : fold_left Qplus l r == r + sumQ l.
  Proof.
    revert r; induction l as [|a l IH]; intros r; cbn [fold_left sumQ]; [ring|].
    rewrite IH. ring.
  Qed.
End QReductions.

Theorem k_sq_norm_sum_spec (x y : list Q) :
  (k_sq_norm_sum Q 0 Qplus Qmult x y == sumQ (map2 (fun a b => (a + b) ^ 2) x y))%Q.
Proof.
  unfold k_sq_norm_sum. rewrite fold_left_sum, Qplus_0_l.
  (* (a + b) ^ 2 is convertible with (a + b) * (a + b) *)
  reflexivity.
Qed.

(* the four lane counts that occur (pulp Scalar = 1, 128 bit = 2, AVX2 = 4, AVX-512 = 8) *)
Definition real_L (L : nat) : Prop := L = 1 \/ L = 2 \/ L = 4 \/ L = 8.

Lemma real_L_pow2 L : real_L L -> exists k, L = 2 ^ k.
Proof.
  intros [H|[H|[H|H]]]; subst; [exists 0 | exists 1 | exists 2 | exists 3]; reflexivity.
Qed.

Section QConcrete.
  Local Open Scope Q_scope.
  Variable fe : bool.
  Variable L : nat.
  Hypothesis HL : real_L L.

  Corollary k_vector_dot_spec_real x y :
    length x = length y -> k_vector_dot Q 0 Qplus Qmult Qfma fe L x y == dotl x y.
  Proof. destruct (real_L_pow2 L HL) as [k Hk]. now apply (k_vector_dot_spec fe L k). Qed.

  Corollary k_scalar_prods2_spec_real p1 p2 x y :
    length p1 = length p2 -> length p1 = length x -> length p1 = length y ->
    let r := k_scalar_prods2 Q 0 Qplus Qmult Qfma fe L p1 p2 x y in
    fst r == dotl (map2 Qplus p1 p2) x /\ snd r == dotl (map2 Qplus p1 p2) y.
  Proof. destruct (real_L_pow2 L HL) as [k Hk]. now apply (k_scalar_prods2_spec fe L k). Qed.

  Corollary k_scalar_prods3_spec_real p1 n1 p2 x y :
    length p1 = length n1 -> length p1 = length p2 ->
    length p1 = length x -> length p1 = length y ->
    let r := k_scalar_prods3 Q 0 Qplus Qminus Qmult Qfma fe L p1 n1 p2 x y in
    fst r == dotl (map3 (fun a b c => a - b + c) p1 n1 p2) x /\
    snd r == dotl (map3 (fun a b c => a - b + c) p1 n1 p2) y.
  Proof. destruct (real_L_pow2 L HL) as [k Hk]. now apply (k_scalar_prods3_spec fe L k). Qed.
End QConcrete.

(* the power-of-two hypothesis is necessary: with three lanes reduce_lanes drops a lane *)
Lemma k_vector_dot_three_lanes_wrong :
  (k_vector_dot Q 0 Qplus Qmult Qfma true 3 [1; 1; 1] [1; 1; 1] == 2)%Q /\
  (dotl [1; 1; 1] [1; 1; 1] == 3)%Q.
Proof. split; vm_compute; reflexivity. Qed.

(* ====================================================================================== *)
(* 3. the binary64 instance                                                                *)
(* ====================================================================================== *)
From Flocq Require Import IEEE754.BinarySingleNaN IEEE754.Binary IEEE754.Bits.
From NutsV Require Import lib.Fp model.KernelF64.

Lemma forallb_Forall {A} (p : A -> bool) (l : list A) :
  forallb p l = true <-> Forall (fun v => p v = true) l.
Proof.
  induction l as [|a l IH]; cbn [forallb].
  - split; auto.
  - rewrite andb_true_iff, IH. split.
    + intros [Ha Hl]; constructor; auto.
    + intros H; inversion H; auto.
Qed.

(* F1 *)
Theorem f_all_finite_spec (x : list f64) :
  f_all_finite x = forallb is_finite x /\
  (f_all_finite x = true <-> Forall (fun v => is_finite v = true) x).
Proof. split; [reflexivity | apply forallb_Forall]. Qed.

Theorem f_all_finite_nonzero_spec (x : list f64) :
  f_all_finite_nonzero x = forallb (fun v => is_finite v && negb (feq v fzero)) x /\
  (f_all_finite_nonzero x = true <->
   Forall (fun v => is_finite v = true /\ feq v fzero = false) x).
Proof.
  split; [reflexivity|]. unfold f_all_finite_nonzero. rewrite forallb_Forall.
  split; intros H; induction H as [|a l Ha Hl IH]; constructor; auto.
  - apply andb_true_iff in Ha. destruct Ha as [H1 H2]. now apply negb_true_iff in H2.
  - destruct Ha as [H1 H2]. now rewrite H1, H2.
Qed.

(* a non-finite element makes the check fail, and a failing check exhibits one *)
Corollary f_all_finite_false (x : list f64) :
  f_all_finite x = false <-> Exists (fun v => is_finite v = false) x.
Proof.
  unfold f_all_finite. induction x as [|a x IH]; cbn [forallb].
  - split; [discriminate | intros H; inversion H].
  - rewrite andb_false_iff, IH. split.
    + intros [H|H]; [now apply Exists_cons_hd | now apply Exists_cons_tl].
    + intros H; inversion H; auto.
Qed.

(* F2: NaN propagation of the binary64 operations the kernels use *)
Section NaN.
  Variables a b c : f64.

  Lemma fadd_nan_l : is_nan a = true -> is_nan (fadd a b) = true.
  Proof.
    unfold is_nan, fadd, b64_plus, Binary.Bplus. rewrite is_nan_BSN2B.
    destruct a; try discriminate; destruct b; reflexivity.
  Qed.
  Lemma fadd_nan_r : is_nan b = true -> is_nan (fadd a b) = true.
  Proof.
    unfold is_nan, fadd, b64_plus, Binary.Bplus. rewrite is_nan_BSN2B.
    destruct b; try discriminate; destruct a; reflexivity.
  Qed.
  Lemma fsub_nan_l : is_nan a = true -> is_nan (fsub a b) = true.
  Proof.
    unfold is_nan, fsub, b64_minus, Binary.Bminus. rewrite is_nan_BSN2B.
    destruct a; try discriminate; destruct b; reflexivity.
  Qed.
  Lemma fsub_nan_r : is_nan b = true -> is_nan (fsub a b) = true.
  Proof.
    unfold is_nan, fsub, b64_minus, Binary.Bminus. rewrite is_nan_BSN2B.
    destruct b; try discriminate; destruct a; reflexivity.
  Qed.
  Lemma fmul_nan_l : is_nan a = true -> is_nan (fmul a b) = true.
  Proof.
    unfold is_nan, fmul, b64_mult, Binary.Bmult. rewrite is_nan_BSN2B.
    destruct a; try discriminate; destruct b; reflexivity.
  Qed.
  Lemma fmul_nan_r : is_nan b = true -> is_nan (fmul a b) = true.
  Proof.
    unfold is_nan, fmul, b64_mult, Binary.Bmult. rewrite is_nan_BSN2B.
    destruct b; try discriminate; destruct a; reflexivity.
  Qed.
  Lemma ffma_nan_1 : is_nan a = true -> is_nan (ffma a b c) = true.
  Proof.
    unfold is_nan, ffma, b64_fma, Binary.Bfma. rewrite is_nan_BSN2B.
    destruct a; try discriminate; destruct b; reflexivity.
  Qed.
  Lemma ffma_nan_2 : is_nan b = true -> is_nan (ffma a b c) = true.
  Proof.
    unfold is_nan, ffma, b64_fma, Binary.Bfma. rewrite is_nan_BSN2B.
    destruct b; try discriminate; destruct a; reflexivity.
  Qed.
  Lemma ffma_nan_3 : is_nan c = true -> is_nan (ffma a b c) = true.
  Proof.
    unfold is_nan, ffma, b64_fma, Binary.Bfma. rewrite is_nan_BSN2B.
    destruct c; try discriminate; destruct a, b; reflexivity.
  Qed.
  Lemma fneg_nan : is_nan a = true -> is_nan (fneg a) = true.
  Proof. unfold is_nan, fneg, b64_opp. destruct a; try discriminate; reflexivity. Qed.
End NaN.

(* ====================================================================================== *)
(* assumptions                                                                             *)
(* ====================================================================================== *)
(* any number type, and Q: closed under the global context *)
Print Assumptions partition.
Print Assumptions elementwise_length.
Print Assumptions k_multiply_spec.
Print Assumptions k_axpy_spec.
Print Assumptions k_std_norm_flow_spec.
Print Assumptions k_std_norm_grad_flow_spec.
Print Assumptions k_vector_dot_spec.
Print Assumptions k_scalar_prods2_spec.
Print Assumptions k_scalar_prods3_spec.
Print Assumptions k_sq_norm_sum_spec.
Print Assumptions k_vector_dot_spec_real.
Print Assumptions k_scalar_prods2_spec_real.
Print Assumptions k_scalar_prods3_spec_real.
(* binary64: the axioms of the real numbers / classical logic that Flocq's types mention *)
Print Assumptions f_all_finite_spec.
Print Assumptions f_all_finite_nonzero_spec.
Print Assumptions f_all_finite_false.
Print Assumptions fadd_nan_l.
Print Assumptions fmul_nan_l.
Print Assumptions ffma_nan_3.
