(* Facts about the storage models (model/Storage.v): every backend model returns exactly the
   specification `expected` on well-formed histories; refutations for the classes where a
   backend does not. *)
From Coq Require Import String Ascii DecimalString ZArith NArith Bool Lia List.
From NutsV Require Import model.Storage.
Import ListNotations.
Local Open Scope string_scope.
Local Open Scope list_scope.
Local Open Scope nat_scope.

(* ---------------------------------------------------------------------------------------- *)
(* Generic helpers                                                                            *)
(* ---------------------------------------------------------------------------------------- *)
Lemma ty_eqb_eq : forall a b, ty_eqb a b = true <-> a = b.
Proof. destruct a, b; simpl; split; intro H; try reflexivity; try discriminate. Qed.

Lemma ty_eqb_refl : forall a, ty_eqb a a = true.
Proof. destruct a; reflexivity. Qed.

Lemma mem_str_In : forall n l, mem_str n l = true <-> In n l.
Proof.
  induction l as [|x l IH]; simpl.
  - split; [discriminate | tauto].
  - rewrite orb_true_iff, IH, String.eqb_eq. tauto.
Qed.

Lemma nodup_str_NoDup : forall l, nodup_str l = true -> NoDup l.
Proof.
  induction l as [|x l IH]; simpl; intro H.
  - constructor.
  - apply andb_true_iff in H. destruct H as [H1 H2]. constructor; auto.
    intro Hin. apply mem_str_In in Hin. rewrite Hin in H1. discriminate.
Qed.

Lemma alookup_In_fst : forall A n (m : amap A) a, alookup n m = Some a -> In n (map fst m).
Proof.
  induction m as [|[k x] m IH]; simpl; intros a H; [discriminate|].
  destruct (String.eqb k n) eqn:E.
  - apply String.eqb_eq in E. auto.
  - right. eauto.
Qed.

Lemma alookup_not_In : forall A n (m : amap A), ~ In n (map fst m) -> alookup n m = None.
Proof.
  induction m as [|[k x] m IH]; simpl; intro H; [reflexivity|].
  destruct (String.eqb k n) eqn:E.
  - apply String.eqb_eq in E. tauto.
  - apply IH. tauto.
Qed.

Lemma alookup_map_key : forall A B (g : B -> string) (h : B -> A) (l : list B) (x : B),
  NoDup (map g l) -> In x l -> alookup (g x) (map (fun y => (g y, h y)) l) = Some (h x).
Proof.
  induction l as [|y l IH]; simpl; intros x Hnd Hin; [tauto|].
  inversion Hnd; subst. destruct Hin as [->|Hin].
  - rewrite String.eqb_refl. reflexivity.
  - destruct (String.eqb (g y) (g x)) eqn:E.
    + apply String.eqb_eq in E. exfalso. apply H1. rewrite E. apply in_map. exact Hin.
    + apply IH; assumption.
Qed.

Lemma aupdate_keys : forall A n f (m m' : amap A), aupdate n f m = Some m' -> map fst m' = map fst m.
Proof.
  induction m as [|[k a] m IH]; simpl; intros m' H; [discriminate|].
  destruct (String.eqb k n).
  - destruct (f a); inversion H; subst. reflexivity.
  - destruct (aupdate n f m) eqn:E; inversion H; subst. simpl. f_equal. apply IH. reflexivity.
Qed.

Lemma aupdate_same : forall A n f (m m' : amap A), aupdate n f m = Some m' ->
  exists a a', alookup n m = Some a /\ f a = Some a' /\ alookup n m' = Some a'.
Proof.
  induction m as [|[k a] m IH]; simpl; intros m' H; [discriminate|].
  destruct (String.eqb k n) eqn:E.
  - destruct (f a) as [fa|] eqn:F; inversion H; subst. exists a, fa. simpl. rewrite E. auto.
  - destruct (aupdate n f m) eqn:U; inversion H; subst.
    destruct (IH _ eq_refl) as (b & b' & H1 & H2 & H3). exists b, b'. simpl. rewrite E. auto.
Qed.

Lemma aupdate_other : forall A n f (m m' : amap A) n', aupdate n f m = Some m' -> n' <> n ->
  alookup n' m' = alookup n' m.
Proof.
  induction m as [|[k a] m IH]; simpl; intros m' n' H Hne; [discriminate|].
  destruct (String.eqb k n) eqn:E.
  - destruct (f a); inversion H; subst. simpl. apply String.eqb_eq in E. subst k.
    destruct (String.eqb n n') eqn:E2; [apply String.eqb_eq in E2; congruence | reflexivity].
  - destruct (aupdate n f m) eqn:U; inversion H; subst. simpl.
    destruct (String.eqb k n'); [reflexivity | apply IH; auto].
Qed.

Lemma aupdate_ok : forall A n f (m : amap A) a a', alookup n m = Some a -> f a = Some a' ->
  exists m', aupdate n f m = Some m'.
Proof.
  induction m as [|[k x] m IH]; simpl; intros a a' H F; [discriminate|].
  destruct (String.eqb k n).
  - inversion H; subst. rewrite F. eauto.
  - destruct (IH _ _ H F) as [m' ->]. eauto.
Qed.

Lemma fold_opt_app : forall S R (step : S -> R -> option S) l1 l2 s,
  fold_opt step s (l1 ++ l2) = match fold_opt step s l1 with Some s' => fold_opt step s' l2 | None => None end.
Proof.
  induction l1 as [|r l1 IH]; simpl; intros; [reflexivity|].
  destruct (step s r); [apply IH | reflexivity].
Qed.

(* ---------------------------------------------------------------------------------------- *)
(* Specification lemmas                                                                       *)
(* ---------------------------------------------------------------------------------------- *)
Definition one_present (k : kind) (n : string) (r : record) : list val :=
  match lookup_entry n (entries k r) with Some v => [v] | None => [] end.

Lemma present_app : forall k n h1 h2, present k n (h1 ++ h2) = present k n h1 ++ present k n h2.
Proof. intros. unfold present. apply flat_map_app. Qed.

Lemma present_snoc : forall k n h r, present k n (h ++ [r]) = present k n h ++ one_present k n r.
Proof. intros. rewrite present_app. simpl. rewrite app_nil_r. reflexivity. Qed.

Lemma flat_app : forall a b, flat (a ++ b) = flat a ++ flat b.
Proof. intros. unfold flat. rewrite map_app, concat_app. reflexivity. Qed.

Lemma flat_one : forall v, flat [v] = v_items v.
Proof. intros. unfold flat. simpl. apply app_nil_r. Qed.
Lemma flat_nil : flat [] = [].
Proof. reflexivity. Qed.

Lemma rows_of_app : forall a b, rows_of (a ++ b) = rows_of a ++ rows_of b.
Proof. intros. unfold rows_of. apply map_app. Qed.

Lemma warmup_part_app : forall a b, warmup_part (a ++ b) = warmup_part a ++ warmup_part b.
Proof. intros. apply filter_app. Qed.
Lemma sample_part_app : forall a b, sample_part (a ++ b) = sample_part a ++ sample_part b.
Proof. intros. apply filter_app. Qed.
Lemma kept_app : forall sw a b, kept sw (a ++ b) = kept sw a ++ kept sw b.
Proof. intros. apply filter_app. Qed.

Lemma kept_true : forall h, kept true h = h.
Proof. induction h; simpl; [reflexivity | f_equal; assumption]. Qed.

Lemma kept_false : forall h, kept false h = sample_part h.
Proof. reflexivity. Qed.

Lemma forallb_negb_parts : forall h, forallb negb (map r_tuning h) = true ->
  warmup_part h = [] /\ sample_part h = h.
Proof.
  induction h as [|r h IH]; simpl; intro H; [auto|].
  apply andb_true_iff in H. destruct H as [H1 H2]. destruct (IH H2) as [A B].
  destruct (r_tuning r); simpl in *; [discriminate|]. rewrite A, B. auto.
Qed.

(* a history with tuning flags true^a false^b is its warmup part followed by its sample part *)
Lemma tuning_prefix_split : forall h, tuning_prefix (map r_tuning h) = true ->
  h = warmup_part h ++ sample_part h.
Proof.
  induction h as [|r h IH]; simpl; intro H; [reflexivity|].
  destruct (r_tuning r) eqn:E; simpl.
  - f_equal. apply IH. exact H.
  - destruct (forallb_negb_parts h H) as [A B]. rewrite A, B. reflexivity.
Qed.

Lemma expected_warmup_first : forall h k n, tuning_prefix (map r_tuning h) = true ->
  expected true h k n = present k n (warmup_part h) ++ present k n (sample_part h).
Proof.
  intros. unfold expected. rewrite kept_true. rewrite <- present_app.
  rewrite <- tuning_prefix_split; auto.
Qed.

Lemma filter_filter_neg : forall h, filter r_tuning (sample_part h) = [].
Proof.
  induction h as [|r h IH]; simpl; [reflexivity|].
  destruct (r_tuning r) eqn:E; simpl; [assumption | rewrite E; assumption].
Qed.

(* store_warmup = false drops exactly the warmup records *)
Lemma store_warmup_false_exact_l : forall h k n,
  expected false h k n = present k n (sample_part h) /\
  warmup_part (kept false h) = [] /\ sample_part (kept false h) = sample_part h.
Proof.
  intros. split; [reflexivity|]. rewrite kept_false. split; [apply filter_filter_neg|].
  unfold sample_part. induction h as [|r h IH]; simpl; [reflexivity|].
  destruct (r_tuning r) eqn:E; simpl; [assumption | rewrite E; simpl; f_equal; assumption].
Qed.

Lemma wf_hist_app : forall sc a b, wf_hist sc (a ++ b) = true -> wf_hist sc a = true.
Proof.
  intros sc a b H. unfold wf_hist in *. apply andb_true_iff in H. destruct H as [H1 H2].
  rewrite forallb_app in H1. apply andb_true_iff in H1. destruct H1 as [H1 _].
  rewrite H1. simpl. rewrite map_app in H2. clear H1.
  induction a as [|r a IH]; simpl in *; [reflexivity|].
  destruct (r_tuning r); [auto|].
  rewrite forallb_app in H2. apply andb_true_iff in H2. tauto.
Qed.

(* every prefix (aborted run, inspect point) of a well-formed history is well-formed *)
Lemma wf_hist_firstn : forall sc h k, wf_hist sc h = true -> wf_hist sc (firstn k h) = true.
Proof. intros. rewrite <- (firstn_skipn k h) in H. eapply wf_hist_app; eauto. Qed.

(* ---- what record_ok gives ---- *)
Lemma entries_ok_names : forall strict fs es, entries_ok strict fs es = true ->
  map fst es = map f_name fs.
Proof.
  induction fs as [|f fs IH]; destruct es as [|[n ov] es]; simpl; intro H; try discriminate; [reflexivity|].
  repeat (apply andb_true_iff in H; destruct H as [H ?]).
  apply String.eqb_eq in H. subst. f_equal. auto.
Qed.

Lemma lookup_entry_cons_eq : forall n ov es, lookup_entry n ((n, ov) :: es) = ov.
Proof. intros. unfold lookup_entry. simpl. rewrite String.eqb_refl. reflexivity. Qed.

Lemma lookup_entry_cons_ne : forall n n' ov es, n' <> n ->
  lookup_entry n ((n', ov) :: es) = lookup_entry n es.
Proof.
  intros. unfold lookup_entry. simpl. destruct (String.eqb n' n) eqn:E; [|reflexivity].
  apply String.eqb_eq in E. congruence.
Qed.

Lemma entries_ok_lookup : forall strict fs es f, entries_ok strict fs es = true ->
  NoDup (map f_name fs) -> In f fs ->
  match lookup_entry (f_name f) es with
  | Some v => typed f v = true
  | None => strict = false
  end.
Proof.
  induction fs as [|g fs IH]; destruct es as [|[n ov] es]; simpl; intros f H Hnd Hin; try discriminate; [tauto|].
  repeat (apply andb_true_iff in H; destruct H as [H ?]).
  apply String.eqb_eq in H. subst n. inversion Hnd; subst.
  destruct Hin as [->|Hin].
  - rewrite lookup_entry_cons_eq. destruct ov; [assumption|]. destruct strict; [discriminate | reflexivity].
  - rewrite lookup_entry_cons_ne.
    + apply IH; assumption.
    + intro E. match goal with HH : ~ In _ _ |- _ => apply HH end. rewrite E. apply in_map. exact Hin.
Qed.

Lemma entries_ok_In : forall strict fs es n v, entries_ok strict fs es = true ->
  In (n, Some v) es -> exists f, In f fs /\ n = f_name f /\ typed f v = true.
Proof.
  induction fs as [|g fs IH]; destruct es as [|[m ov] es]; simpl; intros n v H Hin; try discriminate; [tauto|].
  repeat (apply andb_true_iff in H; destruct H as [H ?]).
  apply String.eqb_eq in H. subst m. destruct Hin as [E|Hin].
  - inversion E; subst. exists g. auto.
  - destruct (IH _ _ _ H0 Hin) as (f & A & B & C). exists f. auto.
Qed.

Lemma entries_ok_strict_all : forall fs es n, entries_ok true fs es = true -> ~ In (n, None) es.
Proof.
  induction fs as [|g fs IH]; destruct es as [|[m ov] es]; simpl; intros n H Hin; try discriminate; [tauto|].
  repeat (apply andb_true_iff in H; destruct H as [H ?]).
  destruct Hin as [E|Hin].
  - inversion E; subst. discriminate.
  - eapply IH; eauto.
Qed.

Lemma typed_ty : forall f v, typed f v = true -> v_ty v = f_ty f.
Proof.
  intros. unfold typed in H. repeat (apply andb_true_iff in H; destruct H as [H ?]).
  apply ty_eqb_eq. assumption.
Qed.
Lemma typed_scalar : forall f v, typed f v = true -> v_scalar v = f_scalar f.
Proof.
  intros. unfold typed in H. repeat (apply andb_true_iff in H; destruct H as [H ?]).
  apply Bool.eqb_prop. assumption.
Qed.
Lemma typed_len : forall f v, typed f v = true -> length (v_items v) = f_len f.
Proof.
  intros. unfold typed in H. repeat (apply andb_true_iff in H; destruct H as [H ?]).
  apply Nat.eqb_eq. assumption.
Qed.

(* ---------------------------------------------------------------------------------------- *)
(* push_entries: per-variable view                                                            *)
(* ---------------------------------------------------------------------------------------- *)
Section PushFacts.
  Context {A : Type}.
  Variable upd : A -> val -> option A.

  (* what one record does to the container of variable n *)
  Definition col_step (n : string) (es : list entry) (a : A) : option A :=
    if skip_name n then Some a
    else match lookup_entry n es with Some v => upd a v | None => Some a end.

  Lemma push_entries_keys : forall strict es m m', push_entries upd strict m es = Some m' ->
    map fst m' = map fst m.
  Proof.
    induction es as [|[n [v|]] es IH]; simpl; intros m m' H.
    - inversion H. reflexivity.
    - destruct (skip_name n); [eauto|].
      destruct (aupdate n (fun a => upd a v) m) eqn:U; [|discriminate].
      rewrite (IH _ _ H). eapply aupdate_keys; eauto.
    - destruct strict; [discriminate | eauto].
  Qed.

  Lemma push_entries_col : forall strict es m m', NoDup (map fst es) ->
    push_entries upd strict m es = Some m' ->
    forall n, match alookup n m with
              | Some a => exists a', col_step n es a = Some a' /\ alookup n m' = Some a'
              | None => alookup n m' = None
              end.
  Proof.
    induction es as [|[k [v|]] es IH]; simpl; intros m m' Hnd H n.
    - inversion H; subst. unfold col_step. unfold lookup_entry. simpl.
      destruct (alookup n m'); [|reflexivity]. exists a. destruct (skip_name n); auto.
    - inversion Hnd; subst.
      destruct (skip_name k) eqn:SK.
      + specialize (IH _ _ H3 H n). destruct (alookup n m) eqn:L; [|assumption].
        destruct IH as (a' & C & D). exists a'. split; [|assumption].
        unfold col_step in *. destruct (skip_name n) eqn:SN; [assumption|].
        rewrite lookup_entry_cons_ne; [assumption|]. intro E. subst. congruence.
      + destruct (aupdate k (fun a => upd a v) m) as [m1|] eqn:U; [|discriminate].
        specialize (IH _ _ H3 H n).
        destruct (String.eqb k n) eqn:E.
        * apply String.eqb_eq in E. subst k.
          destruct (aupdate_same _ _ _ _ _ U) as (a & a1 & L & F & L1).
          rewrite L. rewrite L1 in IH. destruct IH as (a' & C & D). exists a'. split; [|assumption].
          unfold col_step in *. rewrite SK in *. rewrite lookup_entry_cons_eq.
          assert (lookup_entry n es = None) as N.
          { unfold lookup_entry. rewrite alookup_not_In; auto. }
          rewrite N in C. inversion C; subst. assumption.
        * assert (n <> k) as NE by (intro; subst; rewrite String.eqb_refl in E; discriminate).
          rewrite (aupdate_other _ _ _ _ _ n U NE) in IH.
          destruct (alookup n m); [|assumption].
          destruct IH as (a' & C & D). exists a'. split; [|assumption].
          unfold col_step in *. destruct (skip_name n); [assumption|].
          rewrite lookup_entry_cons_ne; [assumption|]. congruence.
    - inversion Hnd; subst. destruct strict; [discriminate|].
      specialize (IH _ _ H3 H n). destruct (alookup n m); [|assumption].
      destruct IH as (a' & C & D). exists a'. split; [|assumption].
      unfold col_step in *. destruct (skip_name n); [assumption|].
      destruct (String.eqb k n) eqn:E.
      + apply String.eqb_eq in E. subst k. rewrite lookup_entry_cons_eq.
        assert (lookup_entry n es = None) as N.
        { unfold lookup_entry. rewrite alookup_not_In; auto. }
        rewrite N in C. assumption.
      + rewrite lookup_entry_cons_ne; [assumption|].
        intro; subst; rewrite String.eqb_refl in E; discriminate.
  Qed.

  Lemma push_entries_ok : forall strict es m, NoDup (map fst es) ->
    (strict = true -> forall n, ~ In (n, None) es) ->
    (forall n v, In (n, Some v) es -> skip_name n = false ->
                 exists a a', alookup n m = Some a /\ upd a v = Some a') ->
    exists m', push_entries upd strict m es = Some m'.
  Proof.
    induction es as [|[k [v|]] es IH]; simpl; intros m Hnd Hs Hu.
    - eauto.
    - inversion Hnd; subst. destruct (skip_name k) eqn:SK.
      + apply IH; auto.
        * intros S n Hin. apply (Hs S n). auto.
      + destruct (Hu k v (or_introl eq_refl) SK) as (a & a' & L & F).
        destruct (aupdate_ok _ k (fun a => upd a v) m a a' L F) as [m1 U]. rewrite U.
        apply IH; auto.
        * intros S n Hin. apply (Hs S n). auto.
        * intros n w Hin SN. destruct (Hu n w (or_intror Hin) SN) as (b & b' & L' & F').
          exists b, b'. split; [|assumption].
          rewrite (aupdate_other _ _ _ _ _ n U); [assumption|].
          intro; subst. apply H1. change k with (fst (k, Some w)). apply in_map. assumption.
    - destruct strict.
      + exfalso. apply (Hs eq_refl k). auto.
      + inversion Hnd; subst. apply IH; auto. discriminate.
  Qed.
End PushFacts.

Lemma entries_nodup : forall strict fs es, entries_ok strict fs es = true ->
  NoDup (map f_name fs) -> NoDup (map fst es).
Proof. intros. erewrite entries_ok_names; eauto. Qed.

Lemma In_alookup : forall A (m : amap A) k a, NoDup (map fst m) -> In (k, a) m -> alookup k m = Some a.
Proof.
  induction m as [|[k' a'] m IH]; simpl; intros k a Hnd Hin; [tauto|].
  inversion Hnd; subst. destruct Hin as [E|Hin].
  - inversion E; subst. rewrite String.eqb_refl. reflexivity.
  - destruct (String.eqb k' k) eqn:E.
    + apply String.eqb_eq in E. subst. exfalso. apply H1.
      change k with (fst (k, a)). apply in_map. assumption.
    + apply IH; assumption.
Qed.

Lemma record_ok_stats : forall sc r, record_ok sc r = true -> entries_ok false (sc_stats sc) (r_stats r) = true.
Proof. intros. unfold record_ok in H. apply andb_true_iff in H. tauto. Qed.
Lemma record_ok_draws : forall sc r, record_ok sc r = true -> entries_ok true (sc_draws sc) (r_draws r) = true.
Proof. intros. unfold record_ok in H. apply andb_true_iff in H. tauto. Qed.

Lemma wf_schema_stats : forall sc, wf_schema sc = true -> NoDup (map f_name (sc_stats sc)).
Proof. intros. unfold wf_schema in H. apply andb_true_iff in H. apply nodup_str_NoDup. tauto. Qed.
Lemma wf_schema_draws : forall sc, wf_schema sc = true -> NoDup (map f_name (sc_draws sc)).
Proof. intros. unfold wf_schema in H. apply andb_true_iff in H. apply nodup_str_NoDup. tauto. Qed.

Lemma wf_hist_records : forall sc h, wf_hist sc h = true -> Forall (fun r => record_ok sc r = true) h.
Proof.
  intros. unfold wf_hist in H. apply andb_true_iff in H. destruct H as [H _].
  apply Forall_forall. intros r Hin. rewrite forallb_forall in H. auto.
Qed.
Lemma wf_hist_prefix : forall sc h, wf_hist sc h = true -> tuning_prefix (map r_tuning h) = true.
Proof. intros. unfold wf_hist in H. apply andb_true_iff in H. tauto. Qed.

(* the entries of kind k of a well-formed record, with the strictness of that kind *)
Definition kstrict (k : kind) : bool := match k with Stats => false | Draws => true end.
Lemma record_ok_kind : forall sc r k, record_ok sc r = true ->
  entries_ok (kstrict k) (fields k sc) (entries k r) = true.
Proof. intros. destruct k; simpl; [apply record_ok_stats | apply record_ok_draws]; assumption. Qed.
Lemma wf_schema_kind : forall sc k, wf_schema sc = true -> NoDup (map f_name (fields k sc)).
Proof. intros. destruct k; simpl; [apply wf_schema_stats | apply wf_schema_draws]; assumption. Qed.

(* ---------------------------------------------------------------------------------------- *)
(* HashMap                                                                                    *)
(* ---------------------------------------------------------------------------------------- *)
Definition hm_col_inv (fs : list field) (m : amap hcont) (k : kind) (h0 : list record) : Prop :=
  map fst m = map f_name fs /\
  forall f, In f fs ->
    alookup (f_name f) m
    = Some (f_ty f, if skip_name (f_name f) then [] else flat (present k (f_name f) h0)).

Lemma hm_new_inv : forall fs k, NoDup (map f_name fs) -> hm_col_inv fs (hm_new fs) k [].
Proof.
  intros fs k Hnd. split.
  - unfold hm_new. rewrite map_map. reflexivity.
  - intros f Hin. unfold hm_new.
    pose proof (alookup_map_key _ _ f_name (fun f => (f_ty f, @nil token)) fs f Hnd Hin) as X.
    simpl in X. rewrite X.
    destruct (skip_name (f_name f)); reflexivity.
Qed.

Lemma hm_push_step : forall k sc r m h0,
  wf_schema sc = true -> record_ok sc r = true ->
  hm_col_inv (fields k sc) m k h0 ->
  exists m', push_entries hc_push (kstrict k) m (entries k r) = Some m' /\
             hm_col_inv (fields k sc) m' k (h0 ++ [r]).
Proof.
  intros k sc r m h0 Hsc Hr [Hkeys Hinv].
  pose proof (record_ok_kind sc r k Hr) as Hok.
  pose proof (wf_schema_kind sc k Hsc) as Hnd.
  pose proof (entries_nodup _ _ _ Hok Hnd) as Hnde.
  destruct (push_entries_ok hc_push (kstrict k) (entries k r) m Hnde) as [m' Hm'].
  - intros S n. destruct k; simpl in S; [discriminate|]. eapply entries_ok_strict_all; eauto.
  - intros n v Hin SN. destruct (entries_ok_In _ _ _ _ _ Hok Hin) as (f & Hf & -> & Ht).
    rewrite (Hinv f Hf). eexists. eexists. split; [reflexivity|].
    unfold hc_push. simpl. rewrite (typed_ty _ _ Ht), ty_eqb_refl. reflexivity.
  - exists m'. split; [assumption|]. split.
    + rewrite (push_entries_keys _ _ _ _ _ Hm'). assumption.
    + intros f Hf. pose proof (push_entries_col hc_push _ _ _ _ Hnde Hm' (f_name f)) as C.
      rewrite (Hinv f Hf) in C. destruct C as (a' & C & D). rewrite D. clear D.
      unfold col_step in C. destruct (skip_name (f_name f)) eqn:SK.
      * inversion C. reflexivity.
      * rewrite present_snoc, flat_app. unfold one_present.
        pose proof (entries_ok_lookup _ _ _ f Hok Hnd Hf) as L.
        destruct (lookup_entry (f_name f) (entries k r)) as [v|].
        -- unfold hc_push in C. simpl in C. rewrite (typed_ty _ _ L), ty_eqb_refl in C.
           inversion C. rewrite flat_one. reflexivity.
        -- inversion C. rewrite flat_nil, app_nil_r. reflexivity.
Qed.

Definition hm_inv (sc : schema) (st : hm_state) (h0 : list record) : Prop :=
  hm_col_inv (sc_stats sc) (hm_ws st) Stats (warmup_part h0) /\
  hm_col_inv (sc_stats sc) (hm_ss st) Stats (sample_part h0) /\
  hm_col_inv (sc_draws sc) (hm_wd st) Draws (warmup_part h0) /\
  hm_col_inv (sc_draws sc) (hm_sd st) Draws (sample_part h0).

Lemma parts_snoc_tuning : forall h r, r_tuning r = true ->
  warmup_part (h ++ [r]) = warmup_part h ++ [r] /\ sample_part (h ++ [r]) = sample_part h.
Proof.
  intros. rewrite warmup_part_app, sample_part_app. simpl. rewrite H. simpl.
  rewrite app_nil_r. auto.
Qed.
Lemma parts_snoc_sample : forall h r, r_tuning r = false ->
  warmup_part (h ++ [r]) = warmup_part h /\ sample_part (h ++ [r]) = sample_part h ++ [r].
Proof.
  intros. rewrite warmup_part_app, sample_part_app. simpl. rewrite H. simpl.
  rewrite app_nil_r. auto.
Qed.

Lemma hm_record_step : forall sc st h0 r, wf_schema sc = true -> record_ok sc r = true ->
  hm_inv sc st h0 -> exists st', hm_record st r = Some st' /\ hm_inv sc st' (h0 ++ [r]).
Proof.
  intros sc st h0 r Hsc Hr (A & B & C & D). unfold hm_record.
  destruct (r_tuning r) eqn:T.
  - destruct (parts_snoc_tuning h0 r T) as [E1 E2].
    destruct (hm_push_step Stats sc r _ _ Hsc Hr A) as (ws & P1 & I1).
    destruct (hm_push_step Draws sc r _ _ Hsc Hr C) as (wd & P2 & I2).
    simpl in P1, P2. rewrite P1, P2. eexists. split; [reflexivity|].
    unfold hm_inv. simpl. rewrite E1, E2. auto.
  - destruct (parts_snoc_sample h0 r T) as [E1 E2].
    destruct (hm_push_step Stats sc r _ _ Hsc Hr B) as (ss & P1 & I1).
    destruct (hm_push_step Draws sc r _ _ Hsc Hr D) as (sd & P2 & I2).
    simpl in P1, P2. rewrite P1, P2. eexists. split; [reflexivity|].
    unfold hm_inv. simpl. rewrite E1, E2. auto.
Qed.

Lemma hm_fold : forall sc h st h0, wf_schema sc = true ->
  Forall (fun r => record_ok sc r = true) h -> hm_inv sc st h0 ->
  exists st', fold_opt hm_record st h = Some st' /\ hm_inv sc st' (h0 ++ h).
Proof.
  induction h as [|r h IH]; simpl; intros st h0 Hsc Hh Hinv.
  - exists st. rewrite app_nil_r. auto.
  - inversion Hh; subst.
    destruct (hm_record_step sc st h0 r Hsc H1 Hinv) as (st1 & S1 & I1). rewrite S1.
    destruct (IH st1 (h0 ++ [r]) Hsc H2 I1) as (st' & S' & I'). exists st'. split; [assumption|].
    rewrite <- app_assoc in I'. exact I'.
Qed.

Lemma hm_combine_ok : forall w s,
  (forall k t xs, In (k, (t, xs)) w -> exists ys, alookup k s = Some (t, ys)) ->
  exists r, hm_combine w s = Some r /\
    forall k t xs ys, alookup k w = Some (t, xs) -> alookup k s = Some (t, ys) ->
                      alookup k r = Some (t, xs ++ ys).
Proof.
  induction w as [|[k [t xs]] w IH]; simpl; intros s H.
  - exists []. split; [reflexivity|]. intros. discriminate.
  - destruct (H k t xs (or_introl eq_refl)) as [ys L].
    destruct (IH s) as (r & R & Q). { intros. eapply H. right. eassumption. }
    exists ((k, (t, xs ++ ys)) :: r). split; [rewrite L, ty_eqb_refl, R; reflexivity|].
    intros k' t' xs' ys' L1 L2. simpl. destruct (String.eqb k k') eqn:E.
    + apply String.eqb_eq in E. subst k'. inversion L1; subst. rewrite L in L2. inversion L2; subst. reflexivity.
    + apply Q; assumption.
Qed.

Lemma hm_combine_inv : forall fs k w s hw hs, NoDup (map f_name fs) ->
  hm_col_inv fs w k hw -> hm_col_inv fs s k hs ->
  exists r, hm_combine w s = Some r /\
    forall f, In f fs -> alookup (f_name f) r
      = Some (f_ty f, if skip_name (f_name f) then []
                      else flat (present k (f_name f) hw) ++ flat (present k (f_name f) hs)).
Proof.
  intros fs k w s hw hs Hnd [Kw Iw] [Ks Is].
  destruct (hm_combine_ok w s) as (r & R & Q).
  - intros n t xs Hin.
    assert (alookup n w = Some (t, xs)) as L.
    { apply In_alookup; [rewrite Kw; assumption | assumption]. }
    assert (In n (map f_name fs)) as Hn.
    { rewrite <- Kw. change n with (fst (n, (t, xs))). apply in_map. assumption. }
    apply in_map_iff in Hn. destruct Hn as (f & <- & Hf).
    rewrite (Iw f Hf) in L. inversion L; subst. rewrite (Is f Hf). eauto.
  - exists r. split; [assumption|]. intros f Hf.
    rewrite (Q _ _ _ _ (Iw f Hf) (Is f Hf)). destruct (skip_name (f_name f)); reflexivity.
Qed.

Lemma hashmap_correct_l : forall sc h, wf_schema sc = true -> wf_hist sc h = true ->
  exists res, hm_run sc h = Some res /\
    forall k f, In f (fields k sc) ->
      hm_read res k (f_name f)
      = Some (f_ty f, if skip_name (f_name f) then [] else flat (expected true h k (f_name f))).
Proof.
  intros sc h Hsc Hh. unfold hm_run.
  assert (hm_inv sc (hm_init sc) []) as I0.
  { pose proof (wf_schema_stats _ Hsc) as N1. pose proof (wf_schema_draws _ Hsc) as N2.
    unfold hm_inv, hm_init. simpl. split; [|split; [|split]]; apply hm_new_inv; assumption. }
  destruct (hm_fold sc h _ [] Hsc (wf_hist_records _ _ Hh) I0) as (st & F & (A & B & C & D)).
  rewrite F. simpl in *. unfold hm_finalize.
  destruct (hm_combine_inv _ Stats _ _ _ _ (wf_schema_stats _ Hsc) A B) as (rs & Rs & Qs).
  destruct (hm_combine_inv _ Draws _ _ _ _ (wf_schema_draws _ Hsc) C D) as (rd & Rd & Qd).
  rewrite Rs, Rd. eexists. split; [reflexivity|].
  intros k f Hf. unfold hm_read. pose proof (wf_hist_prefix _ _ Hh) as P.
  destruct k; simpl in *.
  - rewrite (Qs f Hf). destruct (skip_name (f_name f)); [reflexivity|].
    rewrite expected_warmup_first, flat_app; auto.
  - rewrite (Qd f Hf). destruct (skip_name (f_name f)); [reflexivity|].
    rewrite expected_warmup_first, flat_app; auto.
Qed.

(* ---------------------------------------------------------------------------------------- *)
(* Arrow                                                                                      *)
(* ---------------------------------------------------------------------------------------- *)
(* the column of variable n: one row per stored draw, None (null) where the value was absent *)
Definition ar_rows (k : kind) (n : string) (hk : list record) : list (option (list token)) :=
  map (fun r => option_map v_items (lookup_entry n (entries k r))) hk.

Definition ac_inv (k : kind) (hk : list record) (f : field) (c : acol) : Prop :=
  ac_name c = f_name f /\ ac_ty c = f_ty f /\ ac_tensor c = negb (f_scalar f) /\
  ac_rows c = ar_rows k (f_name f) hk.

Lemma ar_rows_snoc : forall k n hk r,
  ar_rows k n (hk ++ [r]) = ar_rows k n hk ++ [option_map v_items (lookup_entry n (entries k r))].
Proof. intros. unfold ar_rows. rewrite map_app. reflexivity. Qed.

Lemma non_null_app : forall A (a b : list (option A)), non_null (a ++ b) = non_null a ++ non_null b.
Proof. intros. unfold non_null. apply flat_map_app. Qed.

Lemma non_null_ar_rows : forall k n hk, non_null (ar_rows k n hk) = rows_of (present k n hk).
Proof.
  induction hk as [|r hk IH]; simpl; [reflexivity|].
  unfold present in *. simpl. rewrite rows_of_app. rewrite <- IH.
  destruct (lookup_entry n (entries k r)); reflexivity.
Qed.

Lemma ac_append_typed : forall k hk f c v, ac_inv k hk f c -> typed f v = true ->
  ac_append c v = Some (ac_with c (ac_rows c ++ [Some (v_items v)])).
Proof.
  intros k hk f c v (N & T & S & R) Ht. unfold ac_append.
  rewrite T, (typed_ty _ _ Ht), ty_eqb_refl. rewrite S.
  destruct (f_scalar f) eqn:E; simpl; [|reflexivity].
  rewrite (typed_scalar _ _ Ht), E. reflexivity.
Qed.

Lemma ac_zip_step : forall k hk r strict fs es cols,
  entries_ok strict fs es = true -> NoDup (map f_name fs) ->
  Forall2 (ac_inv k hk) fs cols ->
  (forall f, In f fs -> lookup_entry (f_name f) (entries k r) = lookup_entry (f_name f) es) ->
  exists cols', ac_zip es cols = Some cols' /\ Forall2 (ac_inv k (hk ++ [r])) fs cols'.
Proof.
  intros k hk r strict. induction fs as [|f fs IH]; intros es cols Hok Hnd Hinv Hlk.
  - destruct es as [|[n ov] es]; simpl in Hok; [|discriminate]. inversion Hinv; subst.
    exists []. split; [reflexivity | constructor].
  - destruct es as [|[n ov] es]; simpl in Hok; [discriminate|].
    apply andb_true_iff in Hok. destruct Hok as [Hok Htl].
    apply andb_true_iff in Hok. destruct Hok as [Hok Hty].
    apply String.eqb_eq in Hok. subst n. inversion Hinv as [|? c ? cols0 Hc Hrest]; subst.
    inversion Hnd as [|? ? Hnotin Hnd']; subst.
    assert (lookup_entry (f_name f) (entries k r) = ov) as Lh.
    { rewrite (Hlk f (or_introl eq_refl)). apply lookup_entry_cons_eq. }
    destruct (IH es cols0 Htl Hnd' Hrest) as (cols' & Z & F).
    { intros g Hg. rewrite (Hlk g (or_intror Hg)). apply lookup_entry_cons_ne.
      intro E. apply Hnotin. rewrite E. apply in_map. assumption. }
    simpl. destruct Hc as (N & T & S & R). rewrite N, String.eqb_refl.
    assert (exists c', (match ov with Some v => ac_append c v | None => Some (ac_null c) end) = Some c'
                       /\ ac_inv k (hk ++ [r]) f c') as (c' & A & I).
    { destruct ov as [v|].
      - rewrite (ac_append_typed k hk f c v); [|repeat split; assumption | assumption].
        eexists. split; [reflexivity|]. unfold ac_inv, ac_with. simpl.
        repeat split; try assumption. rewrite ar_rows_snoc, Lh, R. reflexivity.
      - eexists. split; [reflexivity|]. unfold ac_inv, ac_null, ac_with. simpl.
        repeat split; try assumption. rewrite ar_rows_snoc, Lh, R. reflexivity. }
    rewrite A, Z. eexists. split; [reflexivity|]. constructor; assumption.
Qed.

Definition ar_inv (sw : bool) (sc : schema) (st : ar_state) (h0 : list record) : Prop :=
  Forall2 (ac_inv Stats (kept sw h0)) (sc_stats sc) (ar_stats st) /\
  Forall2 (ac_inv Draws (kept sw h0)) (sc_draws sc) (ar_draws st) /\
  ar_count st = length (kept sw h0).

Lemma ar_new_inv : forall k fs, Forall2 (ac_inv k []) fs (ar_new fs).
Proof.
  induction fs as [|f fs IH]; simpl; constructor; [|assumption].
  unfold ac_inv. simpl. auto.
Qed.

Lemma ar_record_step : forall sw sc st h0 r, wf_schema sc = true -> record_ok sc r = true ->
  ar_inv sw sc st h0 -> exists st', ar_record sw st r = Some st' /\ ar_inv sw sc st' (h0 ++ [r]).
Proof.
  intros sw sc st h0 r Hsc Hr (A & B & C). unfold ar_record.
  destruct (negb sw && r_tuning r) eqn:SK.
  - exists st. split; [reflexivity|]. unfold ar_inv. rewrite kept_app. simpl.
    assert ((sw || negb (r_tuning r)) = false) as E.
    { destruct sw, (r_tuning r); simpl in *; congruence. }
    rewrite E, app_nil_r. auto.
  - assert (kept sw (h0 ++ [r]) = kept sw h0 ++ [r]) as E.
    { rewrite kept_app. simpl.
      assert ((sw || negb (r_tuning r)) = true) as E by (destruct sw, (r_tuning r); simpl in *; congruence).
      rewrite E. reflexivity. }
    destruct (ac_zip_step Stats (kept sw h0) r false (sc_stats sc) (r_stats r) (ar_stats st)
                (record_ok_stats _ _ Hr) (wf_schema_stats _ Hsc) A) as (s' & Z1 & F1); [reflexivity|].
    destruct (ac_zip_step Draws (kept sw h0) r true (sc_draws sc) (r_draws r) (ar_draws st)
                (record_ok_draws _ _ Hr) (wf_schema_draws _ Hsc) B) as (d' & Z2 & F2); [reflexivity|].
    rewrite Z1, Z2. eexists. split; [reflexivity|]. unfold ar_inv. simpl. rewrite E.
    repeat split; try assumption. rewrite app_length, C. simpl. lia.
Qed.

Lemma ar_fold : forall sw sc h st h0, wf_schema sc = true ->
  Forall (fun r => record_ok sc r = true) h -> ar_inv sw sc st h0 ->
  exists st', fold_opt (ar_record sw) st h = Some st' /\ ar_inv sw sc st' (h0 ++ h).
Proof.
  induction h as [|r h IH]; simpl; intros st h0 Hsc Hh Hinv.
  - exists st. rewrite app_nil_r. auto.
  - inversion Hh; subst.
    destruct (ar_record_step sw sc st h0 r Hsc H1 Hinv) as (st1 & S1 & I1). rewrite S1.
    destruct (IH st1 (h0 ++ [r]) Hsc H2 I1) as (st' & S' & I'). exists st'. split; [assumption|].
    rewrite <- app_assoc in I'. exact I'.
Qed.

Lemma ac_inv_lengths : forall k hk fs cols, Forall2 (ac_inv k hk) fs cols ->
  forallb (fun c => length (ac_rows c) =? length hk) cols = true.
Proof.
  induction 1 as [|f c fs cols Hc _ IH]; simpl; [reflexivity|].
  destruct Hc as (_ & _ & _ & R). rewrite R. unfold ar_rows. rewrite map_length, Nat.eqb_refl. assumption.
Qed.

Lemma ac_find_inv : forall k hk fs cols f, Forall2 (ac_inv k hk) fs cols ->
  NoDup (map f_name fs) -> In f fs -> exists c, ac_find (f_name f) cols = Some c /\ ac_inv k hk f c.
Proof.
  induction 1 as [|g c fs cols Hc _ IH]; simpl; intros Hnd Hin; [tauto|].
  inversion Hnd; subst. destruct Hin as [->|Hin].
  - exists c. destruct Hc as (N & ?). rewrite N, String.eqb_refl. split; [reflexivity|]. split; assumption.
  - destruct Hc as (N & ?). rewrite N. destruct (String.eqb (f_name g) (f_name f)) eqn:E.
    + apply String.eqb_eq in E. exfalso. apply H1. rewrite E. apply in_map. assumption.
    + apply IH; assumption.
Qed.

Lemma arrow_correct_l : forall sw sc h, wf_schema sc = true -> wf_hist sc h = true ->
  exists st, ar_run sw sc h = Some st /\ ar_count st = length (kept sw h) /\
    forall k f, In f (fields k sc) ->
      exists c, ar_column st k (f_name f) = Some c /\ ac_ty c = f_ty f /\
                ac_tensor c = negb (f_scalar f) /\
                ac_rows c = ar_rows k (f_name f) (kept sw h) /\
                non_null (ac_rows c) = rows_of (expected sw h k (f_name f)).
Proof.
  intros sw sc h Hsc Hh. unfold ar_run.
  assert (ar_inv sw sc (ar_init sc) []) as I0.
  { unfold ar_inv, ar_init. simpl. repeat split; apply ar_new_inv. }
  destruct (ar_fold sw sc h _ [] Hsc (wf_hist_records _ _ Hh) I0) as (st & F & (A & B & C)).
  rewrite F. simpl in *. unfold ar_finalize. rewrite C.
  rewrite (ac_inv_lengths _ _ _ _ A), (ac_inv_lengths _ _ _ _ B). simpl.
  exists st. split; [reflexivity|]. split; [assumption|].
  intros k f Hf. unfold ar_column.
  destruct k; simpl in *.
  - destruct (ac_find_inv _ _ _ _ f A (wf_schema_stats _ Hsc) Hf) as (c & Fc & (N & T & S & R)).
    exists c. repeat split; try assumption. rewrite R. apply non_null_ar_rows.
  - destruct (ac_find_inv _ _ _ _ f B (wf_schema_draws _ Hsc) Hf) as (c & Fc & (N & T & S & R)).
    exists c. repeat split; try assumption. rewrite R. apply non_null_ar_rows.
Qed.

(* ---------------------------------------------------------------------------------------- *)
(* CSV                                                                                        *)
(* ---------------------------------------------------------------------------------------- *)
Lemma alookup_app : forall A n (a b : amap A),
  alookup n (a ++ b) = match alookup n a with Some x => Some x | None => alookup n b end.
Proof.
  induction a as [|[k x] a IH]; simpl; intros; [reflexivity|].
  destruct (String.eqb k n); [reflexivity | apply IH].
Qed.

Lemma alookup_rev : forall A n (m : amap A), NoDup (map fst m) -> alookup n (rev m) = alookup n m.
Proof.
  induction m as [|[k x] m IH]; simpl; intro Hnd; [reflexivity|].
  inversion Hnd; subst. rewrite alookup_app, (IH H2). simpl.
  destruct (String.eqb k n) eqn:E.
  - apply String.eqb_eq in E. subst k. rewrite alookup_not_In; auto.
  - destruct (alookup n m); reflexivity.
Qed.

Lemma lookup_last_eq : forall n es, NoDup (map fst es) -> lookup_last n es = lookup_entry n es.
Proof. intros. unfold lookup_last, lookup_entry. rewrite alookup_rev; auto. Qed.

Lemma csv_fold : forall sw mapping h st,
  csv_lines (fold_left (csv_record sw mapping) h st)
  = csv_lines st ++ map (csv_row mapping) (kept sw h) /\
  csv_first (fold_left (csv_record sw mapping) h st)
  = csv_first st && match kept sw h with [] => true | _ => false end.
Proof.
  induction h as [|r h IH]; simpl; intro st.
  - rewrite app_nil_r, andb_true_r. auto.
  - destruct (IH (csv_record sw mapping st r)) as [A B]. rewrite A, B. unfold csv_record.
    destruct (r_tuning r) eqn:T, sw; simpl; try (rewrite <- app_assoc; simpl);
      try rewrite andb_false_r; auto.
Qed.

Lemma csv_run_rows : forall sw sc h,
  csv_lines (csv_run sw sc h) = map (csv_row (csv_mapping (sc_draws sc))) (kept sw h) /\
  csv_first (csv_run sw sc h) = match kept sw h with [] => true | _ => false end.
Proof. intros. unfold csv_run. destruct (csv_fold sw (csv_mapping (sc_draws sc)) h (mkCsv true [])); auto. Qed.

(* linear indices of the enumerated multi-indices are 0, 1, ..., product - 1 *)
Lemma map_add_seq : forall a n b, map (fun x => a + x) (seq b n) = seq (a + b) n.
Proof.
  induction n as [|n IH]; simpl; intro b; [reflexivity|].
  f_equal. rewrite IH. f_equal. lia.
Qed.

Lemma flat_seq_blocks : forall P d, flat_map (fun i => seq (i * P) P) (seq 0 d) = seq 0 (d * P).
Proof.
  induction d as [|d IH]; [reflexivity|].
  rewrite seq_S, flat_map_app, IH. simpl. rewrite app_nil_r.
  replace (P + d * P) with (d * P + P) by lia. rewrite seq_app. reflexivity.
Qed.

Lemma map_flat_map : forall A B C (f : B -> C) (g : A -> list B) l,
  map f (flat_map g l) = flat_map (fun x => map f (g x)) l.
Proof. induction l as [|x l IH]; simpl; [reflexivity|]. rewrite map_app, IH. reflexivity. Qed.

Lemma cart_lin : forall ds, map (lin_index ds) (cart ds) = seq 0 (fold_right Nat.mul 1 ds).
Proof.
  induction ds as [|d ds IH]; [reflexivity|].
  change (fold_right Nat.mul 1 (d :: ds)) with (d * fold_right Nat.mul 1 ds).
  set (P := fold_right Nat.mul 1 ds) in *.
  rewrite <- flat_seq_blocks. simpl cart. rewrite map_flat_map.
  apply flat_map_ext. intro i. rewrite map_map.
  transitivity (map (fun x => i * P + x) (map (lin_index ds) (cart ds))).
  - rewrite map_map. reflexivity.
  - rewrite IH, map_add_seq. f_equal. lia.
Qed.

Lemma csv_mapping_field : forall f i, csv_numeric (f_ty f) = true -> i < f_len f ->
  In (f_name f, i) (map snd (csv_field_columns f)).
Proof.
  intros f i Hn Hi. unfold csv_field_columns. rewrite Hn. unfold f_len in Hi.
  destruct (f_shape f) as [|d ds] eqn:S.
  - simpl in *. left. f_equal. lia.
  - rewrite map_map. simpl snd.
    assert (In i (map (lin_index (d :: ds)) (cart (d :: ds)))) as Hin.
    { rewrite cart_lin. apply in_seq. lia. }
    apply in_map_iff in Hin. destruct Hin as (idx & E & Hidx).
    apply in_map_iff. exists idx. split; [rewrite <- E; reflexivity | assumption].
Qed.

(* every component of every numeric draw variable has a column *)
Lemma csv_mapping_complete : forall dfs f i, In f dfs -> csv_numeric (f_ty f) = true -> i < f_len f ->
  In (f_name f, i) (csv_mapping dfs).
Proof.
  intros dfs f i Hf Hn Hi. unfold csv_mapping, csv_columns.
  rewrite flat_map_concat_map, concat_map, map_map, <- flat_map_concat_map.
  apply in_flat_map. exists f. split; [assumption | apply csv_mapping_field; assumption].
Qed.

(* only numeric draw variables have columns *)
Lemma csv_mapping_sound : forall dfs n i, In (n, i) (csv_mapping dfs) ->
  exists f, In f dfs /\ n = f_name f /\ csv_numeric (f_ty f) = true /\ i < f_len f.
Proof.
  intros dfs n i H. unfold csv_mapping, csv_columns in H.
  rewrite flat_map_concat_map, concat_map, map_map, <- flat_map_concat_map in H.
  apply in_flat_map in H. destruct H as (f & Hf & Hin). exists f. split; [assumption|].
  unfold csv_field_columns in Hin. destruct (csv_numeric (f_ty f)) eqn:Hn; [|simpl in Hin; tauto].
  unfold f_len. destruct (f_shape f) as [|d ds] eqn:S.
  - simpl in Hin. destruct Hin as [E|[]]. inversion E; subst. simpl. auto.
  - rewrite map_map in Hin. simpl snd in Hin. apply in_map_iff in Hin.
    destruct Hin as (idx & E & Hidx). inversion E; subst. repeat split; auto.
    assert (In (lin_index (d :: ds) idx) (map (lin_index (d :: ds)) (cart (d :: ds)))) as Hl
      by (apply in_map; assumption).
    rewrite cart_lin in Hl. apply in_seq in Hl.
    change (lin_index (d :: ds) idx < fold_right Nat.mul 1 (d :: ds)). lia.
Qed.

Lemma f_scalar_len : forall f, f_scalar f = true -> f_len f = 1.
Proof. intros f H. unfold f_scalar, f_len in *. destruct (f_shape f); [reflexivity | discriminate]. Qed.

Lemma csv_param_typed : forall sc r f i, wf_schema sc = true -> record_ok sc r = true ->
  In f (sc_draws sc) -> csv_numeric (f_ty f) = true -> i < f_len f ->
  exists v, lookup_entry (f_name f) (r_draws r) = Some v /\ typed f v = true /\
            csv_param (r_draws r) (f_name f) i = CVal (f_ty f) (nth i (v_items v) (TN 0)).
Proof.
  intros sc r f i Hsc Hr Hf Hn Hi.
  pose proof (record_ok_draws _ _ Hr) as Hok. pose proof (wf_schema_draws _ Hsc) as Hnd.
  pose proof (entries_ok_lookup _ _ _ f Hok Hnd Hf) as L.
  destruct (lookup_entry (f_name f) (r_draws r)) as [v|] eqn:E; [|discriminate].
  exists v. repeat split; try assumption.
  unfold csv_param. rewrite lookup_last_eq by (eapply entries_nodup; eauto). rewrite E.
  rewrite (typed_ty _ _ L), Hn, (typed_scalar _ _ L).
  pose proof (typed_len _ _ L) as Hl.
  destruct (f_scalar f) eqn:S; simpl.
  - rewrite (f_scalar_len _ S) in *. assert (i = 0) by lia. subst i. simpl.
    unfold fmt_value. destruct (v_items v) as [|x xs]; simpl in *; [discriminate|].
    rewrite (typed_ty _ _ L). reflexivity.
  - destruct (nth_error (v_items v) i) as [x|] eqn:N.
    + rewrite (nth_error_nth _ _ _ N). reflexivity.
    + apply nth_error_None in N. lia.
Qed.

Lemma nth_fixed7 : forall (a b c d e f g : cell) rest j,
  nth (7 + j) ([a; b; c; d; e; f; g] ++ rest) CNA = nth j rest CNA.
Proof. intros. reflexivity. Qed.

Lemma present_draws_map : forall sc f (g : val -> cell) (g' : record -> cell) hk,
  wf_schema sc = true -> Forall (fun r => record_ok sc r = true) hk -> In f (sc_draws sc) ->
  (forall r v, record_ok sc r = true -> lookup_entry (f_name f) (r_draws r) = Some v -> g' r = g v) ->
  map g' hk = map g (present Draws (f_name f) hk).
Proof.
  intros sc f g g' hk Hsc Hh Hf Hg. induction Hh as [|r hk Hr _ IH]; [reflexivity|].
  change (present Draws (f_name f) (r :: hk))
    with (one_present Draws (f_name f) r ++ present Draws (f_name f) hk).
  rewrite map_app, <- IH. unfold one_present. simpl entries.
  pose proof (entries_ok_lookup _ _ _ f (record_ok_draws _ _ Hr) (wf_schema_draws _ Hsc) Hf) as L.
  destruct (lookup_entry (f_name f) (r_draws r)) as [v|] eqn:E; [|discriminate].
  simpl. rewrite (Hg r v Hr E). reflexivity.
Qed.

Lemma Forall_filter : forall A (P : A -> Prop) (p : A -> bool) l, Forall P l -> Forall P (filter p l).
Proof.
  induction 1; simpl; [constructor|]. destruct (p x); [constructor|]; assumption.
Qed.

Lemma csv_param_column_l : forall sw sc h f i j, wf_schema sc = true -> wf_hist sc h = true ->
  In f (sc_draws sc) -> csv_numeric (f_ty f) = true -> i < f_len f ->
  nth_error (csv_mapping (sc_draws sc)) j = Some (f_name f, i) ->
  column CNA (7 + j) (csv_lines (csv_run sw sc h))
  = map (fun v => CVal (f_ty f) (nth i (v_items v) (TN 0))) (expected sw h Draws (f_name f)).
Proof.
  intros sw sc h f i j Hsc Hh Hf Hn Hi Hj.
  destruct (csv_run_rows sw sc h) as [R _]. rewrite R. unfold column. rewrite map_map.
  unfold expected.
  apply (present_draws_map sc f); auto.
  - apply Forall_filter. apply wf_hist_records. assumption.
  - intros r v Hr E. unfold csv_row. rewrite nth_fixed7.
    rewrite (nth_error_nth _ _ CNA
               (map_nth_error (fun p => csv_param (r_draws r) (fst p) (snd p)) j _ Hj)).
    simpl.
    destruct (csv_param_typed sc r f i Hsc Hr Hf Hn Hi) as (v' & E' & _ & P).
    rewrite E in E'. inversion E'; subst. assumption.
Qed.

Lemma csv_stat_columns_l : forall sw sc h,
  let rows := csv_lines (csv_run sw sc h) in
  let col := fun j n => column CNA j rows = map (fun r => csv_stat (r_stats r) n) (kept sw h) in
  col 0 "logp" /\ col 1 "mean_tree_accept" /\ col 2 "step_size" /\ col 3 "depth" /\
  col 4 "n_steps" /\ col 6 "energy" /\
  column CNA 5 rows = map (fun r => csv_divergent (r_stats r)) (kept sw h).
Proof.
  intros. unfold col, rows. destruct (csv_run_rows sw sc h) as [R _]. rewrite R.
  unfold column. rewrite !map_map. repeat split; reflexivity.
Qed.

Lemma csv_stat_value : forall sc r f, wf_schema sc = true -> record_ok sc r = true ->
  In f (sc_stats sc) -> f_scalar f = true ->
  csv_stat (r_stats r) (f_name f)
  = match lookup_entry (f_name f) (r_stats r) with
    | Some v => CVal (f_ty f) (hd (TN 0) (v_items v))
    | None => CNA
    end.
Proof.
  intros sc r f Hsc Hr Hf Hs.
  pose proof (record_ok_stats _ _ Hr) as Hok. pose proof (wf_schema_stats _ Hsc) as Hnd.
  pose proof (entries_ok_lookup _ _ _ f Hok Hnd Hf) as L.
  unfold csv_stat. rewrite lookup_last_eq by (eapply entries_nodup; eauto).
  destruct (lookup_entry (f_name f) (r_stats r)) as [v|]; [|reflexivity].
  pose proof (typed_len _ _ L) as Hl. rewrite (f_scalar_len _ Hs) in Hl.
  unfold fmt_value. destruct (v_items v) as [|x xs]; simpl in *; [discriminate|].
  rewrite (typed_ty _ _ L). reflexivity.
Qed.

Lemma csv_header_l : forall sw sc h,
  fst (csv_file sc (csv_run sw sc h))
  = match kept sw h with [] => None | _ => Some (csv_header (sc_draws sc)) end.
Proof.
  intros. unfold csv_file. simpl. destruct (csv_run_rows sw sc h) as [_ F]. rewrite F.
  destruct (kept sw h); reflexivity.
Qed.

(* ---------------------------------------------------------------------------------------- *)
(* ndarray                                                                                    *)
(* ---------------------------------------------------------------------------------------- *)
Definition nd_fillrow (f : field) : list token := repeat (fill_tok (f_ty f)) (f_len f).

(* the per-draw entry: the recorded value, or the default where it was absent *)
Definition nd_dense (k : kind) (f : field) (r : record) : list token :=
  match lookup_entry (f_name f) (entries k r) with Some v => v_items v | None => nd_fillrow f end.

Definition nd_col_inv (total : nat) (k : kind) (h0 : list record) (f : field) (a : ndarr) : Prop :=
  nd_ty a = f_ty f /\ nd_shape a = f_shape f /\
  nd_rows a = map (nd_dense k f) h0 ++ repeat (nd_fillrow f) (total - length h0).

Definition nd_map_inv (total : nat) (k : kind) (fs : list field) (m : amap ndarr) (h0 : list record) : Prop :=
  forall f, In f fs -> skip_name (f_name f) = false ->
    exists a, alookup (f_name f) m = Some a /\ nd_col_inv total k h0 f a.

Definition nd_schema_ok (sc : schema) : bool :=
  forallb (fun f => length (f_shape f) <=? 1) (sc_stats sc) &&
  forallb (fun f => length (f_shape f) <=? 1) (sc_draws sc).

Lemma nd_new_lookup : forall total fs f, NoDup (map f_name fs) -> In f fs ->
  skip_name (f_name f) = false ->
  alookup (f_name f) (nd_new total fs)
  = Some (mkNd (f_ty f) (f_shape f) (repeat (nd_fillrow f) total)).
Proof.
  induction fs as [|g fs IH]; simpl; intros f Hnd Hin SK; [tauto|].
  inversion Hnd; subst. unfold nd_new in *. simpl.
  destruct Hin as [->|Hin].
  - rewrite SK. simpl. rewrite String.eqb_refl. reflexivity.
  - destruct (skip_name (f_name g)); simpl.
    + apply IH; assumption.
    + destruct (String.eqb (f_name g) (f_name f)) eqn:E.
      * apply String.eqb_eq in E. exfalso. apply H1. rewrite E. apply in_map. assumption.
      * apply IH; assumption.
Qed.

Lemma set_nth_app : forall A (a b : list A) x y, set_nth (length a) x (a ++ y :: b) = a ++ x :: b.
Proof. induction a as [|z a IH]; simpl; intros; [reflexivity | f_equal; apply IH]. Qed.

Lemma nth_app_len : forall A (a b : list A) y d, nth (length a) (a ++ y :: b) d = y.
Proof. induction a as [|z a IH]; simpl; intros; [reflexivity | apply IH]. Qed.

Lemma repeat_S_minus : forall A (x : A) total n, n < total ->
  repeat x (total - n) = x :: repeat x (total - S n).
Proof. intros. replace (total - n) with (S (total - S n)) by lia. reflexivity. Qed.

Lemma nd_set_typed : forall total k h0 f a v, length h0 < total -> length (f_shape f) <= 1 ->
  nd_col_inv total k h0 f a -> typed f v = true ->
  exists a', nd_set (length h0) a v = Some a' /\
    nd_ty a' = f_ty f /\ nd_shape a' = f_shape f /\
    nd_rows a' = (map (nd_dense k f) h0 ++ [v_items v]) ++ repeat (nd_fillrow f) (total - S (length h0)).
Proof.
  intros total k h0 f a v Hlt Hsh (T & Hs & R) Ht. unfold nd_set.
  rewrite T, (typed_ty _ _ Ht), ty_eqb_refl. simpl.
  assert (length (nd_rows a) = total) as Hlen.
  { rewrite R, app_length, map_length, repeat_length. lia. }
  rewrite Hlen. apply Nat.ltb_lt in Hlt. rewrite Hlt. apply Nat.ltb_lt in Hlt.
  rewrite (repeat_S_minus _ _ _ _ Hlt) in R.
  rewrite (typed_scalar _ _ Ht). rewrite Hs.
  assert (length (map (nd_dense k f) h0) = length h0) as Hm by apply map_length.
  assert (forall x, set_nth (length h0) x (nd_rows a)
                    = (map (nd_dense k f) h0 ++ [x]) ++ repeat (nd_fillrow f) (total - S (length h0))) as Hset.
  { intro x. rewrite R, <- app_assoc. simpl.
    generalize (repeat (nd_fillrow f) (total - S (length h0))). intro tl.
    rewrite <- Hm. apply set_nth_app. }
  assert (nth (length h0) (nd_rows a) [] = nd_fillrow f) as Hnth.
  { rewrite R. generalize (repeat (nd_fillrow f) (total - S (length h0))). intro tl.
    rewrite <- Hm. apply nth_app_len. }
  unfold f_scalar. destruct (f_shape f) as [|n [|n2 sh]] eqn:Sh; simpl in Hsh; [| |lia].
  - eexists. split; [reflexivity|]. simpl. repeat split; try assumption. apply Hset.
  - pose proof (typed_len _ _ Ht) as Hl. unfold f_len in Hl. rewrite Sh in Hl. simpl in Hl.
    rewrite Nat.mul_1_r in Hl. rewrite Hl, Nat.leb_refl.
    eexists. split; [reflexivity|]. simpl. repeat split; try assumption.
    rewrite Hnth, Hset.
    assert (skipn n (nd_fillrow f) = []) as Sk.
    { apply skipn_all2. unfold nd_fillrow. rewrite repeat_length. unfold f_len. rewrite Sh. simpl. lia. }
    rewrite Sk, app_nil_r. reflexivity.
Qed.

Lemma nd_push_step : forall total k sc r m h0, wf_schema sc = true -> record_ok sc r = true ->
  forallb (fun f => length (f_shape f) <=? 1) (fields k sc) = true -> length h0 < total ->
  nd_map_inv total k (fields k sc) m h0 ->
  exists m', push_entries (nd_set (length h0)) (kstrict k) m (entries k r) = Some m' /\
             nd_map_inv total k (fields k sc) m' (h0 ++ [r]).
Proof.
  intros total k sc r m h0 Hsc Hr Hsh Hlt Hinv.
  pose proof (record_ok_kind sc r k Hr) as Hok.
  pose proof (wf_schema_kind sc k Hsc) as Hnd.
  pose proof (entries_nodup _ _ _ Hok Hnd) as Hnde.
  rewrite forallb_forall in Hsh.
  destruct (push_entries_ok (nd_set (length h0)) (kstrict k) (entries k r) m Hnde) as [m' Hm'].
  - intros S n. destruct k; simpl in S; [discriminate|]. eapply entries_ok_strict_all; eauto.
  - intros n v Hin SN. destruct (entries_ok_In _ _ _ _ _ Hok Hin) as (f & Hf & -> & Ht).
    destruct (Hinv f Hf SN) as (a & L & I).
    destruct (nd_set_typed total k h0 f a v Hlt) as (a' & N & _); auto.
    { apply Nat.leb_le. apply Hsh. assumption. }
    eauto.
  - exists m'. split; [assumption|]. intros f Hf SK.
    destruct (Hinv f Hf SK) as (a & L & I).
    pose proof (push_entries_col (nd_set (length h0)) _ _ _ _ Hnde Hm' (f_name f)) as C.
    rewrite L in C. destruct C as (a' & C & D). exists a'. split; [assumption|].
    unfold col_step in C. rewrite SK in C.
    pose proof (entries_ok_lookup _ _ _ f Hok Hnd Hf) as Lk.
    unfold nd_col_inv. rewrite app_length, map_app. simpl. unfold nd_dense at 2.
    destruct (lookup_entry (f_name f) (entries k r)) as [v|].
    + destruct (nd_set_typed total k h0 f a v Hlt) as (a2 & N & T2 & S2 & R2); auto.
      { apply Nat.leb_le. apply Hsh. assumption. }
      rewrite N in C. inversion C; subst a2. repeat split; try assumption.
      rewrite R2. f_equal. f_equal. lia.
    + inversion C; subst a'. destruct I as (T & S & R). repeat split; try assumption.
      rewrite R, (repeat_S_minus _ _ _ _ Hlt), <- app_assoc. simpl. f_equal. f_equal. f_equal. lia.
Qed.

Definition nd_inv (total : nat) (sc : schema) (st : nd_state) (h0 : list record) : Prop :=
  nd_map_inv total Stats (sc_stats sc) (nd_stats st) h0 /\
  nd_map_inv total Draws (sc_draws sc) (nd_draws st) h0 /\
  nd_cur st = length h0.

Lemma nd_record_step : forall total sc st h0 r, wf_schema sc = true -> nd_schema_ok sc = true ->
  record_ok sc r = true -> length h0 < total -> nd_inv total sc st h0 ->
  exists st', nd_record st r = Some st' /\ nd_inv total sc st' (h0 ++ [r]).
Proof.
  intros total sc st h0 r Hsc Hok Hr Hlt (A & B & C). unfold nd_record. rewrite C.
  unfold nd_schema_ok in Hok. apply andb_true_iff in Hok. destruct Hok as [O1 O2].
  destruct (nd_push_step total Stats sc r _ h0 Hsc Hr O1 Hlt A) as (s' & P1 & I1).
  destruct (nd_push_step total Draws sc r _ h0 Hsc Hr O2 Hlt B) as (d' & P2 & I2).
  simpl in P1, P2. rewrite P1, P2. eexists. split; [reflexivity|].
  unfold nd_inv. simpl. repeat split; try assumption. rewrite app_length. simpl. lia.
Qed.

Lemma nd_fold : forall total sc h st h0, wf_schema sc = true -> nd_schema_ok sc = true ->
  Forall (fun r => record_ok sc r = true) h -> length h0 + length h <= total ->
  nd_inv total sc st h0 ->
  exists st', fold_opt nd_record st h = Some st' /\ nd_inv total sc st' (h0 ++ h).
Proof.
  induction h as [|r h IH]; simpl; intros st h0 Hsc Hok Hh Hlen Hinv.
  - exists st. rewrite app_nil_r. auto.
  - inversion Hh; subst.
    destruct (nd_record_step total sc st h0 r Hsc Hok H1) as (st1 & S1 & I1); [lia | assumption |].
    rewrite S1.
    destruct (IH st1 (h0 ++ [r]) Hsc Hok H2) as (st' & S' & I'); [rewrite app_length; simpl; lia | assumption |].
    exists st'. split; [assumption|]. rewrite <- app_assoc in I'. exact I'.
Qed.

Lemma ndarray_correct_l : forall total sc h, wf_schema sc = true -> nd_schema_ok sc = true ->
  wf_hist sc h = true -> length h <= total ->
  exists st, nd_run total sc h = Some st /\
    forall k f, In f (fields k sc) -> skip_name (f_name f) = false ->
      exists a, nd_read st k (f_name f) = Some a /\ nd_ty a = f_ty f /\ nd_shape a = f_shape f /\
                nd_rows a = map (nd_dense k f) h ++ repeat (nd_fillrow f) (total - length h).
Proof.
  intros total sc h Hsc Hok Hh Hlen. unfold nd_run.
  assert (nd_inv total sc (nd_init total sc) []) as I0.
  { unfold nd_inv, nd_init, nd_init_with. simpl. repeat split.
    - intros f Hf SK. eexists. split; [apply nd_new_lookup; auto; apply wf_schema_stats; assumption|].
      unfold nd_col_inv. simpl. rewrite Nat.sub_0_r. auto.
    - intros f Hf SK. eexists. split; [apply nd_new_lookup; auto; apply wf_schema_draws; assumption|].
      unfold nd_col_inv. simpl. rewrite Nat.sub_0_r. auto. }
  destruct (nd_fold total sc h (nd_init total sc) [] Hsc Hok (wf_hist_records _ _ Hh)) as (st & F & (A & B & C)); auto.
  exists st. split; [assumption|]. intros k f Hf SK. unfold nd_read.
  destruct k; simpl in *.
  - destruct (A f Hf SK) as (a & L & I). exists a. split; [assumption | exact I].
  - destruct (B f Hf SK) as (a & L & I). exists a. split; [assumption | exact I].
Qed.

(* a variable that is present in every record: its first |h| entries are exactly the spec *)
Lemma nd_dense_present : forall k f h,
  Forall (fun r => lookup_entry (f_name f) (entries k r) <> None) h ->
  map (nd_dense k f) h = rows_of (expected true h k (f_name f)).
Proof.
  intros k f h Hh. unfold expected. rewrite kept_true.
  induction Hh as [|r h Hr _ IH]; [reflexivity|].
  change (present k (f_name f) (r :: h)) with (one_present k (f_name f) r ++ present k (f_name f) h).
  rewrite rows_of_app, <- IH. simpl. unfold nd_dense, one_present.
  destruct (lookup_entry (f_name f) (entries k r)); [reflexivity | congruence].
Qed.

Lemma draws_always_present : forall sc h f, wf_schema sc = true -> wf_hist sc h = true ->
  In f (sc_draws sc) -> Forall (fun r => lookup_entry (f_name f) (entries Draws r) <> None) h.
Proof.
  intros sc h f Hsc Hh Hf. pose proof (wf_hist_records _ _ Hh) as Hr.
  eapply Forall_impl; [|exact Hr]. intros r Hrk. simpl.
  pose proof (entries_ok_lookup _ _ _ f (record_ok_draws _ _ Hrk) (wf_schema_draws _ Hsc) Hf) as L.
  destruct (lookup_entry (f_name f) (r_draws r)); [discriminate | discriminate].
Qed.

(* ---------------------------------------------------------------------------------------- *)
(* Zarr                                                                                       *)
(* ---------------------------------------------------------------------------------------- *)
(* no string variable with dims (SampleBuffer::push has no Value::Strings arm); event
   statistics are not called draw / chain *)
Definition z_field_ok (f : field) : bool := negb (ty_eqb (f_ty f) TStr && negb (f_scalar f)).
Definition z_schema_ok (sc : schema) : bool :=
  forallb z_field_ok (sc_stats sc) && forallb z_field_ok (sc_draws sc)
  && forallb (fun p => negb (skip_name (fst p))) (ev_fields sc).

Lemma zwrite_append : forall fill a rs, zwrite fill a (length a) rs = a ++ rs.
Proof.
  intros. unfold zwrite. rewrite Nat.sub_diag. simpl. rewrite app_nil_r.
  rewrite firstn_all. rewrite skipn_all2 by lia. rewrite app_nil_r. reflexivity.
Qed.

Lemma alookup_amap_map : forall A B (g : A -> B) n (m : amap A),
  alookup n (amap_map g m) = option_map g (alookup n m).
Proof.
  induction m as [|[k a] m IH]; simpl; [reflexivity|].
  destruct (String.eqb k n); [reflexivity | apply IH].
Qed.

(* the chain's column of variable f: W = rows recorded during warmup, S = rows recorded after *)
Definition zcol_inv (cs : nat) (warm : bool) (f : field) (W S : list (list token)) (c : zcol) : Prop :=
  zc_ty c = f_ty f /\ length (zc_buf c) < cs /\
  (if warm then zc_warm c ++ zc_buf c = W /\ zc_samp c = [] /\ length (zc_warm c) = zc_chunk c * cs
   else zc_warm c = W /\ zc_samp c ++ zc_buf c = S /\ length (zc_samp c) = zc_chunk c * cs).

Lemma z_push_typed : forall cs ph f W S c v, zcol_inv cs ph f W S c -> typed f v = true ->
  z_field_ok f = true ->
  exists c', z_push cs ph c v = Some c' /\
    zcol_inv cs ph f (if ph then W ++ [v_items v] else W) (if ph then S else S ++ [v_items v]) c'.
Proof.
  intros cs ph f W S c v (T & B & I) Ht Hok. unfold z_push.
  apply Nat.ltb_lt in B. rewrite B. apply Nat.ltb_lt in B.
  rewrite T, (typed_ty _ _ Ht), ty_eqb_refl.
  unfold z_field_ok in Hok. rewrite (typed_scalar _ _ Ht), Hok. simpl.
  rewrite app_length. simpl.
  destruct (length (zc_buf c) + 1 =? cs) eqn:E.
  - apply Nat.eqb_eq in E. eexists. split; [reflexivity|].
    unfold z_emit, zcol_inv. simpl. destruct ph; simpl.
    + destruct I as (I1 & I2 & I3). repeat split; try assumption; try lia.
      * rewrite <- I3, zwrite_append, app_nil_r, app_assoc, I1. reflexivity.
      * rewrite <- I3, zwrite_append, app_length, app_length. simpl. lia.
    + destruct I as (I1 & I2 & I3). repeat split; try assumption; try lia.
      * rewrite <- I3, zwrite_append, app_nil_r, app_assoc, I2. reflexivity.
      * rewrite <- I3, zwrite_append, app_length, app_length. simpl. lia.
  - apply Nat.eqb_neq in E. eexists. split; [reflexivity|].
    unfold zcol_inv. simpl. rewrite app_length. simpl. destruct ph.
    + destruct I as (I1 & I2 & I3). repeat split; try assumption; try lia.
      rewrite app_assoc, I1. reflexivity.
    + destruct I as (I1 & I2 & I3). repeat split; try assumption; try lia.
      rewrite app_assoc, I2. reflexivity.
Qed.

(* the reset at the warmup -> sampling transition *)
Lemma z_reset_transition : forall cs f W c, zcol_inv cs true f W [] c ->
  zcol_inv cs false f W [] (z_reset cs true c).
Proof.
  intros cs f W c (T & B & I1 & I2 & I3). unfold z_reset.
  destruct (zc_buf c) as [|x xs] eqn:E; unfold zcol_inv; simpl.
  - rewrite app_nil_r in I1. rewrite I2. simpl in *. repeat split; try assumption; try lia.
  - rewrite I2. simpl in *. repeat split; try assumption; try lia.
    rewrite <- I3, zwrite_append, E. assumption.
Qed.

(* the reset of finalize: afterwards the arrays hold everything *)
Lemma z_reset_final : forall cs ph f W S c, zcol_inv cs ph f W S c ->
  zc_warm (z_reset cs ph c) = W /\ zc_samp (z_reset cs ph c) = (if ph then [] else S).
Proof.
  intros cs ph f W S c (T & B & I). unfold z_reset.
  destruct (zc_buf c) as [|x xs] eqn:E; destruct ph; simpl; destruct I as (I1 & I2 & I3).
  - rewrite app_nil_r in I1. auto.
  - rewrite app_nil_r in I2. auto.
  - rewrite <- I3, zwrite_append, E. auto.
  - rewrite <- I3, zwrite_append, E. auto.
Qed.

Lemma z_total_pushed_inv : forall cs ph f W S c, zcol_inv cs ph f W S c ->
  z_total_pushed cs c = length (if ph then W else S).
Proof.
  intros cs ph f W S c (T & B & I). unfold z_total_pushed. destruct ph.
  - destruct I as (I1 & I2 & I3). rewrite <- I1, app_length. lia.
  - destruct I as (I1 & I2 & I3). rewrite <- I2, app_length. lia.
Qed.

Definition z_map_inv (cs : nat) (ph : bool) (k : kind) (fs : list field) (m : amap zcol)
           (hW hS : list record) : Prop :=
  forall f, In f fs -> skip_name (f_name f) = false ->
    exists c, alookup (f_name f) m = Some c /\
      zcol_inv cs ph f (rows_of (present k (f_name f) hW)) (rows_of (present k (f_name f) hS)) c.

Lemma rows_of_snoc : forall k n h r,
  rows_of (present k n (h ++ [r])) = rows_of (present k n h) ++ rows_of (one_present k n r).
Proof. intros. rewrite present_snoc, rows_of_app. reflexivity. Qed.

Lemma z_push_step : forall cs ph k sc r m hW hS, wf_schema sc = true -> record_ok sc r = true ->
  forallb z_field_ok (fields k sc) = true ->
  z_map_inv cs ph k (fields k sc) m hW hS ->
  exists m', push_entries (z_push cs ph) (kstrict k) m (entries k r) = Some m' /\
    z_map_inv cs ph k (fields k sc) m' (if ph then hW ++ [r] else hW) (if ph then hS else hS ++ [r]).
Proof.
  intros cs ph k sc r m hW hS Hsc Hr Hfo Hinv.
  pose proof (record_ok_kind sc r k Hr) as Hok.
  pose proof (wf_schema_kind sc k Hsc) as Hnd.
  pose proof (entries_nodup _ _ _ Hok Hnd) as Hnde.
  rewrite forallb_forall in Hfo.
  destruct (push_entries_ok (z_push cs ph) (kstrict k) (entries k r) m Hnde) as [m' Hm'].
  - intros S n. destruct k; simpl in S; [discriminate|]. eapply entries_ok_strict_all; eauto.
  - intros n v Hin SN. destruct (entries_ok_In _ _ _ _ _ Hok Hin) as (f & Hf & -> & Ht).
    destruct (Hinv f Hf SN) as (c & L & I).
    destruct (z_push_typed cs ph f _ _ c v I Ht (Hfo f Hf)) as (c' & P & _). eauto.
  - exists m'. split; [assumption|]. intros f Hf SK.
    destruct (Hinv f Hf SK) as (c & L & I).
    pose proof (push_entries_col (z_push cs ph) _ _ _ _ Hnde Hm' (f_name f)) as C.
    rewrite L in C. destruct C as (c' & C & D). exists c'. split; [assumption|].
    unfold col_step in C. rewrite SK in C.
    pose proof (entries_ok_lookup _ _ _ f Hok Hnd Hf) as Lk.
    assert (forall h, rows_of (present k (f_name f) (h ++ [r]))
                      = rows_of (present k (f_name f) h)
                        ++ match lookup_entry (f_name f) (entries k r) with Some v => [v_items v] | None => [] end) as Sn.
    { intro h. rewrite rows_of_snoc. unfold one_present.
      destruct (lookup_entry (f_name f) (entries k r)); reflexivity. }
    destruct (lookup_entry (f_name f) (entries k r)) as [v|].
    + destruct (z_push_typed cs ph f _ _ c v I Lk (Hfo f Hf)) as (c2 & P & I2).
      rewrite P in C. inversion C; subst c2. destruct ph; rewrite Sn; assumption.
    + inversion C; subst c'. destruct ph; rewrite Sn, app_nil_r; assumption.
Qed.

(* number of events of dimension d: the largest count among the dimension's fields *)
Definition ev_count (sc : schema) (d : string) (hp : list record) : nat :=
  fold_right Nat.max 0
    (map (fun p => if String.eqb (snd p) d then length (present Stats (fst p) hp) else 0)
         (ev_fields sc)).

Lemma ev_fields_In : forall sc p, In p (ev_fields sc) ->
  exists f, In f (sc_stats sc) /\ fst p = f_name f /\ f_event f = Some (snd p).
Proof.
  intros sc p H. unfold ev_fields in H. apply in_flat_map in H. destruct H as (f & Hf & Hin).
  destruct (f_event f) eqn:E; simpl in Hin; [|tauto]. destruct Hin as [<-|[]].
  exists f. simpl. auto.
Qed.

Lemma ev_fields_In_rev : forall sc f d, In f (sc_stats sc) -> f_event f = Some d ->
  In (f_name f, d) (ev_fields sc).
Proof.
  intros sc f d Hf E. unfold ev_fields. apply in_flat_map. exists f. split; [assumption|].
  rewrite E. simpl. auto.
Qed.

Lemma z_dim_count_spec : forall cs ph sc m hW hS d, z_schema_ok sc = true ->
  z_map_inv cs ph Stats (sc_stats sc) m hW hS ->
  z_dim_count cs (ev_fields sc) m d = ev_count sc d (if ph then hW else hS).
Proof.
  intros cs ph sc m hW hS d Hok Hinv. unfold z_dim_count, ev_count. f_equal.
  apply map_ext_in. intros p Hp. destruct (String.eqb (snd p) d); [|reflexivity].
  destruct (ev_fields_In sc p Hp) as (f & Hf & E1 & E2).
  unfold z_schema_ok in Hok. apply andb_true_iff in Hok. destruct Hok as [_ Hsk].
  rewrite forallb_forall in Hsk. specialize (Hsk p Hp). apply negb_true_iff in Hsk.
  rewrite E1 in *. destruct (Hinv f Hf Hsk) as (c & L & I). rewrite L.
  rewrite (z_total_pushed_inv _ _ _ _ _ _ I). destruct ph; unfold rows_of; apply map_length.
Qed.

Lemma ev_count_nil : forall sc d, ev_count sc d [] = 0.
Proof.
  intros. unfold ev_count. induction (ev_fields sc) as [|p l IH]; [reflexivity|].
  simpl in *. rewrite IH. destruct (String.eqb (snd p) d); reflexivity.
Qed.

Lemma alookup_map_self : forall A (g : string -> A) l d, In d l ->
  alookup d (map (fun x => (x, g x)) l) = Some (g d).
Proof.
  induction l as [|x l IH]; simpl; intros d Hin; [tauto|].
  destruct (String.eqb x d) eqn:E.
  - apply String.eqb_eq in E. subst. reflexivity.
  - destruct Hin as [->|Hin]; [rewrite String.eqb_refl in E; discriminate | auto].
Qed.

Record z_inv (cs : nat) (sc : schema) (st : z_state) (h0 : list record) : Prop := {
  zi_stats : z_map_inv cs (z_last_warm st) Stats (sc_stats sc) (z_stats st) (warmup_part h0) (sample_part h0);
  zi_draws : z_map_inv cs (z_last_warm st) Draws (sc_draws sc) (z_draws st) (warmup_part h0) (sample_part h0);
  zi_warm : z_last_warm st = true -> sample_part h0 = [];
  zi_counts : z_last_warm st = false ->
              z_wcounts st = map (fun d => (d, ev_count sc d (warmup_part h0))) (ev_dims (ev_fields sc))
}.

Lemma z_map_inv_reset : forall cs k fs m hW, z_map_inv cs true k fs m hW [] ->
  z_map_inv cs false k fs (amap_map (z_reset cs true) m) hW [].
Proof.
  intros cs k fs m hW H f Hf SK. destruct (H f Hf SK) as (c & L & I).
  exists (z_reset cs true c). rewrite alookup_amap_map, L. split; [reflexivity|].
  apply z_reset_transition. exact I.
Qed.

Lemma z_schema_ok_parts : forall sc, z_schema_ok sc = true ->
  forallb z_field_ok (sc_stats sc) = true /\ forallb z_field_ok (sc_draws sc) = true.
Proof.
  intros sc H. unfold z_schema_ok in H. repeat (apply andb_true_iff in H; destruct H as [H ?]). auto.
Qed.

Lemma z_record_step : forall cs sc st h0 r, wf_schema sc = true -> z_schema_ok sc = true ->
  record_ok sc r = true -> (z_last_warm st = false -> r_tuning r = false) ->
  z_inv cs sc st h0 ->
  exists st', z_record cs (ev_fields sc) st r = Some st' /\ z_inv cs sc st' (h0 ++ [r]) /\
              z_last_warm st' = r_tuning r.
Proof.
  intros cs sc st h0 r Hsc Hok Hr Hph [A B Cw Cc]. unfold z_record.
  destruct (z_schema_ok_parts _ Hok) as [O1 O2].
  destruct (z_last_warm st) eqn:LW; destruct (r_tuning r) eqn:T; simpl.
  - (* warmup record during warmup *)
    destruct (parts_snoc_tuning h0 r T) as [E1 E2].
    destruct (z_push_step cs true Stats sc r _ _ _ Hsc Hr O1 A) as (s' & P1 & I1).
    destruct (z_push_step cs true Draws sc r _ _ _ Hsc Hr O2 B) as (d' & P2 & I2).
    simpl in P1, P2. rewrite LW. rewrite P1, P2. eexists. split; [reflexivity|]. split; [|simpl; congruence].
    constructor; simpl; rewrite ?LW, ?E1, ?E2; auto. discriminate.
  - (* first sampling record: transition *)
    destruct (parts_snoc_sample h0 r T) as [E1 E2].
    rewrite (Cw eq_refl) in *.
    pose proof (z_map_inv_reset _ _ _ _ _ A) as A'. pose proof (z_map_inv_reset _ _ _ _ _ B) as B'.
    destruct (z_push_step cs false Stats sc r _ _ _ Hsc Hr O1 A') as (s' & P1 & I1).
    destruct (z_push_step cs false Draws sc r _ _ _ Hsc Hr O2 B') as (d' & P2 & I2).
    simpl in P1, P2. rewrite P1, P2. eexists. split; [reflexivity|]. split; [|reflexivity].
    constructor; simpl; rewrite ?E1, ?E2; auto; try discriminate.
    intros _. unfold z_counts. apply map_ext. intro d. f_equal.
    apply (z_dim_count_spec cs true sc _ _ [] d Hok A).
  - discriminate (Hph eq_refl).
  - (* sampling record *)
    destruct (parts_snoc_sample h0 r T) as [E1 E2].
    destruct (z_push_step cs false Stats sc r _ _ _ Hsc Hr O1 A) as (s' & P1 & I1).
    destruct (z_push_step cs false Draws sc r _ _ _ Hsc Hr O2 B) as (d' & P2 & I2).
    simpl in P1, P2. rewrite LW. rewrite P1, P2. eexists. split; [reflexivity|]. split; [|simpl; congruence].
    constructor; simpl; rewrite ?LW, ?E1, ?E2; auto. discriminate.
Qed.

Lemma forallb_negb_prefix : forall l, forallb negb l = true -> tuning_prefix l = true.
Proof. destruct l as [|[|] l]; simpl; intro H; [reflexivity | discriminate | assumption]. Qed.

Lemma z_fold : forall cs sc h st h0, wf_schema sc = true -> z_schema_ok sc = true ->
  Forall (fun r => record_ok sc r = true) h ->
  tuning_prefix (map r_tuning h) = true ->
  (z_last_warm st = false -> forallb negb (map r_tuning h) = true) ->
  z_inv cs sc st h0 ->
  exists st', fold_opt (z_record cs (ev_fields sc)) st h = Some st' /\ z_inv cs sc st' (h0 ++ h).
Proof.
  induction h as [|r h IH]; simpl; intros st h0 Hsc Hok Hh Hpre Hph Hinv.
  - exists st. rewrite app_nil_r. auto.
  - inversion Hh; subst.
    destruct (z_record_step cs sc st h0 r Hsc Hok H1) as (st1 & S1 & I1 & L1); [|assumption|].
    { intro LW. specialize (Hph LW). apply andb_true_iff in Hph. destruct Hph as [Hn _].
      apply negb_true_iff. assumption. }
    rewrite S1.
    destruct (IH st1 (h0 ++ [r]) Hsc Hok H2) as (st' & S' & I'); [| |assumption|].
    + destruct (r_tuning r); [assumption | apply forallb_negb_prefix; assumption].
    + rewrite L1. intro T. rewrite T in Hpre. assumption.
    + exists st'. split; [assumption|]. rewrite <- app_assoc in I'. exact I'.
Qed.

Lemma z_new_inv : forall cs k fs, 1 <= cs -> NoDup (map f_name fs) ->
  z_map_inv cs true k fs (z_new fs) [] [].
Proof.
  intros cs k fs Hcs Hnd f Hf SK. unfold z_new.
  pose proof (alookup_map_key _ _ f_name
                (fun f => mkZ (f_ty f) (repeat (zfill_tok (f_ty f)) (f_len f)) [] 0 [] []) fs f Hnd Hf) as X.
  simpl in X. rewrite X. eexists. split; [reflexivity|].
  unfold zcol_inv. simpl. repeat split; auto; lia.
Qed.

Lemma zarr_chain_correct_l : forall cs sc h, 1 <= cs -> wf_schema sc = true ->
  z_schema_ok sc = true -> wf_hist sc h = true ->
  exists st cnts, z_run cs sc h = Some (st, cnts) /\
    (forall k f, In f (fields k sc) -> skip_name (f_name f) = false ->
       z_array st k (f_name f) true = Some (rows_of (present k (f_name f) (warmup_part h))) /\
       z_array st k (f_name f) false = Some (rows_of (present k (f_name f) (sample_part h)))) /\
    cnts = map (fun d => (d, (ev_count sc d (warmup_part h), ev_count sc d (sample_part h))))
               (ev_dims (ev_fields sc)).
Proof.
  intros cs sc h Hcs Hsc Hok Hh. unfold z_run.
  assert (z_inv cs sc (z_init sc) []) as I0.
  { constructor; simpl; auto; try discriminate.
    - apply z_new_inv; [assumption | apply wf_schema_stats; assumption].
    - apply z_new_inv; [assumption | apply wf_schema_draws; assumption]. }
  destruct (z_fold cs sc h (z_init sc) [] Hsc Hok (wf_hist_records _ _ Hh) (wf_hist_prefix _ _ Hh))
    as (st & F & [A B Cw Cc]); [discriminate | assumption |].
  simpl in *. rewrite F. unfold z_chain_finalize. eexists. eexists. split; [reflexivity|]. split.
  - intros k f Hf SK. unfold z_array. simpl.
    assert (forall m, z_map_inv cs (z_last_warm st) k (fields k sc) m (warmup_part h) (sample_part h) ->
              exists c, alookup (f_name f) (amap_map (z_reset cs (z_last_warm st)) m)
                        = Some (z_reset cs (z_last_warm st) c) /\
                zcol_inv cs (z_last_warm st) f (rows_of (present k (f_name f) (warmup_part h)))
                         (rows_of (present k (f_name f) (sample_part h))) c) as G.
    { intros m Hm. destruct (Hm f Hf SK) as (c & L & I). exists c.
      rewrite alookup_amap_map, L. auto. }
    assert (forall c, zcol_inv cs (z_last_warm st) f (rows_of (present k (f_name f) (warmup_part h)))
                               (rows_of (present k (f_name f) (sample_part h))) c ->
              zc_warm (z_reset cs (z_last_warm st) c) = rows_of (present k (f_name f) (warmup_part h)) /\
              zc_samp (z_reset cs (z_last_warm st) c) = rows_of (present k (f_name f) (sample_part h))) as G2.
    { intros c I. destruct (z_reset_final _ _ _ _ _ _ I) as [R1 R2]. split; [assumption|].
      rewrite R2. destruct (z_last_warm st) eqn:LW; [|reflexivity].
      rewrite (Cw eq_refl). reflexivity. }
    destruct k; simpl.
    + destruct (G _ A) as (c & L & I). rewrite L. destruct (G2 c I) as [R1 R2]. rewrite R1, R2. auto.
    + destruct (G _ B) as (c & L & I). rewrite L. destruct (G2 c I) as [R1 R2]. rewrite R1, R2. auto.
  - unfold z_chain_counts. apply map_ext_in. intros d Hd. f_equal.
    unfold count_or0, z_counts. rewrite (alookup_map_self _ _ _ _ Hd).
    rewrite (z_dim_count_spec cs (z_last_warm st) sc _ _ _ d Hok A).
    destruct (z_last_warm st) eqn:LW.
    + rewrite (Cw eq_refl), ev_count_nil. reflexivity.
    + rewrite (Cc eq_refl), (alookup_map_self _ _ _ _ Hd). reflexivity.
Qed.

(* ---- reading the arrays back ---- *)
Lemma z_read_pad : forall fill n rows, length rows <= n ->
  z_read fill n rows = rows ++ repeat fill (n - length rows).
Proof.
  intros. unfold z_read. apply firstn_all2. rewrite app_length, repeat_length. lia.
Qed.

Lemma z_read_exact : forall fill rows, z_read fill (length rows) rows = rows.
Proof. intros. rewrite z_read_pad by lia. rewrite Nat.sub_diag. simpl. apply app_nil_r. Qed.

Lemma fold_max_ge : forall l x, In x l -> x <= fold_right Nat.max 0 l.
Proof.
  induction l as [|y l IH]; simpl; intros x H; [tauto|].
  destruct H as [->|H]; [lia | specialize (IH x H); lia].
Qed.

Lemma ev_count_ge : forall sc f d hp, In f (sc_stats sc) -> f_event f = Some d ->
  length (present Stats (f_name f) hp) <= ev_count sc d hp.
Proof.
  intros sc f d hp Hf E. unfold ev_count. apply fold_max_ge.
  apply in_map_iff. exists (f_name f, d). simpl. rewrite String.eqb_refl. split; [reflexivity|].
  apply ev_fields_In_rev; assumption.
Qed.

Lemma z_max_ge : forall (sel : nat * nat -> nat) d all cnts p, In cnts all -> alookup d cnts = Some p ->
  sel p <= z_max sel d all.
Proof.
  intros sel d all cnts p Hin L. unfold z_max. apply fold_max_ge.
  apply in_map_iff. exists cnts. rewrite L. auto.
Qed.

Lemma ev_dims_In : forall sc f d, In f (sc_stats sc) -> f_event f = Some d ->
  In d (ev_dims (ev_fields sc)).
Proof.
  intros. unfold ev_dims. apply nodup_In. change d with (snd (f_name f, d)). apply in_map.
  apply ev_fields_In_rev; assumption.
Qed.

(* no event of this chain is lost by the resize at finalize; what follows the chain's own
   values is the fill value *)
Lemma zarr_event_no_loss_l : forall sc h all nt nd f d (warm : bool),
  In f (sc_stats sc) -> f_event f = Some d ->
  In (map (fun d => (d, (ev_count sc d (warmup_part h), ev_count sc d (sample_part h))))
          (ev_dims (ev_fields sc))) all ->
  let rows := rows_of (present Stats (f_name f) (if warm then warmup_part h else sample_part h)) in
  let n := z_len nt nd all f warm in
  length rows <= n /\
  forall fill, z_read fill n rows = rows ++ repeat fill (n - length rows).
Proof.
  intros sc h all nt nd f d warm Hf E Hall rows n.
  assert (length rows <= n) as Hle.
  { unfold n, z_len. rewrite E. unfold rows, rows_of. rewrite map_length.
    pose proof (ev_dims_In sc f d Hf E) as Hd.
    destruct warm.
    - eapply Nat.le_trans; [apply (ev_count_ge sc f d _ Hf E)|].
      apply (z_max_ge fst d all _ _ Hall (alookup_map_self _ _ _ _ Hd)).
    - eapply Nat.le_trans; [apply (ev_count_ge sc f d _ Hf E)|].
      apply (z_max_ge snd d all _ _ Hall (alookup_map_self _ _ _ _ Hd)). }
  split; [assumption|]. intro fill. apply z_read_pad. assumption.
Qed.

(* store state during the run (what `inspect` shows, nothing flushed): the written rows are a
   prefix of the recorded rows *)
Lemma z_fold_inv : forall cs sc h, 1 <= cs -> wf_schema sc = true -> z_schema_ok sc = true ->
  wf_hist sc h = true ->
  exists st, fold_opt (z_record cs (ev_fields sc)) (z_init sc) h = Some st /\ z_inv cs sc st h.
Proof.
  intros cs sc h Hcs Hsc Hok Hh.
  assert (z_inv cs sc (z_init sc) []) as I0.
  { constructor; simpl; auto; try discriminate.
    - apply z_new_inv; [assumption | apply wf_schema_stats; assumption].
    - apply z_new_inv; [assumption | apply wf_schema_draws; assumption]. }
  destruct (z_fold cs sc h (z_init sc) [] Hsc Hok (wf_hist_records _ _ Hh) (wf_hist_prefix _ _ Hh))
    as (st & F & I); [discriminate | assumption |]. eauto.
Qed.

Lemma firstn_app_exact : forall A (a b : list A), firstn (length a) (a ++ b) = a.
Proof. intros. rewrite firstn_app, Nat.sub_diag, firstn_all. simpl. apply app_nil_r. Qed.

Lemma zarr_inspect_prefix_l : forall cs sc h, 1 <= cs -> wf_schema sc = true ->
  z_schema_ok sc = true -> wf_hist sc h = true ->
  exists st, fold_opt (z_record cs (ev_fields sc)) (z_init sc) h = Some st /\
    forall k f, In f (fields k sc) -> skip_name (f_name f) = false ->
      exists w s j1 j2, z_array st k (f_name f) true = Some w /\ z_array st k (f_name f) false = Some s /\
        w = firstn j1 (rows_of (present k (f_name f) (warmup_part h))) /\
        s = firstn j2 (rows_of (present k (f_name f) (sample_part h))).
Proof.
  intros cs sc h Hcs Hsc Hok Hh.
  destruct (z_fold_inv cs sc h Hcs Hsc Hok Hh) as (st & F & [A B Cw Cc]).
  exists st. split; [assumption|]. intros k f Hf SK. unfold z_array.
  assert (exists c, alookup (f_name f) (match k with Stats => z_stats st | Draws => z_draws st end) = Some c /\
            zcol_inv cs (z_last_warm st) f (rows_of (present k (f_name f) (warmup_part h)))
                     (rows_of (present k (f_name f) (sample_part h))) c) as (c & L & (T & Bf & I)).
  { destruct k; [apply (A f Hf SK) | apply (B f Hf SK)]. }
  rewrite L. exists (zc_warm c), (zc_samp c), (length (zc_warm c)), (length (zc_samp c)).
  split; [reflexivity|]. split; [reflexivity|].
  destruct (z_last_warm st).
  - destruct I as (I1 & I2 & I3). rewrite <- I1, firstn_app_exact, I2. simpl. auto.
  - destruct I as (I1 & I2 & I3). rewrite <- I1, <- I2, firstn_app_exact, firstn_all. auto.
Qed.

(* ---------------------------------------------------------------------------------------- *)
(* Agreement of the backends                                                                  *)
(* ---------------------------------------------------------------------------------------- *)
Lemma flat_rows_of : forall vs, flat vs = concat (rows_of vs).
Proof. reflexivity. Qed.

Lemma backends_agree_l : forall cs sc h, 1 <= cs -> wf_schema sc = true -> z_schema_ok sc = true ->
  wf_hist sc h = true ->
  exists hm ar z cnts,
    hm_run sc h = Some hm /\ ar_run true sc h = Some ar /\ z_run cs sc h = Some (z, cnts) /\
    forall k f, In f (fields k sc) -> skip_name (f_name f) = false ->
      exists c w s,
        ar_column ar k (f_name f) = Some c /\
        z_array z k (f_name f) true = Some w /\ z_array z k (f_name f) false = Some s /\
        non_null (ac_rows c) = rows_of (expected true h k (f_name f)) /\
        w ++ s = non_null (ac_rows c) /\
        hm_read hm k (f_name f) = Some (ac_ty c, concat (non_null (ac_rows c))).
Proof.
  intros cs sc h Hcs Hsc Hok Hh.
  destruct (hashmap_correct_l sc h Hsc Hh) as (hm & Hm & Qm).
  destruct (arrow_correct_l true sc h Hsc Hh) as (ar & Ha & _ & Qa).
  destruct (zarr_chain_correct_l cs sc h Hcs Hsc Hok Hh) as (z & cnts & Hz & Qz & _).
  exists hm, ar, z, cnts. repeat split; try assumption.
  intros k f Hf SK.
  destruct (Qa k f Hf) as (c & Fc & T & _ & _ & NN).
  destruct (Qz k f Hf SK) as [Zw Zs].
  exists c, (rows_of (present k (f_name f) (warmup_part h))), (rows_of (present k (f_name f) (sample_part h))).
  repeat split; try assumption.
  - rewrite NN, <- rows_of_app, <- expected_warmup_first; [reflexivity | apply (wf_hist_prefix sc); assumption].
  - rewrite (Qm k f Hf), SK, NN, T. reflexivity.
Qed.

(* CSV columns of a numeric draw variable = the components of the Arrow rows *)
Lemma csv_agrees_arrow_l : forall sw sc h f i j, wf_schema sc = true -> wf_hist sc h = true ->
  In f (sc_draws sc) -> csv_numeric (f_ty f) = true -> i < f_len f ->
  nth_error (csv_mapping (sc_draws sc)) j = Some (f_name f, i) ->
  exists ar c, ar_run sw sc h = Some ar /\ ar_column ar Draws (f_name f) = Some c /\
    column CNA (7 + j) (csv_lines (csv_run sw sc h))
    = map (fun row => CVal (f_ty f) (nth i row (TN 0))) (non_null (ac_rows c)).
Proof.
  intros sw sc h f i j Hsc Hh Hf Hn Hi Hj.
  destruct (arrow_correct_l sw sc h Hsc Hh) as (ar & Ha & _ & Qa).
  destruct (Qa Draws f Hf) as (c & Fc & _ & _ & _ & NN).
  exists ar, c. repeat split; try assumption.
  rewrite (csv_param_column_l sw sc h f i j Hsc Hh Hf Hn Hi Hj), NN.
  unfold rows_of. rewrite map_map. reflexivity.
Qed.

(* ---------------------------------------------------------------------------------------- *)
(* Refutations (classes where a backend does not meet the specification) and examples          *)
(* ---------------------------------------------------------------------------------------- *)
Definition ex_schema : schema :=
  mkSchema [mkField "energy" TF64 [] None;
            mkField "diverging" TBool [] None;
            mkField "divergence_draw" TU64 [] (Some "divergence");
            mkField "divergence_message" TStr [] (Some "divergence");
            mkField "gradient" TF64 [2] None]
           [mkField "x" TF64 [2] None; mkField "s" TStr [] None].

Definition ex_rec (tuning : bool) (e : Z) (dv : option Z) (x1 x2 : Z) (s : string) : record :=
  mkRec tuning
    [("energy", Some (mkVal TF64 true [TN e]));
     ("diverging", Some (mkVal TBool true [TN (match dv with Some _ => 1 | None => 0 end)]));
     ("divergence_draw", match dv with Some d => Some (mkVal TU64 true [TN d]) | None => None end);
     ("divergence_message", match dv with Some _ => Some (mkVal TStr true [TS "boom"]) | None => None end);
     ("gradient", None)]
    [("x", Some (mkVal TF64 false [TN x1; TN x2])); ("s", Some (mkVal TStr true [TS s]))].

Definition ex_hist : list record :=
  [ex_rec true 10 None 1 2 "a"; ex_rec true 11 (Some 1%Z) 3 4 ""; ex_rec false 12 None 5 6 "c";
   ex_rec false 13 (Some 0%Z) 7 8 "d"].

Lemma ex_wf : wf_schema ex_schema = true /\ wf_hist ex_schema ex_hist = true /\
              z_schema_ok ex_schema = true /\ nd_schema_ok ex_schema = true.
Proof. vm_compute. auto. Qed.

(* ndarray: event statistics are stored densely (one entry per draw) *)
Lemma ndarray_events_dense_refuted_l :
  exists sc h total st a, wf_schema sc = true /\ wf_hist sc h = true /\ length h <= total /\
    nd_run total sc h = Some st /\ nd_read st Stats "divergence_draw" = Some a /\
    firstn (length h) (nd_rows a) <> rows_of (expected true h Stats "divergence_draw").
Proof.
  exists ex_schema, ex_hist, 4.
  destruct (nd_run 4 ex_schema ex_hist) as [st|] eqn:E; [|vm_compute in E; discriminate].
  destruct (nd_read st Stats "divergence_draw") as [a|] eqn:R;
    [|vm_compute in E; inversion E; subst; vm_compute in R; discriminate].
  exists st, a. repeat split; try (vm_compute; reflexivity); try (simpl; lia); try assumption.
  vm_compute in E. inversion E; subst. vm_compute in R. inversion R; subst. vm_compute. discriminate.
Qed.

(* ndarray: a variable with two extra dims is rejected *)
Lemma ndarray_matrix_refuted_l :
  exists sc h total, wf_schema sc = true /\ wf_hist sc h = true /\ length h <= total /\
    nd_run total sc h = None.
Proof.
  exists (mkSchema [] [mkField "m" TF32 [2; 2] None]),
         [mkRec true [] [("m", Some (mkVal TF32 false [TN 1; TN 2; TN 3; TN 4]))]], 1.
  vm_compute. auto.
Qed.

(* ndarray before the fix: draw arrays were allocated from the statistics schema *)
Lemma ndarray_before_fix_refuted_l :
  exists sc h total, wf_schema sc = true /\ wf_hist sc h = true /\ length h <= total /\
    nd_run_before_fix total sc h = None /\ nd_run total sc h <> None.
Proof.
  exists (mkSchema [mkField "energy" TF64 [] None] [mkField "value" TF64 [2] None]),
         [mkRec true [("energy", Some (mkVal TF64 true [TN 1]))]
                     [("value", Some (mkVal TF64 false [TN 1; TN 2]))]], 1.
  vm_compute. repeat split; auto. discriminate.
Qed.

(* Zarr: store_warmup = false does not omit the warmup draws *)
Lemma zarr_store_warmup_refuted_l :
  exists cs sc h st cnts, wf_schema sc = true /\ wf_hist sc h = true /\
    z_run_cfg false cs sc h = Some (st, cnts) /\
    expected false h Draws "x" <> expected true h Draws "x" /\
    z_array st Draws "x" true <> Some [].
Proof.
  exists 2, ex_schema, ex_hist.
  destruct (z_run_cfg false 2 ex_schema ex_hist) as [[st cnts]|] eqn:E; [|vm_compute in E; discriminate].
  exists st, cnts. repeat split; try (vm_compute; reflexivity).
  - vm_compute. discriminate.
  - vm_compute in E. inversion E; subst. vm_compute. discriminate.
Qed.

(* Zarr: a string variable with dims is rejected *)
Lemma zarr_string_vector_refuted_l :
  exists cs sc h, wf_schema sc = true /\ wf_hist sc h = true /\ z_run cs sc h = None.
Proof.
  exists 2, (mkSchema [] [mkField "sv" TStr [2] None]),
         [mkRec true [] [("sv", Some (mkVal TStr false [TS "a"; TS ""]))]].
  vm_compute. auto.
Qed.

(* Zarr: a chain with fewer events than another chain reads fill values after its own events *)
Definition z_fillrow (f : field) : list token := repeat (zfill_tok (f_ty f)) (f_len f).

Lemma zarr_event_padding_refuted_l :
  exists cs sc h1 h2 st1 c1 st2 c2 f, wf_schema sc = true /\ wf_hist sc h1 = true /\
    wf_hist sc h2 = true /\
    z_run cs sc h1 = Some (st1, c1) /\ z_run cs sc h2 = Some (st2, c2) /\ In f (sc_stats sc) /\
    z_read (z_fillrow f) (z_len 2 2 [c1; c2] f false) (rows_of (expected false h1 Stats (f_name f)))
    <> rows_of (expected false h1 Stats (f_name f)).
Proof.
  exists 2, ex_schema, (firstn 3 ex_hist), ex_hist.
  destruct (z_run 2 ex_schema (firstn 3 ex_hist)) as [[st1 c1]|] eqn:E1; [|vm_compute in E1; discriminate].
  destruct (z_run 2 ex_schema ex_hist) as [[st2 c2]|] eqn:E2; [|vm_compute in E2; discriminate].
  exists st1, c1, st2, c2, (mkField "divergence_draw" TU64 [] (Some "divergence")).
  repeat split; try (vm_compute; reflexivity).
  - vm_compute. auto.
  - vm_compute in E1. inversion E1; subst. vm_compute in E2. inversion E2; subst.
    vm_compute. discriminate.
Qed.
